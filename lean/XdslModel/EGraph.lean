import XdslModel.Prelude
import XdslModel.DisjointSet
/-!
Model of the e-graph embedding used by the equality-saturation pipeline (C28):

* `xdsl/transforms/eqsat_create_eclasses.py`  `insert_eclass_ops`            → `createEclasses`
* `xdsl/transforms/eqsat_add_costs.py`        `add_eqsat_costs`              → `addCosts`
* `xdsl/transforms/eqsat_extract.py`          `eqsat_extract` (+ the stable
  topological re-ordering `restore_dominance_order`)                          → `extract`
* `xdsl/interpreters/eqsat_pdl_interp.py`     `EqsatPDLInterpFunctions.eclass_union`
  on top of `xdsl/utils/disjoint_set.py` (`XdslModel.DisjointSet`, C12)       → `eclassUnion`

One function body (a single block) is a list of nodes.  SSA values are natural numbers handed out by
the harness: block arguments are `0 … nargs-1`, every node defines one value.  A node is either an
ordinary operation (name, an opaque key standing for its attributes/result type, operand values, the
optional `eqsat_cost` attribute) or an `equivalence.class` (operand values, the optional
`min_cost_index` attribute).  `func.return` is the `ret` field (it is always the last op).
The pattern matcher / rewriter that decides *which* classes are merged is not modelled; only what a
merge and a node insertion do to the graph.  No Mathlib.
-/
namespace Xdsl.EGraph

inductive Node where
  | op (res : Nat) (name key : String) (args : List Nat) (cost : Option Nat)
  | cls (res : Nat) (args : List Nat) (mci : Option Nat)
deriving Repr, DecidableEq, Inhabited

def Node.res : Node → Nat
  | .op r _ _ _ _ => r
  | .cls r _ _ => r

def Node.args : Node → List Nat
  | .op _ _ _ a _ => a
  | .cls _ a _ => a

def Node.isCls : Node → Bool
  | .cls .. => true
  | _ => false

structure Prog where
  nargs : Nat := 0
  body : List Node := []
  ret : List Nat := []
deriving Repr, DecidableEq, Inhabited

/-! ## use-def helpers (the Python objects keep use lists; here a use is found by scanning) -/

def substId (old new x : Nat) : Nat := if x = old then new else x

/-- rename the operands of one node -/
def Node.mapArgs (f : Nat → Nat) : Node → Node
  | .op r n k a c => .op r n k (a.map f) c
  | .cls r a m => .cls r (a.map f) m

/-- `value.replace_uses_with_if(new, lambda use: not isinstance(use.operation, ClassOp))` -/
def replUsesNonCls (old new : Nat) (g : Prog) : Prog :=
  { g with
    body := g.body.map fun n => if n.isCls then n else n.mapArgs (substId old new)
    ret := g.ret.map (substId old new) }

/-- `value.replace_uses_with_if(new, lambda use: use.operation is not self_op)` where `self_op`
defines `except`; with `except = none` it is `replace_all_uses_with` -/
def replUsesExcept (old new : Nat) (except : Option Nat) (g : Prog) : Prog :=
  { g with
    body := g.body.map fun n => if some n.res = except then n else n.mapArgs (substId old new)
    ret := g.ret.map (substId old new) }

/-- `bool(value.uses)` -/
def used (g : Prog) (v : Nat) : Bool :=
  g.body.any (fun n => n.args.contains v) || g.ret.contains v

def findDef (body : List Node) (v : Nat) : Option Node := body.find? (·.res = v)

/-- `isinstance(value, OpResult)` (otherwise a block argument) -/
def isOpResult (g : Prog) (v : Nat) : Bool := (findDef g.body v).isSome

/-- insert `n` right after the node defining `r` (`InsertPoint.after(op)`) -/
def insertAfter (r : Nat) (n : Node) : List Node → List Node
  | [] => []
  | m :: rest => if m.res = r then m :: n :: rest else m :: insertAfter r n rest

def maxList (l : List Nat) : Nat := l.foldr max 0

/-- largest id occurring in the program (fresh ids start above it) -/
def maxId (g : Prog) : Nat :=
  max g.nargs (max (maxList (g.body.map fun n => max n.res (maxList n.args))) (maxList g.ret))

/-! ## `eqsat-create-eclasses` -/

/-- one iteration of the first loop of `insert_eclass_ops`: the op defining `r` gets the class `c` -/
def wrapOp (g : Prog) (r c : Nat) : Prog :=
  replUsesNonCls r c { g with body := insertAfter r (.cls c [r] none) g.body }

/-- one iteration of the second loop: block argument `a` gets the class `c` at the block start -/
def wrapArg (g : Prog) (a c : Nat) : Prog :=
  replUsesNonCls a c { g with body := .cls c [a] none :: g.body }

/-- fresh ids are `base, base+1, …` in creation order (ops in block order, then the arguments) -/
def createEclassesFrom (base : Nat) (g : Prog) : Prog :=
  let rs := g.body.map (·.res)          -- the iterator reads `next_op` before the body runs: only
  let g1 := (rs.zipIdx).foldl (fun g (rc : Nat × Nat) => wrapOp g rc.1 (base + rc.2)) g   -- original ops
  ((List.range g.nargs).zipIdx).foldl (fun g (ac : Nat × Nat) => wrapArg g ac.1 (base + rs.length + ac.2)) g1

def createEclasses (g : Prog) : Prog := createEclassesFrom (maxId g + 1) g

/-! ## `eqsat-add-costs` -/

/-- first loop of `add_eqsat_costs`: base costs from the cost dictionary or the default; an existing
`eqsat_cost` is kept; e-class ops never get one from the default -/
def assignBaseCosts (default : Option Nat) (dict : AL String Nat) (body : List Node) : List Node :=
  body.map fun n => match n with
    | .op r nm k a none => .op r nm k a (match AL.get dict nm with | some c => some c | none => default)
    | n => n

/-- `get_node_base_cost(op, default)` -/
def baseCost (default : Option Nat) : Node → Option Nat
  | .op _ _ _ _ (some c) => some c
  | .op _ _ _ _ none => default
  | .cls .. => default

/-- `calculate_node_total_cost(value, eclass_costs, default)` -/
def nodeTotalCost (g : Prog) (costs : AL Nat Nat) (default : Option Nat) (v : Nat) : Option Nat :=
  match findDef g.body v with
  | none => some 0                                    -- block argument
  | some (.cls r _ _) => AL.get costs r
  | some (.op _ _ _ args c) =>
    match baseCost default (.op 0 "" "" [] c) with
    | none => none
    | some base =>
      args.foldl (fun acc a => match acc with
        | none => none
        | some t => match findDef g.body a with
          | some (.cls r _ _) => (AL.get costs r).map (t + ·)
          | some n => some (t + (baseCost default n).getD 0)
          | none => some t) (some base)

structure CostSt where
  costs : AL Nat Nat := []      -- `eclass_costs`
  mci : AL Nat Nat := []        -- `min_cost_index` written so far
  changed : Bool := false

/-- the `for idx, operand in enumerate(op.operands)` loop for one e-class -/
def costClass (g : Prog) (default : Option Nat) (r : Nat) (args : List Nat) (st : CostSt) : CostSt :=
  (args.zipIdx).foldl (fun st (ai : Nat × Nat) =>
    match nodeTotalCost g st.costs default ai.1 with
    | none => st
    | some t =>
      match AL.get st.costs r with
      | some best => if t < best then { costs := AL.set st.costs r t, mci := AL.set st.mci r ai.2, changed := true } else st
      | none => { costs := AL.set st.costs r t, mci := AL.set st.mci r ai.2, changed := true }) st

/-- one pass of `for op in block.ops` over the e-classes -/
def costPass (g : Prog) (default : Option Nat) (st : CostSt) : CostSt :=
  g.body.foldl (fun st n => match n with
    | .cls r args _ => costClass g default r args st
    | _ => st) { st with changed := false }

/-- `while changed` with fuel (the harness reports if it ever runs out) -/
def costFix (g : Prog) (default : Option Nat) : Nat → CostSt → CostSt × Bool
  | 0, st => (st, false)
  | fuel + 1, st =>
    let st' := costPass g default st
    if st'.changed then costFix g default fuel st' else (st', true)

def writeMci (mci : AL Nat Nat) (body : List Node) : List Node :=
  body.map fun n => match n with
    | .cls r a m => .cls r a (match AL.get mci r with | some i => some i | none => m)
    | n => n

def addCostsFuel (default : Option Nat) (dict : AL String Nat) (g : Prog) : Prog × Bool :=
  let g1 := { g with body := assignBaseCosts default dict g.body }
  let (st, ok) := costFix g1 default (g1.body.length + 2) {}
  ({ g1 with body := writeMci st.mci g1.body }, ok)

def addCosts (default : Option Nat) (dict : AL String Nat) (g : Prog) : Prog :=
  (addCostsFuel default dict g).1

/-! ## `eqsat-extract` -/

/-- `Rewriter.erase_op(op)` with `safe_erase=True`: refuses while the result still has uses -/
def eraseDef (g : Prog) (v : Nat) : Option Prog :=
  if used g v then none else some { g with body := g.body.filter (·.res ≠ v) }

def eraseDefs (g : Prog) (vs : List Nat) : Option Prog := vs.foldlM eraseDef g

def clearCost (v : Nat) (body : List Node) : List Node :=
  body.map fun n => match n with
    | .op r nm k a c => if r = v then .op r nm k a none else .op r nm k a c
    | n => n

/-- list positions `j ≠ i` of `l` -/
def dropIdx (l : List Nat) (i : Nat) : List Nat :=
  (l.zipIdx.filter (fun (p : Nat × Nat) => p.2 ≠ i)).map (·.1)

/-- the body of the `while eclass_ops` loop for the class defining `c` -/
def extractStep (g : Prog) (c : Nat) : Option Prog :=
  match findDef g.body c with
  | some (.cls _ args mci) =>
    if !used g c then
      eraseDefs g (c :: args.filter (isOpResult g))
    else match mci with
      | some i =>
        match args[i]? with
        | none => none                                   -- IndexError
        | some m =>
          let g1 := replUsesExcept c m (some c) g
          match eraseDefs g1 (c :: (dropIdx args i).filter (isOpResult g1)) with
          | some g2 => some { g2 with body := clearCost m g2.body }
          | none => none
      | none => some g
  | _ => none

def classIds (body : List Node) : List Nat := (body.filter (·.isCls)).map (·.res)

/-- the extraction loop proper (`eclass_ops.pop()` takes the classes last to first) -/
def extractLoop (g : Prog) : Option Prog := (classIds g.body).reverse.foldlM extractStep g

/-! ### `restore_dominance_order`: stable depth-first topological sort of the block -/

/-- `_dependencies(op, block)`: defining nodes (by id) of the operands, other than the op itself -/
def deps (body : List Node) (n : Node) : List Nat :=
  n.args.filter fun a => a ≠ n.res && (findDef body a).isSome

/-- `index[id(dep)]`: position of the node defining `v` (the length when there is none) -/
def posOf : List Node → Nat → Nat
  | [], _ => 0
  | n :: rest, v => if n.res = v then 0 else posOf rest v + 1

/-- the fast path: every dependency sits at a smaller index -/
def isOrdered (body : List Node) : Bool :=
  (body.zipIdx).all fun (ni : Node × Nat) => (deps body ni.1).all fun d => posOf body d < ni.2

structure TopoSt where
  order : List Nat := []        -- reversed
  emitted : List Nat := []
  onStack : List Nat := []
  stack : List (Nat × List Nat) := []

/-- the `while stack` loop, one iteration per unit of fuel -/
def topoRun (body : List Node) : Nat → TopoSt → TopoSt
  | 0, st => st
  | fuel + 1, st =>
    match st.stack with
    | [] => st
    | (cur, rem) :: rest =>
      match rem with
      | [] => topoRun body fuel
          { order := cur :: st.order, emitted := cur :: st.emitted,
            onStack := st.onStack.filter (· ≠ cur), stack := rest }
      | d :: rem' =>
        if st.emitted.contains d || st.onStack.contains d then
          topoRun body fuel { st with stack := (cur, rem') :: rest }
        else
          let dn := (findDef body d).getD default
          topoRun body fuel { st with onStack := d :: st.onStack, stack := (d, deps body dn) :: (cur, rem') :: rest }

def topoFuel (body : List Node) : Nat :=
  2 * (body.length + (body.map (·.args.length)).sum) + 2

def topoSort (body : List Node) : List Node :=
  if isOrdered body then body
  else
    let st := body.foldl (fun (st : TopoSt) n =>
      if st.emitted.contains n.res then st
      else topoRun body (topoFuel body) { st with onStack := n.res :: st.onStack, stack := [(n.res, deps body n)] }) {}
    st.order.reverse.filterMap (findDef body)

/-- `eqsat_extract` -/
def extract (g : Prog) : Option Prog :=
  match extractLoop g with
  | some g' => some { g' with body := topoSort g'.body }
  | none => none

/-! ## `eclass_union` (merging two e-classes) -/

/-- `OrderedSet(l)` -/
def dedup : List Nat → List Nat
  | [] => []
  | a :: l => a :: (dedup l).filter (· ≠ a)

/-- graph part of `eclass_union` once `to_keep`/`to_replace` are known: operands are united
(ordered, deduplicated), every use of the replaced class result becomes a use of the kept one, the
replaced class op is erased -/
def mergeInto (g : Prog) (keep repl : Nat) : Prog :=
  match findDef g.body keep, findDef g.body repl with
  | some (.cls _ ka km), some (.cls _ ra _) =>
    let body1 := g.body.map fun n => if n.res = keep then .cls keep (dedup (ka ++ ra)) km else n
    let g1 := replUsesExcept repl keep none { g with body := body1 }
    { g1 with body := g1.body.filter (·.res ≠ repl) }
  | _, _ => g

/-- e-graph with the `eclass_union_find` (`DisjointSet[AnyClassOp]` = `IntDisjointSet` + index maps) -/
structure EG where
  prog : Prog := {}
  uf : DisjointSet.UF := {}
  vals : List Nat := []                -- `_values`: uf index → class id
  consts : List Nat := []              -- ids of the classes that are `equivalence.const_class` ops

def EG.indexOf (e : EG) (c : Nat) : Option Nat :=
  let i := e.vals.findIdx? (· = c)
  i

/-- `populate_known_ops`: the classes are added in walk order -/
def EG.ofProg (g : Prog) : EG :=
  let cs := classIds g.body
  { prog := g, uf := DisjointSet.init cs.length, vals := cs }

/-- `eclass_union(a, b)`; `none` = `KeyError`.  After the two `find`s: a constant class is always the
one that is kept and the union-find is told so (`union_left(to_keep, to_replace)`); two plain classes
are united by size and the new representative is kept.  (Two constant classes must carry the same
value — an `assert` in the Python; values are not modelled.) -/
def eclassUnion (e : EG) (a b : Nat) : Option (EG × Bool) :=
  match e.indexOf a, e.indexOf b with
  | some ia, some ib =>
    match DisjointSet.find e.uf ia with
    | none => none
    | some (u1, ra) =>
      match DisjointSet.find u1 ib with
      | none => none
      | some (u2, rb) =>
        if ra = rb then some ({ e with uf := u2 }, false)
        else if e.consts.contains (e.vals.getD ra 0) then
          match DisjointSet.unionLeft u2 ra rb with
          | none => none
          | some (u3, _) =>
            some ({ e with uf := u3, prog := mergeInto e.prog (e.vals.getD ra 0) (e.vals.getD rb 0) }, true)
        else if e.consts.contains (e.vals.getD rb 0) then
          match DisjointSet.unionLeft u2 rb ra with
          | none => none
          | some (u3, _) =>
            some ({ e with uf := u3, prog := mergeInto e.prog (e.vals.getD rb 0) (e.vals.getD ra 0) }, true)
        else
          match DisjointSet.union u2 ra rb with
          | none => none
          | some (u3, _) =>
            match DisjointSet.find u3 ra with
            | none => none
            | some (u4, keepI) =>
              let replI := if keepI = ra then rb else ra
              let keep := e.vals.getD keepI 0
              let repl := e.vals.getD replI 0
              some ({ e with uf := u4, prog := mergeInto e.prog keep repl }, true)
  | _, _ => none

/-- graph part of `run_eqsat_create_operation` when no identical op is known (hash-consing miss): the
new op `r` (operands are class results) is inserted at the rewriter's insertion point, i.e. before the
matched root, followed by its fresh singleton class `c`.  Not driven by the harness (the rewriter is
validated, not modelled); it is here so that the soundness theorem can speak about it. -/
def insertBefore (root : Nat) (ns : List Node) : List Node → List Node
  | [] => ns
  | m :: rest => if m.res = root then ns ++ m :: rest else m :: insertBefore root ns rest

def addNode (g : Prog) (root r c : Nat) (name key : String) (args : List Nat) : Prog :=
  { g with body := insertBefore root [.op r name key args none, .cls c [r] none] g.body }

/-! ## line protocol

program text: `<nargs> ; o <res> <name> <key> <cost|-> <arg>* ; c <res> <mci|-> <arg>* ; … ; r <id>*`
commands: `create P`, `costs <default|-> <name=cost,…|-> P`, `extract P`, `norule <default|-> <dict> P`,
`merge <a:b,…> <const-class ids c,…|-> P` -/

def showOpt : Option Nat → String
  | none => "-"
  | some n => toString n

def showNode : Node → String
  | .op r n k a c => " ".intercalate (["o", toString r, n, k, showOpt c] ++ a.map toString)
  | .cls r a m => " ".intercalate (["c", toString r, showOpt m] ++ a.map toString)

def showProg (g : Prog) : String :=
  " ; ".intercalate ([toString g.nargs] ++ g.body.map showNode ++ [" ".intercalate ("r" :: g.ret.map toString)])

def parseOpt (s : String) : Option (Option Nat) :=
  if s = "-" then some none else s.toNat?.map some

def parseNode : List String → Option Node
  | "o" :: r :: n :: k :: c :: a => do some (.op (← r.toNat?) n k (← a.mapM (·.toNat?)) (← parseOpt c))
  | "c" :: r :: m :: a => do some (.cls (← r.toNat?) (← a.mapM (·.toNat?)) (← parseOpt m))
  | _ => none

/-- split a token list on `;` -/
def splitSemi (ts : List String) : List (List String) :=
  let (cur, acc) := ts.foldl (fun (p : List String × List (List String)) t =>
    if t = ";" then ([], p.1.reverse :: p.2) else (t :: p.1, p.2)) ([], [])
  (cur.reverse :: acc).reverse

def parseProg (ts : List String) : Option Prog :=
  match splitSemi ts with
  | [n] :: rest =>
    match rest.reverse with
    | ("r" :: rs) :: nodesRev => do
      some { nargs := ← n.toNat?, body := ← nodesRev.reverse.mapM parseNode, ret := ← rs.mapM (·.toNat?) }
    | _ => none
  | _ => none

def parseDict (s : String) : Option (AL String Nat) :=
  if s = "-" then some []
  else (s.splitOn ",").mapM fun kv => match kv.splitOn "=" with
    | [k, v] => v.toNat?.map fun n => (k, n)
    | _ => none

def parsePairs (s : String) : Option (List (Nat × Nat)) :=
  if s = "-" then some []
  else (s.splitOn ",").mapM fun ab => match ab.splitOn ":" with
    | [a, b] => do some (← a.toNat?, ← b.toNat?)
    | _ => none

def parseIds (s : String) : Option (List Nat) :=
  if s = "-" then some [] else (s.splitOn ",").mapM (·.toNat?)

def showExtract : Option Prog → String
  | some g => showProg g
  | none => "raise"

def runMerges (e : EG) : List (Nat × Nat) → EG × List String
  | [] => (e, [])
  | (a, b) :: rest =>
    match eclassUnion e a b with
    | some (e', r) => let (e'', outs) := runMerges e' rest; (e'', showBool r :: outs)
    | none => let (e'', outs) := runMerges e rest; (e'', "KeyError" :: outs)

def lineStep (s : Unit) (line : String) : Unit × String :=
  match words line with
  | "create" :: p => (s, match parseProg p with | some g => showProg (createEclasses g) | none => "bad-op")
  | "costs" :: d :: dict :: p =>
    (s, match parseOpt d, parseDict dict, parseProg p with
      | some d, some dict, some g =>
        let (g', ok) := addCostsFuel d dict g
        if ok then showProg g' else "fuel " ++ showProg g'
      | _, _, _ => "bad-op")
  | "extract" :: p => (s, match parseProg p with | some g => showExtract (extract g) | none => "bad-op")
  | "norule" :: d :: dict :: p =>
    (s, match parseOpt d, parseDict dict, parseProg p with
      | some d, some dict, some g => showExtract (extract (addCosts d dict (createEclasses g)))
      | _, _, _ => "bad-op")
  | "merge" :: ps :: cs :: p =>
    (s, match parsePairs ps, parseIds cs, parseProg p with
      | some ps, some cs, some g =>
        let (e, outs) := runMerges { EG.ofProg g with consts := cs } ps
        ",".intercalate outs ++ " | " ++ showProg e.prog
      | _, _, _ => "bad-op")
  | _ => (s, "bad-op")

end Xdsl.EGraph
