import XdslModel.Prelude
/-!
Model of `xdsl/utils/disjoint_set.py` `IntDisjointSet` (C12).  `parent` and `count` are the two
Python lists.  The two `while` loops of `__getitem__` become fuel-indexed recursions with fuel
`parent.length`; `XdslProofs.C12` proves that under the forest invariant the fuel is never
exhausted (so the model's answer is the Python loop's answer).
`DisjointSet` (hashable values) is a thin index translation over this structure and is exercised
through the same protocol by the harness.
-/
namespace Xdsl.DisjointSet

structure UF where
  parent : List Nat := []
  count  : List Nat := []
deriving Repr

def UF.size (s : UF) : Nat := s.parent.length

def UF.par (s : UF) (i : Nat) : Nat := s.parent.getD i i

/-- first loop: follow parents until a self-parent -/
def findRoot (s : UF) : Nat → Nat → Nat
  | 0, x => x
  | fuel + 1, x => if s.par x = x then x else findRoot s fuel (s.par x)

/-- second loop: point every node on the path from `x` to `root` -/
def compress (parent : List Nat) (root : Nat) : Nat → Nat → List Nat
  | 0, _ => parent
  | fuel + 1, cur =>
    if cur = root then parent
    else compress (parent.set cur root) root fuel (parent.getD cur cur)

inductive Op
  | add | find (x : Nat) | union (a b : Nat) | unionLeft (a b : Nat) | connected (a b : Nat)
deriving Repr, DecidableEq

inductive Out
  | nat (n : Nat) | bool (b : Bool) | keyError
deriving Repr, DecidableEq

/-- `__getitem__` -/
def find (s : UF) (x : Nat) : Option (UF × Nat) :=
  if s.size ≤ x then none
  else
    let root := findRoot s s.size x
    some ({ s with parent := compress s.parent root s.size x }, root)

def unionLeft (s : UF) (a b : Nat) : Option (UF × Bool) :=
  match find s a with
  | none => none
  | some (s1, l) =>
    match find s1 b with
    | none => none
    | some (s2, r) =>
      if l = r then some (s2, false)
      else
        let lc := s2.count.getD l 0
        let rc := s2.count.getD r 0
        some ({ parent := s2.parent.set r l, count := s2.count.set l (lc + rc) }, true)

def union (s : UF) (a b : Nat) : Option (UF × Bool) :=
  match find s a with
  | none => none
  | some (s1, l) =>
    match find s1 b with
    | none => none
    | some (s2, r) =>
      if l = r then some (s2, false)
      else
        let lc := s2.count.getD l 0
        let rc := s2.count.getD r 0
        let (np, nc) := if lc ≥ rc then (l, r) else (r, l)
        some ({ parent := s2.parent.set nc np, count := s2.count.set np (lc + rc) }, true)

def connected (s : UF) (a b : Nat) : Option (UF × Bool) :=
  match find s a with
  | none => none
  | some (s1, l) =>
    match find s1 b with
    | none => none
    | some (s2, r) => some (s2, l == r)

/-- A call that raises `KeyError` may already have compressed a path for its first argument;
that partial effect is kept (it is what the Python does). -/
def step (s : UF) : Op → UF × Out
  | .add => ({ parent := s.parent ++ [s.size], count := s.count ++ [1] }, .nat s.size)
  | .find x => match find s x with
    | some (s', r) => (s', .nat r)
    | none => (s, .keyError)
  | .union a b => match union s a b with
    | some (s', r) => (s', .bool r)
    | none => ((match find s a with | some (s1, _) => s1 | none => s), .keyError)
  | .unionLeft a b => match unionLeft s a b with
    | some (s', r) => (s', .bool r)
    | none => ((match find s a with | some (s1, _) => s1 | none => s), .keyError)
  | .connected a b => match connected s a b with
    | some (s', r) => (s', .bool r)
    | none => ((match find s a with | some (s1, _) => s1 | none => s), .keyError)

def init (n : Nat) : UF := { parent := List.range n, count := List.replicate n 1 }

/-- a history: operations applied left to right, with the list of results -/
def run (s : UF) : List Op → UF × List Out
  | [] => (s, [])
  | o :: os => let (s', out) := step s o; let (s'', outs) := run s' os; (s'', out :: outs)

def showOut : Out → String
  | .nat n => s!"nat {n}"
  | .bool b => s!"bool {showBool b}"
  | .keyError => "raise KeyError"

def parseOp : List String → Option Op
  | ["add"] => some .add
  | ["find", x] => x.toNat?.map .find
  | ["union", a, b] => do some (.union (← a.toNat?) (← b.toNat?))
  | ["union_left", a, b] => do some (.unionLeft (← a.toNat?) (← b.toNat?))
  | ["connected", a, b] => do some (.connected (← a.toNat?) (← b.toNat?))
  | _ => none

def lineStep (s : UF) (line : String) : UF × String :=
  match words line with
  | ["reset", n] => (match n.toNat? with | some n => (init n, "ok") | none => (s, "bad-op"))
  | ["roots"] =>
    (s, "roots " ++ " ".intercalate
      (((List.range s.size).filter (fun i => s.par i = i)).map toString))
  | ws => match parseOp ws with
    | some o => let (s', out) := step s o; (s', showOut out)
    | none => (s, "bad-op")

end Xdsl.DisjointSet
