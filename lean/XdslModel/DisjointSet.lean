import XdslModel.Prelude
/-!
Model of `xdsl/utils/disjoint_set.py` `IntDisjointSet` (C12).  `parent` and `count` are the two
Python lists.  The two `while` loops of `__getitem__` become fuel-indexed recursions with fuel
`parent.length`; `XdslProofs.C12` proves that under the forest invariant the fuel is never
exhausted (so the model's answer is the Python loop's answer).
`DisjointSet` (hashable values) is a thin index translation over this structure: it is modelled in
the second half of this file (`GDS`, values as `Nat`, `_index_by_value` as an `AL`; driver model
`disjoint_set`), and `XdslProofs.C12Generic` proves that under the documented contract (distinct
initial values, `add` of a new value) every wrapper operation is the `UF` operation on the indices.
-/
namespace Xdsl.DisjointSet

structure UF where
  parent : List Nat := []
  count  : List Nat := []
deriving Repr

def UF.size (s : UF) : Nat := s.parent.length

def UF.par (s : UF) (i : Nat) : Nat := s.parent.getD i i

/-- first loop: follow parents until a self-parent -/
def findRoot (s : UF) : Nat → Nat → Nat
  | 0, x => x
  | fuel + 1, x => if s.par x = x then x else findRoot s fuel (s.par x)

/-- second loop: point every node on the path from `x` to `root` -/
def compress (parent : List Nat) (root : Nat) : Nat → Nat → List Nat
  | 0, _ => parent
  | fuel + 1, cur =>
    if cur = root then parent
    else compress (parent.set cur root) root fuel (parent.getD cur cur)

inductive Op
  | add | find (x : Nat) | union (a b : Nat) | unionLeft (a b : Nat) | connected (a b : Nat)
deriving Repr, DecidableEq

inductive Out
  | nat (n : Nat) | bool (b : Bool) | keyError
deriving Repr, DecidableEq

/-- `__getitem__` -/
def find (s : UF) (x : Nat) : Option (UF × Nat) :=
  if s.size ≤ x then none
  else
    let root := findRoot s s.size x
    some ({ s with parent := compress s.parent root s.size x }, root)

def unionLeft (s : UF) (a b : Nat) : Option (UF × Bool) :=
  match find s a with
  | none => none
  | some (s1, l) =>
    match find s1 b with
    | none => none
    | some (s2, r) =>
      if l = r then some (s2, false)
      else
        let lc := s2.count.getD l 0
        let rc := s2.count.getD r 0
        some ({ parent := s2.parent.set r l, count := s2.count.set l (lc + rc) }, true)

def union (s : UF) (a b : Nat) : Option (UF × Bool) :=
  match find s a with
  | none => none
  | some (s1, l) =>
    match find s1 b with
    | none => none
    | some (s2, r) =>
      if l = r then some (s2, false)
      else
        let lc := s2.count.getD l 0
        let rc := s2.count.getD r 0
        let (np, nc) := if lc ≥ rc then (l, r) else (r, l)
        some ({ parent := s2.parent.set nc np, count := s2.count.set np (lc + rc) }, true)

def connected (s : UF) (a b : Nat) : Option (UF × Bool) :=
  match find s a with
  | none => none
  | some (s1, l) =>
    match find s1 b with
    | none => none
    | some (s2, r) => some (s2, l == r)

/-- A call that raises `KeyError` may already have compressed a path for its first argument;
that partial effect is kept (it is what the Python does). -/
def step (s : UF) : Op → UF × Out
  | .add => ({ parent := s.parent ++ [s.size], count := s.count ++ [1] }, .nat s.size)
  | .find x => match find s x with
    | some (s', r) => (s', .nat r)
    | none => (s, .keyError)
  | .union a b => match union s a b with
    | some (s', r) => (s', .bool r)
    | none => ((match find s a with | some (s1, _) => s1 | none => s), .keyError)
  | .unionLeft a b => match unionLeft s a b with
    | some (s', r) => (s', .bool r)
    | none => ((match find s a with | some (s1, _) => s1 | none => s), .keyError)
  | .connected a b => match connected s a b with
    | some (s', r) => (s', .bool r)
    | none => ((match find s a with | some (s1, _) => s1 | none => s), .keyError)

def init (n : Nat) : UF := { parent := List.range n, count := List.replicate n 1 }

/-- a history: operations applied left to right, with the list of results -/
def run (s : UF) : List Op → UF × List Out
  | [] => (s, [])
  | o :: os => let (s', out) := step s o; let (s'', outs) := run s' os; (s'', out :: outs)

def showOut : Out → String
  | .nat n => s!"nat {n}"
  | .bool b => s!"bool {showBool b}"
  | .keyError => "raise KeyError"

def parseOp : List String → Option Op
  | ["add"] => some .add
  | ["find", x] => x.toNat?.map .find
  | ["union", a, b] => do some (.union (← a.toNat?) (← b.toNat?))
  | ["union_left", a, b] => do some (.unionLeft (← a.toNat?) (← b.toNat?))
  | ["connected", a, b] => do some (.connected (← a.toNat?) (← b.toNat?))
  | _ => none

def lineStep (s : UF) (line : String) : UF × String :=
  match words line with
  | ["reset", n] => (match n.toNat? with | some n => (init n, "ok") | none => (s, "bad-op"))
  | ["roots"] =>
    (s, "roots " ++ " ".intercalate
      (((List.range s.size).filter (fun i => s.par i = i)).map toString))
  | ws => match parseOp ws with
    | some o => let (s', out) := step s o; (s', showOut out)
    | none => (s, "bad-op")

/-! ## `DisjointSet` — the generic wrapper (values ↔ indices)

`_values : list[_T]` is a `List Nat` (values are hashable objects compared by `==`; `Nat` stands for
them), `_index_by_value : dict[_T, int]` an association list, `_base` the `UF` above.  Nothing here
assumes that the values are distinct: a duplicate simply overwrites its dict entry as in Python. -/

structure GDS where
  base   : UF := {}
  values : List Nat := []
  index  : AL Nat Nat := []
deriving Repr

inductive GOp
  | add (v : Nat) | find (v : Nat) | union (a b : Nat) | unionLeft (a b : Nat)
  | connected (a b : Nat)
deriving Repr, DecidableEq

inductive GOut
  | unit | val (v : Nat) | bool (b : Bool) | keyError | indexError
deriving Repr, DecidableEq

/-- `{v: i for i, v in enumerate(values)}` starting at index `i` on top of `m` -/
def enumIndex : List Nat → Nat → AL Nat Nat → AL Nat Nat
  | [], _, m => m
  | v :: vs, i, m => enumIndex vs (i + 1) (m.set v i)

/-- `DisjointSet(values)` -/
def ginit (vs : List Nat) : GDS :=
  { base := init vs.length, values := vs, index := enumIndex vs 0 [] }

/-- result of a `_base` call seen through the wrapper: `find` (`asValue`) indexes `_values` with the
root (`self._values[index]`), `add` discards the index, boolean results and `KeyError` pass through -/
def liftOut (vals : List Nat) (asValue : Bool) : Out → GOut
  | .nat r =>
    if asValue then (match vals[r]? with | some v => .val v | none => .indexError) else .unit
  | .bool c => .bool c
  | .keyError => .keyError

def GDS.lift (g : GDS) (asValue : Bool) (p : UF × Out) : GDS × GOut :=
  ({ g with base := p.1 }, liftOut g.values asValue p.2)

/-- One call of the wrapper.  The dict lookups `self._index_by_value[…]` are evaluated before the
`_base` method is entered, so a missing value raises `KeyError` with no effect at all. -/
def gstep (g : GDS) : GOp → GDS × GOut
  | .add v =>
    -- index = self._base.add(); self._values.append(value); self._index_by_value[value] = index
    match step g.base .add with
    | (b, .nat i) => ({ base := b, values := g.values ++ [v], index := g.index.set v i }, .unit)
    | p => g.lift false p
  | .find v =>
    match g.index.get v with
    | none => (g, .keyError)
    | some i => g.lift true (step g.base (.find i))
  | .union a b =>
    match g.index.get a with
    | none => (g, .keyError)
    | some i => match g.index.get b with
      | none => (g, .keyError)
      | some j => g.lift false (step g.base (.union i j))
  | .unionLeft a b =>
    match g.index.get a with
    | none => (g, .keyError)
    | some i => match g.index.get b with
      | none => (g, .keyError)
      | some j => g.lift false (step g.base (.unionLeft i j))
  | .connected a b =>
    match g.index.get a with
    | none => (g, .keyError)
    | some i => match g.index.get b with
      | none => (g, .keyError)
      | some j => g.lift false (step g.base (.connected i j))

def grun (g : GDS) : List GOp → GDS × List GOut
  | [] => (g, [])
  | o :: os => let (g', out) := gstep g o; let (g'', outs) := grun g' os; (g'', out :: outs)

/-- `roots()`: `self._values[root] for root in self._base.roots()` (in index order) -/
def GDS.roots (g : GDS) : List GOut :=
  ((List.range g.base.size).filter (fun i => g.base.par i = i)).map
    (fun i => liftOut g.values true (.nat i))

def showGOut : GOut → String
  | .unit => "none"
  | .val v => s!"val {v}"
  | .bool b => s!"bool {showBool b}"
  | .keyError => "raise KeyError"
  | .indexError => "raise IndexError"

def parseGOp : List String → Option GOp
  | ["add", v] => v.toNat?.map .add
  | ["find", x] => x.toNat?.map .find
  | ["union", a, b] => do some (.union (← a.toNat?) (← b.toNat?))
  | ["union_left", a, b] => do some (.unionLeft (← a.toNat?) (← b.toNat?))
  | ["connected", a, b] => do some (.connected (← a.toNat?) (← b.toNat?))
  | _ => none

/-- protocol of driver model `disjoint_set`: `reset v0 v1 …` = `DisjointSet([v0, v1, …])`, then
`add v`, `find v`, `union a b`, `union_left a b`, `connected a b`, `roots`, `len` on values -/
def glineStep (g : GDS) (line : String) : GDS × String :=
  match words line with
  | "reset" :: vs =>
    (match vs.mapM String.toNat? with
     | some vs => (ginit vs, "ok")
     | none => (g, "bad-op"))
  | ["roots"] =>
    (g, "roots " ++ " ".intercalate (g.roots.map fun
      | .val v => toString v
      | o => showGOut o))
  | ["len"] => (g, s!"nat {g.values.length}")
  | ws => match parseGOp ws with
    | some o => let (g', out) := gstep g o; (g', showGOut out)
    | none => (g, "bad-op")

end Xdsl.DisjointSet
