import XdslModel.DLL
/-!
# The single-pass block-insertion loops of `Region` (C01, argument forms)

No proofs here; see `XdslProofs/Lemmas/DLLStream.lean`.
-/
namespace Xdsl.DLL
namespace L

/-! ### The hand-written single-pass loops of `Region.add_block` / `Region.insert_block_before`

Both methods take `Block | Iterable[Block]`, turn the argument into an iterator once
(`blocks_iter = iter(block)`) and consume it with `next(blocks_iter)`, linking each block behind the
previous one; the link to the rest of the list is repaired once, when the iterator is exhausted.
The argument is traversed exactly once (it may be a generator).  Below: the pointer writes of that
loop, over the list `bs` of blocks the iterator yields.  (`IRStore.addBlock/insertBlockBefore` are
written as folds of `pushBack`/`insertBefore`; `XdslProofs/Lemmas/DLLStream.lean` proves that the two
agree on every node and container.) -/

/-- one round (after `_attach_block`, which sets the parent):
`next_block._prev_block = prev_block; prev_block._next_block = next_block` -/
def linkAfter (s : L) (c prev nb : Nat) : L :=
  ((s.setParent nb (some c)).setPrev nb (some prev)).setNext prev (some nb)

/-- `while True: next_block = next(blocks_iter); …; prev_block = next_block`, until `StopIteration`;
returns the state and the last value of `prev_block` -/
def linkChain (s : L) (c : Nat) : Nat → List Nat → L × Nat
  | prev, [] => (s, prev)
  | prev, nb :: rest => linkChain (s.linkAfter c prev nb) c nb rest

/-- `Region.add_block(blocks)`, `blocks` yielding `bs` -/
def appendStream (s : L) (c : Nat) (bs : List Nat) : L :=
  match (s.en c).last, bs with
  | none, [] => s
  | none, b :: rest =>
    let r := ((s.setParent b (some c)).setFirst c (some b)).linkChain c b rest
    r.1.setLast c (some r.2)
  | some l, bs =>
    let r := s.linkChain c l bs
    r.1.setLast c (some r.2)

/-- the repair at `StopIteration` of `insert_block_before`:
`prev_block._next_block = target; target._prev_block = prev_block` -/
def closeBefore (s : L) (p t : Nat) : L := (s.setNext p (some t)).setPrev t (some p)

/-- `Region.insert_block_before(blocks, t)`, `blocks` yielding `bs` -/
def insertStreamBefore (s : L) (c t : Nat) (bs : List Nat) : L :=
  match (s.nd t).prev, bs with
  | none, [] => s
  | none, b :: rest =>
    let r := (((s.setParent b (some c)).setFirst c (some b)).setNext b (some t)).linkChain c b rest
    r.1.closeBefore r.2 t
  | some p, bs =>
    let r := s.linkChain c p bs
    r.1.closeBefore r.2 t

end L
end Xdsl.DLL
