import XdslModel.Prelude
/-!
Model of `xdsl/utils/scoped_dict.py` (C12).  A `ScopedDict` chain is a list of local scopes,
innermost first.  Values are `Option Nat`: `none` is Python's `None` stored as a value (the
falsy value the property's quantifier mentions); `some 0` is another falsy value.
-/
namespace Xdsl.ScopedDict

abbrev Val := Option Nat
abbrev Scope := AL Nat Val
/-- innermost scope first; a chain always has at least one scope (`[]` behaves like one empty scope) -/
abbrev Chain := List Scope

/-- `ScopedDict.get(key, default)` -/
def get : Chain → Nat → Val → Val
  | [], _, d => d
  | s :: parents, k, d =>
    match AL.get s k with
    | some v => v
    | none => get parents k d

/-- `ScopedDict.__getitem__`; `none` = `KeyError` -/
def getitem : Chain → Nat → Option Val
  | [], _ => none
  | s :: parents, k =>
    match AL.get s k with
    | some v => some v
    | none => getitem parents k

/-- `ScopedDict.__contains__` -/
def contains : Chain → Nat → Bool
  | [], _ => false
  | s :: parents, k => (AL.get s k).isSome || contains parents k

/-- `ScopedDict.__setitem__` on the innermost scope -/
def setitem : Chain → Nat → Val → Chain
  | [], k, v => [AL.set [] k v]
  | s :: parents, k, v => AL.set s k v :: parents

/-- Specification: the value bound in the innermost scope that defines the key. -/
def lookup : Chain → Nat → Option Val
  | [], _ => none
  | s :: parents, k => if (AL.get s k).isSome then AL.get s k else lookup parents k

def showVal : Val → String
  | none => "None"
  | some n => toString n

def parseVal (s : String) : Option Val :=
  if s = "None" then some none else s.toNat?.map some

/-- protocol: `enter` pushes a child scope, `exit` pops it (harness-side: follows `.parent`). -/
def lineStep (c : Chain) (line : String) : Chain × String :=
  match words line with
  | ["reset"] => ([[]], "ok")
  | ["enter"] => ([] :: c, "ok")
  | ["exit"] => (match c with | _ :: p :: r => (p :: r, "ok") | _ => (c, "bad-op"))
  | ["set", k, v] =>
    (match k.toNat?, parseVal v with
     | some k, some v => (setitem c k v, "ok")
     | _, _ => (c, "bad-op"))
  | ["get", k, d] =>
    (match k.toNat?, parseVal d with
     | some k, some d => (c, s!"val {showVal (get c k d)}")
     | _, _ => (c, "bad-op"))
  | ["getitem", k] =>
    (match k.toNat? with
     | some k => (c, match getitem c k with | some v => s!"val {showVal v}" | none => "raise KeyError")
     | none => (c, "bad-op"))
  | ["contains", k] =>
    (match k.toNat? with
     | some k => (c, s!"bool {showBool (contains c k)}")
     | none => (c, "bad-op"))
  | _ => (c, "bad-op")

/-!
Several `ScopedDict` objects alive at once (C12, round 4): object `i` has an optional parent (an
object created earlier) and its own local scope.  Every object is a handle the caller may keep:
an outer scope can be written while inner scopes still exist, and every lookup from an inner
scope must see the chain *as it is now*.
-/
abbrev Forest := List (Option Nat × Scope)

/-- the chain seen from object `i`, innermost first (fuel: parents are earlier objects) -/
def chainOf (f : Forest) : Nat → Nat → Chain
  | 0, _ => []
  | fuel + 1, i =>
    match f[i]? with
    | none => []
    | some (none, s) => [s]
    | some (some p, s) => s :: chainOf f fuel p

/-- protocol: `new` creates a root object, `new p` a child of object `p`; `at i <line>` runs a
`set/get/getitem/contains` line of `lineStep` on the chain seen from object `i` (a `set` writes
the local scope of object `i` only). -/
def flineStep (f : Forest) (line : String) : Forest × String :=
  match words line with
  | ["reset"] => ([(none, [])], "ok")
  | ["new"] => (f ++ [(none, [])], "ok")
  | ["new", p] =>
    (match p.toNat? with
     | some p => if p < f.length then (f ++ [(some p, [])], "ok") else (f, "bad-op")
     | none => (f, "bad-op"))
  | "at" :: i :: op :: rest =>
    (match i.toNat?, f[i.toNat?.getD 0]? with
     | some i, some (p, _) =>
       if op = "set" ∨ op = "get" ∨ op = "getitem" ∨ op = "contains" then
         match lineStep (chainOf f f.length i) (" ".intercalate (op :: rest)) with
         | (s :: _, out) => (if op = "set" then f.set i (p, s) else f, out)
         | ([], out) => (f, out)
       else (f, "bad-op")
     | _, _ => (f, "bad-op"))
  | _ => (f, "bad-op")

end Xdsl.ScopedDict
