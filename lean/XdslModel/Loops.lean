import XdslModel.Prelude
/-!
C16 — arithmetic cores of the loop / control-flow transformations of
`xdsl/transforms/{scf_for_loop_range_folding, scf_for_loop_flatten, scf_for_loop_unroll,
convert_scf_to_cf, loop_invariant_code_motion, control_flow_hoist, lower_affine, desymref}.py`.

* A loop body is a partial state transformer `Int → σ → Option σ` (`none` = undefined behaviour;
  `σ` carries results and the effect log, so equality of outcomes is "same results, same effects
  in the same order").
* `forLoop` is `scf.for` as iteration over `tripCount lb ub step` induction values; a step ≤ 0 is
  undefined behaviour, as in `Sem.lean`.  `forRun` is the operational reading (`Sem.runFor`).
* `foldStep` models one step of `ScfForLoopRangeFolding` (with the fix: a multiplication is folded
  only for a constant factor > 0), `flattenDecide` the decision and bounds of
  `FlattenNestedLoopsPattern` (with the fixes: the outer range is rounded up to a whole number of
  outer steps, the inner trip count is a clamped ceiling), `pyRange` the
  Python `range` used by `UnrollLoopPattern`, `cfStep` the header/body/exit CFG built by
  `ForLowering`.
No Mathlib, no proofs here.
-/
namespace Xdsl.Loops

/-! ## scf.for -/

/-- number of iterations of `for (i = lb; i < ub; i += step)`, `step > 0` -/
def tripCount (lb ub step : Int) : Nat :=
  if lb < ub ∧ 0 < step then ((ub - lb - 1) / step).toNat + 1 else 0

/-- the first `n` induction values -/
def ivs (lb step : Int) : Nat → List Int
  | 0 => []
  | n + 1 => lb :: ivs (lb + step) step n

/-- run the bodies of the listed induction values in order -/
def iter {σ : Type} (body : Int → σ → Option σ) : List Int → σ → Option σ
  | [], s => some s
  | i :: is, s => (body i s).bind (iter body is)

/-- `scf.for lb to ub step step` with loop-carried state `σ` -/
def forLoop {σ : Type} (lb ub step : Int) (body : Int → σ → Option σ) (s : σ) : Option σ :=
  if step ≤ 0 then none else iter body (ivs lb step (tripCount lb ub step)) s

/-- operational reading (`Sem.runFor`): test, body, increment; `none` also when out of fuel -/
def forRun {σ : Type} (ub step : Int) (body : Int → σ → Option σ) : Nat → Int → σ → Option σ
  | 0, _, _ => none
  | f + 1, i, s => if i < ub then (body i s).bind (forRun ub step body f (i + step)) else some s

/-! ## range folding (`scf_for_loop_range_folding.py`) -/

inductive FoldOp where
  | add | mul
deriving DecidableEq, Repr

def FoldOp.apply : FoldOp → Int → Int → Int
  | .add, i, c => i + c
  | .mul, i, c => i * c

/-- one folding step; the loop-invariant operand is `some c` when it is an `arith.constant`,
`none` otherwise.  `add` is folded for any operand (returns the bounds as functions of its value
`v`), `mul` only for a constant `c > 0` (fixed code). -/
def foldStep (op : FoldOp) (lb ub step : Int) (c : Option Int) (v : Int) : Option (Int × Int × Int) :=
  match op with
  | .add => some (lb + v, ub + v, step)
  | .mul => match c with
    | some k => if 0 < k then some (lb * k, ub * k, step * k) else none
    | none => none

/-! ## flattening (`scf_for_loop_flatten.py`) -/

/-- the upper bound `_whole_steps_ub` hands out for the outer loop: `keep` = the loop's own bound,
`const v` = a new `arith.constant`, `arith` = `lb + ceildivsi(ub - lb, S) * S` emitted as
`subi`/`ceildivsi`/`muli`/`addi` (a bound that is not constant) -/
inductive NewUb where
  | keep
  | const (v : Int)
  | arith
deriving DecidableEq, Repr

/-- `_whole_steps_ub`; `olb`/`oub = none` = bound not constant. Python `%` is the floor remainder. -/
def wholeStepsUb (olb oub : Option Int) (S : Int) : NewUb :=
  match olb, oub with
  | some l, some u => if u ≤ l ∨ Int.fmod (l - u) S = 0 then .keep else .const (u + Int.fmod (l - u) S)
  | _, _ => .arith

/-- `arith.ceildivsi` on unbounded integers (as in `Sem.lean`) -/
def ceilDiv (a b : Int) : Int := -(Int.fdiv (-a) b)

/-- run-time value of the new bound (`lb`, `ub` = the values of the outer bounds) -/
def NewUb.val (lb ub S : Int) : NewUb → Int
  | .keep => ub
  | .const v => v
  | .arith => lb + ceilDiv (ub - lb) S * S

inductive Flat where
  | no
  | fuse (step : Int) (ub : NewUb)     -- new loop: outer lb, new ub, inner step
  | prod (factor : Int) (ub : NewUb)   -- new loop: 0 .. new ub * factor step outer step
  | raise                              -- ZeroDivisionError (inner step 0)
deriving DecidableEq, Repr

/-- decision of `FlattenNestedLoopsPattern` for constant inner bounds / outer step;
`used` = the induction variables are used (by exactly one common `arith.addi`);
`olb`/`oub = none` = outer bound not constant. Python `%` and `//` are floor operations. -/
def flattenDecide (used : Bool) (olb oub : Option Int) (S il iu s : Int) : Flat :=
  if S ≤ 0 then .no
  else if used then
    if il ≠ 0 then .no
    else if iu ≠ S then .no
    else if s = 0 then .raise
    else if Int.fmod S s ≠ 0 then .no
    else .fuse s (wholeStepsUb olb oub S)
  else
    match olb with
    | some 0 => if s = 0 then .raise else .prod (max 0 (-(Int.fdiv (il - iu) s))) (wholeStepsUb olb oub S)
    | _ => .no

/-! ## unrolling (`scf_for_loop_unroll.py`): Python `range(lb, ub, step)` -/

/-- `len(range(lb, ub, step))` as CPython computes it (`step ≠ 0`) -/
def pyRangeLen (lb ub step : Int) : Nat :=
  if 0 < step then (if lb < ub then ((ub - lb - 1) / step).toNat + 1 else 0)
  else if step < 0 then (if ub < lb then ((lb - ub - 1) / (-step)).toNat + 1 else 0)
  else 0

def pyRange (lb ub step : Int) : List Int := ivs lb step (pyRangeLen lb ub step)

/-- the unrolled program: one copy of the body per element of the range, run in sequence -/
def seqRun {σ : Type} : List (σ → Option σ) → σ → Option σ
  | [], s => some s
  | f :: fs, s => (f s).bind (seqRun fs)

def unrolled {σ : Type} (lb ub step : Int) (body : Int → σ → Option σ) : List (σ → Option σ) :=
  (pyRange lb ub step).map body

/-! ## scf.for → cf (`convert_scf_to_cf.py`, `ForLowering`) -/

inductive PC where
  | header | body | exit
deriving DecidableEq, Repr

structure CfState (σ : Type) where
  pc : PC
  iv : Int
  st : σ

/-- header(iv, st): `cmpi slt iv ub; cond_br body, exit` — body: `st' = body iv st;
iv' = addi iv step; br header(iv', st')` — exit: results are the header's arguments -/
def cfStep {σ : Type} (ub step : Int) (body : Int → σ → Option σ) (c : CfState σ) : Option (CfState σ) :=
  match c.pc with
  | .header => some { c with pc := if c.iv < ub then .body else .exit }
  | .body => (body c.iv c.st).map fun s' => { pc := .header, iv := c.iv + step, st := s' }
  | .exit => some c

def cfRun {σ : Type} (ub step : Int) (body : Int → σ → Option σ) : Nat → CfState σ → Option (CfState σ)
  | 0, c => some c
  | n + 1, c => (cfStep ub step body c).bind (cfRun ub step body n)

/-! ## hoisting (`loop_invariant_code_motion.py`, `control_flow_hoist.py`)

`e : Option α` is the outcome of a side-effect-free computation on values defined outside the
loop / conditional (`none` = it would be undefined behaviour, i.e. it is not speculatable). -/

/-- loop whose body runs `pre`, then the invariant computation, then `post` -/
def loopWithInv {σ α : Type} (lb ub step : Int) (e : Option α) (pre : Int → σ → Option σ)
    (post : α → Int → σ → Option σ) (s : σ) : Option σ :=
  forLoop lb ub step (fun i s => (pre i s).bind fun s1 => e.bind fun v => post v i s1) s

/-- after `licm`: the computation is done once in front of the loop -/
def loopHoisted {σ α : Type} (lb ub step : Int) (e : Option α) (pre : Int → σ → Option σ)
    (post : α → Int → σ → Option σ) (s : σ) : Option σ :=
  e.bind fun v => forLoop lb ub step (fun i s => (pre i s).bind (post v i)) s

def ifWithOps {σ α β : Type} (c : Bool) (e1 : Option α) (e2 : Option β) (k1 : α → σ → Option σ)
    (k2 : β → σ → Option σ) (s : σ) : Option σ :=
  if c then e1.bind fun v => k1 v s else e2.bind fun v => k2 v s

/-- after `control-flow-hoist`: both branches' computations in front of the conditional -/
def ifHoisted {σ α β : Type} (c : Bool) (e1 : Option α) (e2 : Option β) (k1 : α → σ → Option σ)
    (k2 : β → σ → Option σ) (s : σ) : Option σ :=
  e1.bind fun v1 => e2.bind fun v2 => if c then k1 v1 s else k2 v2 s

/-! ## affine expressions → arith (`lower_affine.py: affine_expr_ops`) -/

inductive AKind where
  | add | mul | mod | floordiv | ceildiv
deriving DecidableEq, Repr

inductive AExpr where
  | const (v : Int)
  | dim (p : Nat)
  | bin (k : AKind) (l r : AExpr)
deriving Repr

/-- value in the affine dialect (`mod` = non-negative remainder for a positive right operand) -/
def AExpr.eval (ρ : Nat → Int) : AExpr → Int
  | .const v => v
  | .dim p => ρ p
  | .bin .add l r => l.eval ρ + r.eval ρ
  | .bin .mul l r => l.eval ρ * r.eval ρ
  | .bin .mod l r => Int.fmod (l.eval ρ) (r.eval ρ)
  | .bin .floordiv l r => Int.fdiv (l.eval ρ) (r.eval ρ)
  | .bin .ceildiv l r => -(Int.fdiv (-(l.eval ρ)) (r.eval ρ))

/-- value of the emitted ops: addi, muli, **remsi** (truncating remainder), floordivsi, ceildivsi
(unbounded integers: index wrap-around is not modelled) -/
def AExpr.evalLowered (ρ : Nat → Int) : AExpr → Int
  | .const v => v
  | .dim p => ρ p
  | .bin .add l r => l.evalLowered ρ + r.evalLowered ρ
  | .bin .mul l r => l.evalLowered ρ * r.evalLowered ρ
  | .bin .mod l r => Int.tmod (l.evalLowered ρ) (r.evalLowered ρ)
  | .bin .floordiv l r => Int.fdiv (l.evalLowered ρ) (r.evalLowered ρ)
  | .bin .ceildiv l r => -(Int.fdiv (-(l.evalLowered ρ)) (r.evalLowered ρ))

/-- every `mod` has a non-negative left and a positive right value at `ρ` -/
def AExpr.modSafe (ρ : Nat → Int) : AExpr → Bool
  | .const _ => true
  | .dim _ => true
  | .bin k l r => l.modSafe ρ && r.modSafe ρ && (k != .mod || (decide (0 ≤ l.eval ρ) && decide (0 < r.eval ρ)))

/-! ## symref forwarding on a straight-line block (`desymref.py: prune_definitions`) -/

inductive SOp where
  | update (sym : Nat) (v : Int)       -- symref.update @sym = v
  | fetch (sym : Nat)                  -- r = symref.fetch @sym ; observed
deriving Repr

/-- run with a symbol store; the observation is the list of fetched values (`none` = a fetch of a
never-written symbol) -/
def symRun : List SOp → AL Nat Int → Option (List Int)
  | [], _ => some []
  | .update x v :: r, st => symRun r (AL.set st x v)
  | .fetch x :: r, st => match AL.get st x with
    | some v => (symRun r st).map (v :: ·)
    | none => none

/-- value of the closest write to `x` in the (reversed) prefix -/
def lastWrite (x : Nat) : List SOp → Option Int
  | [] => none
  | .update y v :: r => if y = x then some v else lastWrite x r
  | .fetch _ :: r => lastWrite x r

/-- what the pass does: every fetch is replaced by the value of the closest preceding update
(`prefixRev` = the operations before, most recent first) -/
def forwarded : List SOp → List SOp → Option (List Int)
  | [], _ => some []
  | .update x v :: r, pre => forwarded r (.update x v :: pre)
  | .fetch x :: r, pre => match lastWrite x pre with
    | some v => (forwarded r (.fetch x :: pre)).map (v :: ·)
    | none => none

/-! ## which symbols a block may forward (`desymref.py: get_symbols / get_nested_symbols`) -/

/-- The operations of a block, for symbol bookkeeping only: `sym s rest` = a symref operation
(declare / fetch / update) on `s`, then the rest of the block; `op body rest` = an operation holding
regions whose operations (all regions, all blocks, in order) are `body`, then the rest of the block.
Operations without regions and without symbol are left out. -/
inductive SymTree where
  | leaf
  | sym (s : Nat) (rest : SymTree)
  | op (body : SymTree) (rest : SymTree)
deriving Repr

/-- `get_symbols(block)`: the symbols of the symref operations of the block itself -/
def SymTree.direct : SymTree → List Nat
  | .leaf => []
  | .sym s r => s :: r.direct
  | .op _ r => r.direct

/-- the symbols met by `region.walk()` over the operations of the tree, at every depth -/
def SymTree.all : SymTree → List Nat
  | .leaf => []
  | .sym s r => s :: r.all
  | .op b r => b.all ++ r.all

/-- `get_nested_symbols(block)`: for every operation of the block, for every region, the symbols of
every operation `region.walk()` yields -/
def SymTree.nested : SymTree → List Nat
  | .leaf => []
  | .sym _ r => r.nested
  | .op b r => b.all ++ r.nested

/-- NOT what the code does (kept as the counterexample of `XdslProofs.C16Lowering`): only the
operations directly in the blocks of the nested regions are looked at -/
def SymTree.nestedShallow : SymTree → List Nat
  | .leaf => []
  | .sym _ r => r.nestedShallow
  | .op b r => b.direct ++ r.nestedShallow

/-- a symref operation on `s` lies exactly `d` region levels below the block -/
def SymTree.occursAt (s : Nat) : Nat → SymTree → Bool
  | _, .leaf => false
  | d, .sym x r => (d == 0 && x == s) || r.occursAt s d
  | d, .op b r => (match d with
      | 0 => false
      | d' + 1 => b.occursAt s d') || r.occursAt s d

/-- the symbols `prune_definitions` / `prune_uses_without_definitions` may forward and erase in this
block: those of the block itself that no nested region mentions -/
def SymTree.forwardable (t : SymTree) : List Nat :=
  t.direct.filter (fun s => !t.nested.contains s)

/-- `prune_definitions`: raises (`none`) when a symbol declared in the block is in
`get_nested_symbols`, otherwise every declared symbol is forwarded -/
def SymTree.pruneDecide (declared : List Nat) (t : SymTree) : Option (List Nat) :=
  if declared.any (fun s => t.nested.contains s) then none else some declared

/-- tokens `s<n>` (symref operation on n), `(` … `)` (an operation with regions) → tree; read from the right -/
def parseSymTree (toks : List String) : Option SymTree :=
  let step : Option (SymTree × List SymTree) → String → Option (SymTree × List SymTree) := fun acc tok =>
    match acc with
    | none => none
    | some (cur, stack) =>
      if tok = ")" then some (.leaf, cur :: stack)
      else if tok = "(" then
        match stack with
        | parent :: st => some (.op cur parent, st)
        | [] => none
      else if tok.startsWith "s" then (tok.drop 1).toString.toNat?.map fun n => (.sym n cur, stack)
      else none
  match toks.reverse.foldl step (some (.leaf, [])) with
  | some (t, []) => some t
  | _ => none

def insertSortedNat (x : Nat) : List Nat → List Nat
  | [] => [x]
  | y :: r => if x < y then x :: y :: r else if x = y then y :: r else y :: insertSortedNat x r

def showSymSet (l : List Nat) : String :=
  ",".intercalate ((l.foldr insertSortedNat []).map toString)

/-! ## line protocol (correspondence with the real passes) -/

def showInts (l : List Int) : String := ",".intercalate (l.map toString)

def optInt (s : String) : Option (Option Int) :=
  if s = "sym" then some none else s.toInt?.map some

def showUb : NewUb → String
  | .keep => "keep"
  | .const v => s!"const {v}"
  | .arith => "arith"

/-- the loop body used for executable comparisons: log the induction value -/
def logBody (i : Int) (s : List Int) : Option (List Int) := some (s ++ [i])

/-- `u<sym>:<val>` = update, `f<sym>` = fetch -/
def parseSOp (w : String) : Option SOp :=
  if w.startsWith "u" then
    match (w.drop 1).toString.splitOn ":" with
    | [a, b] => match a.toNat?, b.toInt? with
      | some x, some v => some (.update x v)
      | _, _ => none
    | _ => none
  else if w.startsWith "f" then (w.drop 1).toString.toNat?.map .fetch
  else none

def lineStep (_ : Unit) (line : String) : Unit × String :=
  match words line with
  | "sym" :: ops => match ops.mapM parseSOp with
    | some l => ((), match forwarded l [] with
      | some vs => "ok " ++ showInts vs
      | none => "undefined")
    | none => ((), "bad-op")
  | "symtree" :: decl :: toks => match parseSymTree toks, ((decl.splitOn ",").filter (· ≠ "-")).mapM (·.toNat?) with
    | some t, some declared =>
      ((), s!"direct {showSymSet t.direct} nested {showSymSet t.nested} forward {showSymSet t.forwardable} "
            ++ (match t.pruneDecide declared with
                | some _ => "accept"
                | none => "raise FrontendProgramException"))
    | _, _ => ((), "bad-op")
  | ["trip", a, b, c] => match a.toInt?, b.toInt?, c.toInt? with
    | some lb, some ub, some st => ((), toString (tripCount lb ub st))
    | _, _, _ => ((), "bad-op")
  | ["for", a, b, c] => match a.toInt?, b.toInt?, c.toInt? with
    | some lb, some ub, some st => ((), match forLoop lb ub st logBody [] with
      | some l => "ok " ++ showInts l
      | none => "ub")
    | _, _, _ => ((), "bad-op")
  | ["range", a, b, c] => match a.toInt?, b.toInt?, c.toInt? with
    | some lb, some ub, some st => ((), if st = 0 then "raise ValueError" else "ok " ++ showInts (pyRange lb ub st))
    | _, _, _ => ((), "bad-op")
  | ["cf", a, b, c, n] => match a.toInt?, b.toInt?, c.toInt?, n.toNat? with
    | some lb, some ub, some st, some fuel => ((), match cfRun ub st logBody fuel { pc := .header, iv := lb, st := [] } with
      | some r => (if r.pc = .exit then "exit " else "running ") ++ showInts r.st
      | none => "ub")
    | _, _, _, _ => ((), "bad-op")
  | ["fold", op, a, b, c, k] =>
    match (if op = "add" then some FoldOp.add else if op = "mul" then some FoldOp.mul else none),
          a.toInt?, b.toInt?, c.toInt?, optInt k with
    | some o, some lb, some ub, some st, some kc =>
      ((), match foldStep o lb ub st kc (kc.getD 0) with
        | some (l, u, s) => if kc.isSome then s!"fold {l} {u} {s}" else "fold sym"
        | none => "no")
    | _, _, _, _, _ => ((), "bad-op")
  | ["flatten", used, olb, oub, s1, il, iu, s2] =>
    match optInt olb, optInt oub, s1.toInt?, il.toInt?, iu.toInt?, s2.toInt? with
    | some ol, some ou, some S, some l, some u, some s =>
      ((), match flattenDecide (used = "used") ol ou S l u s with
        | .no => "no"
        | .raise => "raise ZeroDivisionError"
        | .fuse st b => s!"fuse {st} {showUb b}"
        | .prod f b => s!"prod {f} {showUb b}")
    | _, _, _, _, _, _ => ((), "bad-op")
  | _ => ((), "bad-op")

end Xdsl.Loops
