import XdslModel.Prelude
/-!
Model of `xdsl/utils/worklist.py` (C12).  Items are naturals.  The concrete state mirrors the
Python fields: `stack` is the Python list (`none` = `_MISSING` tombstone, last element = top),
`map` the item → index dictionary.
-/
namespace Xdsl.Worklist

structure WL where
  stack : List (Option Nat) := []
  map   : AL Nat Nat := []
deriving Repr

inductive Op
  | push (x : Nat) | pop | remove (x : Nat) | isEmpty
deriving Repr, DecidableEq

inductive Out
  | unit | item (x : Nat) | indexError | bool (b : Bool)
deriving Repr, DecidableEq

/-- `while self._stack and self._stack[-1] is _MISSING: self._stack.pop()` -/
def dropMissing : List (Option Nat) → List (Option Nat)
  | [] => []
  | x :: r =>
    match dropMissing r with
    | [] => if x.isNone then [] else [x]
    | r' => x :: r'

/-- Remove the last element of a non-empty list and return both. -/
def unsnoc? : List (Option Nat) → Option (List (Option Nat) × Option Nat)
  | [] => none
  | [x] => some ([], x)
  | x :: r => (unsnoc? r).map fun (i, l) => (x :: i, l)

def step (s : WL) : Op → WL × Out
  | .isEmpty =>
    let st := dropMissing s.stack
    ({ s with stack := st }, .bool (!st.isEmpty))     -- `__bool__`: True iff non-empty
  | .push x =>
    if (AL.get s.map x).isSome then (s, .unit)
    else ({ stack := s.stack ++ [some x], map := AL.set s.map x s.stack.length }, .unit)
  | .pop =>
    match unsnoc? (dropMissing s.stack) with
    | some (init, some x) => ({ stack := init, map := AL.del s.map x }, .item x)
    | _ => ({ s with stack := [] }, .indexError)
  | .remove x =>
    match AL.get s.map x with
    | some i => ({ stack := s.stack.set i none, map := AL.del s.map x }, .unit)
    | none => (s, .unit)

/-- Abstract specification: a duplicate-free stack, top first. -/
def Spec.step (l : List Nat) : Op → List Nat × Out
  | .isEmpty => (l, .bool (!l.isEmpty))
  | .push x => (if x ∈ l then l else x :: l, .unit)
  | .pop => match l with
    | [] => ([], .indexError)
    | x :: r => (r, .item x)
  | .remove x => (l.filter (· ≠ x), .unit)

def abs (s : WL) : List Nat := (s.stack.filterMap id).reverse

def run (s : WL) : List Op → WL × List Out
  | [] => (s, [])
  | o :: os => let (s', out) := step s o; let (s'', outs) := run s' os; (s'', out :: outs)

def Spec.run (l : List Nat) : List Op → List Nat × List Out
  | [] => (l, [])
  | o :: os => let (l', out) := Spec.step l o; let (l'', outs) := Spec.run l' os; (l'', out :: outs)

/-! Line protocol -/
def parseOp (ws : List String) : Option Op :=
  match ws with
  | ["push", n] => n.toNat?.map .push
  | ["remove", n] => n.toNat?.map .remove
  | ["pop"] => some .pop
  | ["bool"] => some .isEmpty
  | _ => none

def showOut : Out → String
  | .unit => "ok"
  | .item x => s!"item {x}"
  | .indexError => "raise IndexError"
  | .bool b => s!"bool {showBool b}"

def lineStep (s : WL) (line : String) : WL × String :=
  match words line with
  | ["reset"] => ({}, "ok")
  -- observation only: the items present, top of the stack first (used by the C11 check, which replays the
  -- push/remove/pop/bool trace of the walker's real worklist and compares the contents after every step)
  | ["abs"] => (s, " ".intercalate ("items" :: (abs s).map toString))
  | ws => match parseOp ws with
    | some o => let (s', out) := step s o; (s', showOut out)
    | none => (s, "bad-op")

end Xdsl.Worklist
