import XdslModel.RiscV
/-!
Every integer pattern of `xdsl/transforms/canonicalization_patterns/riscv.py` as a rewrite rule on
one instruction, given what the pattern learns from the defining operations of its operands
(`Fact`s).  The rules model the code *with the C22 fixes*: folded `li` constants wrap at 32 bits
(`_folded_li_immediate`), `addi`/`lw`/`sw` immediates are only produced when they fit 12 signed bits
(`_fits_si12`), look-through patterns require the looked-through source to be `_is_stable`
(unallocated or `zero`), `ShiftbyZero` is restricted to real shifts, the *ByZero patterns use
`elif`, `AdditionOfSameVariablesToMultiplyByTwo` does not fire on fully allocated operations, and
`get_constant_value` reads 0 from `zero`.

A register number < 32 is an allocated (physical) register, ≥ 32 an unallocated SSA value.

Python's `&`, `|`, `^` on the (in-range, signed) constants are modelled on the 32-bit images: for
operands inside the signed 32-bit range the signed reading of the `BitVec` result *is* Python's result
(`Xdsl.BV.ofInt_land/lor/xor` in `XdslProofs/Lemmas/BV.lean`; re-checked against the real patterns by
the correspondence run).  `<<`, `>>`, `%` of the shift folds are modelled on `Int` as written.

Protocol:  `rule <Pattern> | fact;fact… | instr | fresh`  →  `none` | `some instr;instr…`
  fact = `c r v` (get_constant_value r = v) | `a r s imm` (r := addi s, imm) | `x r s imm` (r := xori s, imm)
-/
namespace Xdsl.RiscV

inductive Fact
  | const (r : Reg) (c : Int)
  | addi (r s : Reg) (imm : Int)
  | xori (r s : Reg) (imm : Int)
  deriving DecidableEq, Repr

def constOf : List Fact → Reg → Option Int
  | [], _ => none
  | .const r c :: fs, x => if r = x then some c else constOf fs x
  | _ :: fs, x => constOf fs x

def addiOf : List Fact → Reg → Option (Reg × Int)
  | [], _ => none
  | .addi r s i :: fs, x => if r = x then some (s, i) else addiOf fs x
  | _ :: fs, x => addiOf fs x

def xoriOf : List Fact → Reg → Option (Reg × Int)
  | [], _ => none
  | .xori r s i :: fs, x => if r = x then some (s, i) else xoriOf fs x
  | _ :: fs, x => xoriOf fs x

/-- `IntegerAttr(v, i32, truncate_bits=True).value.data`: the signed reading of the low 32 bits -/
def wrap32 (v : Int) : Int := (imm32 v).toInt

def allocated (r : Reg) : Bool := decide (r < 32)

/-- `_is_stable`: not yet allocated, or `zero` -/
def stable (r : Reg) : Bool := decide (32 ≤ r) || decide (r = 0)

/-- `py_operation` of the rv32 immediate-shift classes on a constant `c` (i32, signed normalised) -/
def pyShift (op : SOp) (c : Int) (n : Nat) : Int :=
  match op with
  | .slli => wrap32 (c * 2 ^ n)
  | .srli => wrap32 ((c % 4294967296) / 2 ^ n)
  | .srai => Int.fdiv c (2 ^ n)
  | op => (aluS op (imm32 c) n).toInt

def shiftIsIdentityAtZero : SOp → Bool
  | .slli | .srli | .srai | .rori => true
  | _ => false

namespace Rules

def removeRedundantMv : Instr → Option (List Instr)
  | .mv rd rs => if rd = rs ∧ allocated rd then some [] else none
  | _ => none

def multiplyImmediates (fs : List Fact) : Instr → Option (List Instr)
  | .r .mul rd a b =>
    match constOf fs a, constOf fs b with
    | some _, none => some [.r .mul rd b a]
    | none, some r => if r = 0 then some [.mv rd b] else if r = 1 then some [.mv rd a] else none
    | some l, some r => some [.li rd (wrap32 (l * r))]
    | none, none => none
  | _ => none

def divideByOneIdentity (fs : List Fact) : Instr → Option (List Instr)
  | .r .div rd a b => if constOf fs b = some 1 then some [.mv rd a] else none
  | _ => none

def addImmediates (fs : List Fact) : Instr → Option (List Instr)
  | .r .add rd a b =>
    match constOf fs a, constOf fs b with
    | some l, none => if fitsSI12 l then some [.i .addi rd b l] else none
    | none, some r => if fitsSI12 r then some [.i .addi rd a r] else none
    | some l, some r => some [.li rd (wrap32 (l + r))]
    | none, none => none
  | _ => none

def addImmediateZero : Instr → Option (List Instr)
  | .i .addi rd a imm => if imm = 0 then some [.mv rd a] else none
  | _ => none

def addImmediateConstant (fs : List Fact) : Instr → Option (List Instr)
  | .i .addi rd a imm =>
    match constOf fs a with
    | some c => some [.li rd (wrap32 (c + imm))]
    | none => none
  | _ => none

def subImmediates (fs : List Fact) : Instr → Option (List Instr)
  | .r .sub rd a b =>
    match constOf fs a, constOf fs b with
    | some _, none => none
    | none, some r => if fitsSI12 (-r) then some [.i .addi rd a (-r)] else none
    | some l, some r => some [.li rd (wrap32 (l - r))]
    | none, none => none
  | _ => none

def subBySelf : Instr → Option (List Instr)
  | .r .sub rd a b => if a = b then some [.mv rd 0] else none
  | _ => none

def subAddi (fs : List Fact) : Instr → Option (List Instr)
  | .r .sub rd a b =>
    match addiOf fs a with
    | some (s, imm) => if s = b then some [.li rd imm] else none
    | none => none
  | _ => none

def andiImmediate (fs : List Fact) : Instr → Option (List Instr)
  | .i .andi rd a imm =>
    match constOf fs a with
    | some c => some [.li rd (imm32 c &&& imm32 imm).toInt]
    | none => none
  | _ => none

def andiZero : Instr → Option (List Instr)
  | .i .andi rd _ imm => if imm = 0 then some [.li rd 0] else none
  | _ => none

def oriImmediate (fs : List Fact) : Instr → Option (List Instr)
  | .i .ori rd a imm =>
    match constOf fs a with
    | some c => some [.li rd (imm32 c ||| imm32 imm).toInt]
    | none => none
  | _ => none

def oriImmediateZero : Instr → Option (List Instr)
  | .i .ori rd a imm => if imm = 0 then some [.mv rd a] else none
  | _ => none

def xoriZero : Instr → Option (List Instr)
  | .i .xori rd a imm => if imm = 0 then some [.mv rd a] else none
  | _ => none

def xoriSelfInverse (fs : List Fact) : Instr → Option (List Instr)
  | .i .xori rd a imm =>
    match xoriOf fs a with
    | some (s, i1) => if i1 = imm ∧ stable s then some [.mv rd s] else none
    | none => none
  | _ => none

def xoriOfXori (fs : List Fact) : Instr → Option (List Instr)
  | .i .xori rd a imm =>
    match xoriOf fs a with
    | some (s, i1) => if stable s then some [.i .xori rd s (imm32 i1 ^^^ imm32 imm).toInt] else none
    | none => none
  | _ => none

def xoriImmediate (fs : List Fact) : Instr → Option (List Instr)
  | .i .xori rd a imm =>
    match constOf fs a with
    | some c => some [.li rd (imm32 c ^^^ imm32 imm).toInt]
    | none => none
  | _ => none

def shiftbyZero : Instr → Option (List Instr)
  | .sh op rd a n => if shiftIsIdentityAtZero op ∧ n = 0 then some [.mv rd a] else none
  | _ => none

def shiftConstantFolding (fs : List Fact) : Instr → Option (List Instr)
  | .sh op rd a n =>
    match constOf fs a with
    | some c => some [.li rd (pyShift op c n)]
    | none => none
  | _ => none

def loadWordWithKnownOffset (fs : List Fact) : Instr → Option (List Instr)
  | .lw rd a off =>
    match addiOf fs a with
    | some (s, i1) => if fitsSI12 (i1 + off) ∧ stable s then some [.lw rd s (i1 + off)] else none
    | none => none
  | _ => none

def storeWordWithKnownOffset (fs : List Fact) : Instr → Option (List Instr)
  | .sw v a off =>
    match addiOf fs a with
    | some (s, i1) => if fitsSI12 (i1 + off) ∧ stable s then some [.sw v s (i1 + off)] else none
    | none => none
  | _ => none

def additionOfSameVariablesToMultiplyByTwo (fresh : Reg) : Instr → Option (List Instr)
  | .r .add rd a b =>
    if a = b ∧ ¬(allocated rd ∧ allocated a) then some [.li fresh 2, .r .mul rd a fresh] else none
  | _ => none

def bitwiseAndByZero (fs : List Fact) : Instr → Option (List Instr)
  | .r .and rd a b =>
    if constOf fs a = some 0 then some [.mv rd a]
    else if constOf fs b = some 0 then some [.mv rd b] else none
  | _ => none

def bitwiseAndBySelf : Instr → Option (List Instr)
  | .r .and rd a b => if a = b then some [.mv rd a] else none
  | _ => none

def bitwiseOrByZero (fs : List Fact) : Instr → Option (List Instr)
  | .r .or rd a b =>
    if constOf fs a = some 0 then some [.mv rd b]
    else if constOf fs b = some 0 then some [.mv rd a] else none
  | _ => none

def bitwiseOrBySelf : Instr → Option (List Instr)
  | .r .or rd a b => if a = b then some [.mv rd a] else none
  | _ => none

def xorBySelf : Instr → Option (List Instr)
  | .r .xor rd a b => if a = b then some [.mv rd 0] else none
  | _ => none

def bitwiseXorByZero (fs : List Fact) : Instr → Option (List Instr)
  | .r .xor rd a b =>
    if constOf fs a = some 0 then some [.mv rd b]
    else if constOf fs b = some 0 then some [.mv rd a] else none
  | _ => none

def loadImmediate0 : Instr → Option (List Instr)
  | .li rd imm => if imm = 0 then (if rd = 0 then some [] else some [.mv rd 0]) else none
  | _ => none

end Rules

/-- the 29 integer patterns, by xDSL class name -/
def ruleTable : List (String × (List Fact → Reg → Instr → Option (List Instr))) :=
  [("RemoveRedundantMv", fun _ _ => Rules.removeRedundantMv),
   ("MultiplyImmediates", fun fs _ => Rules.multiplyImmediates fs),
   ("DivideByOneIdentity", fun fs _ => Rules.divideByOneIdentity fs),
   ("AddImmediates", fun fs _ => Rules.addImmediates fs),
   ("AddImmediateZero", fun _ _ => Rules.addImmediateZero),
   ("AddImmediateConstant", fun fs _ => Rules.addImmediateConstant fs),
   ("SubImmediates", fun fs _ => Rules.subImmediates fs),
   ("SubBySelf", fun _ _ => Rules.subBySelf),
   ("SubAddi", fun fs _ => Rules.subAddi fs),
   ("AndiImmediate", fun fs _ => Rules.andiImmediate fs),
   ("AndiZero", fun _ _ => Rules.andiZero),
   ("OriImmediate", fun fs _ => Rules.oriImmediate fs),
   ("OriImmediateZero", fun _ _ => Rules.oriImmediateZero),
   ("XoriZero", fun _ _ => Rules.xoriZero),
   ("XoriSelfInverse", fun fs _ => Rules.xoriSelfInverse fs),
   ("XoriOfXori", fun fs _ => Rules.xoriOfXori fs),
   ("XoriImmediate", fun fs _ => Rules.xoriImmediate fs),
   ("ShiftbyZero", fun _ _ => Rules.shiftbyZero),
   ("ShiftConstantFolding", fun fs _ => Rules.shiftConstantFolding fs),
   ("LoadWordWithKnownOffset", fun fs _ => Rules.loadWordWithKnownOffset fs),
   ("StoreWordWithKnownOffset", fun fs _ => Rules.storeWordWithKnownOffset fs),
   ("AdditionOfSameVariablesToMultiplyByTwo", fun _ fr => Rules.additionOfSameVariablesToMultiplyByTwo fr),
   ("BitwiseAndByZero", fun fs _ => Rules.bitwiseAndByZero fs),
   ("BitwiseAndBySelf", fun _ _ => Rules.bitwiseAndBySelf),
   ("BitwiseOrByZero", fun fs _ => Rules.bitwiseOrByZero fs),
   ("BitwiseOrBySelf", fun _ _ => Rules.bitwiseOrBySelf),
   ("XorBySelf", fun _ _ => Rules.xorBySelf),
   ("BitwiseXorByZero", fun fs _ => Rules.bitwiseXorByZero fs),
   ("LoadImmediate0", fun _ _ => Rules.loadImmediate0)]

def lookupRule (name : String) :
    List (String × (List Fact → Reg → Instr → Option (List Instr))) →
    Option (List Fact → Reg → Instr → Option (List Instr))
  | [] => none
  | (n, f) :: rest => if n = name then some f else lookupRule name rest

def rule (name : String) (fs : List Fact) (ins : Instr) (fresh : Reg) : Option (List Instr) :=
  match lookupRule name ruleTable with
  | some f => f fs fresh ins
  | none => none

def ruleNames : List String := ruleTable.map (·.1)

/-! ### the arith.cmpi lowering table of `LowerArithCmpi` (convert_arith_to_riscv.py), with the C22 fix -/

/-- MLIR predicate numbers: 0 eq 1 ne 2 slt 3 sle 4 sgt 5 sge 6 ult 7 ule 8 ugt 9 uge.
`lhs`, `rhs` are the operand registers, `t` the intermediate, `rd` the result. -/
def lowerCmpi (pred : Nat) (rd t lhs rhs : Reg) : Option (List Instr) :=
  match pred with
  | 0 => some [.r .xor t lhs rhs, .i .sltiu rd t 1]
  | 1 => some [.r .xor t lhs rhs, .r .sltu rd 0 t]
  | 2 => some [.r .slt rd lhs rhs]
  | 3 => some [.r .slt t rhs lhs, .i .xori rd t 1]
  | 4 => some [.r .slt rd rhs lhs]
  | 5 => some [.r .slt t lhs rhs, .i .xori rd t 1]
  | 6 => some [.r .sltu rd lhs rhs]
  | 7 => some [.r .sltu t rhs lhs, .i .xori rd t 1]
  | 8 => some [.r .sltu rd rhs lhs]
  | 9 => some [.r .sltu t lhs rhs, .i .xori rd t 1]
  | _ => none

/-- the table before the fix (kept for the counterexample theorem): predicates 3..7 were read as
sle, ult, ule, ugt, uge of a 0..7 numbering, i.e. sle→sge, sgt→ult, sge→uge, ult→ugt; 8, 9 raised -/
def lowerCmpiOld (pred : Nat) (rd t lhs rhs : Reg) : Option (List Instr) :=
  match pred with
  | 0 => some [.r .xor t lhs rhs, .i .sltiu rd t 1]
  | 1 => some [.r .xor t lhs rhs, .r .sltu rd 0 t]
  | 2 => some [.r .slt rd lhs rhs]
  | 3 => some [.r .slt t lhs rhs, .i .xori rd t 1]
  | 4 => some [.r .sltu rd lhs rhs]
  | 5 => some [.r .sltu t lhs rhs, .i .xori rd t 1]
  | 6 => some [.r .sltu rd rhs lhs]
  | 7 => some [.r .sltu t rhs lhs, .i .xori rd t 1]
  | _ => none

/-- MLIR semantics of `arith.cmpi` on i32 -/
def cmpiSem (pred : Nat) (a b : W) : Option Bool :=
  match pred with
  | 0 => some (a == b)
  | 1 => some (a != b)
  | 2 => some (a.slt b)
  | 3 => some (a.sle b)
  | 4 => some (b.slt a)
  | 5 => some (b.sle a)
  | 6 => some (a.ult b)
  | 7 => some (a.ule b)
  | 8 => some (b.ult a)
  | 9 => some (b.ule a)
  | _ => none

/-! ### prologue / epilogue of `PrologueEpilogueInsertion` (xlen = 4, integer registers) -/

def SP : Reg := 2

def frameStores : List Reg → Nat → List Instr
  | [], _ => []
  | r :: rs, k => .sw r SP ((4 * k : Nat) : Int) :: frameStores rs (k + 1)

def frameLoads : List Reg → Nat → List Instr
  | [], _ => []
  | r :: rs, k => .lw r SP ((4 * k : Nat) : Int) :: frameLoads rs (k + 1)

/-- `addi sp, sp, -4n; sw r0, 0(sp); sw r1, 4(sp); …` -/
def prologue (saved : List Reg) : List Instr :=
  .i .addi SP SP (-((4 * saved.length : Nat) : Int)) :: frameStores saved 0

/-- `lw r0, 0(sp); lw r1, 4(sp); …; addi sp, sp, 4n` -/
def epilogue (saved : List Reg) : List Instr :=
  frameLoads saved 0 ++ [.i .addi SP SP ((4 * saved.length : Nat) : Int)]

/-! ### riscv_cf: `ElideConstantBranches` and `const_evaluate` (xdsl/dialects/riscv_cf.py) -/

/-- `to_unsigned(x, 32)` of xdsl/utils/comparisons.py -/
def toUnsigned32 (x : Int) : Int := (x + 4294967296) % 4294967296

/-- `to_signed(x, 32)` -/
def toSigned32 (x : Int) : Int := (x + 2147483648) % 4294967296 - 2147483648

/-- `const_evaluate(rs1, rs2, 32)` of the six conditional branch classes -/
def constEvaluate (op : BOp) (a b : Int) : Bool :=
  match op with
  | .beq => decide (toUnsigned32 a = toUnsigned32 b)
  | .bne => !decide (toUnsigned32 a = toUnsigned32 b)
  | .blt => decide (toSigned32 a < toSigned32 b)
  | .bge => decide (toSigned32 b ≤ toSigned32 a)
  | .bltu => decide (toUnsigned32 a < toUnsigned32 b)
  | .bgeu => decide (toUnsigned32 b ≤ toUnsigned32 a)

/-- `ElideConstantBranches`: a conditional branch whose operands are both known constants becomes an
unconditional jump to the then-block or falls through (`riscv_cf.branch`, which prints nothing) -/
def elideConstantBranch (fs : List Fact) : Instr → Option Instr
  | .br op a b t =>
    match constOf fs a, constOf fs b with
    | some x, some y => some (if constEvaluate op x y then .j t else .nop)
    | _, _ => none
  | _ => none

/-! ### protocol -/

def parseFact (t : String) : Option Fact :=
  match words t with
  | ["c", r, v] => do some (.const (← parseNat? r) (← parseInt? v))
  | ["a", r, s, i] => do some (.addi (← parseNat? r) (← parseNat? s) (← parseInt? i))
  | ["x", r, s, i] => do some (.xori (← parseNat? r) (← parseNat? s) (← parseInt? i))
  | _ => none

def parseFacts (t : String) : Option (List Fact) :=
  ((t.splitOn ";").filter (fun x => (words x) ≠ [])).mapM parseFact

def rulesLineStep (_ : Unit) (line : String) : Unit × String :=
  let bad := ((), "bad-op")
  match line.splitOn "|" with
  | [hd, facts, ins, fresh] =>
    match words hd, parseFacts facts, parseInstr ins, (words fresh).mapM parseNat? with
    | ["rule", name], some fs, some i, some [fr] =>
      match rule name fs i fr with
      | none => ((), "none")
      | some out => ((), "some " ++ showInstrs out)
    | _, _, _, _ => lineStep () line
  | [one] =>
    match words one with
    | "frame" :: regs =>
      match regs.mapM parseNat? with
      | some rs => ((), showInstrs (prologue rs) ++ " | " ++ showInstrs (epilogue rs))
      | none => bad
    | ["cbr", op, a, b] =>
      match bop? op, parseInt? a, parseInt? b with
      | some o, some x, some y => ((), if constEvaluate o x y then "taken" else "fall")
      | _, _, _ => bad
    | ["cmpi", p, rd, t, a, b] =>
      match parseNat? p, parseNat? rd, parseNat? t, parseNat? a, parseNat? b with
      | some p, some rd, some t, some a, some b =>
        match lowerCmpi p rd t a b with
        | none => ((), "none")
        | some out => ((), "some " ++ showInstrs out)
      | _, _, _, _, _ => bad
    | _ => lineStep () line
  | _ => lineStep () line

end Xdsl.RiscV
