import XdslModel.X86
/-!
C21 (rules leg) — the scalar-integer patterns of the x86 back end as rules over the machine of
`XdslModel/X86.lean`.

* lowering patterns (`xdsl/backend/x86/lowering/`):
  `ArithConstantToX86`, `ArithBinaryToX86` (`arith.addi`, `arith.muli`; the float entries of the table
  are outside this model), `LowerFuncOp` (entry sequence: register- and stack-carried parameters),
  `LowerReturnOp`, `PtrAddToX86`, `PtrLoadToX86` / `PtrStoreToX86` on non-vector values.
  `convert_vector_to_x86.py` has no scalar-integer pattern; there is no `convert_memref_to_x86.py`.
* canonicalization patterns (`xdsl/transforms/canonicalization_patterns/x86.py`):
  `RemoveRedundantDS_Mov`, `RS_Add_Zero`, `DM_Operation_ConstantOffset`, `MS_Operation_ConstantOffset`.

A rule maps the source operation (kind, type, attribute, the registers that hold its operands and the
new temporaries) to the instruction list the real pattern emits, or says that the pattern leaves the
operation alone (`nomatch`) / raises (`raise`: the pipeline does not compile the program).
Registers are natural numbers: `< 16` is a physical register (hardware encoding), `≥ 16` an
unallocated SSA value of register type.

The machine is extended (`XInstr`) by loads and stores through an arbitrary base register
(`mov r, [b+k]`, `mov [b+k], r`), which the pointer patterns need; memory stays qword-granular as in
`X86.lean` (a slot is named by its address; a narrower store replaces the low bits of the slot — the
little-endian picture under the model's standing assumption that distinct slots do not overlap).

Protocol (model `x86_rules`), one answer line each:
  `const <int|other> <ty> <c> <t>` · `bin <addi|muli|other> <ty> <t> <lhs> <rhs>`
  `entry <body|nobody> | <ty>* | <outty>* | <t>*` · `ret | <ty>* | <v>*`
  `ptradd <t> <p> <off>` · `ptrload <ty> <d> <p>` · `ptrstore <ty> <p> <v>`
      → `nomatch` | `raise` | `vector` | `ok <instr> ; <instr> …`
  `canon <Pattern> | <fact> ; … | <instr>`  → `none` | `some <instr> ; …`
      fact = `c <r> <v>` (get_constant_value r = v) | `ma <m> <b> <v>` (m := (mov b) + constant v)
  `xrun <r>=<v> … | <addr>=<v> … | <instr> ; … | <reg>* | <addr>*` → register / memory values after the run
  `prog <sz> <nargs> <ret> <base> | <sop> ; …` → `none` | `some <instr> ; …`   (sop as in model `x86`: `c n`, `a i j`, `m i j`)
  ty = `i<N>` | `f<N>` | `index` | `ptr` | `vector` | `shaped` | `other`
-/
namespace Xdsl.X86.Lower
open Xdsl.X86

/-! ## machine extension: memory operands with an arbitrary base register -/

inductive XInstr
  | base (i : Instr)
  /-- `mov d, [b+k]` at operand size `sz` -/
  | ldm (sz : Sz) (d b : Nat) (k : Int)
  /-- `mov [b+k], s` at operand size `sz` -/
  | stm (sz : Sz) (b : Nat) (k : Int) (s : Nat)
deriving DecidableEq, Repr

def maddr (σ : St) (b : Nat) (k : Int) : W := σ.reg b + BitVec.ofInt 64 k

/-- content of a memory slot holding `old` after a store of `v` at operand size `sz`
(no zero extension in memory: every narrow store keeps the upper bits of the slot) -/
def mwr (sz : Sz) (old v : W) : W :=
  match sz with
  | .q => v
  | .d => old - (old.setWidth 32).setWidth 64 + (v.setWidth 32).setWidth 64
  | .w => old - (old.setWidth 16).setWidth 64 + (v.setWidth 16).setWidth 64
  | .b => old - (old.setWidth 8).setWidth 64 + (v.setWidth 8).setWidth 64

def xstep : XInstr → St → St
  | .base i, σ => step i σ
  | .ldm sz d b k, σ => setReg σ d (wr sz (σ.reg d) (σ.mem (maddr σ b k)))
  | .stm sz b k s, σ => setMem σ (maddr σ b k) (mwr sz (σ.mem (maddr σ b k)) (σ.reg s))

def xexec (l : List XInstr) (σ : St) : St := l.foldl (fun s i => xstep i s) σ

/-- plain instructions of the base machine inside the extended one -/
def lift (l : List Instr) : List XInstr := l.map XInstr.base

/-! ## source types, as far as the patterns look at them -/

inductive Ty
  /-- `iN` / `siN` / `uiN` (a `FixedBitwidthType`) -/
  | int (w : Nat)
  /-- a float type of `w` bits (also a `FixedBitwidthType`) -/
  | float (w : Nat)
  | index
  | ptr
  /-- `VectorType` (a `ShapedType`) -/
  | vector
  /-- any other `ShapedType`: tensor, memref -/
  | shaped
  | other
deriving DecidableEq, Repr

def Ty.bitwidth? : Ty → Option Nat
  | .int w => some w
  | .float w => some w
  | _ => none

def Ty.isShaped : Ty → Bool
  | .vector => true
  | .shaped => true
  | _ => false

/-- `X86Arch._scalar_type_for_type`: the general-purpose register class of a scalar type
(`none`: `DiagnosticException("Register type for type … not supported.")`) -/
def regSz (t : Ty) : Option Sz :=
  match t with
  | .int w | .float w =>
    if w = 64 then some .q else if w = 32 then some .d else if w = 16 then some .w
    else if w = 8 then some .b else none
  | .index => some .q
  | .ptr => some .q
  | _ => none

/-- what a pattern does with an operation -/
inductive Out
  /-- the pattern does not apply; the operation stays -/
  | nomatch
  /-- the pattern raises; the program is not compiled -/
  | raise
  /-- vector code is emitted (outside the scalar model) -/
  | vector
  | ok (l : List XInstr)
deriving DecidableEq, Repr

/-- `si32` range of the immediate of `x86.di.mov` -/
def fitsSI32 (c : Int) : Bool := decide (-2147483648 ≤ c) && decide (c ≤ 2147483647)

/-! ## convert_arith_to_x86.py -/

/-- code of a constant: `mov t, c` -/
def constCode (sz : Sz) (t : Nat) (c : Int) : List Instr := [.movi sz t c]

/-- code of a binary operation: copy the right operand, update the copy in place with the left one -/
def binCode (op : Alu) (sz : Sz) (t lhs rhs : Nat) : List Instr := [.mov sz t rhs, .alu op sz t lhs]

/-- code of a return: `mov rax, v ; ret` (`rax` named at the operand size) -/
def retCode (sz : Sz) (v : Nat) : List Instr := [.mov sz RAX v, .ret]

/-- `ArithConstantToX86`: `arith.constant c : ty` into the new register `t`.
`isInt`: the value attribute is an `IntegerAttr`. -/
def lowerConstant (isInt : Bool) (ty : Ty) (c : Int) (t : Nat) : Out :=
  if !isInt then .raise
  else
    match regSz ty with
    | none => .raise
    | some sz => if fitsSI32 c then .ok (lift (constCode sz t c)) else .raise

/-- the integer rows of `X86_OP_BY_ARITH_BINARY_OP`; `other` = an operation that is not in the table -/
inductive BinKind | addi | muli | other
deriving DecidableEq, Repr

def BinKind.alu? : BinKind → Option Alu
  | .addi => some .add
  | .muli => some .imul
  | .other => none

/-- `ArithBinaryToX86`: `t` is the copy of the right operand that the operation updates in place;
`lhs`, `rhs` hold the operands. -/
def lowerBinary (k : BinKind) (ty : Ty) (t lhs rhs : Nat) : Out :=
  match k.alu? with
  | none => .nomatch
  | some op =>
    if ty.isShaped then .raise
    else if k = .muli ∧ ty.bitwidth? = some 8 then .raise
    else
      match regSz ty with
      | none => .raise
      | some sz => .ok (lift (binCode op sz t lhs rhs))

/-! ## convert_func_to_x86_func.py -/

/-- how parameter `i` (of register class `sz`) reaches its new register `t`:
`rdi, rsi, rdx, rcx, r8, r9`, then `[rsp+8]`, `[rsp+16]`, … -/
def argInstr (i : Nat) (sz : Sz) (t : Nat) : Instr :=
  if i < 6 then .mov sz t (argReg i) else .load sz t ((8 * (i - 6 + 1) : Nat) : Int)

def entryFrom (i : Nat) : List (Sz × Nat) → List Instr
  | [] => []
  | (sz, t) :: r => argInstr i sz t :: entryFrom (i + 1) r

def tooWide (t : Ty) : Bool :=
  match t.bitwidth? with
  | some w => decide (64 < w)
  | none => false

/-- `LowerFuncOp`: parameter types, result types, one new register per parameter -/
def lowerFuncEntry (hasBody : Bool) (tys outs : List Ty) (temps : List Nat) : Out :=
  if !hasBody then .raise
  else if tys.any (fun t => t.isShaped || tooWide t) then .raise
  else
    match tys.mapM regSz with
    | none => .raise
    | some szs =>
      let code := Out.ok (lift (entryFrom 0 (szs.zip temps)))
      match outs with
      | [o] => if o = .vector then .vector else if (regSz o).isSome then code else .raise
      | _ => code

/-- `LowerReturnOp`: types and registers of the returned values -/
def lowerReturn (tys : List Ty) (vals : List Nat) : Out :=
  match tys, vals with
  | [], _ => .ok [.base .ret]
  | [ty], [v] =>
    if ty.isShaped then .raise
    else if tooWide ty then .raise
    else
      match regSz ty with
      | none => .raise
      | some sz => .ok (lift (retCode sz v))
  | _, _ => .raise

/-! ## whole straight-line functions: `convert-func-to-x86-func` then `convert-arith-to-x86`

The source language is `X86.Src` (constants, `addi`, `muli` over one integer type).  Every SSA value
gets its own unallocated register: parameter `i` the register `base + i`, operation `k` the register
`base + nargs + k` — the numbering in which the real passes create them. -/

/-- `regs[j]` is the register of SSA value `j`; `next` the next new register.
Returns the code and the registers of all values. -/
def lowerBody (sz : Sz) : Nat → List Nat → List SOp → Option (List Instr × List Nat)
  | _, regs, [] => some ([], regs)
  | next, regs, .const c :: r =>
    if fitsSI32 c then
      match lowerBody sz (next + 1) (regs ++ [next]) r with
      | some (code, regs') => some (constCode sz next c ++ code, regs')
      | none => none
    else none
  | next, regs, .add a b :: r =>
    match regs[a]?, regs[b]? with
    | some ra, some rb =>
      match lowerBody sz (next + 1) (regs ++ [next]) r with
      | some (code, regs') => some (binCode .add sz next ra rb ++ code, regs')
      | none => none
    | _, _ => none
  | next, regs, .mul a b :: r =>
    if sz = .b then none
    else
      match regs[a]?, regs[b]? with
      | some ra, some rb =>
        match lowerBody sz (next + 1) (regs ++ [next]) r with
        | some (code, regs') => some (binCode .imul sz next ra rb ++ code, regs')
        | none => none
      | _, _ => none

def paramRegs (base nargs : Nat) : List Nat := (List.range nargs).map (base + ·)

/-- the whole function: label, entry sequence, body, return -/
def lowerSrc (s : Src) (base : Nat) : Option (List Instr) :=
  let temps := paramRegs base s.nargs
  match lowerBody s.sz (base + s.nargs) temps s.ops with
  | some (code, regs) =>
    match regs[s.ret]? with
    | some v => some (.label :: (entryFrom 0 (temps.map fun t => (s.sz, t)) ++ code ++ retCode s.sz v))
    | none => none
  | none => none

/-! ## convert_ptr_to_x86.py (scalar part) -/

/-- `PtrAddToX86`: `t` is the copy of the pointer that is updated in place -/
def lowerPtrAdd (t p off : Nat) : Out :=
  .ok [.base (.mov .q t p), .base (.alu .add .q t off)]

/-- `PtrLoadToX86` on a non-vector value type: the destination register has the class of the
*address* (64 bits) whatever the value type -/
def lowerPtrLoad (ty : Ty) (d p : Nat) : Out :=
  if ty = .vector then .vector else .ok [.ldm .q d p 0]

/-- `PtrStoreToX86` on a non-vector value type -/
def lowerPtrStore (ty : Ty) (p v : Nat) : Out :=
  if ty = .vector then .vector
  else
    match regSz ty with
    | none => .raise
    | some sz => .ok [.stm sz p 0 v]

/-! ## canonicalization_patterns/x86.py -/

inductive Fact
  /-- `get_constant_value r = c` (an `x86.di.mov`, possibly behind `x86.ds.mov` copies) -/
  | const (r : Nat) (c : Int)
  /-- `m` is the result of `x86.rs.add` whose `register_in` is an `x86.ds.mov` of `b` and whose
  `source` is the constant `c` -/
  | movAdd (m b : Nat) (c : Int)
deriving DecidableEq, Repr

def constOf : List Fact → Nat → Option Int
  | [], _ => none
  | .const r c :: fs, x => if r = x then some c else constOf fs x
  | _ :: fs, x => constOf fs x

def movAddOf : List Fact → Nat → Option (Nat × Int)
  | [], _ => none
  | .movAdd m b c :: fs, x => if m = x then some (b, c) else movAddOf fs x
  | _ :: fs, x => movAddOf fs x

def allocated (r : Nat) : Bool := decide (r < 16)

namespace Canon

def removeRedundantDSMov : XInstr → Option (List XInstr)
  | .base (.mov _ d s) => if d = s ∧ allocated d then some [] else none
  | _ => none

def rsAddZero (fs : List Fact) : XInstr → Option (List XInstr)
  | .base (.alu .add _ _ s) => if constOf fs s = some 0 then some [] else none
  | _ => none

/-- `guarded`: the pattern only looks through a copy that has no register yet (code before register
allocation, where SSA still says that `b` holds its value); the pinned code has no such guard.
In this instruction-level model the copy, the sum and the memory operand `m` are one register. -/
def dmConstantOffset (guarded : Bool) (fs : List Fact) : XInstr → Option (List XInstr)
  | .ldm sz d m k =>
    match movAddOf fs m with
    | some (b, c) => if guarded && allocated m then none else some [.ldm sz d b (k + c)]
    | none => none
  | _ => none

def msConstantOffset (guarded : Bool) (fs : List Fact) : XInstr → Option (List XInstr)
  | .stm sz m k s =>
    match movAddOf fs m with
    | some (b, c) => if guarded && allocated m then none else some [.stm sz b (k + c) s]
    | none => none
  | _ => none

end Canon

def canonTable : List (String × (List Fact → XInstr → Option (List XInstr))) :=
  [("RemoveRedundantDS_Mov", fun _ => Canon.removeRedundantDSMov),
   ("RS_Add_Zero", Canon.rsAddZero),
   ("DM_Operation_ConstantOffset", Canon.dmConstantOffset false),
   ("MS_Operation_ConstantOffset", Canon.msConstantOffset false),
   ("DM_Operation_ConstantOffset.guarded", Canon.dmConstantOffset true),
   ("MS_Operation_ConstantOffset.guarded", Canon.msConstantOffset true)]

def lookupCanon (name : String) :
    List (String × (List Fact → XInstr → Option (List XInstr))) →
    Option (List Fact → XInstr → Option (List XInstr))
  | [] => none
  | (n, f) :: rest => if n = name then some f else lookupCanon name rest

def canon (name : String) (fs : List Fact) (ins : XInstr) : Option (List XInstr) :=
  match lookupCanon name canonTable with
  | some f => f fs ins
  | none => none

/-! ## line protocol -/

def showX : XInstr → String
  | .base i => showInstr i
  | .ldm sz d b k => s!"ldm {showSz sz} {d} {b} {k}"
  | .stm sz b k s => s!"stm {showSz sz} {b} {k} {s}"

def showXs (l : List XInstr) : String := " ; ".intercalate (l.map showX)

def showOut : Out → String
  | .nomatch => "nomatch"
  | .raise => "raise"
  | .vector => "vector"
  | .ok [] => "ok"
  | .ok l => "ok " ++ showXs l

/-- like `X86.parseInstr`, but register operands may be virtual (any natural number) -/
def parseXInstr : List String → Option XInstr
  | ["mov", sz, d, s] => do pure (.base (.mov (← parseSz sz) (← d.toNat?) (← s.toNat?)))
  | ["movi", sz, d, imm] => do pure (.base (.movi (← parseSz sz) (← d.toNat?) (← imm.toInt?)))
  | ["ld", sz, d, k] => do pure (.base (.load (← parseSz sz) (← d.toNat?) (← k.toInt?)))
  | ["st", k, s] => do pure (.base (.store (← k.toInt?) (← s.toNat?)))
  | ["alu", op, sz, d, s] => do pure (.base (.alu (← parseAlu op) (← parseSz sz) (← d.toNat?) (← s.toNat?)))
  | ["push", s] => do pure (.base (.push (← s.toNat?)))
  | ["pop", d] => do pure (.base (.pop (← d.toNat?)))
  | ["ret"] => some (.base .ret)
  | ["label"] => some (.base .label)
  | ["ldm", sz, d, b, k] => do pure (.ldm (← parseSz sz) (← d.toNat?) (← b.toNat?) (← k.toInt?))
  | ["stm", sz, b, k, s] => do pure (.stm (← parseSz sz) (← b.toNat?) (← k.toInt?) (← s.toNat?))
  | _ => none

def parseTy (s : String) : Option Ty :=
  match s with
  | "index" => some .index
  | "ptr" => some .ptr
  | "vector" => some .vector
  | "shaped" => some .shaped
  | "other" => some .other
  | _ =>
    if s.startsWith "i" then (s.drop 1).toNat?.map Ty.int
    else if s.startsWith "f" then (s.drop 1).toNat?.map Ty.float
    else none

def parseBinKind : String → Option BinKind
  | "addi" => some .addi
  | "muli" => some .muli
  | "other" => some .other
  | _ => none

def parseFact : List String → Option Fact
  | ["c", r, v] => do pure (.const (← r.toNat?) (← v.toInt?))
  | ["ma", m, b, v] => do pure (.movAdd (← m.toNat?) (← b.toNat?) (← v.toInt?))
  | _ => none

/-- `<key>=<value>` -/
def parseBinding (t : String) : Option (W × W) :=
  match t.splitOn "=" with
  | [k, v] => do pure (BitVec.ofNat 64 (← k.toNat?), BitVec.ofNat 64 (← v.toNat?))
  | _ => none

/-- registers not mentioned by an `xrun` line -/
def defaultReg (r : Nat) : W := BitVec.ofNat 64 (0x5A5A000000000000 + 0x1111 * r)

/-- memory slots not mentioned by an `xrun` line -/
def defaultMem (a : W) : W := a * 0x9E3779B97F4A7C15#64 + 0xC0DE#64

def mkState (regs mems : List (W × W)) : St :=
  { reg := fun r => match regs.find? (fun p => p.1 = BitVec.ofNat 64 r) with
      | some p => p.2
      | none => defaultReg r
    mem := fun a => match mems.find? (fun p => p.1 = a) with
      | some p => p.2
      | none => defaultMem a }

def lineStep (_ : Unit) (line : String) : Unit × String :=
  let bad := ((), "bad-op")
  match splitToks "|" (words line) with
  | [["const", kind, ty, c, t]] =>
    match parseTy ty, c.toInt?, t.toNat? with
    | some ty, some c, some t =>
      if kind = "int" then ((), showOut (lowerConstant true ty c t))
      else if kind = "other" then ((), showOut (lowerConstant false ty c t))
      else bad
    | _, _, _ => bad
  | [["bin", k, ty, t, l, r]] =>
    match parseBinKind k, parseTy ty, t.toNat?, l.toNat?, r.toNat? with
    | some k, some ty, some t, some l, some r => ((), showOut (lowerBinary k ty t l r))
    | _, _, _, _, _ => bad
  | [["entry", body], tys, outs, temps] =>
    match tys.mapM parseTy, outs.mapM parseTy, temps.mapM (·.toNat?) with
    | some tys, some outs, some temps =>
      if body = "body" then ((), showOut (lowerFuncEntry true tys outs temps))
      else if body = "nobody" then ((), showOut (lowerFuncEntry false tys outs temps))
      else bad
    | _, _, _ => bad
  | [["ret"], tys, vals] =>
    match tys.mapM parseTy, vals.mapM (·.toNat?) with
    | some tys, some vals => ((), showOut (lowerReturn tys vals))
    | _, _ => bad
  | [["ptradd", t, p, o]] =>
    match t.toNat?, p.toNat?, o.toNat? with
    | some t, some p, some o => ((), showOut (lowerPtrAdd t p o))
    | _, _, _ => bad
  | [["ptrload", ty, d, p]] =>
    match parseTy ty, d.toNat?, p.toNat? with
    | some ty, some d, some p => ((), showOut (lowerPtrLoad ty d p))
    | _, _, _ => bad
  | [["ptrstore", ty, p, v]] =>
    match parseTy ty, p.toNat?, v.toNat? with
    | some ty, some p, some v => ((), showOut (lowerPtrStore ty p v))
    | _, _, _ => bad
  | [["canon", name], facts, ins] =>
    match parseList parseFact facts, parseXInstr ins with
    | some fs, some i =>
      match canon name fs i with
      | none => ((), "none")
      | some [] => ((), "some")
      | some out => ((), "some " ++ showXs out)
    | _, _ => bad
  | [["prog", sz, nargs, ret, base], ops] =>
    match parseSz sz, nargs.toNat?, ret.toNat?, base.toNat?, parseList parseSOp ops with
    | some sz, some nargs, some ret, some base, some ops =>
      match lowerSrc { sz := sz, nargs := nargs, ops := ops, ret := ret } base with
      | some code => ((), "some " ++ " ; ".intercalate (code.map showInstr))
      | none => ((), "none")
    | _, _, _, _, _ => bad
  | ["xrun" :: regs, mems, prog, outRegs, outMems] =>
    match regs.mapM parseBinding, mems.mapM parseBinding, parseList parseXInstr prog,
        outRegs.mapM (·.toNat?), outMems.mapM (·.toNat?) with
    | some regs, some mems, some prog, some outRegs, some outMems =>
      let σ := xexec prog (mkState regs mems)
      let rs := outRegs.map fun r => s!"{r}={(σ.reg r).toNat}"
      let ms := outMems.map fun a => s!"{a}={(σ.mem (BitVec.ofNat 64 a)).toNat}"
      ((), " ".intercalate rs ++ " | " ++ " ".intercalate ms)
    | _, _, _, _, _ => bad
  | _ => bad

end Xdsl.X86.Lower
