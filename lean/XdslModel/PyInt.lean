/-!
Python `int` operators on Lean `Int` (unbounded, like Python's).  These are the primitives the
translator (`harness/translate/py2lean.py`) emits; `XdslProofs/Lemmas/PyInt.lean` proves them equal
to the Mathlib/core notions used in proofs.
-/
namespace Xdsl.Py

/-- Python `a // b` (floor division); `b = 0` raises in Python and is guarded by callers. -/
def floordiv (a b : Int) : Int := Int.fdiv a b
/-- Python `a % b` (sign of the divisor). -/
def mod (a b : Int) : Int := Int.fmod a b
/-- Python `a << b` for `b ≥ 0` (negative `b` raises in Python). -/
def shl (a b : Int) : Int := a * 2 ^ b.toNat
/-- Python `a >> b` for `b ≥ 0`: floor shift. -/
def shr (a b : Int) : Int := Int.fdiv a (2 ^ b.toNat)
def abs (a : Int) : Int := if a < 0 then -a else a
def min (a b : Int) : Int := if b < a then b else a
def max (a b : Int) : Int := if b > a then b else a

def natLdiff (m n : Nat) : Nat := Nat.bitwise (fun a b => a && !b) m n

/-- Python `a & b` on unbounded two's-complement integers. -/
def land : Int → Int → Int
  | .ofNat m, .ofNat n => Int.ofNat (m &&& n)
  | .ofNat m, .negSucc n => Int.ofNat (natLdiff m n)
  | .negSucc m, .ofNat n => Int.ofNat (natLdiff n m)
  | .negSucc m, .negSucc n => .negSucc (m ||| n)

/-- Python `a | b`. -/
def lor : Int → Int → Int
  | .ofNat m, .ofNat n => Int.ofNat (m ||| n)
  | .ofNat m, .negSucc n => .negSucc (natLdiff n m)
  | .negSucc m, .ofNat n => .negSucc (natLdiff m n)
  | .negSucc m, .negSucc n => .negSucc (m &&& n)

/-- Python `a ^ b`. -/
def xor : Int → Int → Int
  | .ofNat m, .ofNat n => Int.ofNat (m ^^^ n)
  | .ofNat m, .negSucc n => .negSucc (m ^^^ n)
  | .negSucc m, .ofNat n => .negSucc (m ^^^ n)
  | .negSucc m, .negSucc n => Int.ofNat (m ^^^ n)

/-- Python `~a`. -/
def lnot (a : Int) : Int := -a - 1

end Xdsl.Py
