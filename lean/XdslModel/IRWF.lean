import XdslModel.IRStore
/-!
# Executable well-formedness checker for a pointer-level snapshot of real xDSL IR (C17)

C17 ("every registered pass that succeeds leaves valid, printable IR … never leaves erased values in
use, dangling successors or broken parent links") models no pass.  What the Lean side contributes
is a *decision procedure* for the structural half of the statement, run on a snapshot of the real
module after every successful pass:

* the snapshot is an `IRStore` (the pointer-level store of C01: `_next_op/_prev_op/parent`,
  `_first_op/_last_op`, `_next_block/…`, `first_use/_next_use/_prev_use`, operand / successor /
  result / argument / region tuples, `_operand_uses/_successor_uses`, `index` fields), serialised
  by `harness/props/c17.py` from every object reachable from the module through any pointer;
* `invClauses s` decides the C01 invariant `Inv s` clause by clause (the answer names the violated
  clauses); `rootedClauses s root` decides the C17-specific clauses: every operand of an operation
  attached below `root` is a result of an attached operation / an argument of an attached block and
  still listed by its owner ("no erased values in use"), every successor of an attached operation
  is a block of the region the operation sits in ("no dangling successors").

Soundness (`invB s = true → Inv s`) and the exact characterisation of the rooted clauses are proved
in `XdslProofs/C17.lean`.  No proofs here (the native driver links this file).

Line protocol of the driver model `ir_wf` (lists are comma separated, `-` = none / empty):
```
reset
o  <id> <parent block> <next> <prev> <operands> <operand uses> <results> <successors> <successor uses> <regions>
b  <id> <parent region> <next> <prev> <first op> <last op> <args> <first use> <last use>
r  <id> <parent op> <first block> <last block>
v  <id> <r|a|e> <owner> <index> <first use> <last use>
u  <v|b> <id> <user op> <index> <next> <prev> <value or block whose chain holds it>
check <root op>      →  `ok`  |  `fail <clause>,<clause>…`
```
-/
namespace Xdsl.IRWF
open Xdsl Xdsl.DLL Xdsl.IR

/-! ## one family of intrusive lists -/

/-- all container lists, computed once -/
def listsOf (l : L) : AL Nat (List Nat) := l.ends.map (fun p => (p.1, l.toList p.1))

/-- `l.toList c`, looked up in the table -/
def lst (t : AL Nat (List Nat)) (c : Nat) : List Nat := (AL.get t c).getD []

/-- every member of `xs` has exactly the links that spell out `xs` (first element: `prev`) and
points back to `c` -/
def linkGo (l : L) (c : Nat) : Option Nat → List Nat → Bool
  | _, [] => true
  | prev, x :: r =>
    decide (l.nd x = { next := r.head?, prev := prev, parent := some c }) && linkGo l c (some x) r

/-- `first/last` are the ends of the traversal, the links spell it out forward and backward, no
node occurs twice -/
def repB (l : L) (c : Nat) (xs : List Nat) : Bool :=
  decide ((l.en c).first = xs.head?) && decide ((l.en c).last = xs.getLast?) &&
  linkGo l c none xs && decide xs.Nodup

/-- a node with an entry is either unlinked or a member of the list of its parent -/
def freeB (l : L) (t : AL Nat (List Nat)) : Bool :=
  l.node.all fun p =>
    let x := l.nd p.1
    decide (x = {}) || (match x.parent with
      | some c => (lst t c).contains p.1
      | none => false)

def wfB (l : L) : Bool :=
  let t := listsOf l
  l.ends.all (fun p => repB l p.1 (lst t p.1)) && freeB l t

/-! ## the store -/

/-- `UseInv` of C01 for one kind of use list -/
def usesFwdB (s : IRStore) (pos uid : OpData → List Nat) (t : AL Nat (List Nat)) : Bool :=
  s.ops.all fun p =>
    match AL.get s.ops p.1 with
    | none => true
    | some d =>
      decide ((uid d).length = (pos d).length) &&
      ((uid d).zip (pos d)).zipIdx.all fun q =>
        decide (s.use! q.1.1 = (p.1, q.2)) && (lst t q.1.2).contains q.1.1

def usesBwdB (s : IRStore) (pos uid : OpData → List Nat) (l : L) (t : AL Nat (List Nat)) : Bool :=
  l.ends.all fun p =>
    (lst t p.1).all fun u =>
      decide (u < s.nextUse) &&
      (match AL.get s.ops (s.use! u).1 with
       | none => false
       | some d => decide ((uid d)[(s.use! u).2]? = some u) && decide ((pos d)[(s.use! u).2]? = some p.1))

def resultsB (s : IRStore) : Bool :=
  s.ops.all fun p =>
    match AL.get s.ops p.1 with
    | none => true
    | some d => d.results.zipIdx.all fun q =>
      match AL.get s.vals q.1 with
      | none => false
      | some x => decide (x.kind = .result) && decide (x.owner = p.1) && decide (x.index = q.2)

def argsB (s : IRStore) : Bool :=
  s.blocks.all fun p =>
    match AL.get s.blocks p.1 with
    | none => true
    | some d => d.args.zipIdx.all fun q =>
      match AL.get s.vals q.1 with
      | none => false
      | some x => decide (x.kind = .arg) && decide (x.owner = p.1) && decide (x.index = q.2)

def regionsB (s : IRStore) : Bool :=
  (s.ops.all fun p =>
    match AL.get s.ops p.1 with
    | none => true
    | some d => decide d.regions.Nodup && d.regions.all fun r => decide (s.regionParent r = some p.1)) &&
  (s.regions.all fun p =>
    match s.regionParent p.1 with
    | none => true
    | some o => match AL.get s.ops o with
      | none => false
      | some d => d.regions.contains p.1)

def regOpsB (s : IRStore) (t : AL Nat (List Nat)) : Bool :=
  s.opL.ends.all fun p => (lst t p.1).all fun o => (AL.get s.ops o).isSome && (AL.get s.blocks p.1).isSome

def regBlocksB (s : IRStore) (t : AL Nat (List Nat)) : Bool :=
  s.blockL.ends.all fun p => (lst t p.1).all fun b => (AL.get s.blocks b).isSome && (AL.get s.regions p.1).isSome

/-- the clauses of the C01 invariant, each with the name reported to the harness -/
def invTable (s : IRStore) : List (String × Bool) :=
  let to := listsOf s.opL
  let tb := listsOf s.blockL
  let tv := listsOf s.vuseL
  let tu := listsOf s.buseL
  [ ("op-list", wfB s.opL && regOpsB s to),
    ("block-list", wfB s.blockL && regBlocksB s tb),
    ("region-list", regionsB s),
    ("use-list", wfB s.vuseL && usesFwdB s (·.operands) (·.operandUses) tv &&
        usesBwdB s (·.operands) (·.operandUses) s.vuseL tv),
    ("block-use-list", wfB s.buseL && usesFwdB s (·.successors) (·.successorUses) tu &&
        usesBwdB s (·.successors) (·.successorUses) s.buseL tu),
    ("result-index", resultsB s),
    ("arg-index", argsB s) ]

def failing (t : List (String × Bool)) : List String := (t.filter (fun p => !p.2)).map (·.1)

def invB (s : IRStore) : Bool := (invTable s).all (·.2)

/-! ## the clauses of C17 proper, relative to the root operation (the module) -/

/-- `root.is_ancestor(x)` as xDSL computes it: follow parent pointers upwards -/
def attachedB (s : IRStore) (root : Nat) (x : Ref) : Bool := s.isAncestor (.op root) x

/-- the value is a result of an attached operation / an argument of an attached block, and its owner
still lists it at its `index` -/
def liveValB (s : IRStore) (root v : Nat) : Bool :=
  match AL.get s.vals v with
  | none => false
  | some x =>
    match x.kind with
    | .result => attachedB s root (.op x.owner) &&
        (match AL.get s.ops x.owner with
         | none => false
         | some d => decide (d.results[x.index]? = some v))
    | .arg => attachedB s root (.block x.owner) &&
        (match AL.get s.blocks x.owner with
         | none => false
         | some d => decide (d.args[x.index]? = some v))
    | .erased => false

def rootB (s : IRStore) (root : Nat) : Bool := (AL.get s.ops root).isSome && decide (s.opParent root = none)

def operandsLiveB (s : IRStore) (root : Nat) : Bool :=
  s.ops.all fun p =>
    match AL.get s.ops p.1 with
    | none => true
    | some d => !attachedB s root (.op p.1) || d.operands.all (liveValB s root)

/-- the successor is a block of the region that holds the block of the operation -/
def succLocalB (s : IRStore) (o b : Nat) : Bool :=
  match s.opParent o with
  | none => false
  | some ob => match s.blockParent ob with
    | none => false
    | some r => decide (s.blockParent b = some r)

def succsLocalB (s : IRStore) (root : Nat) : Bool :=
  s.ops.all fun p =>
    match AL.get s.ops p.1 with
    | none => true
    | some d => !attachedB s root (.op p.1) || d.successors.all (succLocalB s p.1)

def rootedTable (s : IRStore) (root : Nat) : List (String × Bool) :=
  [ ("root", rootB s root),
    ("erased-value-in-use", operandsLiveB s root),
    ("dangling-successor", succsLocalB s root) ]

def rootedB (s : IRStore) (root : Nat) : Bool := (rootedTable s root).all (·.2)

/-- the verdict on one snapshot -/
def checkB (s : IRStore) (root : Nat) : Bool := invB s && rootedB s root

def verdict (s : IRStore) (root : Nat) : String :=
  match failing (invTable s ++ rootedTable s root) with
  | [] => "ok"
  | l => "fail " ++ ",".intercalate l

/-! ## line protocol -/

def pOpt (w : String) : Option (Option Nat) :=
  if w == "-" then some none else w.toNat?.map some

def pNats (w : String) : Option (List Nat) :=
  if w == "-" then some [] else (w.splitOn ",").mapM (·.toNat?)

def pKind (w : String) : Option VKind :=
  match w with
  | "r" => some .result
  | "a" => some .arg
  | "e" => some .erased
  | _ => none

def addNode (l : L) (n : Nat) (x : Node) : L := { l with node := (n, x) :: l.node }
def addEnds (l : L) (c : Nat) (e : Ends) : L := { l with ends := (c, e) :: l.ends }

def parseLine (s : IRStore) (ws : List String) : Option IRStore :=
  match ws with
  | ["o", id, par, nx, pv, operands, ouses, results, succs, suses, regions] => do
    let id ← id.toNat?
    let par ← pOpt par; let nx ← pOpt nx; let pv ← pOpt pv
    let operands ← pNats operands; let ouses ← pNats ouses; let results ← pNats results
    let succs ← pNats succs; let suses ← pNats suses; let regions ← pNats regions
    pure { s with
      ops := (id, { operands := operands, operandUses := ouses, results := results,
                    successors := succs, successorUses := suses, regions := regions }) :: s.ops,
      opL := addNode s.opL id { next := nx, prev := pv, parent := par } }
  | ["b", id, par, nx, pv, first, last, args, uf, ul] => do
    let id ← id.toNat?
    let par ← pOpt par; let nx ← pOpt nx; let pv ← pOpt pv
    let first ← pOpt first; let last ← pOpt last; let args ← pNats args
    let uf ← pOpt uf; let ul ← pOpt ul
    pure { s with
      blocks := (id, { args := args }) :: s.blocks,
      blockL := addNode s.blockL id { next := nx, prev := pv, parent := par },
      opL := addEnds s.opL id { first := first, last := last },
      buseL := addEnds s.buseL id { first := uf, last := ul } }
  | ["r", id, par, first, last] => do
    let id ← id.toNat?
    let par ← pOpt par; let first ← pOpt first; let last ← pOpt last
    pure { s with
      regions := (id, { parent := par }) :: s.regions,
      blockL := addEnds s.blockL id { first := first, last := last } }
  | ["v", id, kind, owner, index, uf, ul] => do
    let id ← id.toNat?
    let kind ← pKind kind; let owner ← owner.toNat?; let index ← index.toNat?
    let uf ← pOpt uf; let ul ← pOpt ul
    pure { s with
      vals := (id, { kind := kind, owner := owner, index := index }) :: s.vals,
      vuseL := addEnds s.vuseL id { first := uf, last := ul } }
  | ["u", k, id, op, index, nx, pv, par] => do
    let id ← id.toNat?
    let op ← op.toNat?; let index ← index.toNat?
    let nx ← pOpt nx; let pv ← pOpt pv; let par ← pOpt par
    let s := { s with uses := (id, (op, index)) :: s.uses, nextUse := max s.nextUse (id + 1) }
    if k == "v" then pure { s with vuseL := addNode s.vuseL id { next := nx, prev := pv, parent := par } }
    else if k == "b" then pure { s with buseL := addNode s.buseL id { next := nx, prev := pv, parent := par } }
    else none
  | _ => none

def lineStep (s : IRStore) (line : String) : IRStore × String :=
  match words line with
  | ["reset"] => ({}, "ok")
  | ["check", root] =>
    match root.toNat? with
    | some r => (s, verdict s r)
    | none => (s, "bad-op")
  | ws =>
    match parseLine s ws with
    | some s' => (s', "ok")
    | none => (s, "bad-op")

end Xdsl.IRWF
