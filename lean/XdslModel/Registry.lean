import XdslModel.Worklist
import XdslModel.ScopedDict
import XdslModel.DisjointSet
import XdslModel.Sem
import XdslModel.Dominance
import XdslModel.PostOrder
import XdslModel.Liveness
import XdslModel.AttrValue
import XdslModel.SymbolTable
import XdslModel.ArgSpec
import XdslModel.Constraint
import XdslModel.Affine
import XdslModel.OpDef
import XdslModel.StructEq
import XdslModel.Names
import XdslModel.Clone
import XdslModel.RegAlloc
import XdslModel.Literals
import XdslModel.IRApi
import XdslModel.RewriteDriver
import XdslModel.ParallelMov
import XdslModel.Loops
import XdslModel.DCE
import XdslModel.EGraph
import XdslModel.RiscVRules
import XdslModel.ArithFloatLogic
import XdslModel.LLVM
import XdslModel.X86
import XdslModel.Lexer
import XdslModel.ArithRules
import XdslModel.CSE
import XdslModel.DeclFormat
import XdslModel.PDL
import XdslModel.RiscVValidate
import XdslModel.IRWF
import XdslModel.Skeleton
import XdslModel.LowerAffine
import XdslModel.Excluded
import XdslModel.RiscVFrameFloat
import XdslModel.RawScan
import XdslModel.SsaNames
import XdslModel.X86Rules
import XdslModel.SSADom
import XdslModel.DCEMini
import XdslModel.RegAllocLoop
import XdslModel.DeclGeneric
import XdslModel.Verbatim
import XdslModel.PhysReg
import XdslModel.RiscVLabels
import XdslModel.ValueNames
/-!
Model registry for the driver: `MODEL <name>` selects a `(state, lineStep)` pair.
A continuation-passing encoding is used because the state types differ.
-/
namespace Xdsl.Registry

abbrev Runner := (∀ {σ : Type}, (σ → String → σ × String) → σ → IO Unit) → IO Unit

def run? (name : String) : Option Runner :=
  match name with
  | "worklist" => some fun k => k Worklist.lineStep {}
  | "scoped_dict" => some fun k => k ScopedDict.lineStep [[]]
  | "int_disjoint_set" => some fun k => k DisjointSet.lineStep {}
  | "sem" => some fun k => k Sem.lineStep {}
  | "dominance" => some fun k => k Dominance.lineStep ()
  | "post_order" => some fun k => k PostOrder.lineStep ()
  | "liveness" => some fun k => k Liveness.lineStep ({}, 0)
  | "attr_value" => some fun k => k AttrValue.lineStep {}
  | "symbol_table" => some fun k => k SymbolTable.lineStep none
  | "arg_spec" => some fun k => k ArgSpec.lineStep ()
  | "constraint" => some fun k => k Constraint.lineStep []
  | "affine" => some fun k => k Affine.lineStep ()
  | "op_def" => some fun k => k OpDef.lineStep {}
  | "struct_eq" => some fun k => k StructEq.lineStep ()
  | "names" => some fun k => k Names.lineStep [{}]
  | "clone" => some fun k => k Clone.lineStep {}
  | "regalloc" => some fun k => k RegAlloc.lineStep ()
  | "literals" => some fun k => k Literals.lineStep ()
  | "ir_store" => some fun k => k IR.lineStep {}
  | "rewrite_driver" => some fun k => k RewriteDriver.lineStep {}
  | "parallel_mov" => some fun k => k ParallelMov.lineStep ()
  | "loops" => some fun k => k Loops.lineStep ()
  | "dce" => some fun k => k DCE.lineStep ()
  | "egraph" => some fun k => k EGraph.lineStep ()
  | "riscv" => some fun k => k RiscV.rulesLineStep ()
  | "arith_float_logic" => some fun k => k ArithFloatLogic.lineStep ()
  | "llvm" => some fun k => k LLVM.lineStep {}
  | "x86" => some fun k => k X86.lineStep {}
  | "mlir_lexer" => some fun k => k Lexer.lineStep ()
  | "arith_rules" => some fun k => k ArithRules.lineStep ()
  | "cse" => some fun k => k CSE.lineStep ()
  | "decl_format" => some fun k => k DeclFormat.lineStep {}
  | "pdl" => some fun k => k PDL.lineStep {}
  | "riscv_validate" => some fun k => k RiscV.TV.lineStep ()
  | "ir_wf" => some fun k => k IRWF.lineStep {}
  | "skeleton" => some fun k => k Skeleton.lineStep ()
  | "disjoint_set" => some fun k => k DisjointSet.glineStep {}
  | "register_stack" => some fun k =>
      k RegAlloc.stackLineStep ({ z := false, allowInf := false, infBase := 1000 }, [{}])
  | "lower_affine" => some fun k => k LowerAffine.lineStep ()
  | "excluded_walk" => some fun k => k RegAlloc.walkLineStep ()
  | "riscv_frame" => some fun k => k RiscV.frameFloatLineStep ()
  | "raw_scan" => some fun k => k RawScan.lineStep ()
  | "ssa_names" => some fun k => k SsaNames.lineStep {}
  | "x86_rules" => some fun k => k X86.Lower.lineStep ()
  | "ssa_dom" => some fun k => k SSADom.lineStep ()
  | "dcemini" => some fun k => k DCEM.lineStep {}
  | "regalloc_loop" => some fun k => k RegAllocLoop.lineStep ()
  | "decl_generic" => some fun k => k DeclGeneric.lineStep {}
  | "verbatim" => some fun k => k Verbatim.lineStep ()
  | "physreg" => some fun k => k PhysReg.lineStep ()
  | "riscv_labels" => some fun k => k RiscV.Labels.lineStep ()
  | "value_names" => some fun k => k ValueNames.lineStep ()
  | "scoped_forest" => some fun k => k ScopedDict.flineStep [(none, [])]
  | _ => none

end Xdsl.Registry
