import XdslModel.Worklist
import XdslModel.ScopedDict
import XdslModel.DisjointSet
/-!
Model registry for the driver: `MODEL <name>` selects a `(state, lineStep)` pair.
A continuation-passing encoding is used because the state types differ.
-/
namespace Xdsl.Registry

abbrev Runner := (∀ {σ : Type}, (σ → String → σ × String) → σ → IO Unit) → IO Unit

def run? (name : String) : Option Runner :=
  match name with
  | "worklist" => some fun k => k Worklist.lineStep {}
  | "scoped_dict" => some fun k => k ScopedDict.lineStep [[]]
  | "int_disjoint_set" => some fun k => k DisjointSet.lineStep {}
  | _ => none

end Xdsl.Registry
