import XdslModel.DCE
import XdslModel.Sem
/-!
Dead-code elimination on MiniIR programs (C13, semantic preservation on the reference semantics
`XdslModel/Sem.lean`).

`AT` is the region tree of `XdslModel/DCE.lean` (`T`) in which every operation cell also carries the
MiniIR part of the operation (`MHdr`: name, results, operands, attributes, successors with their block
arguments) and every block cell the MiniIR block id and block arguments.  It has two projections:
`toT` forgets the MiniIR part (what the model of the pass `DCE.liveSet`/`DCE.del` looks at) and
`proj`/`toProg` forget the trait flags (the MiniIR program that `Sem.run` executes).  `delA` is
`DCE.del` carried over to `AT`: `toT (delA live a f m) = del live (toT a) f m` (proved in
`XdslProofs/Lemmas/DCEMiniDel.lean`), so `toProg (dceOnceA a).1` is the MiniIR program that the model
of `region_dce` leaves.

`zipT` builds the `AT` from the two serialisations the harness produces of one xDSL module (the tree
of `harness/props/c13_ir.py` with the real trait flags, the S-expression of `harness/vp/miniir.py`);
`cert` evaluates the decidable hypotheses of `dce_preserves_sem` (`XdslProofs/C13SemCFG.lean`).
-/
namespace Xdsl.DCEM
open Xdsl.DCE Xdsl.MiniIR Xdsl.Sem

/-- the MiniIR part of an operation (everything but its regions) -/
structure MHdr where
  name : String
  results : List (Nat × Ty)
  operands : List Nat
  attrs : List (String × Attr)
  succs : List (Nat × List Nat)
deriving Inhabited

inductive AT where
  | nil
  | op (h : Hdr) (m : MHdr) (regions : AT) (next : AT)
  | block (id : Nat) (args : List (Nat × Ty)) (ops : AT) (next : AT)
  | region (blocks : AT) (next : AT)
deriving Inhabited

/-- forget the MiniIR part -/
def toT : AT → T
  | .nil => .nil
  | .op h _ rs next => .op h (toT rs) (toT next)
  | .block _ _ ops next => .block (toT ops) (toT next)
  | .region bs next => .region (toT bs) (toT next)

def mkOp (m : MHdr) (rs : List Region) : Op := .mk m.name m.results m.operands m.attrs m.succs rs

/-- forget the trait flags: the operations / blocks / regions of a list of cells -/
def proj : AT → List Op × List Block × List Region
  | .nil => ([], [], [])
  | .op _ m rs next => (mkOp m (proj rs).2.2 :: (proj next).1, [], [])
  | .block i args ops next => ([], .mk i args (proj ops).1 :: (proj next).2.1, [])
  | .region bs next => ([], [], .mk (proj bs).2.1 :: (proj next).2.2)

def opsOf (a : AT) : List Op := (proj a).1
def blocksOf (a : AT) : List Block := (proj a).2.1
def regionsOf (a : AT) : List Region := (proj a).2.2

/-- value ids read by the operation itself: operands and the block arguments it passes on -/
def uses (m : MHdr) : List Nat := m.operands ++ m.succs.flatMap (·.2)

/-- all value ids defined in the tree: operation results and block arguments -/
def defsA : AT → List Nat
  | .nil => []
  | .op _ m rs next => m.results.map (·.1) ++ (defsA rs ++ defsA next)
  | .block _ args ops next => args.map (·.1) ++ (defsA ops ++ defsA next)
  | .region bs next => defsA bs ++ defsA next

/-! ## operation names as `Sem` treats them -/

/-- the names `Sem.runOp` gives a terminator meaning to -/
def termNames : List String :=
  ["func.return", "scf.yield", "affine.yield", "scf.condition", "cf.br", "cf.cond_br"]

/-- the operations whose regions `Sem.runOp` executes -/
def structNames : List String := ["scf.if", "scf.for", "scf.while", "affine.for"]

/-- the region-free operations that change the memory or the symref variables in `Sem.stateOp` -/
def mutNames : List String :=
  ["symref.update", "memref.alloc", "memref.alloca", "memref.store", "affine.store"]

/-- every other name: `Sem.runOp` evaluates it (if it knows it at all) without touching the effect
log, the memory or the symref variables, and binds its results only -/
def leafQuiet (n : String) : Bool :=
  !termNames.contains n && !structNames.contains n && n != "func.call" && !mutNames.contains n

/-- by its names, nothing in the tree can change the state of `Sem` except the value environment:
every operation is `leafQuiet`, a terminator, or a structured operation over such operations -/
def calm : AT → Bool
  | .nil => true
  | .op _ m rs next =>
    (leafQuiet m.name || termNames.contains m.name || (structNames.contains m.name && calm rs)) && calm next
  | .block _ _ ops next => calm ops && calm next
  | .region bs next => calm bs && calm next

/-- `calm` for one operation -/
def calmCell (m : MHdr) (rs : AT) : Bool :=
  leafQuiet m.name || termNames.contains m.name || (structNames.contains m.name && calm rs)

/-- the operation's own declared effects are unknown or include a write, a free or an allocation that is
not attached to a value: `would_be_trivially_dead` rejects it wherever it stands -/
def loud (h : Hdr) : Bool :=
  match h.eff with
  | none => true
  | some es => es.any fun e => match e with
    | .write => true | .free => true | .alloc => true | _ => false

/-- the trait flags of the operation (what the pass looks at) agree with what `Sem` does for its name:
a name `Sem` treats as a terminator carries `IsTerminator`; and the operation is `leafQuiet`, a
terminator, a structured operation with `RecursiveMemoryEffect`, or `loud` -/
def hdrOk (h : Hdr) (m : MHdr) : Bool :=
  (!termNames.contains m.name || h.term)
    && (leafQuiet m.name || termNames.contains m.name || (structNames.contains m.name && h.recursive) || loud h)

def hdrOkAll : AT → Bool
  | .nil => true
  | .op h m rs next => hdrOk h m && hdrOkAll rs && hdrOkAll next
  | .block _ _ ops next => hdrOkAll ops && hdrOkAll next
  | .region bs next => hdrOkAll bs && hdrOkAll next

/-! ## deletion (`DCE.del` on `AT`) -/

def anyLiveA (live : List Nat) : AT → Bool
  | .op h _ _ next => live.contains h.id || anyLiveA live next
  | _ => false

def keepMaskA (live : List Nat) : AT → Bool → List Bool
  | .block _ _ ops next, first => (first || anyLiveA live ops) :: keepMaskA live next false
  | _, _ => []

def delA (live : List Nat) : AT → Bool → List Bool → AT
  | .nil, _, _ => .nil
  | .op h m rs next, _, mask =>
    if live.contains h.id then
      .op { h with succs := h.succs.map (renum mask) } m (delA live rs true []) (delA live next false mask)
    else delA live next false mask
  | .block i args ops next, first, mask =>
    if !first && !anyLiveA live ops then delA live next false mask
    else .block i args (delA live ops false mask) (delA live next false mask)
  | .region bs next, _, _ => .region (delA live bs true (keepMaskA live bs true)) (delA live next true [])

/-- `region_dce` -/
def dceOnceA (a : AT) : AT × Bool :=
  let r := delA (liveSet (toT a)) a true []
  if size (toT r) == size (toT a) then (a, false) else (r, true)

/-- `DeadCodeElimination.apply` -/
def dceLoopA : Nat → AT → Nat → AT × Nat × Bool
  | 0, a, n => (a, n, false)
  | fuel + 1, a, n =>
    let r := dceOnceA a
    if r.2 then dceLoopA fuel r.1 (n + 1) else (r.1, n + 1, true)

def dceA (a : AT) : AT × Nat × Bool := dceLoopA (size (toT a) + 1) a 0

/-! ## the decidable hypotheses of the semantic-preservation theorem -/

/-- all operation cells (pre-order) -/
def cellsA : AT → List (Hdr × MHdr × AT)
  | .nil => []
  | .op h m rs next => (h, m, rs) :: (cellsA rs ++ cellsA next)
  | .block _ _ ops next => cellsA ops ++ cellsA next
  | .region bs next => cellsA bs ++ cellsA next

/-- the operations `delA` erases one by one (operations of kept blocks that are not live) -/
def dropCells (live : List Nat) : AT → Bool → List (Hdr × MHdr × AT)
  | .nil, _ => []
  | .op h m rs next, _ =>
    (if live.contains h.id then dropCells live rs true else [(h, m, rs)]) ++ dropCells live next false
  | .block _ _ ops next, first =>
    (if !first && !anyLiveA live ops then [] else dropCells live ops false) ++ dropCells live next false
  | .region bs next, _ => dropCells live bs true ++ dropCells live next true

/-- results of the operations `delA` erases one by one (operations of kept blocks that are not live) -/
def dropRes (live : List Nat) : AT → Bool → List Nat
  | .nil, _ => []
  | .op h m rs next, _ =>
    (if live.contains h.id then dropRes live rs true else m.results.map (·.1)) ++ dropRes live next false
  | .block _ _ ops next, first =>
    (if !first && !anyLiveA live ops then [] else dropRes live ops false) ++ dropRes live next false
  | .region bs next, _ => dropRes live bs true ++ dropRes live next true

/-- values that disappear inside something `delA` erases as a whole: everything defined in the regions
of an erased operation, the arguments and contents of an erased block -/
def hiddenDefs (live : List Nat) : AT → Bool → List Nat
  | .nil, _ => []
  | .op h _ rs next, _ =>
    (if live.contains h.id then hiddenDefs live rs true else defsA rs) ++ hiddenDefs live next false
  | .block _ args ops next, first =>
    (if !first && !anyLiveA live ops then args.map (·.1) ++ defsA ops else hiddenDefs live ops false)
      ++ hiddenDefs live next false
  | .region bs next, _ => hiddenDefs live bs true ++ hiddenDefs live next true

/-- the first block with id `b` is kept -/
def firstKeptB (live : List Nat) (b : Nat) : AT → Bool → Bool
  | .block i _ ops next, first =>
    if i = b then first || anyLiveA live ops else firstKeptB live b next false
  | _, _ => true

/-- along what `delA` keeps: the tree is well-sorted; a kept operation uses no value of `hid`; for an
erased operation and everything nested in it the trait flags agree with the names (`hdrOk`) -/
def certB (live hid : List Nat) : AT → Srt → (Nat → Bool) → Bool → Bool
  | .nil, _, _, _ => true
  | .op h m rs next, .ops, kb, _ =>
    (if live.contains h.id then
        (uses m).all (fun v => !hid.contains v) && certB live hid rs .regions (fun _ => true) true
      else hdrOk h m && hdrOkAll rs)
      && certB live hid next .ops kb false
  | .block _ _ ops next, .blocks, kb, first =>
    ((!first && !anyLiveA live ops) || certB live hid ops .ops kb false) && certB live hid next .blocks kb false
  | .region bs next, .regions, _, _ =>
    certB live hid bs .blocks (fun b => firstKeptB live b bs true) true
      && certB live hid next .regions (fun _ => true) true
  | _, _, _, _ => false

/-! ### successors: the MiniIR block ids against the block positions of the tree -/

def blockIdsOf : AT → List Nat
  | .block i _ _ next => i :: blockIdsOf next
  | _ => []
def blockIdAt (bs : AT) (k : Nat) : Nat := (blockIdsOf bs).getD k 0
/-- the operations of the `k`-th block -/
def opsAt : AT → Nat → AT
  | .block _ _ ops _, 0 => ops
  | .block _ _ _ next, k + 1 => opsAt next k
  | _, _ => .nil
def directOps : AT → List (Hdr × MHdr × AT)
  | .op h m rs next => (h, m, rs) :: directOps next
  | _ => []
/-- in an operation list of a block of the region `bs`: only the last operation has successors, it then is
a terminator for the pass too, and the MiniIR successors are the blocks its `Hdr.succs` point at -/
def succOpsB (bs : AT) : AT → Bool
  | .op h m _ .nil => decide (m.succs.map (·.1) = h.succs.map (blockIdAt bs)) && (m.succs.isEmpty || h.term)
  | .op _ m _ next => m.succs.isEmpty && succOpsB bs next
  | _ => true
def lastTermB : AT → Bool
  | .op h _ _ .nil => h.term
  | .op _ _ _ next => lastTermB next
  | _ => false
def blocksCfgB (bs : AT) : AT → Bool → Bool
  | .block _ _ ops next, first => succOpsB bs ops && (first || lastTermB ops) && blocksCfgB bs next false
  | _, _ => true

/-- along what `delA` keeps, a kept operation branches only to blocks that stay (`kb`); PROVED from
`cfgOkB` and the liveness fixpoint (`succB_of_cfg`), not part of `cert` -/
def succB (live : List Nat) : AT → Srt → (Nat → Bool) → Bool → Bool
  | .nil, _, _, _ => true
  | .op h m rs next, .ops, kb, _ =>
    (!live.contains h.id || (m.succs.all (fun s => kb s.1) && succB live rs .regions (fun _ => true) true))
      && succB live next .ops kb false
  | .block _ _ ops next, .blocks, kb, first =>
    ((!first && !anyLiveA live ops) || succB live ops .ops kb false) && succB live next .blocks kb false
  | .region bs next, .regions, _, _ =>
    succB live bs .blocks (fun b => firstKeptB live b bs true) true && succB live next .regions (fun _ => true) true
  | _, _, _, _ => false

/-- along what `delA` visits: block ids are unique in every region, successors are consistent
(`blocksCfgB`) -/
def cfgOkB (live : List Nat) : AT → Bool
  | .nil => true
  | .op h _ rs next => (!live.contains h.id || cfgOkB live rs) && cfgOkB live next
  | .block _ _ ops next => cfgOkB live ops && cfgOkB live next
  | .region bs next => nodupB (blockIdsOf bs) && blocksCfgB bs bs true && cfgOkB live bs && cfgOkB live next

/-- the operand lists of the tree cover the MiniIR uses: if an operation reads a result of another
operation of the tree, the id of that operation is among its `Hdr.operands` -/
def linkedB (a : AT) : Bool :=
  (cellsA a).all fun u => (cellsA a).all fun c =>
    c.2.1.results.all fun r => !(uses u.2.1).contains r.1 || u.1.operands.contains c.1.id

/-- along what `delA` visits the tree is well-sorted, and in every region every block it keeps is one
the post-order iteration yields; PROVED for the computed live set (`keptReachB_of`, `kr_liveSet`), not part
of `cert` -/
def keptReachB (live : List Nat) : AT → Srt → Bool → Bool
  | .nil, _, _ => true
  | .op h _ rs next, .ops, _ =>
    (!live.contains h.id || keptReachB live rs .regions true) && keptReachB live next .ops false
  | .block _ _ ops next, .blocks, first =>
    ((!first && !anyLiveA live ops) || keptReachB live ops .ops false) && keptReachB live next .blocks false
  | .region bs next, .regions, _ =>
    ((List.range (keepMaskA live bs true).length).all fun k =>
        !(keepMaskA live bs true).getD k false || (reachSet (toT bs)).contains k)
      && keptReachB live bs .blocks true && keptReachB live next .regions true
  | _, _, _ => false

/-! ## the MiniIR program of a module tree -/

def symName (m : MHdr) : String :=
  match (m.attrs.find? (fun p => p.1 = "sym_name")).map (fun p => p.2) with
  | some (Attr.str s) => s
  | _ => ""

/-- `func.func` with a body whose entry block holds an operation; otherwise an external declaration
(as `harness/vp/miniir.py` decides it) -/
def bodyOf : List Region → Option Region
  | [.mk (.mk i args (o :: os) :: bs)] => some (.mk (.mk i args (o :: os) :: bs))
  | _ => none

def funcsOf : AT → List Func
  | .op _ m rs next =>
    if m.name = "func.func" then { name := symName m, body := bodyOf (regionsOf rs) } :: funcsOf next
    else funcsOf next
  | _ => []

/-- the operations of the only block of the only region (the module body) -/
def topOps : AT → AT
  | .region (.block _ _ ops .nil) .nil => ops
  | _ => .nil

def toProg (a : AT) : Prog := { funcs := funcsOf (topOps a) }

/-- the module body: every `func.func` is live, its body passes `certB`, and a body with a non-empty
entry block keeps one -/
def certTop (live hid : List Nat) : AT → Bool
  | .op h m rs next =>
    (m.name != "func.func" ||
      (live.contains h.id && certB live hid rs .regions (fun _ => true) true
        && (bodyOf (regionsOf rs)).isSome == (bodyOf (regionsOf (delA live rs true []))).isSome))
      && certTop live hid next
  | .nil => true
  | _ => false

def isModule : AT → Bool
  | .region (.block _ _ _ .nil) .nil => true
  | _ => false

/-- all decidable hypotheses of `dce_preserves_sem` for one call of `region_dce` on the module `a` -/
def cert (a : AT) : Bool :=
  let live := liveSet (toT a)
  isModule a && nodupB (allIds (toT a)) && ws (toT a) .regions && wfT (toT a) && linkedB a && cfgOkB live a
    && certTop live (hiddenDefs live a true) (topOps a)


/-- `cert` at every call of `region_dce` that `DeadCodeElimination.apply` makes -/
def certLoop : Nat → AT → Bool
  | 0, _ => true
  | fuel + 1, a => if (dceOnceA a).2 then cert a && certLoop fuel (dceOnceA a).1 else true

def certPass (a : AT) : Bool := certLoop (size (toT a) + 1) a

/-! ## the trivially-dead erasure of the rewrite walkers (`DCE.trivDel` on `AT`) -/

def trivA (root : T) : AT → AT
  | .nil => .nil
  | .op h m rs next =>
    if trivDead root h (toT rs) then trivA root next else .op h m (trivA root rs) (trivA root next)
  | .block i a ops next => .block i a (trivA root ops) (trivA root next)
  | .region bs next => .region (trivA root bs) (trivA root next)

def trivLoopA : Nat → AT → AT × Bool
  | 0, a => (a, false)
  | fuel + 1, a =>
    let r := trivA (toT a) a
    if size (toT r) == size (toT a) then (a, true) else trivLoopA fuel r

def trivAllA (a : AT) : AT × Bool := trivLoopA (size (toT a) + 1) a

/-- ids of the operations one sweep keeps -/
def liveTr (a : AT) : List Nat :=
  ((cellsA a).filter fun c => !trivDead (toT a) c.1 (toT c.2.2)).map (·.1.id)

/-- `delA` with this live set erases no block -/
def allBlocksB (live : List Nat) : AT → Bool → Bool
  | .nil, _ => true
  | .op h _ rs next, _ => (!live.contains h.id || allBlocksB live rs true) && allBlocksB live next false
  | .block _ _ ops next, first =>
    (first || anyLiveA live ops) && allBlocksB live ops false && allBlocksB live next false
  | .region bs next, _ => allBlocksB live bs true && allBlocksB live next true

/-- the decidable hypotheses of `triv_preserves_sem` for one sweep -/
def certTriv (a : AT) : Bool :=
  let live := liveTr a
  isModule a && nodupB (allIds (toT a)) && linkedB a && allBlocksB live a true
    && succB live a .regions (fun _ => true) true && certTop live (hiddenDefs live a true) (topOps a)

def certTrivLoop : Nat → AT → Bool
  | 0, _ => true
  | fuel + 1, a =>
    let r := trivA (toT a) a
    if size (toT r) == size (toT a) then true else certTriv a && certTrivLoop fuel r

def certTrivAll (a : AT) : Bool := certTrivLoop (size (toT a) + 1) a

/-! ## building the tree from the two serialisations; line protocol

Model `dcemini`:
* `prog <sexp>` loads the MiniIR module (as model `sem`) → `ok`
* `cert once|dce|triv <tree>` (`<tree>` as for model `dce`): zips the tree with the loaded module and
  evaluates `cert` / `certPass` / `certTrivAll` → `cert ok` or `cert no <first failing check>`
* `after once|dce|triv <sexp'>`: is `<sexp'>` the MiniIR program of `dceOnceA` / `dceA` / `trivAllA` of the
  zipped tree?
  → `after ok` / `after differs`
-/

inductive MI where
  | ops (l : List Op)
  | blocks (l : List Block)
  | regions (l : List Region)

def zipT : T → MI → Option AT
  | .nil, .ops [] => some .nil
  | .nil, .blocks [] => some .nil
  | .nil, .regions [] => some .nil
  | .op h rs next, .ops (.mk n r o a s regs :: os) =>
    match zipT rs (.regions regs), zipT next (.ops os) with
    | some rs', some nx => some (.op h ⟨n, r, o, a, s⟩ rs' nx)
    | _, _ => none
  | .block ops next, .blocks (.mk i args bops :: bs) =>
    match zipT ops (.ops bops), zipT next (.blocks bs) with
    | some ops', some nx => some (.block i args ops' nx)
    | _, _ => none
  | .region bs next, .regions (.mk blks :: rest) =>
    match zipT bs (.blocks blks), zipT next (.regions rest) with
    | some bs', some nx => some (.region bs' nx)
    | _, _ => none
  | _, _ => none

/-- the tree alone, for the body of an external declaration (which the S-expression does not carry);
accepted only when `bodyOf` answers `none` for it -/
def skelT : T → AT
  | .nil => .nil
  | .op h rs next => .op h ⟨"?", [], [], [], []⟩ (skelT rs) (skelT next)
  | .block ops next => .block 0 [] (skelT ops) (skelT next)
  | .region bs next => .region (skelT bs) (skelT next)

/-- the `func.func` operations of the module body against the functions of the program -/
def zipFuncs : T → List Func → Option AT
  | .nil, [] => some .nil
  | .op h rs next, f :: fs =>
    let m : MHdr := ⟨"func.func", [], [], [("sym_name", .str f.name)], []⟩
    let body := match f.body with
      | some r => zipT rs (.regions [r])
      | none => if (bodyOf (regionsOf (skelT rs))).isNone then some (skelT rs) else none
    match body, zipFuncs next fs with
    | some rs', some nx => some (.op h m rs' nx)
    | _, _ => none
  | _, _ => none

def zipModule (t : T) (p : Prog) : Option AT :=
  match t with
  | .region (.block fops .nil) .nil => (zipFuncs fops p.funcs).map fun a => .region (.block 0 [] a .nil) .nil
  | _ => none

deriving instance DecidableEq for Attr

def eqA : AT → MI → Bool
  | .nil, .ops [] => true
  | .nil, .blocks [] => true
  | .nil, .regions [] => true
  | .op _ m rs next, .ops (.mk n r o a s regs :: os) =>
    decide (m.name = n) && decide (m.results = r) && decide (m.operands = o) && decide (m.attrs = a)
      && decide (m.succs = s) && eqA rs (.regions regs) && eqA next (.ops os)
  | .block i args ops next, .blocks (.mk j args' bops :: bs) =>
    decide (i = j) && decide (args = args') && eqA ops (.ops bops) && eqA next (.blocks bs)
  | .region bs next, .regions (.mk blks :: rest) => eqA bs (.blocks blks) && eqA next (.regions rest)
  | _, _ => false

/-- `toProg` of the module tree against a parsed program -/
def eqFuncs : AT → List Func → Bool
  | .op _ m rs next, fs =>
    if m.name = "func.func" then
      match fs with
      | f :: fs' =>
        decide (f.name = symName m)
          && (match f.body, bodyOf (regionsOf rs) with
              | none, none => true
              | some r, some _ => eqA rs (.regions [r])
              | _, _ => false)
          && eqFuncs next fs'
      | [] => false
    else eqFuncs next fs
  | _, fs => fs.isEmpty

/-- first failing check of `certB` (diagnostics only) -/
def whyB (live hid : List Nat) : AT → Srt → (Nat → Bool) → Bool → Option String
  | .nil, _, _, _ => none
  | .op h m rs next, .ops, kb, _ =>
    (if live.contains h.id then
        if !(uses m).all (fun v => !hid.contains v) then some s!"scope:{m.name}"
        else whyB live hid rs .regions (fun _ => true) true
      else if !(hdrOk h m && hdrOkAll rs) then some s!"flags-vs-names:{m.name}"
      else none).orElse fun _ => whyB live hid next .ops kb false
  | .block _ _ ops next, .blocks, kb, first =>
    (if !first && !anyLiveA live ops then none else whyB live hid ops .ops kb false).orElse
      fun _ => whyB live hid next .blocks kb false
  | .region bs next, .regions, _, _ =>
    (whyB live hid bs .blocks (fun b => firstKeptB live b bs true) true).orElse
      fun _ => whyB live hid next .regions (fun _ => true) true
  | _, _, _, _ => some "sort"

def whyTop (live hid : List Nat) : AT → Option String
  | .op h m rs next =>
    (if m.name != "func.func" then none
      else if !live.contains h.id then some "func-not-live"
      else match whyB live hid rs .regions (fun _ => true) true with
        | some w => some w
        | none =>
          if (bodyOf (regionsOf rs)).isSome != (bodyOf (regionsOf (delA live rs true []))).isSome then some "func-body"
          else none).orElse fun _ => whyTop live hid next
  | .nil => none
  | _ => some "sort"

def why (a : AT) : String :=
  let live := liveSet (toT a)
  if !isModule a then "module"
  else if !nodupB (allIds (toT a)) then "ids"
  else if !(ws (toT a) .regions && wfT (toT a)) then "tree"
  else if !linkedB a then "linked"
  else if !cfgOkB live a then "cfg"
  else match whyTop live (hiddenDefs live a true) (topOps a) with
    | some w => w
    | none => "?"

def whyLoop : Nat → AT → String
  | 0, _ => "?"
  | fuel + 1, a =>
    if (dceOnceA a).2 then (if cert a then whyLoop fuel (dceOnceA a).1 else why a) else "?"

structure DState where
  prog : Option Prog := none
  tree : Option AT := none
deriving Inhabited

def lineStep (s : DState) (line : String) : DState × String :=
  if line.startsWith "prog " then
    match readSExp (line.drop 5).toString >>= parseProg with
    | some p => ({ prog := some p, tree := none }, "ok")
    | none => ({}, "bad-prog")
  else if line.startsWith "after " then
    match words line with
    | _ :: v :: _ =>
      let rest := ((line.drop 6).toString.drop (v.length + 1)).toString
      match s.tree, readSExp rest >>= parseProg with
      | some a, some p' =>
        let r := if v = "once" then some (dceOnceA a).1 else if v = "dce" then some (dceA a).1
          else if v = "triv" then some (trivAllA a).1 else none
        match r with
        | some a' => (s, if eqFuncs (topOps a') p'.funcs then "after ok" else "after differs")
        | none => (s, "bad-op")
      | _, _ => (s, "bad-op")
    | _ => (s, "bad-op")
  else match words line with
    | "cert" :: v :: ts =>
      match s.prog, parseTree ts with
      | some p, some t =>
        if !okTree t then (s, "bad-op")
        else match zipModule t p with
          | some a =>
            if toT a != t then ({ s with tree := none }, "cert no zip")
            else if !eqFuncs (topOps a) p.funcs then ({ s with tree := none }, "cert no zip-prog")
            else if v = "once" then
              ({ s with tree := some a }, if cert a then "cert ok" else "cert no " ++ why a)
            else if v = "dce" then
              ({ s with tree := some a },
                if certPass a then "cert ok" else "cert no " ++ whyLoop (size (toT a) + 1) a)
            else if v = "triv" then
              ({ s with tree := some a }, if certTrivAll a then "cert ok" else "cert no ?triv")
            else (s, "bad-op")
          | none => ({ s with tree := none }, "cert no shape")
      | _, _ => (s, "bad-op")
    | _ => (s, "bad-op")

end Xdsl.DCEM
