import XdslModel.MiniIR
/-!
Reference semantics for MiniIR programs (func / arith / cf / scf; for C16 also affine.for /
affine.apply / affine.load / affine.store with serialised affine maps, memref.alloc/load/store on
static shapes, symref.declare/update/fetch).  Integer operations are the
MLIR semantics stated on `BitVec w`; poison / undefined behaviour is an explicit outcome (`ub`) so
that comparisons can exclude exactly those inputs.  Effects (calls to external functions) are
logged in order.  Fuel-indexed so that every definition is total.
-/
namespace Xdsl.Sem
open Xdsl.MiniIR

inductive Val where
  | int (w : Nat) (v : BitVec w)
  | f64 (bits : UInt64)
  | f32 (bits : UInt32)
  | mem (id : Nat)            -- reference to an allocation (memref value); C16 extension
deriving Repr, Inhabited

/-- outcome of an integer operation: unknown op / poison-or-UB / value -/
inductive IntRes (w : Nat) where
  | unknown | ub | val (v : BitVec w)

/-- MLIR `arith` integer binary operations on bit patterns. -/
def intBin (name : String) {w : Nat} (a b : BitVec w) : IntRes w :=
  let sdivUB := b == 0#w || (a == BitVec.intMin w && b == BitVec.allOnes w)
  match name with
  | "arith.addi" => .val (a + b)
  | "arith.subi" => .val (a - b)
  | "arith.muli" => .val (a * b)
  | "arith.andi" => .val (a &&& b)
  | "arith.ori" => .val (a ||| b)
  | "arith.xori" => .val (a ^^^ b)
  | "arith.shli" => if b.toNat ≥ w then .ub else .val (a <<< b.toNat)
  | "arith.shrui" => if b.toNat ≥ w then .ub else .val (a >>> b.toNat)
  | "arith.shrsi" => if b.toNat ≥ w then .ub else .val (a.sshiftRight b.toNat)
  | "arith.divui" => if b == 0#w then .ub else .val (a / b)
  | "arith.remui" => if b == 0#w then .ub else .val (a % b)
  | "arith.divsi" => if sdivUB then .ub else .val (a.sdiv b)
  | "arith.remsi" => if sdivUB then .ub else .val (a.srem b)
  | "arith.floordivsi" => if sdivUB then .ub else .val (BitVec.ofInt w (Int.fdiv a.toInt b.toInt))
  | "arith.ceildivsi" => if sdivUB then .ub else .val (BitVec.ofInt w (-(Int.fdiv (-a.toInt) b.toInt)))
  | "arith.ceildivui" => if b == 0#w then .ub else .val (BitVec.ofNat w ((a.toNat + b.toNat - 1) / b.toNat))
  | "arith.minsi" => .val (if a.slt b then a else b)
  | "arith.maxsi" => .val (if a.slt b then b else a)
  | "arith.minui" => .val (if a.ult b then a else b)
  | "arith.maxui" => .val (if a.ult b then b else a)
  -- not an MLIR operation: the non-negative remainder of the affine dialect.  Used only by the C16
  -- harness to test whether a disagreement after lower-affine is explained by `mod` → `arith.remsi`.
  | "c16.floormodsi" => if b.toInt ≤ 0 then .ub else .val (BitVec.ofInt w (Int.fmod a.toInt b.toInt))
  | _ => .unknown

/-- MLIR `arith.cmpi` predicates 0..9 on bit patterns. -/
def cmpi {w : Nat} (p : Int) (a b : BitVec w) : Option Bool :=
  if p = 0 then some (a == b) else if p = 1 then some (a != b)
  else if p = 2 then some (a.slt b) else if p = 3 then some (a.sle b)
  else if p = 4 then some (b.slt a) else if p = 5 then some (b.sle a)
  else if p = 6 then some (a.ult b) else if p = 7 then some (a.ule b)
  else if p = 8 then some (b.ult a) else if p = 9 then some (b.ule a)
  else none

/-! ### floats (native IEEE-754 of the platform; never unfolded in proofs) -/
def f64Bin (name : String) (a b : Float) : Option Float :=
  let isZero (x : Float) := x == 0.0
  let neg (x : Float) := x.toBits >>> 63 == 1
  match name with
  | "arith.addf" => some (a + b)
  | "arith.subf" => some (a - b)
  | "arith.mulf" => some (a * b)
  | "arith.divf" => some (a / b)
  | "arith.minimumf" =>
    if a.isNaN || b.isNaN then some (0.0 / 0.0)
    else if isZero a && isZero b then some (if neg a || neg b then -0.0 else 0.0)
    else some (if a < b then a else b)
  | "arith.maximumf" =>
    if a.isNaN || b.isNaN then some (0.0 / 0.0)
    else if isZero a && isZero b then some (if !neg a || !neg b then 0.0 else -0.0)
    else some (if a > b then a else b)
  | _ => none

def f32Bin (name : String) (a b : Float32) : Option Float32 :=
  let isZero (x : Float32) := x == 0.0
  let neg (x : Float32) := x.toBits >>> 31 == 1
  match name with
  | "arith.addf" => some (a + b)
  | "arith.subf" => some (a - b)
  | "arith.mulf" => some (a * b)
  | "arith.divf" => some (a / b)
  | "arith.minimumf" =>
    if a.isNaN || b.isNaN then some (0.0 / 0.0)
    else if isZero a && isZero b then some (if neg a || neg b then -0.0 else 0.0)
    else some (if a < b then a else b)
  | "arith.maximumf" =>
    if a.isNaN || b.isNaN then some (0.0 / 0.0)
    else if isZero a && isZero b then some (if !neg a || !neg b then 0.0 else -0.0)
    else some (if a > b then a else b)
  | _ => none

/-- `arith.cmpf` predicate table (0..15) from the three IEEE relations. -/
def cmpfTable (p : Int) (lt eq gt : Bool) : Option Bool :=
  let un := !(lt || eq || gt)
  if p = 0 then some false
  else if p = 1 then some eq else if p = 2 then some gt else if p = 3 then some (gt || eq)
  else if p = 4 then some lt else if p = 5 then some (lt || eq) else if p = 6 then some (lt || gt)
  else if p = 7 then some (!un)
  else if p = 8 then some (eq || un) else if p = 9 then some (gt || un) else if p = 10 then some (gt || eq || un)
  else if p = 11 then some (lt || un) else if p = 12 then some (lt || eq || un) else if p = 13 then some (lt || gt || un)
  else if p = 14 then some un else if p = 15 then some true
  else none

/-! ### machine state -/
structure Effect where
  callee : String
  args : List Val
deriving Inhabited

/-- one allocation: static shape and row-major cells (`none` = never written) -/
structure Alloc where
  shape : List Nat
  cells : List (Option Val)
deriving Inhabited

structure St where
  env : AL Nat Val := []
  eff : List Effect := []     -- most recent first
  sym : AL String Val := []   -- `symref` variables of the running function (C16 extension)
  mem : List Alloc := []      -- allocations, indexed by `Val.mem` id (C16 extension)
deriving Inhabited

inductive Res (α : Type) where
  | ok (a : α)
  | ub (why : String)
  | fuel
  | err (msg : String)
deriving Inhabited

instance : Monad Res where
  pure := .ok
  bind x f := match x with
    | .ok a => f a
    | .ub w => .ub w
    | .fuel => .fuel
    | .err m => .err m

/-- how a block (or a structured region) finished -/
inductive Term where
  | ret (vs : List Val)
  | br (b : Nat) (args : List Val)
  | yield (vs : List Val)
  | cond (c : Bool) (vs : List Val)
deriving Inhabited

def St.get (st : St) (v : Nat) : Res Val :=
  match AL.get st.env v with
  | some x => .ok x
  | none => .err s!"unbound value {v}"

def St.gets (st : St) (vs : List Nat) : Res (List Val) := vs.mapM st.get

def St.bind (st : St) (names : List (Nat × Ty)) (vals : List Val) : Res St :=
  if names.length ≠ vals.length then .err "arity mismatch"
  else .ok { st with env := (names.zip vals).foldl (fun e (p : (Nat × Ty) × Val) => AL.set e p.1.1 p.2) st.env }

def asBool : Val → Res Bool
  | .int 1 v => .ok (v == 1#1)
  | _ => .err "expected i1"

def mkConst (a : Attr) : Res Val :=
  match a with
  | .int v ty => match ty.width with
    | some w => .ok (.int w (BitVec.ofInt w v))
    | none => .err "constant type"
  | .float bits .f64 => .ok (.f64 bits.toUInt64)
  | .float bits .f32 => .ok (.f32 bits.toUInt32)
  | _ => .err "constant attribute"

/-- operations without regions, successors or calls -/
def pureOp (o : Op) (args : List Val) : Res (List Val) :=
  let name := o.name
  match name, args with
  | "arith.constant", [] => match o.attr? "value" with
    | some a => do let v ← mkConst a; pure [v]
    | none => .err "constant without value"
  | "arith.cmpi", [.int w a, .int w' b] =>
    if h : w = w' then
      match o.attr? "predicate" with
      | some (.int p _) => match cmpi p a (h ▸ b) with
        | some r => .ok [.int 1 (if r then 1#1 else 0#1)]
        | none => .err "cmpi predicate"
      | _ => .err "cmpi predicate attr"
    else .err "cmpi width mismatch"
  | "arith.select", [c, x, y] => do
    let b ← asBool c
    pure [if b then x else y]
  | "arith.cmpf", [.f64 a, .f64 b] =>
    let x := Float.ofBits a; let y := Float.ofBits b
    match o.attr? "predicate" with
    | some (.int p _) => match cmpfTable p (x < y) (x == y) (x > y) with
      | some r => .ok [.int 1 (if r then 1#1 else 0#1)]
      | none => .err "cmpf predicate"
    | _ => .err "cmpf predicate attr"
  | "arith.cmpf", [.f32 a, .f32 b] =>
    let x := Float32.ofBits a; let y := Float32.ofBits b
    match o.attr? "predicate" with
    | some (.int p _) => match cmpfTable p (x < y) (x == y) (x > y) with
      | some r => .ok [.int 1 (if r then 1#1 else 0#1)]
      | none => .err "cmpf predicate"
    | _ => .err "cmpf predicate attr"
  | "arith.negf", [.f64 a] => .ok [.f64 (-(Float.ofBits a)).toBits]
  | "arith.negf", [.f32 a] => .ok [.f32 (-(Float32.ofBits a)).toBits]
  | _, [.int w a, .int w' b] =>
    if h : w = w' then
      match intBin name a (h ▸ b) with
      | .val v => .ok [.int w v]
      | .ub => .ub name
      | .unknown => .err s!"unsupported op {name}"
    else .err s!"{name}: width mismatch"
  | _, [.f64 a, .f64 b] =>
    match f64Bin name (Float.ofBits a) (Float.ofBits b) with
    | some r => .ok [.f64 r.toBits]
    | none => .err s!"unsupported op {name}"
  | _, [.f32 a, .f32 b] =>
    match f32Bin name (Float32.ofBits a) (Float32.ofBits b) with
    | some r => .ok [.f32 r.toBits]
    | none => .err s!"unsupported op {name}"
  | _, [.int w a] =>
    match o.results with
    | [(_, ty)] => match ty.width with
      | some w' =>
        if name = "arith.extsi" then (if w < w' then .ok [.int w' (a.signExtend w')] else .err "extsi widths")
        else if name = "arith.extui" then (if w < w' then .ok [.int w' (a.zeroExtend w')] else .err "extui widths")
        else if name = "arith.trunci" then (if w' < w then .ok [.int w' (a.truncate w')] else .err "trunci widths")
        else if name = "arith.index_cast" then
          .ok [.int w' (if w < w' then a.signExtend w' else a.truncate w')]
        else if name = "arith.index_castui" then
          .ok [.int w' (if w < w' then a.zeroExtend w' else a.truncate w')]
        else .err s!"unsupported op {name}"
      | none => .err s!"unsupported op {name}"
    | _ => .err s!"unsupported op {name}"
  | _, _ => .err s!"unsupported op {name}"


/-! ### C16 extensions: affine maps, symref variables, static memrefs

Affine maps are serialised by `harness/vp/miniir.py` as an `ints` attribute
`[numDims, numSyms, numResults, code…]` with every result expression in prefix code:
`0 c` constant, `1 p` dim, `2 p` symbol, `3 l r` add, `4 l r` mul, `5 l r` mod, `6 l r` floordiv,
`7 l r` ceildiv.  The value is the mathematical one of the MLIR affine dialect (`mod` is the
non-negative remainder, `floordiv`/`ceildiv` round to −∞/+∞; a non-positive right operand of
these three is undefined behaviour). -/
inductive AffRes where
  | ok (v : Int) (rest : List Int)
  | ub
  | bad

def evalAffCode : Nat → List Int → List Int → List Int → AffRes
  | 0, _, _, _ => .bad
  | _ + 1, 0 :: c :: rest, _, _ => .ok c rest
  | _ + 1, 1 :: p :: rest, ds, _ => match ds[p.toNat]? with | some v => .ok v rest | none => .bad
  | _ + 1, 2 :: p :: rest, _, ss => match ss[p.toNat]? with | some v => .ok v rest | none => .bad
  | f + 1, k :: rest, ds, ss =>
    match evalAffCode f rest ds ss with
    | .ok a rest1 => match evalAffCode f rest1 ds ss with
      | .ok b rest2 =>
        if k = 3 then .ok (a + b) rest2
        else if k = 4 then .ok (a * b) rest2
        else if k = 5 then (if b ≤ 0 then .ub else .ok (Int.fmod a b) rest2)
        else if k = 6 then (if b ≤ 0 then .ub else .ok (Int.fdiv a b) rest2)
        else if k = 7 then (if b ≤ 0 then .ub else .ok (-(Int.fdiv (-a) b)) rest2)
        else .bad
      | r => r
    | r => r
  | _ + 1, [], _, _ => .bad

def evalAffResults : Nat → List Int → List Int → List Int → Res (List Int)
  | 0, _, _, _ => .ok []
  | n + 1, code, ds, ss =>
    match evalAffCode (code.length + 1) code ds ss with
    | .ok v rest => match evalAffResults n rest ds ss with
      | .ok vs => .ok (v :: vs)
      | e => e
    | .ub => .ub "affine expression: non-positive divisor"
    | .bad => .err "affine map code"

/-- apply a serialised affine map to operand values (dims first, then symbols) -/
def evalAffMap (code : List Int) (operands : List Int) : Res (List Int) :=
  match code with
  | nd :: ns :: nr :: body =>
    if operands.length ≠ nd.toNat + ns.toNat then .err "affine map operand count"
    else evalAffResults nr.toNat body (operands.take nd.toNat) (operands.drop nd.toNat)
  | _ => .err "affine map attribute"

def asIndex : Val → Res Int
  | .int _ v => .ok v.toInt
  | _ => .err "expected index"

/-- static shape from the serialised type `memref:<d0>x<d1>…:<elt>` -/
def memrefShape (t : Ty) : Option (List Nat) :=
  match t with
  | .other s => match s.splitOn ":" with
    | ["memref", dims, _] => if dims = "" then some [] else (dims.splitOn "x").mapM (·.toNat?)
    | _ => none
  | _ => none

def linearIndex : List Nat → List Int → Option Nat
  | [], [] => some 0
  | d :: ds, i :: is =>
    if i < 0 ∨ i ≥ d then none
    else match linearIndex ds is with
      | some r => some (i.toNat * ds.foldl (· * ·) 1 + r)
      | none => none
  | _, _ => none

def St.load (st : St) (m : Val) (idx : List Int) : Res Val :=
  match m with
  | .mem id => match st.mem[id]? with
    | some a => match linearIndex a.shape idx with
      | some k => match a.cells[k]? with
        | some (some v) => .ok v
        | some none => .ub "load of a never-written memref element"
        | none => .err "memref cell"
      | none => .ub "memref index out of bounds"
    | none => .err "unknown allocation"
  | _ => .err "expected memref"

def St.store (st : St) (m : Val) (idx : List Int) (v : Val) : Res St :=
  match m with
  | .mem id => match st.mem[id]? with
    | some a => match linearIndex a.shape idx with
      | some k => .ok { st with mem := st.mem.set id { a with cells := a.cells.set k (some v) } }
      | none => .ub "memref index out of bounds"
    | none => .err "unknown allocation"
  | _ => .err "expected memref"

def attrInts (o : Op) (k : String) : Option (List Int) :=
  match o.attr? k with
  | some (.ints l) => some l
  | _ => none

/-- symref / memref / affine.apply / affine.load / affine.store: operations that touch the extended
state but have no regions.  `none` = not one of these. -/
def stateOp (st : St) (o : Op) (args : List Val) : Option (Res (St × List Val)) :=
  match o.name, args with
  | "symref.declare", [] => some (.ok (st, []))
  | "symref.update", [v] => match o.attr? "symbol" with
    | some (.str s) => some (.ok ({ st with sym := AL.set st.sym s v }, []))
    | _ => some (.err "symref.update symbol")
  | "symref.fetch", [] => match o.attr? "symbol" with
    | some (.str s) => match AL.get st.sym s with
      | some v => some (.ok (st, [v]))
      | none => some (.ub "symref.fetch of a symbol that was never written")
    | _ => some (.err "symref.fetch symbol")
  | "memref.alloc", [] | "memref.alloca", [] => match o.results with
    | [(_, t)] => match memrefShape t with
      | some sh => some (.ok ({ st with mem := st.mem ++ [{ shape := sh, cells := List.replicate (sh.foldl (· * ·) 1) none }] },
                              [.mem st.mem.length]))
      | none => some (.err "memref.alloc type")
    | _ => some (.err "memref.alloc results")
  | "memref.dealloc", [_] => some (.ok (st, []))
  | "memref.load", m :: idx => some (match idx.mapM asIndex with
    | .ok is => match st.load m is with
      | .ok v => .ok (st, [v])
      | .ub w => .ub w | .fuel => .fuel | .err e => .err e
    | _ => .err "memref.load indices")
  | "memref.store", v :: m :: idx => some (match idx.mapM asIndex with
    | .ok is => match st.store m is v with
      | .ok st' => .ok (st', [])
      | .ub w => .ub w | .fuel => .fuel | .err e => .err e
    | _ => .err "memref.store indices")
  | "affine.apply", ops => some (match attrInts o "map", ops.mapM asIndex with
    | some code, .ok is => match evalAffMap code is with
      | .ok [r] => .ok (st, [.int 64 (BitVec.ofInt 64 r)])
      | .ok _ => .err "affine.apply result count"
      | .ub w => .ub w | .fuel => .fuel | .err e => .err e
    | _, _ => .err "affine.apply")
  | "affine.load", m :: idx => some (match attrInts o "map", idx.mapM asIndex with
    | some code, .ok is => match evalAffMap code is with
      | .ok js => match st.load m js with
        | .ok v => .ok (st, [v])
        | .ub w => .ub w | .fuel => .fuel | .err e => .err e
      | .ub w => .ub w | .fuel => .fuel | .err e => .err e
    | _, _ => .err "affine.load")
  | "affine.store", v :: m :: idx => some (match attrInts o "map", idx.mapM asIndex with
    | some code, .ok is => match evalAffMap code is with
      | .ok js => match st.store m js v with
        | .ok st' => .ok (st', [])
        | .ub w => .ub w | .fuel => .fuel | .err e => .err e
      | .ub w => .ub w | .fuel => .fuel | .err e => .err e
    | _, _ => .err "affine.store")
  | _, _ => none

/-- bounds of an `affine.for`: operands are `lbOperands ++ ubOperands ++ inits`
(`operandSegmentSizes`), maps have one result each. -/
def affineForBounds (o : Op) (args : List Val) : Res (Int × Int × Int × List Val) :=
  match attrInts o "lowerBoundMap", attrInts o "upperBoundMap", o.attr? "step", attrInts o "operandSegmentSizes" with
  | some lbm, some ubm, some (.int s _), some [nl, nu, _] =>
    let lops := args.take nl.toNat
    let uops := (args.drop nl.toNat).take nu.toNat
    let inits := args.drop (nl.toNat + nu.toNat)
    match lops.mapM asIndex, uops.mapM asIndex with
    | .ok li, .ok ui => match evalAffMap lbm li, evalAffMap ubm ui with
      | .ok [l], .ok [u] => .ok (l, u, s, inits)
      | .ub w, _ => .ub w
      | _, .ub w => .ub w
      | _, _ => .err "affine.for bound maps"
    | _, _ => .err "affine.for bound operands"
  | _, _, _, _ => .err "affine.for attributes"

def findFunc (p : Prog) (n : String) : Option Func := p.funcs.find? (·.name = n)

def findBlock (r : Region) (id : Nat) : Option Block := r.blocks.find? (·.id = id)

def intOf : Val → Res (Nat × Int)
  | .int w v => .ok (w, v.toInt)
  | _ => .err "expected integer"

mutual
  /-- run the operations of a block until its terminator -/
  def runOps (fuel : Nat) (P : Prog) (st : St) (ops : List Op) : Res (St × Term) :=
    match fuel, ops with
    | 0, _ => .fuel
    | _, [] => .err "block without terminator"
    | f + 1, o :: rest =>
      match runOp f P st o with
      | .ok (st', none) => runOps f P st' rest
      | .ok (st', some t) => .ok (st', t)
      | .ub w => .ub w
      | .fuel => .fuel
      | .err m => .err m

  /-- one operation; `some t` when it is a terminator -/
  def runOp (fuel : Nat) (P : Prog) (st : St) (o : Op) : Res (St × Option Term) :=
    match fuel with
    | 0 => .fuel
    | f + 1 =>
      match st.gets o.operands with
      | .err m => .err m
      | .ub w => .ub w
      | .fuel => .fuel
      | .ok args =>
      match o.name with
      | "func.return" => .ok (st, some (.ret args))
      | "scf.yield" => .ok (st, some (.yield args))
      | "affine.yield" => .ok (st, some (.yield args))
      | "scf.condition" => match args with
        | c :: rest => match asBool c with
          | .ok b => .ok (st, some (.cond b rest))
          | _ => .err "scf.condition"
        | [] => .err "scf.condition"
      | "cf.br" => match o.succs with
        | [(b, as)] => match st.gets as with
          | .ok vs => .ok (st, some (.br b vs))
          | _ => .err "cf.br args"
        | _ => .err "cf.br"
      | "cf.cond_br" => match args, o.succs with
        | [c], [(b1, a1), (b2, a2)] => match asBool c with
          | .ok cb =>
            let (b, as) := if cb then (b1, a1) else (b2, a2)
            match st.gets as with
            | .ok vs => .ok (st, some (.br b vs))
            | _ => .err "cf.cond_br args"
          | _ => .err "cf.cond_br cond"
        | _, _ => .err "cf.cond_br"
      | "func.call" => match o.attr? "callee" with
        | some (.str callee) =>
          match callFunc f P st callee args with
          | .ok (st', rs) => match st'.bind o.results rs with
            | .ok st'' => .ok (st'', none)
            | _ => .err "call results"
          | .ub w => .ub w
          | .fuel => .fuel
          | .err m => .err m
        | _ => .err "func.call callee"
      | "scf.if" => match args, o.regions with
        | [c], [rt, re] => match asBool c with
          | .ok cb =>
            match runRegion f P st (if cb then rt else re) [] with
            | .ok (st', .yield vs) => match st'.bind o.results vs with
              | .ok st'' => .ok (st'', none)
              | _ => .err "scf.if results"
            | .ok _ => .err "scf.if region did not yield"
            | .ub w => .ub w
            | .fuel => .fuel
            | .err m => .err m
          | _ => .err "scf.if cond"
        | _, _ => .err "scf.if"
      | "scf.for" => match args, o.regions with
        | lb :: ub :: step :: iters, [body] =>
          match intOf lb, intOf ub, intOf step with
          | .ok (w, l), .ok (_, u), .ok (_, s) =>
            if s ≤ 0 then .ub "scf.for non-positive step"
            else match runFor f P st body w l u s iters with
              | .ok (st', vs) => match st'.bind o.results vs with
                | .ok st'' => .ok (st'', none)
                | _ => .err "scf.for results"
              | .ub w => .ub w
              | .fuel => .fuel
              | .err m => .err m
          | _, _, _ => .err "scf.for bounds"
        | _, _ => .err "scf.for"
      | "scf.while" => match o.regions with
        | [before, after] =>
          match runWhile f P st before after args with
          | .ok (st', vs) => match st'.bind o.results vs with
            | .ok st'' => .ok (st'', none)
            | _ => .err "scf.while results"
          | .ub w => .ub w
          | .fuel => .fuel
          | .err m => .err m
        | _ => .err "scf.while"
      | "affine.for" => match o.regions with
        | [body] => match affineForBounds o args with
          | .ok (l, u, s, inits) =>
            if s ≤ 0 then .ub "affine.for non-positive step"
            else match runFor f P st body 64 l u s inits with
              | .ok (st', vs) => match st'.bind o.results vs with
                | .ok st'' => .ok (st'', none)
                | _ => .err "affine.for results"
              | .ub w => .ub w
              | .fuel => .fuel
              | .err m => .err m
          | .ub w => .ub w
          | .fuel => .fuel
          | .err m => .err m
        | _ => .err "affine.for"
      | _ =>
        match stateOp st o args with
        | some (.ok (st1, rs)) => match st1.bind o.results rs with
          | .ok st' => .ok (st', none)
          | _ => .err "results arity"
        | some (.ub w) => .ub w
        | some .fuel => .fuel
        | some (.err m) => .err m
        | none =>
        match pureOp o args with
        | .ok rs => match st.bind o.results rs with
          | .ok st' => .ok (st', none)
          | _ => .err "results arity"
        | .ub w => .ub w
        | .fuel => .fuel
        | .err m => .err m

  /-- execute a region's CFG from its entry block -/
  def runRegion (fuel : Nat) (P : Prog) (st : St) (r : Region) (args : List Val) : Res (St × Term) :=
    match fuel with
    | 0 => .fuel
    | f + 1 => match r.blocks with
      | [] => .err "empty region"
      | b :: _ => runBlock f P st r b.id args

  def runBlock (fuel : Nat) (P : Prog) (st : St) (r : Region) (bid : Nat) (args : List Val) : Res (St × Term) :=
    match fuel with
    | 0 => .fuel
    | f + 1 => match findBlock r bid with
      | none => .err "unknown block"
      | some b => match st.bind b.args args with
        | .ok st' => match runOps f P st' b.ops with
          | .ok (st'', .br b' as) => runBlock f P st'' r b' as
          | other => other
        | _ => .err "block args"

  def runFor (fuel : Nat) (P : Prog) (st : St) (body : Region) (w : Nat) (i ub step : Int) (iters : List Val) :
      Res (St × List Val) :=
    match fuel with
    | 0 => .fuel
    | f + 1 =>
      if i < ub then
        match runRegion f P st body (.int w (BitVec.ofInt w i) :: iters) with
        | .ok (st', .yield vs) => runFor f P st' body w (i + step) ub step vs
        | .ok _ => .err "scf.for body did not yield"
        | .ub x => .ub x
        | .fuel => .fuel
        | .err m => .err m
      else .ok (st, iters)

  def runWhile (fuel : Nat) (P : Prog) (st : St) (before after : Region) (args : List Val) : Res (St × List Val) :=
    match fuel with
    | 0 => .fuel
    | f + 1 =>
      match runRegion f P st before args with
      | .ok (st', .cond c vs) =>
        if c then
          match runRegion f P st' after vs with
          | .ok (st'', .yield ws) => runWhile f P st'' before after ws
          | .ok _ => .err "scf.while after-region did not yield"
          | .ub x => .ub x
          | .fuel => .fuel
          | .err m => .err m
        else .ok (st', vs)
      | .ok _ => .err "scf.while before-region did not end in scf.condition"
      | .ub x => .ub x
      | .fuel => .fuel
      | .err m => .err m

  def callFunc (fuel : Nat) (P : Prog) (st : St) (name : String) (args : List Val) : Res (St × List Val) :=
    match fuel with
    | 0 => .fuel
    | f + 1 => match findFunc P name with
      | none => .err s!"unknown function {name}"
      | some fn => match fn.body with
        | none => .ok ({ st with eff := ⟨name, args⟩ :: st.eff }, [])
        | some r =>
          -- callee runs in a fresh value environment; effects are threaded through
          match runRegion f P { env := [], eff := st.eff, sym := [], mem := st.mem } r args with
          | .ok (st', .ret vs) => .ok ({ st with eff := st'.eff, mem := st'.mem }, vs)
          | .ok _ => .err "function did not return"
          | .ub x => .ub x
          | .fuel => .fuel
          | .err m => .err m
end

/-- run function `name` on `args` -/
def run (P : Prog) (name : String) (args : List Val) (fuel : Nat) : Res (List Val × List Effect) :=
  match callFunc fuel P {} name args with
  | .ok (st, vs) => .ok (vs, st.eff.reverse)
  | .ub w => .ub w
  | .fuel => .fuel
  | .err m => .err m

/-! ### line protocol -/
def hexDigits (n : Nat) : String := String.ofList (Nat.toDigits 16 n)

def showVal : Val → String
  | .int w v => s!"i{w}:{v.toInt}"
  | .f64 b => if (Float.ofBits b).isNaN then "f64:nan" else s!"f64:{hexDigits b.toNat}"
  | .f32 b => if (Float32.ofBits b).isNaN then "f32:nan" else s!"f32:{hexDigits b.toNat}"
  | .mem id => s!"mem:{id}"

def parseVal (s : String) : Option Val :=
  match s.splitOn ":" with
  | [t, v] =>
    if t = "f64" then (v.toNat?).map fun n => .f64 n.toUInt64
    else if t = "f32" then (v.toNat?).map fun n => .f32 n.toUInt32
    else match parseTy t |>.width, v.toInt? with
      | some w, some i => some (.int w (BitVec.ofInt w i))
      | _, _ => none
  | _ => none

def showEffects (es : List Effect) : String :=
  " ".intercalate (es.map fun e => e.callee ++ "(" ++ ",".intercalate (e.args.map showVal) ++ ")")

def showRes : Res (List Val × List Effect) → String
  | .ok (vs, es) => "ok [" ++ ",".intercalate (vs.map showVal) ++ "] effects [" ++ showEffects es ++ "]"
  | .ub w => s!"ub {w}"
  | .fuel => "fuel"
  | .err m => s!"err {m}"

structure DState where
  prog : Option Prog := none
deriving Inhabited

/-- `prog <sexp>` loads a module; `run <fuel> <func> <val>*` runs it. -/
def lineStep (s : DState) (line : String) : DState × String :=
  if line.startsWith "prog " then
    match readSExp (line.drop 5).toString >>= parseProg with
    | some p => ({ prog := some p }, "ok")
    | none => ({ prog := none }, "bad-prog")
  else match words line with
    | "run" :: fuel :: fn :: args =>
      match s.prog, fuel.toNat?, args.mapM parseVal with
      | some p, some f, some vs => (s, showRes (run p fn vs f))
      | _, _, _ => (s, "bad-op")
    | _ => (s, "bad-op")

end Xdsl.Sem
