import XdslModel.Prelude
/-!
Model of the literal layer of xDSL's textual format (C06): what `Printer.print_bytes_literal`,
`print_string_literal`, `print_int`, `print_float` emit, how `MLIRLexer._lex_string_literal` /
`_lex_number` and `StringLiteral.bytes_contents` read it back, `IntegerType.normalized_value` /
`IntegerAttr.__init__`, and the `struct`-style little-endian packing of dense elements.

Text is `List Char` (Python `str` without lone surrogates), payloads are `List UInt8`.
Python's float formatting/parsing and `struct` float packing are *parameters* (`FloatOracle`).

The file mirrors the code *with the C06 fixes applied* (string literals are classified by UTF-8
decodability; hexadecimal literals are bit patterns wherever a float is expected).
NO Mathlib import, no proofs.
-/
namespace Xdsl.Literals

/-! ## 0. digits -/

/-- digit `n < 16` as an upper-case hexadecimal character (`f"{b:02X}"`, `f"{n:X}"`) -/
def hexU (n : Nat) : Char := if n < 10 then Char.ofNat (48 + n) else Char.ofNat (55 + n)

/-- digit `n < 16` as a lower-case hexadecimal character (`bytes.hex()`) -/
def hexL (n : Nat) : Char := if n < 10 then Char.ofNat (48 + n) else Char.ofNat (87 + n)

def isDigit (c : Char) : Bool := '0' ≤ c && c ≤ '9'

/-- value of a hexadecimal digit (`string.hexdigits` / `[0-9A-Fa-f]`) -/
def hexVal? (c : Char) : Option Nat :=
  if '0' ≤ c && c ≤ '9' then some (c.toNat - 48)
  else if 'A' ≤ c && c ≤ 'F' then some (c.toNat - 55)
  else if 'a' ≤ c && c ≤ 'f' then some (c.toNat - 87)
  else none

def isHexDigit (c : Char) : Bool := (hexVal? c).isSome

/-- `f"{n:d}"` / `f"{n:X}"` for a natural number: most significant digit first, no padding.
`fuel` only has to exceed the number of digits. -/
def toBaseAux (base : Nat) (dig : Nat → Char) : Nat → Nat → List Char → List Char
  | 0, _, acc => acc
  | fuel + 1, n, acc =>
    let acc' := dig (n % base) :: acc
    if n / base = 0 then acc' else toBaseAux base dig fuel (n / base) acc'

def toDec (n : Nat) : List Char := toBaseAux 10 hexU (n + 1) n []
def toHexU (n : Nat) : List Char := toBaseAux 16 hexU (n + 1) n []

/-- `int(text, base)` on a string of digits (left fold) -/
def ofDigits (base : Nat) (cs : List Char) : Nat :=
  cs.foldl (fun acc c => acc * base + (hexVal? c).getD 0) 0

/-- `f"{v:d}"` -/
def intToDec (v : Int) : List Char :=
  if v < 0 then '-' :: toDec v.natAbs else toDec v.natAbs

/-! ## 1. bytes and string literals -/

/-- one byte of `Printer.print_bytes_literal` -/
def escapeByte (b : UInt8) : List Char :=
  if b = 0x5C then ['\\', '\\']
  else if b < 0x20 || b > 0x7E || b = 0x22 then ['\\', hexU (b.toNat / 16), hexU (b.toNat % 16)]
  else [Char.ofNat b.toNat]

def escape : List UInt8 → List Char
  | [] => []
  | b :: bs => escapeByte b ++ escape bs

/-- `Printer.print_bytes_literal` -/
def printBytesLiteral (bs : List UInt8) : List Char := '"' :: (escape bs ++ ['"'])

/-- `str.encode("utf-8")` -/
def utf8 : List Char → List UInt8
  | [] => []
  | c :: cs => String.utf8EncodeChar c ++ utf8 cs

/-- `Printer.print_string_literal` -/
def printStringLiteral (s : List Char) : List Char := printBytesLiteral (utf8 s)

/-- `bytes.decode()`: `none` is `UnicodeDecodeError` -/
def utf8Decode? (bs : List UInt8) : Option (List Char) :=
  (ByteArray.utf8Decode? bs.toByteArray).map Array.toList

def isUtf8 (bs : List UInt8) : Bool := (utf8Decode? bs).isSome

/-- Result of scanning the body of a string literal: decoded bytes (`StringLiteral.bytes_contents`),
whether the text contained a backslash, and the text after the closing quote. -/
structure Scan where
  bytes : List UInt8
  esc : Bool
  rest : List Char
deriving Repr, DecidableEq

def Scan.push (bs : List UInt8) (esc : Bool) : Option Scan → Option Scan
  | none => none
  | some s => some { s with bytes := bs ++ s.bytes, esc := esc || s.esc }

/-- The text after the opening quote, as matched by
`"(?:[^"\\\n\v\f]+|\\(?:["nt\\]|[0-9A-Fa-f]{2}))*"` and decoded by `bytes_contents`.
`none`: the regex does not match (`ParseError`). -/
def scanBody : List Char → Option Scan
  | [] => none
  | c :: rest =>
    if c = '"' then some ⟨[], false, rest⟩
    else if c = '\\' then
      match rest with
      | [] => none
      | e :: rest₁ =>
        if e = '"' then Scan.push [0x22] true (scanBody rest₁)
        else if e = 'n' then Scan.push [0x0A] true (scanBody rest₁)
        else if e = 't' then Scan.push [0x09] true (scanBody rest₁)
        else if e = '\\' then Scan.push [0x5C] true (scanBody rest₁)
        else
          match hexVal? e with
          | none => none
          | some h =>
            match rest₁ with
            | [] => none
            | d :: rest₂ =>
              match hexVal? d with
              | some l => Scan.push [UInt8.ofNat (h * 16 + l)] true (scanBody rest₂)
              | none => none
    else if c = '\n' || c = '\x0b' || c = '\x0c' then none
    else Scan.push (String.utf8EncodeChar c) false (scanBody rest)

inductive StrKind | stringLit | bytesLit
deriving Repr, DecidableEq

/-- `MLIRLexer._lex_string_literal` (fixed): kind, payload, remaining text. The input starts at the
opening quote. -/
def lexStringLiteral : List Char → Option (StrKind × List UInt8 × List Char)
  | '"' :: body =>
    match scanBody body with
    | none => none
    | some s =>
      if !s.esc then some (.stringLit, s.bytes, s.rest)          -- `""` and backslash-free text
      else if isUtf8 s.bytes then some (.stringLit, s.bytes, s.rest)
      else some (.bytesLit, s.bytes, s.rest)
  | _ => none

/-- `_lex_string_literal` of the unfixed tree (`bytes_contents.isascii()`); only used for the
counterexample theorem and the evidence. -/
def lexStringLiteralOld : List Char → Option (StrKind × List UInt8 × List Char)
  | '"' :: body =>
    match scanBody body with
    | none => none
    | some s =>
      if !s.esc then some (.stringLit, s.bytes, s.rest)
      else if s.bytes.all (· < 0x80) then some (.stringLit, s.bytes, s.rest)
      else some (.bytesLit, s.bytes, s.rest)
  | _ => none

/-- What `AttrParser._parse_optional_builtin_attr` makes of a string/bytes literal token -/
inductive StrAttr
  | str (s : List Char)      -- `StringAttr`
  | bytes (b : List UInt8)   -- `BytesAttr`
deriving Repr, DecidableEq

def parseStrAttr (text : List Char) : Option StrAttr :=
  match lexStringLiteral text with
  | some (.stringLit, bs, []) => (utf8Decode? bs).map .str
  | some (.bytesLit, bs, []) => some (.bytes bs)
  | _ => none

/-! ## 2. integers -/

inductive Sgn | signless | signed | unsigned
deriving Repr, DecidableEq

/-- `unsigned_upper_bound` = `1 << w` -/
def unsignedUB (w : Nat) : Int := 2 ^ w
/-- `signed_lower_bound` = `-((1 << w) >> 1)` -/
def signedLB (w : Nat) : Int := -((2 ^ w : Int) / 2)
/-- `signed_upper_bound` = `1 << max(w - 1, 0)` -/
def signedUB (w : Nat) : Int := 2 ^ (w - 1)

/-- `Signedness.value_range`: `(min, max + 1)` -/
def valueRange (s : Sgn) (w : Nat) : Int × Int :=
  match s with
  | .signless => (signedLB w, unsignedUB w)
  | .signed => (signedLB w, signedUB w)
  | .unsigned => (0, unsignedUB w)

def inRange (s : Sgn) (w : Nat) (v : Int) : Bool :=
  (valueRange s w).1 ≤ v && v < (valueRange s w).2

/-- `IntegerType.normalized_value(value, truncate_bits=…)` -/
def normalizedValue (s : Sgn) (w : Nat) (v : Int) (truncate : Bool) : Option Int :=
  if !inRange s w v && !truncate then none
  else
    let v := if inRange s w v then v else Int.fmod v (2 ^ w)
    if s ≠ .unsigned && signedUB w ≤ v then some (v - unsignedUB w) else some v

/-- integer-like element types -/
inductive IntTy
  | index
  | int (s : Sgn) (w : Nat)
deriving Repr, DecidableEq

def IntTy.isI1 : IntTy → Bool
  | .int .signless 1 => true
  | _ => false

/-- `IntegerAttr.__init__` followed by `verify`: the stored value, or `none` for `VerifyException` -/
def intAttrCtor (ty : IntTy) (v : Int) : Option Int :=
  match ty with
  | .index => some v
  | .int s w =>
    let v' := (normalizedValue s w v false).getD v
    if inRange s w v' then some v' else none

/-- `Printer.print_int(value, type)` -/
def printInt (v : Int) (isI1 : Bool) : List Char :=
  if isI1 then (if v ≠ 0 then "true".toList else "false".toList) else intToDec v

def printIntTy : IntTy → List Char
  | .index => "index".toList
  | .int .signless w => 'i' :: toDec w
  | .int .signed w => 's' :: 'i' :: toDec w
  | .int .unsigned w => 'u' :: 'i' :: toDec w

/-- `IntegerAttr.print_builtin` -/
def printIntAttr (ty : IntTy) (v : Int) : List Char :=
  printInt v ty.isI1 ++ (if ty.isI1 then [] else " : ".toList ++ printIntTy ty)

/-! ### number tokens (`MLIRLexer._lex_number`) -/

inductive NumTok
  | int (n : Nat) (hex : Bool)       -- INTEGER_LIT with its value (`get_int_value`)
  | float (text : List Char)         -- FLOAT_LIT with its text (`float(text)` is the oracle's job)
deriving Repr, DecidableEq

/-- longest prefix satisfying `p`, and the rest (a regex `[...]*`) -/
def spanP (p : Char → Bool) : List Char → List Char × List Char
  | [] => ([], [])
  | c :: r => if p c then ((c :: (spanP p r).1), (spanP p r).2) else ([], c :: r)

def spanDigits (cs : List Char) : List Char × List Char := spanP isDigit cs
def spanHex (cs : List Char) : List Char × List Char := spanP isHexDigit cs

/-- `[+-]?` -/
def lexSign : List Char → List Char × List Char
  | s :: r => if s = '+' || s = '-' then ([s], r) else ([], s :: r)
  | [] => ([], [])

/-- `([eE][+-]?[0-9]+)?` : consumed text and rest -/
def lexExponent (cs : List Char) : List Char × List Char :=
  match cs with
  | e :: r =>
    if e = 'e' || e = 'E' then
      if (spanDigits (lexSign r).2).1.isEmpty then ([], cs)
      else (e :: ((lexSign r).1 ++ (spanDigits (lexSign r).2).1), (spanDigits (lexSign r).2).2)
    else ([], cs)
  | [] => ([], [])

/-- hexadecimal case of `_lex_number`: `0x` followed by at least one hex digit -/
def lexHex? : List Char → Option (NumTok × List Char)
  | '0' :: 'x' :: h :: r =>
    if isHexDigit h then some (.int (ofDigits 16 (spanHex (h :: r)).1) true, (spanHex (h :: r)).2) else none
  | _ => none

/-- decimal case of `_lex_number`: `[0-9]*` then optionally `\.[0-9]*([eE][+-]?[0-9]+)?` -/
def lexDec (cs : List Char) : NumTok × List Char :=
  let p := spanDigits cs
  match p.2 with
  | '.' :: r₁ =>
    let f := spanDigits r₁
    let e := lexExponent f.2
    (.float (p.1 ++ '.' :: (f.1 ++ e.1)), e.2)
  | _ => (.int (ofDigits 10 p.1) false, p.2)

/-- `_lex_number`; the input starts at the first digit. -/
def lexNumber (cs : List Char) : Option (NumTok × List Char) :=
  match cs with
  | [] => none
  | c :: _ =>
    if !isDigit c then none
    else match lexHex? cs with
      | some t => some t
      | none => some (lexDec cs)

/-- identifier characters of `bare_identifier_suffix_regex` -/
def isIdentChar (c : Char) : Bool :=
  ('a' ≤ c && c ≤ 'z') || ('A' ≤ c && c ≤ 'Z') || isDigit c || c = '_' || c = '$' || c = '.'

/-- `[su]?i(\d+)` / `index` -/
def parseIntTy (cs : List Char) : Option IntTy :=
  let num (ds : List Char) (s : Sgn) : Option IntTy :=
    if !ds.isEmpty && ds.all isDigit then some (.int s (ofDigits 10 ds)) else none
  if cs = "index".toList then some .index
  else match cs with
    | 'i' :: ds => num ds .signless
    | 's' :: 'i' :: ds => num ds .signed
    | 'u' :: 'i' :: ds => num ds .unsigned
    | _ => none

/-- an optional leading `-` token -/
def stripMinus : List Char → Bool × List Char
  | '-' :: r => (true, r)
  | cs => (false, cs)

def dropSpaces : List Char → List Char
  | ' ' :: r => dropSpaces r
  | cs => cs

/-- `AttrParser.parse_optional_builtin_int_or_float_attr` restricted to integer results:
`true`/`false`, or `-? number (: type)?`.  Returns the type and the stored value. -/
def parseIntAttr (text : List Char) : Option (IntTy × Int) :=
  if text = "true".toList then (intAttrCtor (.int .signless 1) 1).map ((.int .signless 1), ·)
  else if text = "false".toList then (intAttrCtor (.int .signless 1) 0).map ((.int .signless 1), ·)
  else
    let neg := (stripMinus text).1
    match lexNumber (dropSpaces (stripMinus text).2) with
    | some (.int n _, rest) =>
      let v : Int := if neg then -(n : Int) else n
      match dropSpaces rest with
      | [] => (intAttrCtor (.int .signless 64) v).map ((.int .signless 64), ·)
      | ':' :: r =>
        let tyText := dropSpaces r
        if tyText.all isIdentChar then
          match parseIntTy tyText with
          | some ty => (intAttrCtor ty v).map (ty, ·)
          | none => none
        else none
      | _ => none
    | _ => none

/-! ## 3. dense element packing (`struct.pack("<b/h/i/q/B/H/I/Q")`) -/

/-- `n` little-endian bytes of a natural number (higher bytes are dropped) -/
def packNat : Nat → Nat → List UInt8
  | 0, _ => []
  | n + 1, u => UInt8.ofNat (u % 256) :: packNat n (u / 256)

/-- little-endian two's-complement bytes of `v`: the bytes of `v mod 2^(8n)` -/
def packLE (n : Nat) (v : Int) : List UInt8 := packNat n (Int.toNat (Int.emod v (2 ^ (8 * n))))

def unpackLEU : List UInt8 → Nat
  | [] => 0
  | b :: r => b.toNat + 256 * unpackLEU r

def unpackLE (signed : Bool) (bs : List UInt8) : Int :=
  let u : Int := unpackLEU bs
  if signed && (2 : Int) ^ (8 * bs.length - 1) ≤ u && 0 < bs.length then u - 2 ^ (8 * bs.length) else u

/-- size in bytes of the `struct` format of an integer type: `_SIGNED_INTEGER_FORMATS[ceil(w/8)-1]`,
`none` when the format is not implemented (width 0 indexes `[-1]` = 8 bytes, width > 64 raises). -/
def fmtSize (w : Nat) : Option Nat :=
  if w = 0 then some 8
  else if w ≤ 8 then some 1 else if w ≤ 16 then some 2 else if w ≤ 32 then some 4
  else if w ≤ 64 then some 8 else none

def IntTy.size? : IntTy → Option Nat
  | .index => some 8
  | .int _ w => fmtSize w

def IntTy.signedFmt : IntTy → Bool
  | .index => true
  | .int s _ => s ≠ .unsigned

/-- `struct.pack` of one value: `none` is `struct.error` (out of range for the format) -/
def packInt? (signed : Bool) (n : Nat) (v : Int) : Option (List UInt8) :=
  let lo : Int := if signed then -(2 ^ (8 * n - 1)) else 0
  let hi : Int := if signed then 2 ^ (8 * n - 1) else 2 ^ (8 * n)
  if lo ≤ v && v < hi then some (packLE n v) else none

def packList? (signed : Bool) (n : Nat) : List Int → Option (List UInt8)
  | [] => some []
  | v :: vs => do
    let b ← packInt? signed n v
    let r ← packList? signed n vs
    pure (b ++ r)

/-- `struct.iter_unpack`: chunks of `n` bytes (`fuel` ≥ number of elements) -/
def unpackList (signed : Bool) (n : Nat) : Nat → List UInt8 → List Int
  | 0, _ => []
  | fuel + 1, bs =>
    if bs.isEmpty || n = 0 then [] else unpackLE signed (bs.take n) :: unpackList signed n fuel (bs.drop n)

/-- `bytes.hex().upper()` -/
def hexOfBytesU : List UInt8 → List Char
  | [] => []
  | b :: r => hexU (b.toNat / 16) :: hexU (b.toNat % 16) :: hexOfBytesU r

/-- `bytes.hex()` -/
def hexOfBytesL : List UInt8 → List Char
  | [] => []
  | b :: r => hexL (b.toNat / 16) :: hexL (b.toNat % 16) :: hexOfBytesL r

/-- `bytes.fromhex` on an even number of hex digits (`none`: `ValueError`) -/
def bytesOfHex? : List Char → Option (List UInt8)
  | [] => some []
  | [_] => none
  | a :: b :: r =>
    match hexVal? a, hexVal? b, bytesOfHex? r with
    | some h, some l, some bs => some (UInt8.ofNat (h * 16 + l) :: bs)
    | _, _, _ => none

/-- `int.to_bytes(size, "little")` for a non-negative integer: `none` is `OverflowError` -/
def toBytesLE? (size : Nat) (n : Nat) : Option (List UInt8) :=
  if n < 2 ^ (8 * size) then some (packNat size n) else none

/-! ### dense integer elements: element text and the whole body of `dense<…>` -/

/-- `DenseIntOrFPElementsAttr.from_list` on one integer element: normalise, then pack -/
def denseElemBytes? (ty : IntTy) (v : Int) : Option (List UInt8) :=
  match ty with
  | .index => packInt? true 8 v
  | .int s w =>
    match normalizedValue s w v false, fmtSize w with
    | some v', some n => packInt? (s ≠ .unsigned) n v'
    | _, _ => none

/-- tensor-literal element as the parser sees it: `_TensorLiteralElement.to_int` -/
def parseDenseIntElem (ty : IntTy) (text : List Char) : Option Int :=
  let boolOk : Bool := match ty with | .int _ 1 => true | _ => false
  let negOk : Bool := match ty with | .int .unsigned _ => false | _ => true
  if text = "true".toList then (if boolOk then some 1 else none)
  else if text = "false".toList then (if boolOk then some 0 else none)
  else
    let neg := (stripMinus text).1
    match lexNumber (stripMinus text).2 with
    | some (.int n _, []) =>
      let v : Int := if neg then -(n : Int) else n
      if v < 0 && !negOk then none else some v
    | _ => none

/-- body of `dense<…>` for integer element types (`print_without_type`, fixed `is_splat`) -/
inductive DenseBody
  | empty
  | splat (elem : List Char)
  | hex (digits : List Char)              -- `"0x…"` string
  | flat (elems : List (List Char))       -- elements in row-major order (nesting is C04's skeleton)
deriving Repr, DecidableEq

def chunks (n : Nat) : Nat → List UInt8 → List (List UInt8)
  | 0, _ => []
  | fuel + 1, bs => if bs.isEmpty || n = 0 then [] else bs.take n :: chunks n fuel (bs.drop n)

def replicateBytes (k : Nat) (bs : List UInt8) : List UInt8 := (List.replicate k bs).flatten

/-- fixed `is_splat`: every element has the bit pattern of the first -/
def isSplat (n : Nat) (bs : List UInt8) : Bool := bs = replicateBytes (bs.length / n) (bs.take n)

def printDenseInt (ty : IntTy) (bs : List UInt8) : DenseBody :=
  match ty.size? with
  | none => .empty
  | some n =>
    let len := bs.length / n
    let vals := unpackList ty.signedFmt n len bs
    if len = 0 then .empty
    else if isSplat n bs then .splat (printInt (vals.headD 0) ty.isI1)
    else if len > 100 then .hex (hexOfBytesU bs)
    else .flat (vals.map (printInt · ty.isI1))

def mapM? {α β : Type} (f : α → Option β) : List α → Option (List β)
  | [] => some []
  | a :: as => do
    let b ← f a
    let bs ← mapM? f as
    pure (b :: bs)

/-- `parse_dense_int_or_fp_elements_attr` for integer element types; `count` = product of the
type's shape. -/
def parseDenseInt (ty : IntTy) (count : Nat) (body : DenseBody) : Option (List UInt8) :=
  match ty.size? with
  | none => none
  | some n =>
    match body with
    | .empty => if count = 0 then some [] else none
    | .hex ds =>
      match bytesOfHex? ds with
      | none => none
      | some bs =>
        let bs := if bs.length = n then replicateBytes count bs else bs
        if bs.length / n = count then some bs else none
    | .splat e =>
      (parseDenseIntElem ty e).bind fun v => (denseElemBytes? ty v).map (replicateBytes count)
    | .flat es =>
      if es.length ≠ count then none
      else (mapM? (fun e => (parseDenseIntElem ty e).bind (denseElemBytes? ty)) es).map List.flatten

/-! ## 4. floats: the decision tree of `Printer.print_float` over an oracle for CPython -/

inductive FTy | f16 | bf16 | f32 | f64 | other
deriving Repr, DecidableEq

/-- CPython's float formatting/parsing and the `pack`/`unpack` of the xDSL float types, as
parameters.  `F` is the set of Python floats (bit patterns of doubles). -/
structure FloatOracle where
  F : Type
  isNan : F → Bool
  isInf : F → Bool
  /-- Python `==` -/
  pyEq : F → F → Bool
  /-- unary minus (what the parser applies after a `-` token) -/
  neg : F → F
  /-- `float(int)` -/
  ofInt : Int → F
  /-- `f"{x:.5e}"`, `f"{x:.9g}"`, `f"{x:.17g}"`, `repr(x)` -/
  fmt5e : F → List Char
  fmt9g : F → List Char
  fmt17g : F → List Char
  repr : F → List Char
  /-- `float(text)` -/
  parse : List Char → F
  /-- `type.pack((x,))` and `type.unpack(bytes, 1)[0]` -/
  pack : FTy → F → List UInt8
  unpack : FTy → List UInt8 → F
  /-- `type.compile_time_size` -/
  size : FTy → Nat

namespace FloatOracle
variable (O : FloatOracle)

/-- what `FloatAttr.__init__` stores: the value constrained to the precision of the type -/
def round (ty : FTy) (x : O.F) : O.F := O.unpack ty (O.pack ty x)

end FloatOracle

/-- insert `0` before the first `e` (`float_str[:index] + "0" + float_str[index:]`); Python's
`find` returns -1 when there is no `e`, which splices before the last character. -/
def ins0 (s : List Char) : List Char :=
  match s.span (· ≠ 'e') with
  | (pre, 'e' :: post) => pre ++ '0' :: 'e' :: post
  | _ => s.dropLast ++ '0' :: (s.drop (s.length - 1))

/-- The answers of the oracle that `print_float` looks at for one value. -/
structure FloatObs where
  ty : FTy
  nanOrInf : Bool
  packed : List UInt8       -- `type.pack((value,))`
  s5 : List Char            -- `f"{value:.5e}"`
  eq5 : Bool                -- `type.unpack(type.pack([float(ins0 s5)]), 1)[0] == value`
  s9 : List Char
  s17 : List Char
  srepr : List Char
deriving Repr

/-- `Printer.print_float` as a function of the oracle's answers -/
def printFloatObs (o : FloatObs) : List Char :=
  if o.nanOrInf then '0' :: 'x' :: hexOfBytesL o.packed.reverse
  else if o.eq5 then ins0 o.s5
  else
    match o.ty with
    | .f32 => if o.s9.contains '.' then o.s9 else '0' :: 'x' :: toHexU (unpackLEU o.packed)
    | .f64 => if o.s17.contains '.' then o.s17 else '0' :: 'x' :: toHexU (unpackLEU o.packed)
    | _ => o.srepr

def observe (O : FloatOracle) (ty : FTy) (x : O.F) : FloatObs :=
  { ty := ty
    nanOrInf := O.isNan x || O.isInf x
    packed := O.pack ty x
    s5 := O.fmt5e x
    eq5 := O.pyEq (O.round ty (O.parse (ins0 (O.fmt5e x)))) x
    s9 := O.fmt9g x
    s17 := O.fmt17g x
    srepr := O.repr x }

/-- `Printer.print_float(value, type)` -/
def printFloat (O : FloatOracle) (ty : FTy) (x : O.F) : List Char := printFloatObs (observe O ty x)

/-- The number part of `parse_optional_builtin_int_or_float_attr` / a dense float element (fixed
parser) for a float type: `-? number`, hexadecimal literals are bit patterns.  `none`: the text is
not one number (`ParseError`) or the bit pattern does not fit. -/
def parseFloatLit (O : FloatOracle) (ty : FTy) (text : List Char) : Option O.F :=
  let neg := (stripMinus text).1
  match lexNumber (stripMinus text).2 with
  | some (.float ft, []) =>
    let v := O.parse ft
    some (O.round ty (if neg then O.neg v else v))
  | some (.int n hex, []) =>
    if hex && !neg then
      (toBytesLE? (O.size ty) n).map fun bs => O.round ty (O.unpack ty bs)
    else some (O.round ty (O.ofInt (if neg then -(n : Int) else n)))
  | _ => none

/-! ### `builtin.FloatData` (helper attribute holding a Python float; FIXED code: a non-finite value
travels as the hexadecimal bit pattern of the binary64, as in `Printer.print_float`) -/

/-- `mantissa + ".0e" + exponent` where `mantissa, _, exponent = text.partition("e")` -/
def dot0 (s : List Char) : List Char :=
  match s.span (· ≠ 'e') with
  | (pre, 'e' :: post) => pre ++ '.' :: '0' :: 'e' :: post
  | (pre, _) => pre ++ ['.', '0', 'e']

/-- the text `FloatData.print_parameter` derives from `f"{x}"` for a finite value -/
def fdText (s : List Char) : List Char := if s.contains '.' then s else dot0 s

/-- The answers of the oracle that `FloatData.print_parameter` looks at. -/
structure FloatDataObs where
  nonFinite : Bool          -- `not math.isfinite(x)`
  bits : List UInt8         -- `struct.pack("<d", x)`
  srepr : List Char         -- `f"{x}"`
deriving Repr

/-- `FloatData.print_parameter` between the angle brackets -/
def printFloatDataObs (o : FloatDataObs) : List Char :=
  if o.nonFinite then '0' :: 'x' :: toHexU (unpackLEU o.bits) else fdText o.srepr

def printFloatData (O : FloatOracle) (x : O.F) : List Char :=
  printFloatDataObs ⟨O.isNan x || O.isInf x, O.pack .f64 x, O.repr x⟩

/-- `FloatData.parse_parameter` between the angle brackets: `parse_number`, a hexadecimal literal
(not negated) is the bit pattern of a binary64 and must fit 64 bits; other integers go through
`float(int)` (`OverflowError` for integers beyond the double range is not modelled: the printer
never emits a decimal integer). -/
def parseFloatData (O : FloatOracle) (text : List Char) : Option O.F :=
  let neg := (stripMinus text).1
  match lexNumber (stripMinus text).2 with
  | some (.float ft, []) =>
    let v := O.parse ft
    some (if neg then O.neg v else v)
  | some (.int n hex, []) =>
    if hex && !neg then (toBytesLE? 8 n).map fun bs => O.unpack .f64 bs
    else some (O.ofInt (if neg then -(n : Int) else n))
  | _ => none

/-! ## 5. line protocol -/

def hexToBytes? (s : String) : Option (List UInt8) :=
  if s = "-" then some [] else bytesOfHex? s.toList

def bytesToHex (bs : List UInt8) : String :=
  if bs.isEmpty then "-" else String.ofList (hexOfBytesL bs)

/-- text travels as hex of its UTF-8 encoding (`-` = empty) -/
def hexToText? (s : String) : Option (List Char) := (hexToBytes? s).bind utf8Decode?

def textToHex (cs : List Char) : String := bytesToHex (utf8 cs)

def parseSgn? : String → Option Sgn
  | "i" => some .signless
  | "si" => some .signed
  | "ui" => some .unsigned
  | _ => none

def parseTy? (s : String) (w : String) : Option IntTy :=
  if s = "index" then some .index else do
    let sg ← parseSgn? s
    let w ← w.toNat?
    pure (.int sg w)

def showOptInt : Option Int → String
  | none => "none"
  | some v => toString v

def showTy : IntTy → String
  | .index => "index 0"
  | .int .signless w => s!"i {w}"
  | .int .signed w => s!"si {w}"
  | .int .unsigned w => s!"ui {w}"

def showNumTok : Option (NumTok × List Char) → String
  | none => "error"
  | some (.int n hex, rest) => s!"int {n} {showBool hex} {rest.length}"
  | some (.float t, rest) => s!"float {textToHex t} {rest.length}"

def parseFTy? : String → Option FTy
  | "f16" => some .f16
  | "bf16" => some .bf16
  | "f32" => some .f32
  | "f64" => some .f64
  | "other" => some .other
  | _ => none

def showBody : DenseBody → String
  | .empty => "empty"
  | .splat e => s!"splat {String.ofList e}"
  | .hex d => s!"hex {String.ofList d}"
  | .flat es => "flat " ++ " ".intercalate (es.map String.ofList)

def showStrLex : Option (StrKind × List UInt8 × List Char) → String
  | none => "error"
  | some (.stringLit, bs, rest) => s!"STRING_LIT {bytesToHex bs} {rest.length}"
  | some (.bytesLit, bs, rest) => s!"BYTES_LIT {bytesToHex bs} {rest.length}"

def lineStep (_ : Unit) (line : String) : Unit × String :=
  let out : String :=
    match words line with
    | ["esc", h] => (match hexToBytes? h with | some bs => String.ofList (printBytesLiteral bs) | none => "bad-op")
    | ["strlit", h] => (match hexToText? h with | some cs => String.ofList (printStringLiteral cs) | none => "bad-op")
    | ["lexstr", h] => (match hexToText? h with | some cs => showStrLex (lexStringLiteral cs) | none => "bad-op")
    | ["lexstr_old", h] => (match hexToText? h with | some cs => showStrLex (lexStringLiteralOld cs) | none => "bad-op")
    | ["utf8", h] => (match hexToBytes? h with | some bs => showBool (isUtf8 bs) | none => "bad-op")
    | ["range", s, w] =>
      (match parseSgn? s, w.toNat? with
       | some s, some w => s!"{(valueRange s w).1} {(valueRange s w).2}"
       | _, _ => "bad-op")
    | ["norm", s, w, v, t] =>
      (match parseSgn? s, w.toNat?, v.toInt? with
       | some s, some w, some v => showOptInt (normalizedValue s w v (t = "1"))
       | _, _, _ => "bad-op")
    | ["intattr", s, w, v] =>
      (match parseTy? s w, v.toInt? with
       | some ty, some v =>
         (match intAttrCtor ty v with
          | none => "raise VerifyException"
          | some v' =>
            let text := printIntAttr ty v'
            let back := match parseIntAttr text with
              | some (ty', v'') => s!"{showTy ty'} {v''}"
              | none => "error"
            s!"{v'} | {String.ofList text} | {back}")
       | _, _ => "bad-op")
    | ["parseint", h] =>
      (match hexToText? h with
       | some cs => (match parseIntAttr cs with | some (ty, v) => s!"{showTy ty} {v}" | none => "error")
       | none => "bad-op")
    | ["lexnum", h] => (match hexToText? h with | some cs => showNumTok (lexNumber cs) | none => "bad-op")
    | ["pack", sg, n, v] =>
      (match n.toNat?, v.toInt? with
       | some n, some v => (match packInt? (sg = "s") n v with | some bs => bytesToHex bs | none => "raise error")
       | _, _ => "bad-op")
    | ["unpack", sg, h] => (match hexToBytes? h with | some bs => toString (unpackLE (sg = "s") bs) | none => "bad-op")
    | ["denseint", s, w, count, h] =>
      (match parseTy? s w, count.toNat?, hexToBytes? h with
       | some ty, some count, some bs =>
         let body := printDenseInt ty bs
         let back := match parseDenseInt ty count body with
           | some bs' => bytesToHex bs'
           | none => "error"
         s!"{showBody body} | {back}"
       | _, _, _ => "bad-op")
    | ["float", ty, nanInf, packed, s5, eq5, s9, s17, srepr] =>
      (match parseFTy? ty, hexToBytes? packed, hexToText? s5, hexToText? s9, hexToText? s17, hexToText? srepr with
       | some ty, some packed, some s5, some s9, some s17, some srepr =>
         String.ofList (printFloatObs ⟨ty, nanInf = "1", packed, s5, eq5 = "1", s9, s17, srepr⟩)
       | _, _, _, _, _, _ => "bad-op")
    | ["floatdata", nonFinite, bits, srepr] =>
      (match hexToBytes? bits, hexToText? srepr with
       | some bits, some srepr => String.ofList (printFloatDataObs ⟨nonFinite = "1", bits, srepr⟩)
       | _, _ => "bad-op")
    | ["tobytes", size, n] =>
      (match size.toNat?, n.toNat? with
       | some size, some n => (match toBytesLE? size n with | some bs => bytesToHex bs | none => "raise OverflowError")
       | _, _ => "bad-op")
    | ["reset"] => "ok"
    | _ => "bad-op"
  ((), out)

end Xdsl.Literals
