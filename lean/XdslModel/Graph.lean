import XdslModel.Prelude
/-!
Region control-flow graphs for C24 (`xdsl/irdl/dominance.py`, `xdsl/ir/post_order.py`).

Blocks of a region are numbered `0 … n-1` in region order, block `0` is the entry block.
`g[b]` is the successor list of the last operation of block `b` (order and multiplicity kept:
`cf.cond_br %c, ^1, ^1` is `[1, 1]`); a block without terminator has `[]`.
-/
namespace Xdsl.Graph

abbrev Graph := List (List Nat)

/-- `block.last_op.successors` -/
def succ (g : Graph) (b : Nat) : List Nat := g.getD b []

/-- `pred[b]` of `DominanceInfo.__init__` (a Python set; only membership is ever used). -/
def preds (g : Graph) (b : Nat) : List Nat :=
  (List.range g.length).filter fun p => (succ g p).contains b

/-- every successor is a block of the same region -/
def wf (g : Graph) : Bool := g.all fun ss => ss.all (· < g.length)

/-! protocol helpers: one word per block, `-` = no successor, else comma separated indices -/
def parseSuccs (w : String) : Option (List Nat) :=
  if w = "-" then some [] else (w.splitOn ",").mapM String.toNat?

def parseGraph (ws : List String) : Option Graph := ws.mapM parseSuccs

def showList (l : List Nat) : String :=
  if l.isEmpty then "-" else ",".intercalate (l.map toString)

end Xdsl.Graph
