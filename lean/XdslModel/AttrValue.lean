import XdslModel.Prelude
/-!
Model of the value semantics of xDSL attributes (C08).

An attribute (and every Python object reachable from one) is a tree `V`:

* `leaf`  — observable payloads: a Python `int`, a `bytes`/`str` buffer, an enum member, `None`,
  and `fbits b`: a `builtin.FloatData` whose Python float has IEEE-754 binary64 bit pattern `b`.
* `node (obj cls) fields` — an instance of the (frozen, `eq=True`) dataclass `cls`:
  `Data` attributes have the single field `data`, `ParametrizedAttribute`s their parameters,
  `AffineMap`/`AffineExpr`… their dataclass fields.  `cls` is a token for the *identity* of the
  class object (two classes created by two calls of a class factory get different tokens).
* `node tup xs` — a Python tuple; `node fset xs` / `node dict xs` — `frozenset` / `immutabledict`
  in normal form (built by `mkNode`: sorted by key, duplicates removed, later bindings win), which
  is how the model abstracts the order-insensitive `==` of Python sets and dicts.

`V.eq` follows what the generated dataclass `__eq__` does: class identity, then the field tuples
component-wise; leaves by their payload.  `FloatData.__eq__/__hash__` are those of the FIXED code
(bit-pattern comparison, `fix: FloatData equality/hash on the bit pattern`).
`V.hash` follows the generated `__hash__`: the hash of the tuple of fields — the class does not
take part — with Python's exact `int` hash at integer leaves; the hash of a buffer or of a
tuple is idealised as an injective code of the buffer / of the component hashes.
`Legacy.*` keeps the float comparison of the unfixed code for the counterexample theorems.
-/
namespace Xdsl.AttrValue

inductive Leaf where
  | int (i : Int)
  | bytes (b : List Nat)
  | str (s : List Nat)
  | enum (cls : String) (key : List Nat)
  | none
  | fbits (bits : Nat)
  deriving Repr, Inhabited

inductive Tag where
  | tup
  | fset
  | dict
  | obj (cls : String)
  deriving Repr, Inhabited

inductive V where
  | leaf (l : Leaf)
  | node (t : Tag) (kids : List V)
  deriving Repr, Inhabited

/-! ### equality as computed by the Python code -/

def natListEq : List Nat → List Nat → Bool
  | [], [] => true
  | a :: as, b :: bs => a == b && natListEq as bs
  | _, _ => false

/-- `==` of two payloads: same Python type and same value. -/
def Leaf.eq : Leaf → Leaf → Bool
  | .int a, .int b => a == b
  | .bytes a, .bytes b => natListEq a b
  | .str a, .str b => natListEq a b
  | .enum c a, .enum d b => c == d && natListEq a b
  | .none, .none => true
  | .fbits a, .fbits b => a == b
  | _, _ => false

/-- `other.__class__ is self.__class__` (and container kinds never compare equal across kinds) -/
def Tag.eq : Tag → Tag → Bool
  | .tup, .tup => true
  | .fset, .fset => true
  | .dict, .dict => true
  | .obj c, .obj d => c == d
  | _, _ => false

mutual
/-- `a == b` -/
def V.eq : V → V → Bool
  | .leaf a, .leaf b => Leaf.eq a b
  | .node t xs, .node u ys => Tag.eq t u && V.eqList xs ys
  | _, _ => false
/-- `==` of two field tuples: same length, component-wise equal -/
def V.eqList : List V → List V → Bool
  | [], [] => true
  | x :: xs, y :: ys => V.eq x y && V.eqList xs ys
  | _, _ => false
end

/-! ### hashing -/

/-- CPython's `hash(int)` on 64-bit builds: reduction modulo the Mersenne prime `2^61 - 1`,
sign kept, and `-1` (the C error value) replaced by `-2`. -/
def pyIntHash (i : Int) : Int :=
  let m : Int := 2 ^ 61 - 1
  let h : Int := if i < 0 then -(((-i).toNat % m.toNat : Nat) : Int) else ((i.toNat % m.toNat : Nat) : Int)
  if h == -1 then -2 else h

/-- A hash code: stands for the Python hash value; distinct codes are assumed to be distinct
hash values (no accidental SipHash / tuple-hash collisions). -/
abbrev Code := List Int

def numCode (n : Int) : Code := [1, n]

/-- hash of a raw buffer (`bytes`, or the PEP 393 storage of a `str`); the empty buffer hashes to 0 -/
def bufCode (b : List Nat) : Code :=
  match b with
  | [] => numCode 0
  | _ => 2 :: b.map Int.ofNat

def le2 (c : Nat) : List Nat := [c % 256, c / 256 % 256]
def le4 (c : Nat) : List Nat := [c % 256, c / 256 % 256, c / 65536 % 256, c / 16777216 % 256]

/-- PEP 393 storage of a string given by its code points: 1, 2 or 4 bytes per character -/
def strBuf (s : List Nat) : List Nat :=
  if s.all (· < 256) then s
  else if s.all (· < 65536) then s.flatMap le2
  else s.flatMap le4

/-- little-endian 8 bytes of a binary64 bit pattern: `struct.pack("<d", x)` -/
def le8 (n : Nat) : List Nat :=
  [n % 256, n / 2^8 % 256, n / 2^16 % 256, n / 2^24 % 256, n / 2^32 % 256, n / 2^40 % 256,
   n / 2^48 % 256, n / 2^56 % 256]

def Leaf.hash : Leaf → Code
  | .int i => numCode (pyIntHash i)
  | .bytes b => bufCode b
  | .str s => bufCode (strBuf s)
  | .enum _ k => bufCode (strBuf k)
  | .none => [3]
  | .fbits n => bufCode (le8 n)

/-- length-prefixed concatenation (unambiguous) -/
def seqCode (kind : Int) (cs : List Code) : Code :=
  kind :: Int.ofNat cs.length :: cs.flatMap fun c => Int.ofNat c.length :: c

mutual
def V.hash : V → Code
  | .leaf l => Leaf.hash l
  | .node .tup xs => seqCode 10 (V.hashList xs)
  | .node (.obj _) xs => seqCode 10 (V.hashList xs)   -- `hash((f1, …, fn))`: class-blind
  | .node .fset xs => seqCode 11 (V.hashList xs)
  | .node .dict xs =>
    match xs with
    | [] => numCode 0                                  -- xor / sum over no items
    | _ => seqCode 12 (V.hashList xs)
def V.hashList : List V → List Code
  | [] => []
  | x :: xs => V.hash x :: V.hashList xs
end

/-! ### construction (normal forms of sets and dicts) -/

def lexLe : List Int → List Int → Bool
  | [], _ => true
  | _ :: _, [] => false
  | a :: as, b :: bs => if a < b then true else if b < a then false else lexLe as bs

def strCodes (s : String) : List Int := s.toList.map fun c => Int.ofNat c.toNat

/-- injective serialisation of a payload, used only to order set elements and dict keys -/
def Leaf.ser : Leaf → List Int
  | .int i => [0, i]
  | .bytes b => 1 :: b.map Int.ofNat
  | .str s => 2 :: s.map Int.ofNat
  | .enum c k => 3 :: Int.ofNat c.length :: (strCodes c ++ k.map Int.ofNat)
  | .none => [4]
  | .fbits n => [5, Int.ofNat n]

/-- sort key of a set element / dict entry `(k, v)`; only payload keys are supported -/
def V.sortKey : V → Option (List Int)
  | .leaf l => some l.ser
  | .node .tup (.leaf l :: _) => some l.ser
  | _ => none

def keyLe (a b : List Int × V) : Bool := lexLe a.1 b.1

/-- insert into a list sorted by key; an entry with an equal key is replaced (later wins) -/
def insertKeyed (e : List Int × V) : List (List Int × V) → List (List Int × V)
  | [] => [e]
  | x :: xs =>
    if e.1 = x.1 then e :: xs
    else if lexLe e.1 x.1 then e :: x :: xs
    else x :: insertKeyed e xs

def sortKeyed (l : List (List Int × V)) : List (List Int × V) :=
  l.foldl (fun acc e => insertKeyed e acc) []

def pairUp : List V → Option (List V)
  | [] => some []
  | k :: v :: r => (pairUp r).map fun t => V.node .tup [k, v] :: t
  | _ => none

/-- attach the sort key to every element; `none` if some element has no supported key -/
def keyed (xs : List V) : Option (List (List Int × V)) :=
  if xs.all (fun x => x.sortKey.isSome) then some (xs.map fun x => (x.sortKey.getD [], x)) else none

/-- a dictionary from its `(k, v)` entries in insertion order: key-sorted, later bindings win -/
def mkDict (entries : List V) : Option V :=
  (keyed entries).map fun l => .node .dict ((sortKeyed l).map (·.2))

/-- a frozenset from its elements in any order: sorted, duplicates removed -/
def mkSet (elems : List V) : Option V :=
  (keyed elems).map fun l => .node .fset ((sortKeyed l).map (·.2))

/-- Build a node from the children in construction order.  Tuples and objects keep their fields;
a frozenset is sorted and de-duplicated; a dict is given as `k1 v1 k2 v2 …` in insertion order
and becomes the key-sorted list of `(k, v)` pairs. -/
def mkNode (t : Tag) (kids : List V) : Option V :=
  match t with
  | .tup => some (.node .tup kids)
  | .obj c => some (.node (.obj c) kids)
  | .fset => mkSet kids
  | .dict => (pairUp kids).bind mkDict

/-! ### `OperationInfo` of common-subexpression elimination -/

structure OpInfo where
  name : List Nat
  attrs : V
  props : V
  resultTypes : List V
  operands : List Nat
  regions : List V
  deriving Repr, Inhabited

/-- `OperationInfo.__hash__`: `hash((name, Σ hash(item) over attributes, Σ … over properties,
hash(result_types), hash(operands)))`; SSA values hash by identity. -/
def OpInfo.hash (o : OpInfo) : Code :=
  seqCode 10 [bufCode (strBuf o.name), V.hash o.attrs, V.hash o.props,
              seqCode 10 (V.hashList o.resultTypes),
              seqCode 10 (o.operands.map fun i => numCode (Int.ofNat i))]

/-- `OperationInfo.__eq__` -/
def OpInfo.eq (a b : OpInfo) : Bool :=
  (a.hash == b.hash) && natListEq a.name b.name && V.eq a.attrs b.attrs && V.eq a.props b.props
    && natListEq a.operands b.operands && V.eqList a.resultTypes b.resultTypes
    && V.eqList a.regions b.regions

/-! ### a comparison that trusts the hash (kept for the counterexample theorem)

`hash(self) == hash(other)` is a conjunct of `OperationInfo.__eq__`; it is a filter, not a
substitute for comparing the attribute values: Python hashes collide systematically
(`hash(-1) == hash(-2)`, `hash(v) == hash(v + 2^61 - 1)`), and the collision propagates through
`IntAttr`, `IntegerAttr`, tuples and the `(key, value)` items summed by `OperationInfo.__hash__`. -/
namespace HashOnly

/-- the keys of a dictionary node (`dict.keys()`) -/
def keys : V → List V
  | .node .dict items => items.map fun
      | .node .tup (k :: _) => k
      | v => v
  | _ => []

/-- `OperationInfo.__eq__` with `attributes == …` / `properties == …` replaced by a comparison of the
key sets, relying on the hash for the values -/
def opInfoEq (a b : OpInfo) : Bool :=
  (a.hash == b.hash) && natListEq a.name b.name && V.eqList (keys a.attrs) (keys b.attrs)
    && V.eqList (keys a.props) (keys b.props)
    && natListEq a.operands b.operands && V.eqList a.resultTypes b.resultTypes
    && V.eqList a.regions b.regions

end HashOnly

/-! ### `BFloat16Type._encode` (the one hand-written encoder among the IEEE types) -/

/-- `BFloat16Type._encode` as a function of the binary32 bit pattern `f` of the value (what
`struct.pack("<f", value)` yields): a NaN keeps its upper half with the quiet bit forced on,
everything else is rounded to nearest-even on the upper 16 bits (`x | 0x40` is written
arithmetically). -/
def bf16Encode (f : Nat) : Nat :=
  if f % 2^31 > 0x7F800000 then
    let h := f / 2^16 % 2^16
    if h / 64 % 2 = 1 then h else h + 64
  else (f + 0x7FFF + f / 2^16 % 2) / 2^16 % 2^16

/-- `BFloat16Type._decode`: the pattern becomes the upper half of a binary32 -/
def bf16Decode (p : Nat) : Nat := p * 2^16

/-! ### dense resource handles (known finding: not context independent) -/

def suffixed (key : List Nat) (c : Nat) : List Nat :=
  key ++ 95 :: (Nat.toDigits 10 c).map Char.toNat      -- f"{key}_{c}"

/-- first key `key_c`, `c = start, start+1, …`, that is not in the storage (`fuel` bounds the search) -/
def freshKey (storage : List (List Nat)) (key : List Nat) : Nat → Nat → List Nat
  | 0, c => suffixed key c
  | fuel + 1, c =>
    if storage.contains (suffixed key c) then freshKey storage key fuel (c + 1) else suffixed key c

/-- `OpAsmDialectInterface.declare_resource`: returns the key actually used and the new storage.
The storage (`_blob_storage`) is a class attribute: one dictionary for the whole process, shared
by all contexts.  Keys are strings, given by their code points. -/
def declareResource (storage : List (List Nat)) (key : List Nat) : List Nat × List (List Nat) :=
  let k := if storage.contains key then freshKey storage key storage.length 0 else key
  (k, k :: storage)

/-- what the attribute parser builds for `dense_resource<key> : ty` (a new parser declares the
handle against the process-wide storage) -/
def parseResourceAttr (storage : List (List Nat)) (key : List Nat) (ty : V) : V × List (List Nat) :=
  let r := declareResource storage key
  (.node (.obj "DenseResourceAttr") [.node (.obj "StringAttr") [.leaf (.str r.1)], ty], r.2)

/-! ### the unfixed `FloatData.__eq__` (kept for the counterexample theorems) -/
namespace Legacy

def isNaN (bits : Nat) : Bool := bits / 2^52 % 2048 == 2047 && bits % 2^52 != 0
def isZero (bits : Nat) : Bool := bits % 2^63 == 0

/-- `(isnan(a) and isnan(b)) or a == b` on IEEE doubles given by their bit patterns -/
def floatEq (a b : Nat) : Bool :=
  (isNaN a && isNaN b) || (isZero a && isZero b) || (!isNaN a && !isNaN b && a == b)

end Legacy

/-! ### line protocol -/

def hexDigit (c : Char) : Option Nat :=
  if '0' ≤ c ∧ c ≤ '9' then some (c.toNat - '0'.toNat)
  else if 'a' ≤ c ∧ c ≤ 'f' then some (c.toNat - 'a'.toNat + 10)
  else none

def hexNat (s : String) : Option Nat :=
  if s.isEmpty then none
  else s.toList.foldlM (fun acc c => (hexDigit c).map fun d => acc * 16 + d) 0

def hexBytes : List Char → Option (List Nat)
  | [] => some []
  | a :: b :: r =>
    match hexDigit a, hexDigit b, hexBytes r with
    | some x, some y, some t => some ((x * 16 + y) :: t)
    | _, _, _ => none
  | _ => none

/-- `61.62.1f600` → code points; the empty string → `[]` -/
def cps (s : String) : Option (List Nat) :=
  if s.isEmpty then some [] else (s.splitOn ".").mapM hexNat

def parseLeaf (tok : String) : Option Leaf :=
  match tok.toList with
  | 'i' :: r => (String.ofList r).toInt?.map Leaf.int
  | 'b' :: r => (hexBytes r).map Leaf.bytes
  | 'u' :: r => (cps (String.ofList r)).map Leaf.str
  | 'f' :: r => (hexNat (String.ofList r)).map Leaf.fbits
  | ['n'] => some Leaf.none
  | 'e' :: ':' :: _ =>
    match tok.splitOn ":" with
    | [_, cls, k] => (cps k).map (Leaf.enum cls)
    | _ => none
  | _ => none

def parseOpen (tok : String) : Option Tag :=
  if tok = "(t" then some .tup
  else if tok = "(s" then some .fset
  else if tok = "(d" then some .dict
  else if tok.startsWith "(o:" then some (.obj (tok.drop 3).toString)
  else none

structure PState where
  stack : List (Tag × List V) := []   -- open nodes, children reversed
  result : Option V := none
  bad : Bool := false

def PState.value (p : PState) (v : V) : PState :=
  match p.stack with
  | [] => if p.result.isSome then { p with bad := true } else { p with result := some v }
  | (t, ks) :: r => { p with stack := (t, v :: ks) :: r }

def PState.tok (p : PState) (tok : String) : PState :=
  if p.bad then p
  else if tok = ")" then
    match p.stack with
    | [] => { p with bad := true }
    | (t, ks) :: r =>
      match mkNode t ks.reverse with
      | some v => PState.value { p with stack := r } v
      | none => { p with bad := true }
  else match parseOpen tok with
    | some t => if p.result.isSome then { p with bad := true } else { p with stack := (t, []) :: p.stack }
    | none =>
      match parseLeaf tok with
      | some l => p.value (.leaf l)
      | none => { p with bad := true }

def parseTerm (toks : List String) : Option V :=
  let p := toks.foldl PState.tok {}
  if p.bad || !p.stack.isEmpty then none else p.result

structure State where
  vals : Array V := #[]
  ops : Array OpInfo := #[]
  storage : List (List Nat) := []

def bit (b : Bool) : String := if b then "1" else "0"

def natList (s : String) : Option (List Nat) :=
  if s = "-" then some [] else (s.splitOn ",").mapM String.toNat?

def kidsOf : V → List V
  | .node _ ks => ks
  | .leaf _ => []

/-- protocol:
`def <term>` → `ok <index>`; `cmp i j` → `eq <0|1> heq <0|1>`;
`op <name u…> <attrs> <props> <types> <operands|-> <regions>` (indices of defined values; `types`
and `regions` are tuples) → `ok <index>`; `cmpop i j` → `eq … heq …`;
`legacyfloat <hex> <hex>` → `eq <0|1>` (the unfixed `FloatData.__eq__`);
`bf16enc <hex binary32 bits>` → `bits <decimal bf16 pattern>` (`BFloat16Type._encode`);
`cmpophash i j` → `eq <0|1>` (the comparison that trusts the hash, counterexample only);
`declare <key>` → `key <key actually used>` (`declare_resource` on the state's storage). -/
def lineStep (s : State) (line : String) : State × String :=
  match words line with
  | ["reset"] => ({}, "ok")
  | "def" :: toks =>
    (match parseTerm toks with
     | some v => ({ s with vals := s.vals.push v }, s!"ok {s.vals.size}")
     | none => (s, "bad-op"))
  | ["cmp", i, j] =>
    (match i.toNat?, j.toNat? with
     | some i, some j =>
       (match s.vals[i]?, s.vals[j]? with
        | some a, some b => (s, s!"eq {bit (V.eq a b)} heq {bit (V.hash a == V.hash b)}")
        | _, _ => (s, "bad-op"))
     | _, _ => (s, "bad-op"))
  | ["op", name, a, p, t, os, r] =>
    (match parseLeaf name, a.toNat?, p.toNat?, t.toNat?, natList os, r.toNat? with
     | some (.str nm), some a, some p, some t, some os, some r =>
       (match s.vals[a]?, s.vals[p]?, s.vals[t]?, s.vals[r]? with
        | some av, some pv, some tv, some rv =>
          ({ s with ops := s.ops.push { name := nm, attrs := av, props := pv, resultTypes := kidsOf tv,
                                        operands := os, regions := kidsOf rv } },
           s!"ok {s.ops.size}")
        | _, _, _, _ => (s, "bad-op"))
     | _, _, _, _, _, _ => (s, "bad-op"))
  | ["cmpop", i, j] =>
    (match i.toNat?, j.toNat? with
     | some i, some j =>
       (match s.ops[i]?, s.ops[j]? with
        | some a, some b => (s, s!"eq {bit (OpInfo.eq a b)} heq {bit (a.hash == b.hash)}")
        | _, _ => (s, "bad-op"))
     | _, _ => (s, "bad-op"))
  | ["declare", k] =>
    let r := declareResource s.storage (k.toList.map Char.toNat)
    ({ s with storage := r.2 }, s!"key {String.ofList (r.1.map Char.ofNat)}")
  | ["bf16enc", f] =>
    (match hexNat f with
     | some f => (s, s!"bits {bf16Encode (f % 2^32)}")
     | none => (s, "bad-op"))
  | ["cmpophash", i, j] =>
    (match i.toNat?, j.toNat? with
     | some i, some j =>
       (match s.ops[i]?, s.ops[j]? with
        | some a, some b => (s, s!"eq {bit (HashOnly.opInfoEq a b)}")
        | _, _ => (s, "bad-op"))
     | _, _ => (s, "bad-op"))
  | ["legacyfloat", a, b] =>
    (match hexNat a, hexNat b with
     | some a, some b => (s, s!"eq {bit (Legacy.floatEq a b)}")
     | _, _ => (s, "bad-op"))
  | _ => (s, "bad-op")

end Xdsl.AttrValue
