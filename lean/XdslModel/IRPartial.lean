import XdslModel.IRStore
/-!
# What a raising multi-element call leaves behind (C01)

`Block.add_ops`, `Block.insert_ops_before`, `Region.add_block`, … run one step per element of their
collection argument (`for op in ops: self.add_op(op)`).  When the step of a later element raises, the
exception propagates, but the steps of the elements before it have been done: the caller that skips
the raising call goes on with that state.  `foldLeft` is that state (`IRStore.R` itself carries no
state in its error case).  No proofs here.
-/
namespace Xdsl.IR
namespace IRStore

/-- the state after `for x in xs: step(x)` whether or not a step raises: the steps before the first
raising one are done, the rest is not run -/
def foldLeft {α : Type} (f : IRStore → α → R) : IRStore → List α → IRStore
  | s, [] => s
  | s, x :: r =>
    match f s x with
    | .ok s' => foldLeft f s' r
    | .error _ => s

/-- `Block.add_ops(ops)`, state left behind (raising or not) -/
def addOpsLeft (s : IRStore) (b : Nat) (ops : List Nat) : IRStore := foldLeft (fun s o => s.addOp b o) s ops

/-- `Block.insert_ops_before(ops, ex)`, state left behind (raising or not) -/
def insertOpsBeforeLeft (s : IRStore) (b : Nat) (ops : List Nat) (ex : Nat) : IRStore :=
  foldLeft (fun s o => s.insertOpBefore b o ex) s ops

/-- `Region.add_block(blocks)`, state left behind (raising or not), one block at a time -/
def addBlockLeft (s : IRStore) (r : Nat) (bs : List Nat) : IRStore := foldLeft (fun s b => s.addBlock r [b]) s bs

end IRStore
end Xdsl.IR
