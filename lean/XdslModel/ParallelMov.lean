import XdslModel.Prelude
/-!
Model of `xdsl/transforms/riscv_lower_parallel_mov.py` (C20) — `ParallelMovPattern.match_and_rewrite`
with the repairs of `fix: riscv-lower-parallel-mov …` (moves into `zero` are not graph edges, the
out-edge counter is keyed by register, a fully processed root is *not* turned into a scratch
register, the xor-swap chain follows the travelling value).

Registers are `(kind, index)` = (register file, register number): the protocol tokens `i<k>` /
`f<k>` are the *physical* registers (`i0` = `zero`/`x0`, `i10` = `a0`, `f0` = `ft0`, `f10` = `fa0`,
`k ≥ 32` = the "infinite" register `j_<k-32>` / `fj_<k-32>`), whatever their spelling.
`index = none` is an unallocated register, `(int, some 0)` is the hard-wired `zero` (the pass
recognises it by register file and index, so also when it is spelled `x0`); `(flt, some 0)` = `ft0`
is an ordinary register.  Python iteration orders are explicit: every loop below runs over the operand
list in operand order, dictionaries are only ever looked up (`AL.get`), `free_registers[kind][0]`
is the first designated free register of that kind.

Also here (executable, Mathlib-free because the driver runs them): the register machine `exec`
and the symbolic validator `checkSeq` whose soundness is `XdslProofs.C20.checkSeq_sound`.
-/
namespace Xdsl.ParallelMov

inductive Kind
  | int | flt
deriving DecidableEq, Repr, Inhabited

structure Reg where
  kind : Kind
  idx : Option Nat
deriving DecidableEq, Repr, Inhabited

/-- the hard-wired zero register `x0` -/
def Reg.zero : Reg := ⟨.int, some 0⟩

def Reg.allocated (r : Reg) : Bool := r.idx.isSome

structure Move where
  src : Reg
  dst : Reg
  /-- `input_widths[i]` -/
  w : Nat
deriving DecidableEq, Repr, Inhabited

inductive Instr
  /-- `riscv.mv rd, rs` -/
  | mv (d s : Reg)
  /-- `riscv.fmv.s` (`w = 32`) / `riscv.fmv.d` (`w = 64`) -/
  | fmv (w : Nat) (d s : Reg)
  /-- `riscv.xor rd, rs1, rs2` -/
  | xor (d a b : Reg)
deriving DecidableEq, Repr, Inhabited

/-- Where an SSA value comes from: an operand of the parallel move, or the result of the `k`-th
emitted instruction. -/
inductive Def
  | src
  | op (k : Nat)
deriving DecidableEq, Repr, Inhabited

/-- An SSA value together with the register (its type) it lives in. -/
structure Val where
  d : Def
  reg : Reg
deriving DecidableEq, Repr, Inhabited

inductive Err
  /-- `PassFailedException("All registers must be allocated")` -/
  | unallocated
  /-- `PassFailedException("Unsupported bit width …")` -/
  | width
  /-- `PassFailedException("Float cyclic move without free register")` -/
  | floatCycle
  /-- a Python `assert` / `KeyError` (never reached on verified operations) -/
  | assertion
  /-- a `while` loop of the model ran out of fuel (the Python loop would not terminate) -/
  | fuel
deriving DecidableEq, Repr, Inhabited

/-- Emitted instructions (in order) and the `results` list of the pattern. -/
structure St where
  ops : List Instr := []
  results : List (Option Val) := []
deriving Repr, Inhabited

structure Out where
  ops : List Instr
  results : List (Option Val)
deriving Repr, Inhabited

/-- `_insert_mv_op` + `move_ops_for_value`: width check, then `mv` / `fmv.s` / `fmv.d` by the
kind of the destination register.  Returns the new value (result of the emitted op). -/
def emitMv (st : St) (src : Val) (dst : Reg) (w : Nat) : Except Err (St × Val) :=
  if w ≠ 32 ∧ w ≠ 64 then .error .width
  else
    let i := match dst.kind with
      | .int => Instr.mv dst src.reg
      | .flt => Instr.fmv w dst src.reg
    .ok ({ st with ops := st.ops ++ [i] }, ⟨.op st.ops.length, dst⟩)

/-- `_insert_swap_ops(rewriter, a, b)`: three xors; returns `(op2.rd, op3.rd)`, i.e. the new value in
`b`'s register (holding `a`'s old content) and the new value in `a`'s register (holding `b`'s). -/
def emitSwap (st : St) (a b : Val) : St × Val × Val :=
  let k := st.ops.length
  ({ st with ops := st.ops ++ [.xor a.reg a.reg b.reg, .xor b.reg a.reg b.reg, .xor a.reg a.reg b.reg] },
   ⟨.op (k + 1), b.reg⟩, ⟨.op (k + 2), a.reg⟩)

def setResult (st : St) (i : Nat) (v : Val) : St :=
  { st with results := st.results.set i (some v) }

/-- Static tables of one parallel move (the dictionaries built before the loops). -/
structure Env where
  moves : List Move
  free : List Reg

namespace Env

/-- `output_index[r]`: the **last** operand index whose destination is `r`. -/
def outIdx (e : Env) (r : Reg) : Option Nat :=
  (e.moves.zipIdx.reverse.find? (fun p => p.1.dst = r)).map (·.2)

/-- `src_type_by_src[src]`: width recorded for a source (last operand with that source register). -/
def widthOf (e : Env) (r : Reg) : Nat :=
  ((e.moves.reverse.find? (fun m => m.src = r)).map (·.w)).getD 0

/-- Is operand `m` an edge of the move graph (neither a self-move nor a move into `zero`)? -/
def isEdge (m : Move) : Bool := m.src ≠ m.dst && m.dst ≠ Reg.zero

/-- `src_by_dst_type[r]`: the source of the (last) edge into `r`. -/
def pred (e : Env) (r : Reg) : Option Reg :=
  (e.moves.reverse.find? (fun m => isEdge m && m.dst = r)).map (·.src)

/-- `r in leaves`: `r` was never discarded, i.e. it is not the source of a self-move or of an edge
(membership in `set(dst_types)` holds for every register this is asked about). -/
def isLeaf (e : Env) (r : Reg) : Bool :=
  !(e.moves.any fun m => m.src = r && (m.src = m.dst || isEdge m))

/-- `free_registers[kind]` as designated on the operation. -/
def freeOf (e : Env) (k : Kind) : List Reg := e.free.filter (·.kind = k)

end Env

/-- `Counter` of unprocessed out-edges per register. -/
abbrev Cnt := AL Reg Int

def Cnt.val (c : Cnt) (r : Reg) : Int := (AL.get c r).getD 0

/-- first loop: results of self-moves, `mv zero, src` for moves into zero, out-edge counts -/
def stage0 (e : Env) : List (Nat × Move) → St → Cnt → Except Err (St × Cnt)
  | [], st, c => .ok (st, c)
  | (i, m) :: rest, st, c =>
    if m.src = m.dst then stage0 e rest (setResult st i ⟨.src, m.src⟩) c
    else if m.dst = Reg.zero then
      match emitMv st ⟨.src, m.src⟩ m.dst m.w with
      | .error x => .error x
      | .ok (st', v) => stage0 e rest (setResult st' i v) c
    else stage0 e rest st (AL.set c m.src (c.val m.src + 1))

/-- `while dst_type in src_by_dst_type: …` — walk up the tree from a leaf. -/
def walkUp (e : Env) : Nat → Reg → St → Cnt → Except Err (St × Cnt)
  | 0, _, _, _ => .error .fuel
  | fuel + 1, d, st, c =>
    match e.pred d with
    | none => .ok (st, c)
    | some s =>
      match emitMv st ⟨.src, s⟩ d (e.widthOf s) with
      | .error x => .error x
      | .ok (st', v) =>
        match e.outIdx d with
        | none => .error .assertion
        | some i =>
          if (st'.results.getD i none).isSome then .error .assertion   -- `assert results[…] is None`
          else
            let st'' := setResult st' i v
            let n := c.val s - 1
            let c' := AL.set c s n
            if n ≠ 0 then .ok (st'', c') else walkUp e fuel s st'' c'

/-- second loop: `for dst_type in dst_types: if dst_type in leaves: walk up` -/
def stage1 (e : Env) : List Reg → St → Cnt → Except Err (St × Cnt)
  | [], st, c => .ok (st, c)
  | d :: rest, st, c =>
    if e.isLeaf d then
      match walkUp e (e.moves.length + 1) d st c with
      | .error x => .error x
      | .ok (st', c') => stage1 e rest st' c'
    else stage1 e rest st c

/-- cycle through `start` without a free register: chain of xor swaps following the travelling
value backwards along the cycle -/
def xorChain (e : Env) (start : Reg) : Nat → Val → Val → St → Except Err St
  | 0, _, _, _ => .error .fuel
  | fuel + 1, out, inp, st =>
    if inp.reg = start then
      match e.outIdx out.reg with
      | none => .error .assertion
      | some i => .ok (setResult st i out)
    else
      let (st', nwOut, nwInp) := emitSwap st inp out
      match e.outIdx nwOut.reg with
      | none => .error .assertion
      | some i =>
        let st'' := setResult st' i nwOut
        match e.pred nwInp.reg with
        | none => .error .assertion                            -- `KeyError`
        | some p => xorChain e start fuel nwInp ⟨.src, p⟩ st''

/-- `while dst_type != cur_output.type:` of the free-register case -/
def tempWalk (e : Env) (stop : Reg) : Nat → Reg → St → Except Err St
  | 0, _, _ => .error .fuel
  | fuel + 1, d, st =>
    if d = stop then .ok st
    else
      match e.pred d with
      | none => .error .assertion                              -- `KeyError`
      | some s =>
        match emitMv st ⟨.src, s⟩ d (e.widthOf s) with
        | .error x => .error x
        | .ok (st', v) =>
          match e.outIdx d with
          | none => .error .assertion
          | some i => tempWalk e stop fuel s (setResult st' i v)

/-- third loop: every operand whose result is still `None` lies on a cycle -/
def stage2 (e : Env) : List (Nat × Move) → St → Except Err St
  | [], st => .ok st
  | (i, m) :: rest, st =>
    if (st.results.getD i none).isSome then stage2 e rest st
    else
      match e.freeOf m.dst.kind with
      | [] =>
        if m.dst.kind ≠ .int then .error .floatCycle
        else
          match e.pred m.src with
          | none => .error .assertion                          -- `KeyError`
          | some p =>
            match xorChain e m.src (e.moves.length + 1) ⟨.src, m.src⟩ ⟨.src, p⟩ st with
            | .error x => .error x
            | .ok st' => stage2 e rest st'
      | temp :: _ =>
        match emitMv st ⟨.src, m.src⟩ temp m.w with
        | .error x => .error x
        | .ok (st1, tv) =>
          match tempWalk e m.dst (e.moves.length + 1) m.src st1 with
          | .error x => .error x
          | .ok st2 =>
            match emitMv st2 tv m.dst m.w with
            | .error x => .error x
            | .ok (st3, v) => stage2 e rest (setResult st3 i v)

/-- `enumerate(moves)` as `(index, move)` pairs -/
def enum (l : List Move) : List (Nat × Move) := l.zipIdx.map fun p => (p.2, p.1)

/-- The whole pattern. -/
def lower (moves : List Move) (free : List Reg) : Except Err Out :=
  if !(moves.all fun m => m.src.allocated && m.dst.allocated) then .error .unallocated
  else
    let e : Env := ⟨moves, free⟩
    match stage0 e (enum moves) { results := moves.map fun _ => none } [] with
    | .error x => .error x
    | .ok (st0, c0) =>
      match stage1 e (moves.map (·.dst)) st0 c0 with
      | .error x => .error x
      | .ok (st1, _) =>
        match stage2 e (enum moves) st1 with
        | .error x => .error x
        | .ok st2 => .ok ⟨st2.ops, st2.results⟩

/-! ## Register machine -/

/-- Register file over `n`-bit contents. -/
abbrev RegFile (n : Nat) := Reg → BitVec n

/-- `zero` reads 0 -/
def rd {n : Nat} (ρ : RegFile n) (r : Reg) : BitVec n := if r = Reg.zero then 0 else ρ r

/-- writes to `zero` are discarded -/
def wr {n : Nat} (ρ : RegFile n) (d : Reg) (v : BitVec n) : RegFile n :=
  fun r => if r = d ∧ d ≠ Reg.zero then v else ρ r

def step {n : Nat} (ρ : RegFile n) : Instr → RegFile n
  | .mv d s => wr ρ d (rd ρ s)
  | .fmv _ d s => wr ρ d (rd ρ s)
  | .xor d a b => wr ρ d (rd ρ a ^^^ rd ρ b)

def exec {n : Nat} (is : List Instr) (ρ : RegFile n) : RegFile n := is.foldl step ρ

/-! ## Symbolic validator -/

/-- A symbolic content: duplicate-free list of registers whose *initial* contents are xor-ed. -/
abbrev Sym := List Reg

def toggle (r : Reg) (l : Sym) : Sym := if r ∈ l then l.erase r else r :: l

def xorSym (a b : Sym) : Sym := a.foldr toggle b

abbrev SymSt := AL Reg Sym

def SymSt.rd (σ : SymSt) (r : Reg) : Sym :=
  if r = Reg.zero then [] else (AL.get σ r).getD [r]

def SymSt.wr (σ : SymSt) (d : Reg) (v : Sym) : SymSt :=
  if d = Reg.zero then σ else AL.set σ d v

def symStep (σ : SymSt) : Instr → SymSt
  | .mv d s => σ.wr d (σ.rd s)
  | .fmv _ d s => σ.wr d (σ.rd s)
  | .xor d a b => σ.wr d (xorSym (σ.rd a) (σ.rd b))

def symExec (is : List Instr) : SymSt := is.foldl symStep []

def wellKinded : Instr → Bool
  | .mv d s => d.kind = .int && s.kind = .int
  | .fmv w d s => d.kind = .flt && s.kind = .flt && (w = 32 || w = 64)
  | .xor d a b => d.kind = .int && a.kind = .int && b.kind = .int

/-- Does `is` realise the simultaneous assignment `moves`, touching only destinations and `free`? -/
def checkSeq (moves : List Move) (free : List Reg) (is : List Instr) : Bool :=
  let σ := symExec is
  (moves.all fun m => m.dst = Reg.zero || σ.rd m.dst == (if m.src = Reg.zero then [] else [m.src]))
  && (σ.all fun p => (moves.any fun m => m.dst = p.1) || free.contains p.1 || σ.rd p.1 == [p.1])
  && is.all wellKinded

/-! ## Line protocol -/

def parseReg (s : String) : Option Reg :=
  match s.toList with
  | 'i' :: rest => go .int (String.ofList rest)
  | 'f' :: rest => go .flt (String.ofList rest)
  | _ => none
where
  go (k : Kind) (t : String) : Option Reg :=
    if t = "u" then some ⟨k, none⟩ else t.toNat?.map fun n => ⟨k, some n⟩

def showReg (r : Reg) : String :=
  (match r.kind with | .int => "i" | .flt => "f") ++ (match r.idx with | none => "u" | some n => toString n)

/-- `i1>i2:32` -/
def parseMove (s : String) : Option Move :=
  match s.splitOn ":" with
  | [sd, w] =>
    match sd.splitOn ">" with
    | [a, b] => do
      let a ← parseReg a
      let b ← parseReg b
      let w ← w.toNat?
      pure ⟨a, b, w⟩
    | _ => none
  | _ => none

def showInstr : Instr → String
  | .mv d s => s!"mv:{showReg d}:{showReg s}"
  | .fmv w d s => s!"fmv{w}:{showReg d}:{showReg s}"
  | .xor d a b => s!"xor:{showReg d}:{showReg a}:{showReg b}"

def parseInstr (s : String) : Option Instr :=
  match s.splitOn ":" with
  | ["mv", d, a] => do pure (.mv (← parseReg d) (← parseReg a))
  | ["fmv32", d, a] => do pure (.fmv 32 (← parseReg d) (← parseReg a))
  | ["fmv64", d, a] => do pure (.fmv 64 (← parseReg d) (← parseReg a))
  | ["xor", d, a, b] => do pure (.xor (← parseReg d) (← parseReg a) (← parseReg b))
  | _ => none

def showVal : Option Val → String
  | none => "?"
  | some ⟨.src, r⟩ => "s:" ++ showReg r
  | some ⟨.op k, _⟩ => s!"o{k}"

def showErr : Err → String
  | .unallocated => "fail unallocated"
  | .width => "fail width"
  | .floatCycle => "fail float-cycle"
  | .assertion => "raise AssertionError"
  | .fuel => "raise NonTermination"

def showOut (o : Out) : String :=
  let a := " ".intercalate (o.ops.map showInstr)
  let b := " ".intercalate (o.results.map showVal)
  (if a.isEmpty then "ok" else "ok " ++ a) ++ " | " ++ b

def verdict (moves : List Move) (free : List Reg) (is : List Instr) : String :=
  if checkSeq moves free is then "valid" else "invalid"

/-- `pmov <moves> | <free>`            → `<observation> # <checkSeq verdict on the model's own output>`
    `check <moves> | <free> || <ops> | …` → `valid` / `invalid` (the proved validator on a given op list) -/
def lineStep (s : Unit) (line : String) : Unit × String :=
  let parts := line.splitOn " || "
  match parts with
  | hd :: tl =>
    match words hd with
    | cmd :: rest =>
      let (mv, fr) := rest.span (· ≠ "|")
      match mv.mapM parseMove, (fr.drop 1).mapM parseReg with
      | some moves, some free =>
        if cmd = "pmov" ∧ tl.isEmpty then
          match lower moves free with
          | .ok o => (s, showOut o ++ " # " ++ verdict moves free o.ops)
          | .error x => (s, showErr x ++ " # -")
        else if cmd = "check" then
          match tl with
          | [t] =>
            match ((words t).takeWhile (· ≠ "|")).mapM parseInstr with
            | some is => (s, verdict moves free is)
            | none => (s, "bad-op")
          | _ => (s, "bad-op")
        else (s, "bad-op")
      | _, _ => (s, "bad-op")
    | [] => (s, "bad-op")
  | [] => (s, "bad-op")

end Xdsl.ParallelMov
