/-
Shared executable helpers for the xDSL models.  NO Mathlib import anywhere under
`XdslModel/` (the native `driver` executable links only then).
-/
namespace Xdsl

/-- Association list used to model a Python `dict` when iteration order is irrelevant. -/
abbrev AL (α β : Type) := List (α × β)

namespace AL
variable {α β : Type} [DecidableEq α]

def get (m : AL α β) (k : α) : Option β :=
  match m with
  | [] => none
  | (k', v) :: r => if k' = k then some v else get r k

def del : AL α β → α → AL α β
  | [], _ => []
  | (a, b) :: r, k => if a = k then del r k else (a, b) :: del r k

def set (m : AL α β) (k : α) (v : β) : AL α β := (k, v) :: del m k

def has (m : AL α β) (k : α) : Bool := (get m k).isSome

end AL

/-- Split a protocol line on single spaces, dropping empty fields. -/
def words (s : String) : List String :=
  (s.splitOn " ").filter (· ≠ "")

def showOptNat : Option Nat → String
  | none => "none"
  | some n => toString n

def showBool (b : Bool) : String := if b then "true" else "false"

end Xdsl
