import XdslModel.Graph
/-!
Model of `DominanceInfo.__init__` / `dominates` / `strictly_dominates` (`xdsl/irdl/dominance.py`),
as FIXED by `fix: DominanceInfo treats a block without predecessors as dominated by every block`
(empty intersection = all blocks of the region; the pinned code used the empty set).

`_dominance` is a table `Dom`: `d[b]` = the dominator set of block `b`, kept as the increasing list
of its members (so Python's set `!=` is list `!=`).
-/
namespace Xdsl.Dominance
open Xdsl.Graph

abbrev Dom := List (List Nat)

/-- `_dominance[entry] = {entry}`; `_dominance[b] = set(region.blocks)` for the other blocks -/
def init (n : Nat) : Dom :=
  (List.range n).map fun b => if b = 0 then [0] else List.range n

/-- `{b} | (intersection(*(dom[p] for p in pred[b])) if pred[b] else set(region.blocks))` -/
def refine (g : Graph) (d : Dom) (b : Nat) : List Nat :=
  (List.range g.length).filter fun a =>
    a == b || (preds g b).all fun p => (d.getD p []).contains a

/-- loop body for one block: new table and `changed` flag -/
def visit (g : Graph) (acc : Dom × Bool) (b : Nat) : Dom × Bool :=
  let new := refine g acc.1 b
  (acc.1.set b new, acc.2 || (acc.1.getD b [] != new))

/-- one pass `changed = False; for b in blocks: …` over the non-entry blocks in region order -/
def sweep (g : Graph) (d : Dom) : Dom × Bool :=
  (List.range' 1 (g.length - 1)).foldl (visit g) (d, false)

/-- `while changed:`; second component: `true` iff the loop exited within the fuel -/
def iterate (g : Graph) : Nat → Dom → Dom × Bool
  | 0, d => (d, false)
  | fuel + 1, d =>
    let r := sweep g d
    if r.2 then iterate g fuel r.1 else (r.1, true)

/-- `DominanceInfo(region)._dominance` and the convergence flag (proved `true`, C24
`dominance_converges`); the empty region gives the empty table. -/
def dominance (g : Graph) : Dom × Bool :=
  if g.length = 0 then ([], true) else iterate g (g.length * g.length + 1) (init g.length)

/-- `DominanceInfo.dominates(a, b)` : `a in self._dominance[b]` -/
def dominates (d : Dom) (a b : Nat) : Bool := (d.getD b []).contains a

/-- `DominanceInfo.strictly_dominates(a, b)` -/
def strictlyDominates (d : Dom) (a b : Nat) : Bool :=
  if a = b then false else dominates d a b

/-! Line protocol: `dom <succs of block 0> <succs of block 1> …` answers
`d <dominators of 0> … s <strict dominators of 0> …` computed through the two query functions. -/
def showRel (n : Nat) (q : Nat → Nat → Bool) : String :=
  " ".intercalate ((List.range n).map fun b => showList ((List.range n).filter fun a => q a b))

def lineStep (s : Unit) (line : String) : Unit × String :=
  match words line with
  | ["reset"] => (s, "ok")
  | "dom" :: ws =>
    match parseGraph ws with
    | some g =>
      if wf g then
        let r := dominance g
        if r.2 then
          (s, s!"d {showRel g.length (dominates r.1)} s {showRel g.length (strictlyDominates r.1)}")
        else (s, "not-converged")
      else (s, "raise KeyError")   -- `pred[s].add(b)` for a successor outside the region
    | none => (s, "bad-op")
  | _ => (s, "bad-op")

end Xdsl.Dominance
