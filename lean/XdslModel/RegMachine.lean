import XdslModel.Prelude
/-!
C19 — straight-line register-allocatable programs and their two executions.

A program is a single block of operations over SSA value ids.  An operation reads its `ins` and the
first components of its in/out pairs `ios`, and defines its `outs` and the second components of
`ios` (`HasRegisterConstraints.get_register_constraints`: ins / outs / inouts).

* `execSSA`: every value has its own location (the semantics before allocation).
* `execRegs`: every value lives in the register `alloc v`; register `0` is the hard-wired zero
  register when `z` is set (reads 0, ignores writes).

The meaning of an opcode is a parameter `f : Sem` (uninterpreted), except for the two kinds the
allocator itself knows about: `zk = 1` constant zero (`li 0`, `get_register zero`) and `zk = 2/3`
moves (`mv`, `parallel_mov`), whose i-th result is the i-th value read.
-/
namespace Xdsl.RegMachine

abbrev ValId := Nat
abbrev Reg := Nat
abbrev Word := Int

structure Op where
  /-- 0 other, 1 constant zero, 2 `mv` (followed by `get_constant_value`), 3 parallel move -/
  zk : Nat
  code : Nat
  imm : Int
  ins : List ValId
  outs : List ValId
  ios : List (ValId × ValId)
deriving Repr, DecidableEq

def Op.reads (o : Op) : List ValId := o.ins ++ o.ios.map Prod.fst
def Op.defs (o : Op) : List ValId := o.outs ++ o.ios.map Prod.snd

structure Prog where
  args : List ValId
  ops : List Op
  rets : List ValId
deriving Repr

/-- opcode → immediate → values read → index of the result → value of that result -/
abbrev Sem := Nat → Int → List Word → Nat → Word

def opOut (f : Sem) (o : Op) (reads : List Word) (i : Nat) : Word :=
  if o.zk = 1 then 0
  else if o.zk = 2 ∨ o.zk = 3 then reads.getD i 0
  else f o.code o.imm reads i

def upd (e : Nat → Word) (k : Nat) (x : Word) : Nat → Word := fun j => if j = k then x else e j

/-! SSA execution -/

def writeVals (g : Nat → Word) : Nat → List ValId → (ValId → Word) → (ValId → Word)
  | _, [], e => e
  | i, d :: ds, e => writeVals g (i + 1) ds (upd e d (g i))

def stepSSA (f : Sem) (env : ValId → Word) (o : Op) : ValId → Word :=
  writeVals (opOut f o (o.reads.map env)) 0 o.defs env

def runSSA (f : Sem) (env : ValId → Word) (ops : List Op) : ValId → Word :=
  ops.foldl (stepSSA f) env

def initEnv : List ValId → List Word → (ValId → Word)
  | a :: as, x :: xs => upd (initEnv as xs) a x
  | _, _ => fun _ => 0

def execSSA (f : Sem) (p : Prog) (inputs : List Word) : List Word :=
  p.rets.map (runSSA f (initEnv p.args inputs) p.ops)

/-! Register machine -/

def readReg (z : Bool) (rf : Reg → Word) (r : Reg) : Word := if z && r == 0 then 0 else rf r

def writeReg (z : Bool) (rf : Reg → Word) (r : Reg) (x : Word) : Reg → Word :=
  if z && r == 0 then rf else upd rf r x

def writeRegs (z : Bool) (alloc : ValId → Reg) (g : Nat → Word) :
    Nat → List ValId → (Reg → Word) → (Reg → Word)
  | _, [], rf => rf
  | i, d :: ds, rf => writeRegs z alloc g (i + 1) ds (writeReg z rf (alloc d) (g i))

def stepRegs (z : Bool) (alloc : ValId → Reg) (f : Sem) (rf : Reg → Word) (o : Op) : Reg → Word :=
  writeRegs z alloc (opOut f o (o.reads.map fun v => readReg z rf (alloc v))) 0 o.defs rf

def runRegs (z : Bool) (alloc : ValId → Reg) (f : Sem) (rf : Reg → Word) (ops : List Op) : Reg → Word :=
  ops.foldl (stepRegs z alloc f) rf

/-- the arguments arrive in their registers; every other register holds whatever `rf0` says -/
def initRegs (z : Bool) (alloc : ValId → Reg) : List ValId → List Word → (Reg → Word) → (Reg → Word)
  | a :: as, x :: xs, rf0 => writeReg z (initRegs z alloc as xs rf0) (alloc a) x
  | _, _, rf0 => rf0

def execRegs (z : Bool) (alloc : ValId → Reg) (f : Sem) (p : Prog) (inputs : List Word)
    (rf0 : Reg → Word) : List Word :=
  p.rets.map fun v => readReg z (runRegs z alloc f (initRegs z alloc p.args inputs rf0) p.ops) (alloc v)

end Xdsl.RegMachine
