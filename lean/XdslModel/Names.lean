import XdslModel.Prelude
/-!
Model of the name handling behind the generic textual form (C04):

* `accepted`  — `IRWithName.extract_valid_name` (`xdsl/ir/core.py`): the ASCII regex
  `[A-Za-z_$.-][A-Za-z0-9_$.-]*` and the removal of every trailing `_<digits>` group;
* `allocVal` / `allocate` — `Printer.print_ssa_value` (`xdsl/printer.py`): per scope a counter per
  hint and a counter for unnamed values;
* `allocRegion` — the loop at the head of `Printer.print_region` + `_populate_block_name`;
* `enter` / `exit` — `Printer.enter_scope/exit_scope` (operations that are `IsolatedFromAbove`);
* `reparseVal` / `reparseBlock` — what `Parser._register_ssa_definition` / `Parser._parse_block`
  store back as name hint for a printed name.

This is the model of the code WITH the C04 repair (names are ASCII, all numeric suffixes are
stripped, a block hint that looks like a default name `bb<n>` is ignored by the printer, an entry
block whose label is not printed does not consume a hinted name).  Strings are `List Char`.
-/
namespace Xdsl.Names

abbrev Str := List Char

def isDigit (c : Char) : Bool := 48 ≤ c.toNat && c.toNat ≤ 57
def isAlpha (c : Char) : Bool := (97 ≤ c.toNat && c.toNat ≤ 122) || (65 ≤ c.toNat && c.toNat ≤ 90)
def isPunct (c : Char) : Bool := c = '_' || c = '$' || c = '.' || c = '-'
/-- `[A-Za-z_$.-]` -/
def isStart (c : Char) : Bool := isAlpha c || isPunct c
/-- `[A-Za-z0-9_$.-]` (`[\w$.-]` under `re.ASCII`) -/
def isCont (c : Char) : Bool := isStart c || isDigit c

/-- `_VALUE_NAME_PATTERN.fullmatch(name) is not None` -/
def validName : Str → Bool
  | [] => false
  | c :: r => isStart c && r.all isCont

/-- `dropWhile isDigit` -/
def dropDigits : Str → Str
  | [] => []
  | c :: r => if isDigit c then dropDigits r else c :: r

/-- (termination argument of `stripRev`; the only lemma in a model file) -/
theorem dropDigits_length_le (r : Str) : (dropDigits r).length ≤ r.length := by
  induction r with
  | nil => simp [dropDigits]
  | cons c r ih => unfold dropDigits; split <;> simp <;> omega

/-- On the REVERSED string: remove a leading run `(<digits>_)+`, i.e. every trailing `_<digits>`
group of the original string (`_VALUE_NAME_SUFFIX_PATTERN = (_\d+)+$`, leftmost match). -/
def stripRev (r : Str) : Str :=
  match r with
  | [] => []
  | c :: r' =>
    if isDigit c then
      match _h : dropDigits r' with
      | '_' :: rest => stripRev rest
      | _ => r
    else r
termination_by r.length
decreasing_by
  have h1 := dropDigits_length_le r'
  rw [_h] at h1
  simp only [List.length_cons] at h1 ⊢
  omega

/-- the name before the numeric suffixes -/
def strip (s : Str) : Str := (stripRev s.reverse).reverse

/-- `extract_valid_name`: `none` = `ValueError`; the result may be empty (`"_1"` ↦ `""`),
which every consumer treats like "no hint". -/
def accepted (s : Str) : Option Str :=
  if validName s then some (strip s) else none

def digitChar (n : Nat) : Char := Char.ofNat (48 + n)

/-- Python `str(n)` for `n ≥ 0` -/
def natDigits (n : Nat) : Str :=
  if _h : n < 10 then [digitChar n] else natDigits (n / 10) ++ [digitChar (n % 10)]
termination_by n
decreasing_by omega

/-- `f"{hint}{suffix}"` with `suffix = f"_{curr_ind}" if curr_ind != 0 else ""` -/
def hintName (h : Str) (c : Nat) : Str :=
  if c = 0 then h else h ++ '_' :: natDigits c

/-- `Block.is_default_block_name`: `bb` followed by at least one digit -/
def isDefaultBlockName : Str → Bool
  | 'b' :: 'b' :: d :: ds => isDigit d && ds.all isDigit
  | _ => false

structure Scope where
  ssaNames : AL Str Nat := []
  blockNames : AL Str Nat := []
  nextId : Nat := 0
  nextBlockId : Nat := 0
deriving Repr

/-- `Printer.print_ssa_value` for a value seen for the first time -/
def allocVal (sc : Scope) : Option Str → Scope × Str
  | some (c :: h) =>
    let k := (AL.get sc.ssaNames (c :: h)).getD 0
    ({ sc with ssaNames := AL.set sc.ssaNames (c :: h) (k + 1) }, hintName (c :: h) k)
  | _ => ({ sc with nextId := sc.nextId + 1 }, natDigits sc.nextId)

/-- all values of one scope, in the order of their first printing -/
def allocFrom (sc : Scope) : List (Option Str) → List Str
  | [] => []
  | h :: hs => (allocVal sc h).2 :: allocFrom (allocVal sc h).1 hs

def allocate (hs : List (Option Str)) : List Str := allocFrom {} hs

/-- a block hint the (repaired) printer uses: non-empty and not of the default form -/
def usableBlockHint : Option Str → Option Str
  | some (c :: h) => if isDefaultBlockName (c :: h) then none else some (c :: h)
  | _ => none

/-- `_populate_block_name(block, block_index)`; `labelled = false` for an entry block whose label
is not printed -/
def allocBlock (sc : Scope) (idx : Nat) (labelled : Bool) (h : Option Str) : Scope × Str :=
  match (if labelled then usableBlockHint h else none) with
  | some h =>
    let k := (AL.get sc.blockNames h).getD 0
    ({ sc with blockNames := AL.set sc.blockNames h (k + 1) }, hintName h k)
  | none => (sc, 'b' :: 'b' :: natDigits idx)

def allocBlocksFrom (sc : Scope) (idx : Nat) (entryLabelled : Bool) : List (Option Str) → Scope × List Str
  | [] => (sc, [])
  | h :: hs =>
    let r := allocBlock sc idx (idx != 0 || entryLabelled) h
    let t := allocBlocksFrom r.1 (idx + 1) entryLabelled hs
    (t.1, r.2 :: t.2)

/-- the blocks of one region -/
def allocRegion (sc : Scope) (entryLabelled : Bool) (hs : List (Option Str)) : Scope × List Str :=
  allocBlocksFrom sc 0 entryLabelled hs

/-- `Parser._register_ssa_definition`: the hint stored for a printed value name -/
def reparseVal (n : Str) : Option Str :=
  if validName n then some (strip n) else none

/-- `Parser._parse_block`: `none` for default names; `some none`… see `lineStep` for the error case -/
def reparseBlock (n : Str) : Option Str :=
  if isDefaultBlockName n then none else if validName n then some (strip n) else none

/-- a hint the way the allocator sees it: the empty hint is no hint -/
def normHint : Option Str → Option Str
  | some (c :: h) => some (c :: h)
  | _ => none

abbrev State := List Scope

/-- printer events of one module walk: a value printed for the first time, entering / leaving an
`IsolatedFromAbove` operation -/
inductive Ev where
  | val (h : Option Str)
  | enter
  | exit

/-- one event on the scope stack (innermost first): `enter_scope` copies the innermost scope,
`exit_scope` drops it (never the outermost one) -/
def stepEv (st : State) : Ev → State × Option Str
  | .val h =>
    (match st with
     | sc :: rest => ((allocVal sc h).1 :: rest, some (allocVal sc h).2)
     | [] => ([], none))
  | .enter => (match st with | sc :: rest => (sc :: sc :: rest, none) | [] => ([], none))
  | .exit => (match st with | _ :: sc :: rest => (sc :: rest, none) | _ => (st, none))

/-- names printed by a sequence of events -/
def runEvs (st : State) : List Ev → List Str
  | [] => []
  | e :: es =>
    match (stepEv st e).2 with
    | some n => n :: runEvs (stepEv st e).1 es
    | none => runEvs (stepEv st e).1 es

/-! ### line protocol -/

def showHint : Option Str → String
  | none => "none"
  | some [] => "hint ~e"
  | some h => "hint " ++ String.ofList h

def parseHint (s : String) : Option Str :=
  if s = "~" then none else if s = "~e" then some [] else some s.toList

def parseCodePoints (s : String) : Option Str :=
  (s.splitOn ",").filter (· ≠ "") |>.mapM (fun w => w.toNat?.map Char.ofNat)

def lineStep (st : State) (line : String) : State × String :=
  match words line with
  | ["reset"] => ([{}], "ok")
  | ["accept"] => (st, "raise ValueError")
  | ["accept", cps] =>
    (match parseCodePoints cps with
     | some s => (st, match accepted s with | some h => showHint (some h) | none => "raise ValueError")
     | none => (st, "bad-op"))
  | ["val", h] =>
    (match stepEv st (.val (parseHint h)) with
     | (st', some n) => (st', "name " ++ String.ofList n)
     | (_, none) => (st, "bad-op"))
  | ["enter"] => (match st with | _ :: _ => ((stepEv st .enter).1, "ok") | [] => (st, "bad-op"))
  | ["exit"] => (match st with | _ :: _ :: _ => ((stepEv st .exit).1, "ok") | _ => (st, "bad-op"))
  | "region" :: lab :: hs =>
    (match st, lab with
     | sc :: rest, "0" =>
       let r := allocRegion sc false (hs.map parseHint)
       (r.1 :: rest, " ".intercalate ("names" :: r.2.map String.ofList))
     | sc :: rest, "1" =>
       let r := allocRegion sc true (hs.map parseHint)
       (r.1 :: rest, " ".intercalate ("names" :: r.2.map String.ofList))
     | _, _ => (st, "bad-op"))
  | ["reparse-val", n] => (st, showHint (reparseVal n.toList))
  | ["reparse-block", n] =>
    (st, if isDefaultBlockName n.toList then "none"
         else if validName n.toList then showHint (some (strip n.toList)) else "raise ValueError")
  | _ => (st, "bad-op")

end Xdsl.Names
