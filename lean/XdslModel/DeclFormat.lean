import XdslModel.Prelude
/-!
Model of the declarative assembly format interpreter (C05):
`xdsl/irdl/declarative_assembly_format.py` — `FormatProgram.print/parse`, the directive classes —
and of the side conditions of `declarative_assembly_format_parser.py`.

Abstraction level: the *token* stream.  A printed SSA use, type, attribute value, attribute
dictionary, region and block label is ONE opaque token carrying an id (`Tok.val/ty/attr/dict/region/
succ`); literals are `Tok.kw`/`Tok.punct`.  Whitespace directives print no token and are left out.
What the real parser does when it *peeks* at the next token to decide whether an optional construct
is present is mirrored by the `bad*` predicates: a token on which `parse_optional_type/_attribute/
_region/_attr_dict` commits although it is not the expected construct makes the model fail (`none`).

This is the model of the code WITH the C05 repairs:
* `parse_types` of optional/variadic operand and variadic result variables returns "a type was
  parsed" (was inverted), so `(type($x)^ …)?` takes the right branch;
* `RegionVariable.parse_optional` returns "a region was parsed" (was inverted);
* `AttributeVariable.print` leaves a default value out only when the variable is optional
  (was: always, although a non-optional variable is parsed unconditionally);
* `FunctionalTypeDirective.print` wraps a single result type in parentheses when it is itself a
  function type;
* `UniqueBaseAttributeVariable.parse` (and `TypedAttributeVariable`) honours `is_optional`: an
  optional variable whose first token is not its value reports absence (was: parsed unconditionally),
  so every attribute variable is parsed optionally exactly when it is optional;
* `OperandsOrResultDirective._set_using_variadic_index` (behind `operands`, `type(operands)`,
  `type(results)`, `functional-type(operands, results)`) splits the flat list positionally also when
  the definition stores its segment sizes (`AttrSized…Segments` with one optional/variadic definition;
  was: `AssertionError` on the attribute-based accessors) — fix_1 of the C05G extension, a `known`
  finding until it is applied.

Nested optional groups are not modelled (groups contain simple directives only).  The aggregate
directives `operands`, `type(operands)`, `type(results)`, `functional-type(…)` are modelled for
operation definitions with at most one non-single (optional/variadic) operand resp. result
definition (`_set_using_variadic_index` through the `UniqueVariadic/SameOptional/Before/After`
accessors); the `SameVariadic…Size` options are not modelled (`splitByKinds` fails).  No proofs here.
-/
namespace Xdsl.DeclFormat

inductive Kind | single | opt | var
  deriving DecidableEq, Repr, Inhabited

inductive Tok
  | kw (s : String)
  | punct (s : String)
  | val (n : Nat)
  | ty (n : Nat)
  | attr (n : Nat)
  | dict (d : List (String × Nat))
  | region (n : Nat)
  | succ (n : Nat)
  deriving DecidableEq, Repr

/-- An operation instance: one list per operand/result/region/successor *definition* (segment);
types, attribute values, regions, blocks are opaque ids.  Region id `0` = region without blocks. -/
structure OpInst where
  operands : List (List Nat) := []
  operandTys : List (List Nat) := []
  resultTys : List (List Nat) := []
  regions : List (List Nat) := []
  succs : List (List Nat) := []
  props : AL String Nat := []
  attrs : AL String Nat := []
  deriving DecidableEq, Repr

/-- the parts of the `OpDef` the interpreter consults -/
structure Defs where
  operandKinds : List Kind := []
  operandFixed : List (Option Nat) := []   -- type inferable without a type directive
  resultKinds : List Kind := []
  resultFixed : List (Option Nat) := []
  regionKinds : List Kind := []
  succKinds : List Kind := []
  propDefaults : AL String Nat := []
  attrDefaults : AL String Nat := []
  funcTys : List Nat := []                 -- type ids that are function types
  deriving Repr

inductive TyRef
  | operands | results
  | operand (i : Nat) (k : Kind)
  | result (i : Nat) (k : Kind)
  deriving DecidableEq, Repr

/-- directives that may occur at top level and inside an optional group -/
inductive SDir
  | kw (s : String)
  | punct (s : String)
  | operand (i : Nat) (k : Kind)
  | operandTy (i : Nat) (k : Kind)
  | resultTy (i : Nat) (k : Kind)
  | region (i : Nat) (k : Kind)
  | succ (i : Nat) (k : Kind)
  /-- `AttributeVariable` and subclasses: `optional` = `is_optional` (the parser accepts absence
  exactly then) -/
  | attr (name : String) (isProp : Bool) (optional : Bool) (dflt : Option Nat)
  | unitAttr (name : String) (isProp : Bool) (unitVal : Nat)
  | attrDict (withKw : Bool) (reserved : List String) (expProps : List String)
  -- aggregate directives: executable model only (no theorem)
  | operandsAll
  | operandTysAll
  | resultTysAll
  | funcTy (ins outs : TyRef)
  deriving DecidableEq, Repr

inductive Dir
  | s (d : SDir)
  | group (anchor : SDir) (first : SDir) (rest : List SDir) (els : List SDir)
  deriving Repr

/-! ## printing -/

def commaTail (mk : Nat → Tok) : List Nat → List Tok
  | [] => []
  | x :: xs => Tok.punct "," :: mk x :: commaTail mk xs

def commaSep (mk : Nat → Tok) : List Nat → List Tok
  | [] => []
  | x :: xs => mk x :: commaTail mk xs

def seg (l : List (List Nat)) (i : Nat) : List Nat := l.getD i []

def dictGet (isProp : Bool) (op : OpInst) (name : String) : Option Nat :=
  if isProp then AL.get op.props name else AL.get op.attrs name

/-- entries printed by `attr-dict`: `op.attributes | {expected properties}`, minus reserved names,
minus entries equal to their declared default -/
def dictEntries (D : Defs) (reserved expProps : List String) (op : OpInst) : List (String × Nat) :=
  let all := op.attrs ++ op.props.filter (fun p => expProps.contains p.1)
  all.filter fun p =>
    !(reserved.contains p.1) &&
    !((if expProps.contains p.1 then AL.get D.propDefaults p.1 else AL.get D.attrDefaults p.1) == some p.2)

def tyRefGet (op : OpInst) : TyRef → List Nat
  | .operands => op.operandTys.flatten
  | .results => op.resultTys.flatten
  | .operand i _ => seg op.operandTys i
  | .result i _ => seg op.resultTys i

def printS (D : Defs) (op : OpInst) : SDir → List Tok
  | .kw s => [Tok.kw s]
  | .punct s => [Tok.punct s]
  | .operand i _ => commaSep Tok.val (seg op.operands i)
  | .operandTy i _ => commaSep Tok.ty (seg op.operandTys i)
  | .resultTy i _ => commaSep Tok.ty (seg op.resultTys i)
  | .region i _ => (seg op.regions i).map Tok.region
  | .succ i _ => commaSep Tok.succ (seg op.succs i)
  | .attr name isProp optional dflt =>
    match dictGet isProp op name with
    | none => []
    | some v => if optional && dflt == some v then [] else [Tok.attr v]
  | .unitAttr _ _ _ => []
  | .attrDict withKw reserved expProps =>
    let es := dictEntries D reserved expProps op
    if es.isEmpty then [] else (if withKw then [Tok.kw "attributes"] else []) ++ [Tok.dict es]
  | .operandsAll => commaSep Tok.val op.operands.flatten
  | .operandTysAll => commaSep Tok.ty op.operandTys.flatten
  | .resultTysAll => commaSep Tok.ty op.resultTys.flatten
  | .funcTy ins outs =>
    let rs := tyRefGet op outs
    [Tok.punct "("] ++ commaSep Tok.ty (tyRefGet op ins) ++ [Tok.punct ")", Tok.punct "->"] ++
      (match rs with
       | [t] => if D.funcTys.contains t then [Tok.punct "(", Tok.ty t, Tok.punct ")"] else [Tok.ty t]
       | _ => [Tok.punct "("] ++ commaSep Tok.ty rs ++ [Tok.punct ")"])

/-- `Directive.is_present` -/
def presentS (op : OpInst) : SDir → Bool
  | .operand i _ => !(seg op.operands i).isEmpty
  | .operandTy i _ => !(seg op.operands i).isEmpty
  | .resultTy i _ => !(seg op.resultTys i).isEmpty
  | .region i .single => (seg op.regions i).any (· != 0)
  | .region i _ => !(seg op.regions i).isEmpty
  | .succ i _ => !(seg op.succs i).isEmpty
  | .attr name isProp _ dflt =>
    match dictGet isProp op name with
    | none => false
    | some v => !(dflt == some v)
  | .unitAttr name isProp _ => (dictGet isProp op name).isSome
  | .operandsAll => !op.operands.flatten.isEmpty
  | .operandTysAll => !op.operands.flatten.isEmpty
  | .resultTysAll => !op.resultTys.flatten.isEmpty
  | _ => true

def printSeq (D : Defs) (op : OpInst) : List SDir → List Tok
  | [] => []
  | d :: ds => printS D op d ++ printSeq D op ds

def printDir (D : Defs) (op : OpInst) : Dir → List Tok
  | .s d => printS D op d
  | .group a f rest els =>
    if presentS op a then printS D op f ++ printSeq D op rest else printSeq D op els

def printD (D : Defs) (fmt : List Dir) (op : OpInst) : List Tok :=
  match fmt with
  | [] => []
  | d :: ds => printDir D op d ++ printD D ds op

/-! ## parsing -/

/-- `ParsingState`: `None` slots = missing keys -/
structure PState where
  operands : AL Nat (List Nat) := []
  operandTys : AL Nat (List Nat) := []
  resultTys : AL Nat (List Nat) := []
  regions : AL Nat (List Nat) := []
  succs : AL Nat (List Nat) := []
  props : AL String Nat := []
  attrs : AL String Nat := []
  deriving DecidableEq, Repr

def selVal : Tok → Option Nat | .val n => some n | _ => none
def selTy : Tok → Option Nat | .ty n => some n | _ => none
def selSucc : Tok → Option Nat | .succ n => some n | _ => none
def selRegion : Tok → Option Nat | .region n => some n | _ => none
def selAttr : Tok → Option Nat | .attr n => some n | _ => none

def isDigitC (c : Char) : Bool := 48 ≤ c.toNat && c.toNat ≤ 57

def intTypeName (s : String) : Bool :=
  match s.toList with
  | 'i' :: d :: r => (d :: r).all isDigitC
  | 's' :: 'i' :: d :: r => (d :: r).all isDigitC
  | 'u' :: 'i' :: d :: r => (d :: r).all isDigitC
  | _ => false

/-- bare identifiers on which `parse_optional_type` commits -/
def typeLikeKw (s : String) : Bool :=
  intTypeName s ||
  ["index", "none", "memref", "tensor", "vector", "tuple", "complex", "bf16", "f16", "f32", "f64",
   "f80", "f128", "tf32", "f8E4M3FN", "f8E5M2"].contains s

/-- bare identifiers on which `parse_optional_attribute` commits -/
def attrLikeKw (s : String) : Bool :=
  typeLikeKw s ||
  ["true", "false", "unit", "dense", "array", "loc", "affine_map", "affine_set", "opaque", "sparse",
   "strided", "dense_resource", "distinct"].contains s

def badNone : Tok → Bool := fun _ => false

/-- punctuation an attribute's text may begin with (`[1, 2]`, `(i32) -> i32`, `{…}`, `-1`, `<…>`) -/
def attrStartP (s : String) : Bool := s == "[" || s == "(" || s == "{" || s == "-" || s == "<"

/-- tokens on which `parse_optional_type` commits although no type of this directive follows; an
attribute token counts, because its text may itself be a type -/
def badTy : Tok → Bool
  | .punct s => s == "("
  | .kw s => typeLikeKw s
  | .attr _ => true
  | _ => false

def badAttr : Tok → Bool
  | .ty _ => true
  | .dict _ => true
  | .region _ => true
  | .punct s => attrStartP s
  | .kw s => attrLikeKw s
  | _ => false

/-- tokens that begin with `{` (or may: an attribute's text can be a dictionary) -/
def badBrace : Tok → Bool
  | .dict _ => true
  | .region _ => true
  | .attr _ => true
  | .punct s => s == "{"
  | _ => false

/-- the `(',' elem)*` tail of `parse_optional_undelimited_comma_separated_list` -/
def moreList (sel : Tok → Option Nat) : List Tok → Option (List Nat × List Tok)
  | [] => some ([], [])
  | t :: rest =>
    if t = Tok.punct "," then
      match rest with
      | [] => none
      | u :: r =>
        match sel u with
        | some v => (moreList sel r).map fun p => (v :: p.1, p.2)
        | none => none
    else some ([], t :: rest)

def optList (sel : Tok → Option Nat) (bad : Tok → Bool) : List Tok → Option (List Nat × List Tok)
  | [] => some ([], [])
  | t :: r =>
    match sel t with
    | some v => (moreList sel r).map fun p => (v :: p.1, p.2)
    | none => if bad t then none else some ([], t :: r)

def optOne (sel : Tok → Option Nat) (bad : Tok → Bool) : List Tok → Option (Option Nat × List Tok)
  | [] => some (none, [])
  | t :: r =>
    match sel t with
    | some v => some (some v, r)
    | none => if bad t then none else some (none, t :: r)

def reqOne (sel : Tok → Option Nat) : List Tok → Option (Nat × List Tok)
  | [] => none
  | t :: r => (sel t).map fun v => (v, r)

/-- `VariadicRegionVariable.parse`: regions until the next token is not a region -/
def manyRegions : List Tok → Option (List Nat × List Tok)
  | [] => some ([], [])
  | t :: r =>
    match t with
    | .region n => (manyRegions r).map fun p => (n :: p.1, p.2)
    | _ => if badBrace t then none else some ([], t :: r)

def countSingle (ks : List Kind) : Nat := (ks.filter (· == Kind.single)).length

/-- `_set_using_variadic_index` with at most one non-single definition -/
def splitFlat : List Kind → List Nat → Nat → Option (List (List Nat))
  | [], [], _ => some []
  | [], _ :: _, _ => none
  | .single :: ks, x :: xs, n => (splitFlat ks xs n).map ([x] :: ·)
  | .single :: _, [], _ => none
  | k :: ks, xs, n =>
    if xs.length < n then none
    else if k == Kind.opt && n > 1 then none
    else (splitFlat ks (xs.drop n) 0).map (xs.take n :: ·)

def splitByKinds (ks : List Kind) (xs : List Nat) : Option (List (List Nat)) :=
  let nonSingle := ks.length - countSingle ks
  if nonSingle > 1 then none
  else if xs.length < countSingle ks then none
  else if nonSingle = 0 && xs.length ≠ countSingle ks then none
  else splitFlat ks xs (xs.length - countSingle ks)

/-- the cardinality a definition of kind `k` allows (`irdl_build_arg_list`, `verify_variadic_size`) -/
def fitsK : Kind → List Nat → Bool
  | .single, xs => xs.length == 1
  | .opt, xs => decide (xs.length ≤ 1)
  | .var, _ => true

/-- one segment per definition, each of an allowed cardinality -/
def fits : List Kind → List (List Nat) → Bool
  | [], [] => true
  | k :: ks, s :: ss => fitsK k s && fits ks ss
  | _, _ => false

def nonSingle (ks : List Kind) : Nat := (ks.filter (· != Kind.single)).length

/-- at most one optional/variadic definition: the flat list determines the segments (what
`create_operands_directive` / `create_results_directive` demand without a `SameVariadic…Size` option) -/
def uniqueVar (ks : List Kind) : Bool := decide (nonSingle ks ≤ 1)

def setAll (m : AL Nat (List Nat)) (segs : List (List Nat)) : AL Nat (List Nat) :=
  (List.range segs.length).foldl (fun m i => AL.set m i (segs.getD i [])) m

def setDict (isProp : Bool) (st : PState) (name : String) (v : Nat) : PState :=
  if isProp then { st with props := AL.set st.props name v } else { st with attrs := AL.set st.attrs name v }

abbrev PR := Option (Bool × PState × List Tok)

/-- set the types of a typeable directive (`set_types`) -/
def setTyRef (D : Defs) (st : PState) (r : TyRef) (tys : List Nat) : Option PState :=
  match r with
  | .operand i _ => some { st with operandTys := AL.set st.operandTys i tys }
  | .result i _ => some { st with resultTys := AL.set st.resultTys i tys }
  | .operands => (splitByKinds D.operandKinds tys).map fun s => { st with operandTys := setAll st.operandTys s }
  | .results => (splitByKinds D.resultKinds tys).map fun s => { st with resultTys := setAll st.resultTys s }

def tyRefKind : TyRef → Kind
  | .operand _ k => k
  | .result _ k => k
  | _ => Kind.var

/-- `parse_types` of a typeable directive inside `functional-type` -/
def parseTyRef (D : Defs) (r : TyRef) (ts : List Tok) (st : PState) : Option (PState × List Tok) :=
  match tyRefKind r with
  | .single => (reqOne selTy ts).bind fun p => (setTyRef D st r [p.1]).map (·, p.2)
  | .opt => (optOne selTy badTy ts).bind fun p => (setTyRef D st r p.1.toList).map (·, p.2)
  | .var => (optList selTy badTy ts).bind fun p => (setTyRef D st r p.1).map (·, p.2)

def expectPunct (s : String) : List Tok → Option (List Tok)
  | .punct s' :: r => if s' = s then some r else none
  | _ => none

/-- `FormatDirective.parse` of a simple directive; the Boolean is its return value -/
def parseS (D : Defs) (d : SDir) (ts : List Tok) (st : PState) : PR :=
  match d with
  | .kw s =>
    -- `parse_optional_keyword`: also matches the text of an opaque type/attribute token spelled like
    -- the keyword (the model then fails: the token would be torn apart)
    (match ts with
     | .kw s' :: r => if s' = s then some (true, st, r) else some (false, st, ts)
     | .ty _ :: _ => if typeLikeKw s then none else some (false, st, ts)
     | .attr _ :: _ => if attrLikeKw s then none else some (false, st, ts)
     | _ => some (false, st, ts))
  | .punct s =>
    (match ts with
     | .punct s' :: r => if s' = s then some (true, st, r) else some (false, st, ts)
     | .ty _ :: _ => if s = "(" then none else some (false, st, ts)
     | .attr _ :: _ => if attrStartP s then none else some (false, st, ts)
     | .dict _ :: _ => if s = "{" then none else some (false, st, ts)
     | .region _ :: _ => if s = "{" then none else some (false, st, ts)
     | _ => some (false, st, ts))
  | .operand i .single =>
    (reqOne selVal ts).map fun p => (true, { st with operands := AL.set st.operands i [p.1] }, p.2)
  | .operand i .opt =>
    (optOne selVal badNone ts).map fun p =>
      (p.1.isSome, { st with operands := AL.set st.operands i p.1.toList }, p.2)
  | .operand i .var =>
    (optList selVal badNone ts).map fun p =>
      (!p.1.isEmpty, { st with operands := AL.set st.operands i p.1 }, p.2)
  | .operandTy i .single =>
    (reqOne selTy ts).map fun p => (true, { st with operandTys := AL.set st.operandTys i [p.1] }, p.2)
  | .operandTy i .opt =>
    (optOne selTy badTy ts).map fun p =>
      (p.1.isSome, { st with operandTys := AL.set st.operandTys i p.1.toList }, p.2)
  | .operandTy i .var =>
    (optList selTy badTy ts).map fun p =>
      (!p.1.isEmpty, { st with operandTys := AL.set st.operandTys i p.1 }, p.2)
  | .resultTy i .single =>
    (reqOne selTy ts).map fun p => (true, { st with resultTys := AL.set st.resultTys i [p.1] }, p.2)
  | .resultTy i .opt =>
    (optOne selTy badTy ts).map fun p =>
      (p.1.isSome, { st with resultTys := AL.set st.resultTys i p.1.toList }, p.2)
  | .resultTy i .var =>
    (optList selTy badTy ts).map fun p =>
      (!p.1.isEmpty, { st with resultTys := AL.set st.resultTys i p.1 }, p.2)
  | .region i .single =>
    (reqOne selRegion ts).map fun p => (true, { st with regions := AL.set st.regions i [p.1] }, p.2)
  | .region i .opt =>
    (optOne selRegion badBrace ts).map fun p =>
      (p.1.isSome, { st with regions := AL.set st.regions i p.1.toList }, p.2)
  | .region i .var =>
    (manyRegions ts).map fun p => (!p.1.isEmpty, { st with regions := AL.set st.regions i p.1 }, p.2)
  | .succ i .single =>
    (reqOne selSucc ts).map fun p => (true, { st with succs := AL.set st.succs i [p.1] }, p.2)
  | .succ i .opt =>
    (optOne selSucc badNone ts).map fun p =>
      (p.1.isSome, { st with succs := AL.set st.succs i p.1.toList }, p.2)
  | .succ i .var =>
    (optList selSucc badNone ts).map fun p =>
      (!p.1.isEmpty, { st with succs := AL.set st.succs i p.1 }, p.2)
  | .attr name isProp optional _ =>
    if optional then
      (optOne selAttr badAttr ts).map fun p =>
        match p.1 with
        | some v => (true, setDict isProp st name v, p.2)
        | none => (false, st, p.2)
    else (reqOne selAttr ts).map fun p => (true, setDict isProp st name p.1, p.2)
  | .unitAttr name isProp u => some (true, setDict isProp st name u, ts)
  | .attrDict withKw reserved expProps =>
    let go (d : List (String × Nat)) (r : List Tok) : PR :=
      if d.any (fun p => reserved.contains p.1) then none
      else
        let ps := d.filter (fun p => expProps.contains p.1)
        let as := d.filter (fun p => !expProps.contains p.1)
        some (!d.isEmpty,
              { st with props := ps.foldl (fun m p => AL.set m p.1 p.2) st.props,
                        attrs := as.foldl (fun m p => AL.set m p.1 p.2) st.attrs }, r)
    if withKw then
      (match ts with
       | .kw s :: r =>
         if s = "attributes" then
           (match r with
            | .dict d :: r' => go d r'
            | _ => none)
         else go [] ts
       | _ => go [] ts)
    else
      (match ts with
       | .dict d :: r => go d r
       | t :: _ => if badBrace t then none else go [] ts
       | [] => go [] ts)
  | .operandsAll =>
    (optList selVal badNone ts).bind fun p =>
      (splitByKinds D.operandKinds p.1).map fun s =>
        (!p.1.isEmpty, { st with operands := setAll st.operands s }, p.2)
  | .operandTysAll =>
    (optList selTy badTy ts).bind fun p =>
      (setTyRef D st .operands p.1).map fun st' => (!p.1.isEmpty, st', p.2)
  | .resultTysAll =>
    (optList selTy badTy ts).bind fun p =>
      (setTyRef D st .results p.1).map fun st' => (!p.1.isEmpty, st', p.2)
  | .funcTy ins outs =>
    (match ts with
     | .punct s :: r =>
       if s = "(" then
         (parseTyRef D ins r st).bind fun p1 =>
         (expectPunct ")" p1.2).bind fun r2 =>
         (expectPunct "->" r2).bind fun r3 =>
           (match r3 with
            | .punct s3 :: r4 =>
              if s3 = "(" then
                (parseTyRef D outs r4 p1.1).bind fun p2 =>
                (expectPunct ")" p2.2).map fun r5 => (true, p2.1, r5)
              else none
            | _ =>
              (reqOne selTy r3).bind fun p2 =>
                (setTyRef D p1.1 outs [p2.1]).map fun st' => (true, st', p2.2))
       else some (false, st, ts)
     | _ => some (false, st, ts))

/-- `parse_optional` (first element of an optional group): differs for a non-optional region -/
def parseOptS (D : Defs) (d : SDir) (ts : List Tok) (st : PState) : PR :=
  match d with
  | .region i .single =>
    (optOne selRegion badBrace ts).map fun p =>
      (p.1.isSome, { st with regions := AL.set st.regions i [p.1.getD 0] }, p.2)
  | _ => parseS D d ts st

/-- `set_empty` -/
def setEmptyS (st : PState) : SDir → PState
  | .operand _ .single => st
  | .operand i _ => { st with operands := AL.set st.operands i [] }
  | .operandTy i _ => { st with operandTys := AL.set st.operandTys i [] }
  | .resultTy i _ => { st with resultTys := AL.set st.resultTys i [] }
  | .region i .single => { st with regions := AL.set st.regions i [0] }
  | .region i _ => { st with regions := AL.set st.regions i [] }
  | .succ _ .single => st
  | .succ i _ => { st with succs := AL.set st.succs i [] }
  | .operandsAll => { st with operands := st.operands.map fun p => (p.1, []) }
  | _ => st

def setEmptySeq (st : PState) : List SDir → PState
  | [] => st
  | d :: ds => setEmptySeq (setEmptyS st d) ds

def parseSeq (D : Defs) : List SDir → List Tok → PState → Option (PState × List Tok)
  | [], ts, st => some (st, ts)
  | d :: ds, ts, st =>
    match parseS D d ts st with
    | none => none
    | some (_, st', ts') => parseSeq D ds ts' st'

def parseDir (D : Defs) (d : Dir) (ts : List Tok) (st : PState) : Option (PState × List Tok) :=
  match d with
  | .s d => (parseS D d ts st).map fun r => (r.2.1, r.2.2)
  | .group _ f rest els =>
    match parseOptS D f ts st with
    | none => none
    | some (true, st1, ts1) => (parseSeq D rest ts1 st1).map fun r => (setEmptySeq r.1 els, r.2)
    | some (false, st1, ts1) => parseSeq D els ts1 (setEmptySeq st1 rest)

def parseD (D : Defs) : List Dir → List Tok → PState → Option (PState × List Tok)
  | [], ts, st => some (st, ts)
  | d :: ds, ts, st =>
    match parseDir D d ts st with
    | none => none
    | some (st', ts') => parseD D ds ts' st'

/-! ## building the operation from the parsing state (tail of `FormatProgram.parse`) -/

def buildOperands (st : PState) (n : Nat) : Option (List (List Nat)) :=
  (List.range n).mapM fun i => AL.get st.operands i

def buildOperandTys (D : Defs) (st : PState) (ops : List (List Nat)) : Option (List (List Nat)) :=
  (List.range ops.length).mapM fun i =>
    match AL.get st.operandTys i with
    | some tys => if tys.length = (seg ops i).length then some tys else none
    | none =>
      match D.operandFixed.getD i none with
      | some t => some (List.replicate (seg ops i).length t)
      | none => none

def buildResultTys (D : Defs) (st : PState) : Option (List (List Nat)) :=
  (List.range D.resultKinds.length).mapM fun i =>
    match AL.get st.resultTys i with
    | some tys => some tys
    | none =>
      match D.resultFixed.getD i none, D.resultKinds.getD i Kind.var with
      | some t, Kind.single => some [t]
      | _, _ => none

def buildSlots (m : AL Nat (List Nat)) (kinds : List Kind) : Option (List (List Nat)) :=
  (List.range kinds.length).mapM fun i =>
    match AL.get m i with
    | some xs => some xs
    | none => if kinds.getD i Kind.var == Kind.single then none else some []

def build (D : Defs) (st : PState) : Option OpInst :=
  (buildOperands st D.operandKinds.length).bind fun ops =>
  (buildOperandTys D st ops).bind fun otys =>
  (buildResultTys D st).bind fun rtys =>
  (buildSlots st.regions D.regionKinds).bind fun regs =>
  (buildSlots st.succs D.succKinds).map fun succs =>
    { operands := ops, operandTys := otys, resultTys := rtys, regions := regs, succs := succs,
      props := st.props, attrs := st.attrs }

/-- print, then parse the printed tokens followed by `rest`; the operation and what is left -/
def roundtrip (D : Defs) (fmt : List Dir) (op : OpInst) (rest : List Tok) : Option (OpInst × List Tok) :=
  (parseD D fmt (printD D fmt op ++ rest) {}).bind fun r => (build D r.1).map (·, r.2)

/-! ## equivalence modulo default elision -/

def normGet (defaults : AL String Nat) (m : AL String Nat) (name : String) : Option Nat :=
  match AL.get m name with
  | none => none
  | some v => if AL.get defaults name == some v then none else some v

/-! ## well-formedness of a format (decidable; stronger than what the format compiler checks) -/

inductive Cls
  | kw (s : String) | punct (s : String) | val | ty | attr | dict | region | succ | eof
  deriving DecidableEq, Repr

def clsOf : Option Tok → Cls
  | none => .eof
  | some (.kw s) => .kw s
  | some (.punct s) => .punct s
  | some (.val _) => .val
  | some (.ty _) => .ty
  | some (.attr _) => .attr
  | some (.dict _) => .dict
  | some (.region _) => .region
  | some (.succ _) => .succ

def kindNullable : Kind → Bool
  | .single => false
  | _ => true

/-- classes of the first token a directive may print -/
def firstS : SDir → List Cls
  | .kw s => [.kw s]
  | .punct s => [.punct s]
  | .operand _ _ => [.val]
  | .operandTy _ _ => [.ty]
  | .resultTy _ _ => [.ty]
  | .region _ _ => [.region]
  | .succ _ _ => [.succ]
  | .attr _ _ _ _ => [.attr]
  | .unitAttr _ _ _ => []
  | .attrDict withKw _ _ => if withKw then [.kw "attributes"] else [.dict]
  | .operandsAll => [.val]
  | .operandTysAll => [.ty]
  | .resultTysAll => [.ty]
  | .funcTy _ _ => [.punct "("]

/-- may print nothing (on a verified operation) -/
def nullableS : SDir → Bool
  | .kw _ => false
  | .punct _ => false
  | .operand _ k => kindNullable k
  | .operandTy _ k => kindNullable k
  | .resultTy _ k => kindNullable k
  | .region _ k => kindNullable k
  | .succ _ k => kindNullable k
  | .attr _ _ optional _ => optional
  | .unitAttr _ _ _ => true
  | .attrDict _ _ _ => true
  | .operandsAll => true
  | .operandTysAll => true
  | .resultTysAll => true
  | .funcTy _ _ => false

def firstSeq : List SDir → List Cls → List Cls
  | [], K => K
  | d :: ds, K => firstS d ++ (if nullableS d then firstSeq ds K else [])

def firstD : List Dir → List Cls → List Cls
  | [], K => K
  | .s d :: ds, K => firstS d ++ (if nullableS d then firstD ds K else [])
  | .group _ f r e :: ds, K => firstSeq (f :: r) (firstD ds K) ++ firstSeq e (firstD ds K)

def clsBadTy : Cls → Bool
  | .ty => true
  | .attr => true
  | .punct s => s == "("
  | .kw s => typeLikeKw s
  | _ => false

def clsBadAttr : Cls → Bool
  | .attr => true
  | .ty => true
  | .dict => true
  | .region => true
  | .punct s => attrStartP s
  | .kw s => attrLikeKw s
  | _ => false

def clsBadBrace : Cls → Bool
  | .dict => true
  | .region => true
  | .attr => true
  | .punct s => s == "{"
  | _ => false

/-- the next token (class `c`) would make directive `d` — parsed where it printed nothing — take
a token or fail -/
def conflict (d : SDir) (c : Cls) : Bool :=
  match d with
  -- a literal parsed optionally (first element of a group): the next token is that literal, or an
  -- opaque type/attribute/dictionary/region token whose text may begin with it
  | .kw s => c == .kw s || (attrLikeKw s && c == .attr) || (typeLikeKw s && c == .ty)
  | .punct s =>
    c == .punct s || (attrStartP s && c == .attr) || (s == "(" && c == .ty) ||
      (s == "{" && (c == .dict || c == .region))
  | .operand _ _ => c == .val
  | .operandTy _ _ => clsBadTy c
  | .resultTy _ _ => clsBadTy c
  | .region _ _ => clsBadBrace c
  | .succ _ _ => c == .succ
  | .attr _ _ _ _ => clsBadAttr c
  | .unitAttr _ _ _ => false
  | .attrDict withKw _ _ => if withKw then c == .kw "attributes" else clsBadBrace c
  | .operandsAll => c == .val
  | .operandTysAll => clsBadTy c
  | .resultTysAll => clsBadTy c
  | .funcTy _ _ => false

/-- parses a comma separated list: must not be followed by a comma -/
def commaLike : SDir → Bool
  | .operand _ .var => true
  | .operandTy _ .var => true
  | .resultTy _ .var => true
  | .succ _ .var => true
  | .operandsAll => true
  | .operandTysAll => true
  | .resultTysAll => true
  | _ => false

/-- a variadic region list must not be followed by a `{` -/
def regionLike : SDir → Bool
  | .region _ .var => true
  | _ => false

/-- side condition of one directive against the classes `F` of the token that may follow it -/
def okFollow (d : SDir) (F : List Cls) : Bool :=
  (!nullableS d || F.all (fun c => !conflict d c)) &&
  (!commaLike d || !F.contains (.punct ",")) &&
  (!regionLike d || F.all (fun c => !clsBadBrace c))

/-- the non-aggregate directives (the only ones `wfD` admits inside optional groups) -/
def inFragment : SDir → Bool
  | .operandsAll => false
  | .operandTysAll => false
  | .resultTysAll => false
  | .funcTy _ _ => false
  | _ => true

def wfSeq : List SDir → List Cls → Bool
  | [], _ => true
  | d :: ds, K => okFollow d (firstSeq ds K) && wfSeq ds K

def isLiteral : SDir → Bool
  | .kw _ => true
  | .punct _ => true
  | _ => false

/-- allowed as first element of an optional group -/
def okFirst : SDir → Bool
  | .kw _ => true
  | .punct _ => true
  | .operand _ k => kindNullable k
  | .operandTy _ k => kindNullable k
  | .resultTy _ k => kindNullable k
  | .region _ _ => true
  | .succ _ k => kindNullable k
  | .attr _ _ optional _ => optional
  | _ => false

/-- allowed as anchor -/
def okAnchor : SDir → Bool
  | .operand _ k => kindNullable k
  | .operandTy _ k => kindNullable k
  | .resultTy _ k => kindNullable k
  | .region _ _ => true
  | .succ _ k => kindNullable k
  | .attr _ _ optional dflt => optional || dflt.isSome
  | .unitAttr _ _ _ => true
  | _ => false

/-- allowed inside an optional group (then or else branch): what `set_empty` can undo -/
def okInGroup : SDir → Bool
  | .kw _ => true
  | .punct _ => true
  | .operand _ k => kindNullable k
  | .operandTy _ k => kindNullable k
  | .resultTy _ k => kindNullable k
  | .region _ _ => true
  | .succ _ k => kindNullable k
  | .attr _ _ optional dflt => optional || dflt.isSome
  | .unitAttr _ _ _ => true
  | _ => false

def okTop : SDir → Bool
  | .unitAttr _ _ _ => false
  | _ => true

def wfD : List Dir → List Cls → Bool
  | [], _ => true
  | .s d :: ds, K => okTop d && okFollow d (firstD ds K) && wfD ds K
  | .group a f r e :: ds, K =>
    let K' := firstD ds K
    okFirst f && okAnchor a && (isLiteral f || a == f) && (f :: r).contains a &&
    (f :: r).all okInGroup && e.all (fun d => okInGroup d && !(match d with | .unitAttr _ _ _ => true | _ => false)) &&
    -- the group is not taken: `f` must report absence on what follows
    (firstSeq e K').all (fun c => !conflict f c) &&
    wfSeq (f :: r) K' && wfSeq e K' && wfD ds K


/-- optional groups contain no aggregate directive (`operands`, `type(operands)`, `type(results)`,
`functional-type`); at top level every directive is covered by `decl_roundtrip`.  Implied by `wfD`
(`okFirst`/`okInGroup` refuse the aggregates). -/
def fragD : List Dir → Bool
  | [] => true
  | .s _ :: ds => fragD ds
  | .group _ f r e :: ds => inFragment f && r.all inFragment && e.all inFragment && fragD ds

/-! ## the binding checks of the format compiler (`FormatParser.parse_format`) -/

inductive Fam | operands | operandTys | resultTys | regions | succs
  deriving DecidableEq, Repr

/-- how often a typeable directive binds the type slot `(fam, i)` -/
def tyRefBindN (fam : Fam) (i : Nat) : TyRef → Nat
  | .operands => if fam = .operandTys then 1 else 0
  | .results => if fam = .resultTys then 1 else 0
  | .operand j _ => if fam = .operandTys ∧ j = i then 1 else 0
  | .result j _ => if fam = .resultTys ∧ j = i then 1 else 0

/-- how often a directive binds slot `(fam, i)` (`seen_operands[i] = True`, …; `operands` and
`results` bind every slot of their family) -/
def bindN (fam : Fam) (i : Nat) : SDir → Nat
  | .operand j _ => if fam = .operands ∧ j = i then 1 else 0
  | .operandTy j _ => if fam = .operandTys ∧ j = i then 1 else 0
  | .resultTy j _ => if fam = .resultTys ∧ j = i then 1 else 0
  | .region j _ => if fam = .regions ∧ j = i then 1 else 0
  | .succ j _ => if fam = .succs ∧ j = i then 1 else 0
  | .operandsAll => if fam = .operands then 1 else 0
  | .operandTysAll => if fam = .operandTys then 1 else 0
  | .resultTysAll => if fam = .resultTys then 1 else 0
  | .funcTy ins outs => tyRefBindN fam i ins + tyRefBindN fam i outs
  | _ => 0

/-- all simple directives of a format -/
def allS : List Dir → List SDir
  | [] => []
  | .s d :: ds => d :: allS ds
  | .group _ f r e :: ds => (f :: r) ++ e ++ allS ds

def bindCount (fam : Fam) (i : Nat) (fmt : List Dir) : Nat :=
  ((allS fmt).map (bindN fam i)).sum

def okAggTy (D : Defs) : TyRef → Bool
  | .operands => !D.operandKinds.isEmpty && uniqueVar D.operandKinds
  | .results => !D.resultKinds.isEmpty && uniqueVar D.resultKinds
  | .operand _ _ => true
  | .result _ _ => true

/-- `create_operands_directive` / `create_results_directive`: "'operands' should not be used when
there are no operands", "'operands' is ambiguous with multiple variadic operands" (the
`SameVariadic…Size` way out is not modelled) -/
def okAgg (D : Defs) : SDir → Bool
  | .operandsAll => !D.operandKinds.isEmpty && uniqueVar D.operandKinds
  | .operandTysAll => !D.operandKinds.isEmpty && uniqueVar D.operandKinds
  | .resultTysAll => !D.resultKinds.isEmpty && uniqueVar D.resultKinds
  | .funcTy ins outs => okAggTy D ins && okAggTy D outs
  | _ => true

/-- the aggregate directives of a format (top level only: `wfD` admits none inside groups) are used
where `_set_using_variadic_index` is unambiguous -/
def wfA (D : Defs) : List Dir → Bool
  | [] => true
  | .s d :: ds => okAgg D d && wfA D ds
  | .group _ _ _ _ :: ds => wfA D ds

/-- the binding checks of the format compiler, relative to the operation definition: every operand,
region and successor is bound exactly once ("… is already bound", "'operands' cannot be used with other
operand directives", `verify_operands/_regions/_successors`: "… not found"); every operand / result
type is bound at most once and is bound or inferable (`verify_operands`, `verify_results`); the
aggregate directives are used only where they are unambiguous (`okAgg`). -/
def accD (D : Defs) (fmt : List Dir) : Bool :=
  (List.range D.operandKinds.length).all (fun i => bindCount .operands i fmt == 1) &&
  (List.range D.operandKinds.length).all (fun i =>
    decide (bindCount .operandTys i fmt ≤ 1) &&
      (bindCount .operandTys i fmt == 1 || (D.operandFixed.getD i none).isSome)) &&
  (List.range D.resultKinds.length).all (fun i =>
    decide (bindCount .resultTys i fmt ≤ 1) &&
      (bindCount .resultTys i fmt == 1 ||
        ((D.resultFixed.getD i none).isSome && D.resultKinds.getD i Kind.var == Kind.single))) &&
  (List.range D.regionKinds.length).all (fun i => bindCount .regions i fmt == 1) &&
  (List.range D.succKinds.length).all (fun i => bindCount .succs i fmt == 1) &&
  (allS fmt).all (okAgg D)

/-- diagnostic twin of `wfD`: which condition fails first (debugging / evidence only) -/
def whySeq : List SDir → List Cls → String
  | [], _ => ""
  | d :: ds, K =>
    if !okFollow d (firstSeq ds K) then "follow"
    else whySeq ds K

def whyD : List Dir → List Cls → Nat → String
  | [], _, _ => "ok"
  | .s d :: ds, K, n =>
    if !okTop d then s!"{n}:top"
    else if !okFollow d (firstD ds K) then s!"{n}:follow"
    else whyD ds K (n + 1)
  | .group a f r e :: ds, K, n =>
    let K' := firstD ds K
    if !okFirst f then s!"{n}:first"
    else if !okAnchor a then s!"{n}:anchor"
    else if !(isLiteral f || a == f) then s!"{n}:first-not-anchor"
    else if !(f :: r).contains a then s!"{n}:anchor-missing"
    else if !(f :: r).all okInGroup then s!"{n}:then-element"
    else if !e.all (fun d => okInGroup d && !(match d with | .unitAttr _ _ _ => true | _ => false)) then s!"{n}:else-element"
    else if !(firstSeq e K').all (fun c => !conflict f c) then s!"{n}:untaken-conflict"
    else if whySeq (f :: r) K' ≠ "" then s!"{n}:then-" ++ whySeq (f :: r) K'
    else if whySeq e K' ≠ "" then s!"{n}:else-" ++ whySeq e K'
    else whyD ds K (n + 1)

/-! ## line protocol -/

structure St where
  defs : Defs := {}
  fmt : List Dir := []
  op : OpInst := {}
  deriving Repr

def parseKind : String → Option Kind
  | "s" => some .single | "o" => some .opt | "v" => some .var | _ => none

def parseNatList (s : String) : Option (List Nat) :=
  if s = "" then some [] else (s.splitOn ",").mapM (·.toNat?)

/-- `a,b;c;;d` → list of lists; `-` → [] -/
def parseSegs (s : String) : Option (List (List Nat)) :=
  if s = "-" then some [] else (s.splitOn ";").mapM parseNatList

def parseOptNat (s : String) : Option (Option Nat) :=
  if s = "-" then some none else s.toNat?.map some

def parseDictS (s : String) : Option (List (String × Nat)) :=
  if s = "-" || s = "" then some []
  else (s.splitOn ",").mapM fun e =>
    match e.splitOn "=" with
    | [k, v] => v.toNat?.map fun n => (k, n)
    | _ => none

def parseNames (s : String) : List String :=
  if s = "-" || s = "" then [] else s.splitOn ","

def parseKinds (s : String) : Option (List Kind) :=
  if s = "-" then some [] else (s.splitOn ",").mapM parseKind

def parseOptNats (s : String) : Option (List (Option Nat)) :=
  if s = "-" then some [] else (s.splitOn ",").mapM parseOptNat

def parseTyRefS (s : String) : Option TyRef :=
  match s.splitOn "." with
  | ["O"] => some .operands
  | ["R"] => some .results
  | ["o", i, k] => (i.toNat?).bind fun i => (parseKind k).map fun k => .operand i k
  | ["r", i, k] => (i.toNat?).bind fun i => (parseKind k).map fun k => .result i k
  | _ => none

def parseBoolS : String → Option Bool
  | "1" => some true | "0" => some false | _ => none

/-- one simple directive; fields separated by `:`; literal text is hex-free plain ASCII without
spaces and without `:` (`:` itself is sent as `COLON`, `::` as `COLON2`) -/
def litText (s : String) : String :=
  if s = "COLON" then ":" else if s = "COLON2" then "::" else s

def parseSDir (w : String) : Option SDir :=
  match w.splitOn ":" with
  | ["k", s] => some (.kw s)
  | ["p", s] => some (.punct (litText s))
  | ["o", i, k] => (i.toNat?).bind fun i => (parseKind k).map (.operand i)
  | ["ot", i, k] => (i.toNat?).bind fun i => (parseKind k).map (.operandTy i)
  | ["rt", i, k] => (i.toNat?).bind fun i => (parseKind k).map (.resultTy i)
  | ["g", i, k] => (i.toNat?).bind fun i => (parseKind k).map (.region i)
  | ["sc", i, k] => (i.toNat?).bind fun i => (parseKind k).map (.succ i)
  | ["a", n, p, o, d] =>
    (parseBoolS p).bind fun p => (parseBoolS o).bind fun o =>
      (parseOptNat d).map fun d => .attr n p o d
  | ["u", n, p, v] => (parseBoolS p).bind fun p => v.toNat?.map fun v => .unitAttr n p v
  | ["ad", k, res, exp] => (parseBoolS k).map fun k => .attrDict k (parseNames res) (parseNames exp)
  | ["oa"] => some .operandsAll
  | ["ota"] => some .operandTysAll
  | ["rta"] => some .resultTysAll
  | ["ft", i, o] => (parseTyRefS i).bind fun i => (parseTyRefS o).map fun o => .funcTy i o
  | _ => none

/-- `( <anchorIdx> d… | d… )`; `fuel` bounds the number of words -/
def parseFmtAux : Nat → List String → Option (List Dir)
  | _, [] => some []
  | 0, _ => none
  | fuel + 1, "(" :: a :: rest =>
    let thenW := rest.takeWhile (· ≠ "|")
    let afterThen := (rest.dropWhile (· ≠ "|")).drop 1
    let elseW := afterThen.takeWhile (· ≠ ")")
    let tail := (afterThen.dropWhile (· ≠ ")")).drop 1
    match a.toNat?, thenW.mapM parseSDir, elseW.mapM parseSDir with
    | some ai, some (f :: r), some e =>
      match (f :: r)[ai]? with
      | some anchor => (parseFmtAux fuel tail).map (Dir.group anchor f r e :: ·)
      | none => none
    | _, _, _ => none
  | fuel + 1, w :: rest => (parseSDir w).bind fun d => (parseFmtAux fuel rest).map (Dir.s d :: ·)

def parseFmt (ws : List String) : Option (List Dir) := parseFmtAux (ws.length + 1) ws

def showNats (l : List Nat) : String := ",".intercalate (l.map toString)

def showSegs (l : List (List Nat)) : String :=
  if l.isEmpty then "-" else ";".intercalate (l.map showNats)

def showDict (d : List (String × Nat)) : String :=
  if d.isEmpty then "-" else ",".intercalate (d.map fun p => s!"{p.1}={p.2}")

def showLit (s : String) : String :=
  if s = ":" then "COLON" else if s = "::" then "COLON2" else s

def showTok : Tok → String
  | .kw s => s!"k:{s}"
  | .punct s => s!"p:{showLit s}"
  | .val n => s!"v:{n}"
  | .ty n => s!"t:{n}"
  | .attr n => s!"a:{n}"
  | .dict d => s!"d:{showDict d}"
  | .region n => s!"r:{n}"
  | .succ n => s!"s:{n}"

def showToks (l : List Tok) : String :=
  if l.isEmpty then "-" else " ".intercalate (l.map showTok)

def insertSorted (p : String × Nat) : List (String × Nat) → List (String × Nat)
  | [] => [p]
  | q :: r => if p.1 < q.1 then p :: q :: r else q :: insertSorted p r

def sortDict (d : List (String × Nat)) : List (String × Nat) := d.foldr insertSorted []

/-- entries of a dict that are not equal to their default, sorted by name -/
def normDict (defaults : AL String Nat) (m : AL String Nat) : List (String × Nat) :=
  sortDict (m.filter fun p => !(AL.get defaults p.1 == some p.2))

def showOp (D : Defs) (op : OpInst) : String :=
  s!"O={showSegs op.operands} T={showSegs op.operandTys} R={showSegs op.resultTys} G={showSegs op.regions} S={showSegs op.succs} P={showDict (normDict D.propDefaults op.props)} A={showDict (normDict D.attrDefaults op.attrs)}"

def parseCls (w : String) : Option Cls :=
  match w.splitOn ":" with
  | ["eof"] => some .eof
  | ["k", s] => some (.kw s)
  | ["p", s] => some (.punct (litText s))
  | ["v"] => some .val
  | ["s"] => some .succ
  | ["a"] => some .attr
  | ["r"] => some .region
  | _ => none

def clsTok : Cls → List Tok
  | .kw s => [.kw s]
  | .punct s => [.punct s]
  | .val => [.val 999]
  | .succ => [.succ 999]
  | .attr => [.attr 999]
  | .region => [.region 999]
  | .ty => [.ty 999]
  | .dict => [.dict []]
  | .eof => []

def parseTokS (w : String) : Option Tok :=
  match w.splitOn ":" with
  | ["k", s] => some (.kw s)
  | ["p", s] => some (.punct (litText s))
  | ["v", n] => n.toNat?.map .val
  | ["t", n] => n.toNat?.map .ty
  | ["a", n] => n.toNat?.map .attr
  | ["r", n] => n.toNat?.map .region
  | ["s", n] => n.toNat?.map .succ
  | ["d", d] => (parseDictS d).map .dict
  | _ => none

def field (pre : String) (w : String) : Option String :=
  if w.startsWith pre then some (w.drop pre.length).toString else none

def lineStep (s : St) (line : String) : St × String :=
  let bad : St × String := (s, "bad-op")
  match words line with
  | ["reset"] => ({}, "ok")
  | ["defs", ok, of, rk, rf, gk, sk, pd, ad, ft] =>
    (match (field "OK=" ok).bind parseKinds, (field "OF=" of).bind parseOptNats,
           (field "RK=" rk).bind parseKinds, (field "RF=" rf).bind parseOptNats,
           (field "GK=" gk).bind parseKinds, (field "SK=" sk).bind parseKinds,
           (field "PD=" pd).bind parseDictS, (field "AD=" ad).bind parseDictS,
           (field "FT=" ft).bind parseNatList with
     | some ok, some of, some rk, some rf, some gk, some sk, some pd, some ad, some ft =>
       ({ s with defs := { operandKinds := ok, operandFixed := of, resultKinds := rk, resultFixed := rf,
                           regionKinds := gk, succKinds := sk, propDefaults := pd, attrDefaults := ad,
                           funcTys := ft } }, "ok")
     | _, _, _, _, _, _, _, _, _ => bad)
  | "fmt" :: ws =>
    (match parseFmt ws with
     | some f => ({ s with fmt := f }, "ok")
     | none => bad)
  | ["op", o, t, r, g, sc, p, a] =>
    (match (field "O=" o).bind parseSegs, (field "T=" t).bind parseSegs, (field "R=" r).bind parseSegs,
           (field "G=" g).bind parseSegs, (field "S=" sc).bind parseSegs,
           (field "P=" p).bind parseDictS, (field "A=" a).bind parseDictS with
     | some o, some t, some r, some g, some sc, some p, some a =>
       ({ s with op := { operands := o, operandTys := t, resultTys := r, regions := g, succs := sc,
                         props := p, attrs := a } }, "ok")
     | _, _, _, _, _, _, _ => bad)
  | "wf" :: ks =>
    (match ks.mapM parseCls with
     | some K => (s, showBool (wfD s.fmt K))
     | none => bad)
  | ["fragment"] => (s, showBool (fragD s.fmt))
  | ["acc"] => (s, showBool (accD s.defs s.fmt))
  | ["wfa"] => (s, showBool (wfA s.defs s.fmt))
  | "why" :: ks =>
    (match ks.mapM parseCls with
     | some K => (s, whyD s.fmt K 0)
     | none => bad)
  | ["print"] => (s, showToks (printD s.defs s.fmt s.op))
  | ["roundtrip", k] =>
    (match parseCls k with
     | some c =>
       (match roundtrip s.defs s.fmt s.op (clsTok c) with
        | some (op', rest) => (s, if rest = clsTok c then "some " ++ showOp s.defs op' else "leftover " ++ showToks rest)
        | none => (s, "none"))
     | none => bad)
  | "parse" :: k :: ws =>
    -- parse an arbitrary token stream (followed by the continuation class `k`) with the current format
    (match parseCls k, (ws.filter (· ≠ "-")).mapM parseTokS with
     | some c, some ts =>
       (match (parseD s.defs s.fmt (ts ++ clsTok c) {}).bind fun r => (build s.defs r.1).map (·, r.2) with
        | some (op', rest) => (s, if rest = clsTok c then "some " ++ showOp s.defs op' else "leftover " ++ showToks rest)
        | none => (s, "none"))
     | _, _ => bad)
  | ["show"] => (s, showOp s.defs s.op)
  | _ => bad

end Xdsl.DeclFormat
