import XdslModel.RiscVRules
import XdslModel.X86
import XdslModel.Sem
/-!
C22 — translation validator for lowered *straight-line* functions (loop-free, call-free, `i32`).

`validate src body : Bool` decides, by symbolic execution of the emitted RV32 instruction list `body`
(the function's instructions without the label and the final `ret`) over the 31 entry registers,
whether the function returns the source results and restores `sp`, `ra` and the callee-saved
registers — for **all** entry states (`XdslProofs/C22Validate.lean`: `validate_sound`).

* Source: `Src` — `nargs ≤ 8` arguments of type `i32`, a list of `arith` operations in SSA order
  (`constant`, the 13 integer binary operations of the lowering table, `cmpi` with the 10
  predicates; operands are indices into arguments ++ earlier results), returned value indices.
  Its semantics `evalSrc` is stated with `Xdsl.Sem.intBin` / `Xdsl.Sem.cmpi` (the reference semantics
  of C15/`sem`): `none` = some operation is undefined (shift ≥ 32, division by zero, `MIN / -1`).
  An `i1` result of `cmpi` is the register image 0/1.
* Symbolic execution builds an expression tree `T` per register (leaves: entry value of a register,
  constants; inner nodes: the R-type ALU operations, immediates being constants) and tracks the words
  stored at `entry sp + k` (prologue/epilogue spills).  Anything else (control flow, other memory,
  virtual registers, `lw` of an unknown word, single-bit immediates) is refused.
* Comparison: both trees are normalised to polynomials modulo 2^32 over atoms (`Xdsl.X86.Poly`); an atom
  is an entry register or a hash-consed node `op(p, q)` of a non-polynomial operation over normalised
  operands (table `Tbl`, shared between all compared terms).  Node construction applies the identities
  canonicalization uses (`x&x`, `x&0`, `x|x`, `x|0`, `x^x`, `x^0`, `x/1`, constant operands).
-/
namespace Xdsl.RiscV.TV
open Xdsl.X86 (Poly Mono pconst pvar padd pneg pmul? pclean evalPoly)

/-! ## source programs -/

inductive BinOp
  | addi | subi | muli | andi | ori | xori | shli | shrsi | shrui | divsi | remsi | divui | remui
  deriving DecidableEq, Repr

def BinOp.name : BinOp → String
  | .addi => "arith.addi" | .subi => "arith.subi" | .muli => "arith.muli" | .andi => "arith.andi"
  | .ori => "arith.ori" | .xori => "arith.xori" | .shli => "arith.shli" | .shrsi => "arith.shrsi"
  | .shrui => "arith.shrui" | .divsi => "arith.divsi" | .remsi => "arith.remsi"
  | .divui => "arith.divui" | .remui => "arith.remui"

/-- the instruction `convert-arith-to-riscv` lowers the operation to -/
def BinOp.rop : BinOp → ROp
  | .addi => .add | .subi => .sub | .muli => .mul | .andi => .and | .ori => .or | .xori => .xor
  | .shli => .sll | .shrsi => .sra | .shrui => .srl | .divsi => .div | .remsi => .rem
  | .divui => .divu | .remui => .remu

inductive SrcOp
  | const (c : Int)
  | bin (op : BinOp) (a b : Nat)
  | cmpi (p : Nat) (a b : Nat)
  deriving DecidableEq, Repr

structure Src where
  nargs : Nat
  ops : List SrcOp
  rets : List Nat
  deriving Repr

/-- MLIR semantics of one binary operation on `i32` (`Xdsl.Sem.intBin`); `none` = poison/UB -/
def srcBin (op : BinOp) (a b : W) : Option W :=
  match Sem.intBin op.name a b with
  | .val v => some v
  | _ => none

/-- `arith.cmpi` (`Xdsl.Sem.cmpi`); the `i1` result as register image -/
def srcCmpi (p : Nat) (a b : W) : Option W := (Sem.cmpi (p : Int) a b).map b2w

def evalOps : List SrcOp → List W → Option (List W)
  | [], vals => some vals
  | .const c :: r, vals => evalOps r (vals ++ [imm32 c])
  | .bin op a b :: r, vals =>
    match vals[a]?, vals[b]? with
    | some x, some y =>
      match srcBin op x y with
      | some v => evalOps r (vals ++ [v])
      | none => none
    | _, _ => none
  | .cmpi p a b :: r, vals =>
    match vals[a]?, vals[b]? with
    | some x, some y =>
      match srcCmpi p x y with
      | some v => evalOps r (vals ++ [v])
      | none => none
    | _, _ => none

def pick (vals : List W) : List Nat → Option (List W)
  | [] => some []
  | v :: r =>
    match vals[v]?, pick vals r with
    | some x, some xs => some (x :: xs)
    | _, _ => none

/-- results of the source function on the arguments `arg 0 … arg (nargs-1)`; `none` = undefined -/
def evalSrc (s : Src) (arg : Nat → W) : Option (List W) :=
  match evalOps s.ops ((List.range s.nargs).map arg) with
  | some vals => pick vals s.rets
  | none => none

/-! ## expression trees -/

inductive T
  | var (i : Nat)
  | const (c : Int)
  | bin (op : ROp) (a b : T)
  deriving DecidableEq, Repr

def den (base : Nat → W) : T → W
  | .var i => base i
  | .const c => imm32 c
  | .bin op a b => aluR op (den base a) (den base b)

/-- the tree `LowerArithCmpi` computes for predicate `p` (any correct sequence would do for soundness;
this one makes the comparison succeed on what the lowering emits) -/
def cmpiTerm (p : Nat) (a b : T) : Option T :=
  match p with
  | 0 => some (.bin .sltu (.bin .xor a b) (.const 1))
  | 1 => some (.bin .sltu (.const 0) (.bin .xor a b))
  | 2 => some (.bin .slt a b)
  | 3 => some (.bin .xor (.bin .slt b a) (.const 1))
  | 4 => some (.bin .slt b a)
  | 5 => some (.bin .xor (.bin .slt a b) (.const 1))
  | 6 => some (.bin .sltu a b)
  | 7 => some (.bin .xor (.bin .sltu b a) (.const 1))
  | 8 => some (.bin .sltu b a)
  | 9 => some (.bin .xor (.bin .sltu a b) (.const 1))
  | _ => none

/-- tree of every SSA value; `none` = dangling operand index / unknown predicate -/
def srcTerms : List SrcOp → List T → Option (List T)
  | [], ts => some ts
  | .const c :: r, ts => srcTerms r (ts ++ [.const c])
  | .bin op a b :: r, ts =>
    match ts[a]?, ts[b]? with
    | some x, some y => srcTerms r (ts ++ [.bin op.rop x y])
    | _, _ => none
  | .cmpi p a b :: r, ts =>
    match ts[a]?, ts[b]? with
    | some x, some y =>
      match cmpiTerm p x y with
      | some t => srcTerms r (ts ++ [t])
      | none => none
    | _, _ => none

def A0 : Reg := 10

def argTerms (nargs : Nat) : List T := (List.range nargs).map fun i => .var (A0 + i)

/-! ## symbolic execution of straight-line RV32 code -/

structure Sym where
  /-- tree of every physical register 1..31 -/
  reg : Reg → T
  /-- known words at `entry sp + k`, `0 ≤ k < 2^32` -/
  stk : Int → Option T

def Sym.get (S : Sym) (r : Reg) : Option T :=
  if r = 0 then some (.const 0) else if r < 32 then some (S.reg r) else none

def Sym.set (S : Sym) (r : Reg) (t : T) : Option Sym :=
  if r = 0 then some S
  else if r < 32 then some { S with reg := fun x => if x = r then t else S.reg x } else none

def symInit : Sym := { reg := fun r => .var r, stk := fun _ => none }

/-- `t` denotes `entry sp + k` -/
def spOff : T → Option Int
  | .var i => if i = SP then some 0 else none
  | .bin .add x (.const c) => (spOff x).map (· + c)
  | _ => none

def M32 : Int := 4294967296

def iopROp : IOp → ROp
  | .addi => .add | .andi => .and | .ori => .or | .xori => .xor | .slti => .slt | .sltiu => .sltu

def sopROp : SOp → Option ROp
  | .slli => some .sll | .srli => some .srl | .srai => some .sra | _ => none

def symStep (i : Instr) (S : Sym) : Option Sym :=
  match i with
  | .r op rd a b =>
    match S.get a, S.get b with
    | some x, some y => S.set rd (.bin op x y)
    | _, _ => none
  | .i op rd a imm =>
    match S.get a with
    | some x => S.set rd (.bin (iopROp op) x (.const imm))
    | none => none
  | .sh op rd a n =>
    match S.get a, sopROp op with
    | some x, some o => if n < 32 then S.set rd (.bin o x (.const (n : Int))) else none
    | _, _ => none
  | .li rd imm => S.set rd (.const imm)
  | .mv rd a =>
    match S.get a with
    | some x => S.set rd x
    | none => none
  | .lw rd base off =>
    match (S.get base).bind spOff with
    | some k =>
      let key := (k + off) % M32
      if key % 4 = 0 then
        match S.stk key with
        | some t => S.set rd t
        | none => none
      else none
    | none => none
  | .sw v base off =>
    match (S.get base).bind spOff, S.get v with
    | some k, some x =>
      let key := (k + off) % M32
      if key % 4 = 0 then some { S with stk := fun j => if j = key then some x else S.stk j } else none
    | _, _ => none
  | .nop => some S
  | _ => none

def symExec : List Instr → Sym → Option Sym
  | [], S => some S
  | i :: r, S => (symStep i S).bind (symExec r)

/-! ## normalisation: polynomials over hash-consed atoms -/

/-- number of base variables: variable `r < 32` is the entry value of register `r` -/
def NV : Nat := 32

abbrev Node := ROp × Poly × Poly
abbrev Tbl := List Node

/-- coefficients reduced modulo 2^32, zero terms dropped -/
def pnorm (p : Poly) : Poly := pclean (p.map fun t => (t.1, t.2 % M32))

def isConst (p : Poly) : Option Int :=
  match p with
  | [] => some 0
  | [([], c)] => some c
  | _ => none

def lookup (n : Node) : Tbl → Nat → Option Nat
  | [], _ => none
  | m :: r, k => if m = n then some k else lookup n r (k + 1)

def intern (n : Node) (t : Tbl) : Tbl × Poly :=
  match lookup n t NV with
  | some j => (t, pvar j)
  | none => (t ++ [n], pvar (NV + t.length))

/-- identities applied before a node is created (operands are normalised polynomials) -/
def simpNode (op : ROp) (p q : Poly) : Option Poly :=
  match op with
  | .and => if p = q then some p else if p = [] ∨ q = [] then some [] else none
  | .or => if p = q then some p else if p = [] then some q else if q = [] then some p else none
  | .xor => if p = q then some [] else if p = [] then some q else if q = [] then some p else none
  | .div => if q = [([], 1)] then some p else none
  | _ => none

def mkNode (op : ROp) (p q : Poly) (t : Tbl) : Tbl × Poly :=
  match isConst p, isConst q with
  | some a, some b => (t, pnorm (pconst (aluR op (imm32 a) (imm32 b)).toInt))
  | _, _ =>
    match simpNode op p q with
    | some r => (t, r)
    | none => intern (op, p, q) t

/-- `none`: a product exceeds the size guard of `pmul?`, or a variable index is not a register -/
def norm : T → Tbl → Option (Tbl × Poly)
  | .var i, t => if i < NV then some (t, pvar i) else none
  | .const c, t => some (t, pnorm (pconst c))
  | .bin op a b, t =>
    match norm a t with
    | none => none
    | some (t1, p) =>
      match norm b t1 with
      | none => none
      | some (t2, q) =>
        match op with
        | .add => some (t2, pnorm (padd p q))
        | .sub => some (t2, pnorm (padd p (pneg q)))
        | .mul =>
          match pmul? p q with
          | some r => some (t2, pnorm r)
          | none => none
        | _ => some (mkNode op p q t2)

/-- all pairs normalise to the same polynomial (one shared table) -/
def checkPairs : List (T × T) → Tbl → Bool
  | [], _ => true
  | (x, y) :: r, t =>
    match norm x t with
    | none => false
    | some (t1, p) =>
      match norm y t1 with
      | none => false
      | some (t2, q) => p == q && checkPairs r t2

/-! ## the validator -/

def isStraight : Instr → Bool
  | .br .. => false
  | .j _ => false
  | .jal _ => false
  | .ret => false
  | _ => true

/-- registers a function must hand back unchanged: `ra`, `sp`, `s0`–`s11` -/
def preserved : List Reg := [1, 2, 8, 9, 18, 19, 20, 21, 22, 23, 24, 25, 26, 27]

def retPairs (S : Sym) (ts : List T) : List Nat → Nat → Option (List (T × T))
  | [], _ => some []
  | v :: r, j =>
    match ts[v]?, retPairs S ts r (j + 1) with
    | some t, some rest => some ((S.reg (A0 + j), t) :: rest)
    | _, _ => none

def validate (s : Src) (body : List Instr) : Bool :=
  decide (s.nargs ≤ 8) && decide (s.rets.length ≤ 8) &&
  body.all (fun i => isStraight i && i.encodable) &&
  match symExec body symInit, srcTerms s.ops (argTerms s.nargs) with
  | some S, some ts =>
    match retPairs S ts s.rets 0 with
    | some ps => checkPairs (ps ++ preserved.map fun r => (S.reg r, T.var r)) []
    | none => false
  | _, _ => false

/-! ## protocol (diagnostics; the verdict is `validate`) -/

def firstReject : List Instr → Sym → Nat → String
  | [], _, _ => "none"
  | i :: r, S, k =>
    if !(isStraight i) then s!"control@{k}:{showInstr i}"
    else if !i.encodable then s!"unencodable@{k}:{showInstr i}"
    else match symStep i S with
      | some S' => firstReject r S' (k + 1)
      | none => s!"unsupported@{k}:{showInstr i}"

def firstBadPair : List (T × T) → Tbl → Nat → String
  | [], _, _ => "none"
  | (x, y) :: r, t, k =>
    match norm x t with
    | none => s!"toobig@{k}"
    | some (t1, p) =>
      match norm y t1 with
      | none => s!"toobig@{k}"
      | some (t2, q) => if p == q then firstBadPair r t2 (k + 1) else s!"differs@{k}"

/-- `ok`, or why not: pair index `k < #rets` = returned value `k`, then the preserved registers in
the order of `preserved` -/
def validateMsg (s : Src) (body : List Instr) : String :=
  if validate s body then "ok" else
  match firstReject body symInit 0 with
  | "none" =>
    match symExec body symInit, srcTerms s.ops (argTerms s.nargs) with
    | some S, some ts =>
      match retPairs S ts s.rets 0 with
      | some ps => "reject:" ++ firstBadPair (ps ++ preserved.map fun r => (S.reg r, T.var r)) [] 0
      | none => "reject:source-index"
    | _, none => "reject:source"
    | _, _ => "reject:exec"
  | m => "reject:" ++ m

def binop? : String → Option BinOp
  | "addi" => some .addi | "subi" => some .subi | "muli" => some .muli | "andi" => some .andi
  | "ori" => some .ori | "xori" => some .xori | "shli" => some .shli | "shrsi" => some .shrsi
  | "shrui" => some .shrui | "divsi" => some .divsi | "remsi" => some .remsi
  | "divui" => some .divui | "remui" => some .remui | _ => none

def parseSOp (t : String) : Option SrcOp :=
  match words t with
  | ["c", v] => (parseInt? v).map .const
  | ["b", o, a, b] => do some (.bin (← binop? o) (← parseNat? a) (← parseNat? b))
  | ["p", p, a, b] => do some (.cmpi (← parseNat? p) (← parseNat? a) (← parseNat? b))
  | _ => none

def parseSOps (t : String) : Option (List SrcOp) :=
  ((t.splitOn ";").filter (fun x => (words x) ≠ [])).mapM parseSOp

def parseSrc (hd ops : String) : Option Src :=
  match words hd with
  | _ :: n :: rets => do
    some { nargs := ← parseNat? n, ops := ← parseSOps ops, rets := ← rets.mapM parseNat? }
  | _ => none

/-- `tv <nargs> <ret>… | <source ops> | <body>`  →  `ok` / `reject:<why>`
    `ev <nargs> <ret>… | <source ops> | <arg>…`  →  `ok <v>…` / `ub`  (source semantics) -/
def lineStep (_ : Unit) (line : String) : Unit × String :=
  let bad := ((), "bad-op")
  match line.splitOn "|" with
  | [hd, ops, third] =>
    match (words hd).head?, parseSrc hd ops with
    | some "tv", some s =>
      match parseInstrs third with
      | some body => ((), validateMsg s body)
      | none => bad
    | some "ev", some s =>
      match (words third).mapM parseNat? with
      | some args =>
        match evalSrc s (fun i => BitVec.ofNat 32 (args.getD i 0)) with
        | some vs => ((), "ok " ++ " ".intercalate (vs.map fun v => toString v.toNat))
        | none => ((), "ub")
      | none => bad
    | _, _ => bad
  | _ => bad

end Xdsl.RiscV.TV
