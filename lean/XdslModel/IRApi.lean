import XdslModel.IRStore
/-!
# The call language of C01 histories, its interpretation on `IRStore`, and the line protocol

One `Call` constructor per public mutator exercised by `harness/props/c01.py` (same names, same
argument order).  `exec` first replays the harness' reference checks (`badref`: an id that does not
exist, is dead, or is not fresh — such a call is not executed by the harness either) and then runs
the model function.  `lineStep` answers every call line with `ok <dump>` / `raise <Class>` /
`badref`; `<dump>` lists the public traversals of every live object in the format of
`c01.snapshot`.
-/
namespace Xdsl.IR
open Xdsl.DLL

/-- blocks/operations passed either as a list or as the single object itself -/
structure Many where
  ids : List Nat
  single : Bool
deriving Repr

inductive Call
  | newOp (k kind : Nat) (res operands succs regions : List Nat)
  | newBlock (b : Nat) (args ops : List Nat)
  | newRegion (r : Nat) (bs : List Nat)
  | insertOpBefore (b new ex : Nat)
  | insertOpAfter (b new ex : Nat)
  | addOp (b o : Nat)
  | addOps (b : Nat) (ops : List Nat)
  | insertOpsBefore (b : Nat) (ops : List Nat) (ex : Nat)
  | insertOpsAfter (b : Nat) (ops : List Nat) (ex : Nat)
  | detachOp (b o : Nat)
  | eraseOp (b o : Nat) (safe : Bool)
  | splitBefore (b o nb : Nat) (args : List Nat)
  | insertArg (b : Nat) (idx : Int) (nv : Nat)
  | eraseArg (b v : Nat) (safe : Bool)
  | blockErase (b : Nat) (safe : Bool)
  | addBlock (r : Nat) (bs : Many)
  | insertBlockBefore (r : Nat) (bs : Many) (t : Nat)
  | insertBlockAfter (r : Nat) (bs : Many) (t : Nat)
  | insertBlock (r : Nat) (bs : Many) (idx : Int)
  | detachBlock (r b : Nat)
  | detachBlockIdx (r : Nat) (idx : Int)
  | eraseBlock (r b : Nat) (safe : Bool)
  | eraseBlockIdx (r : Nat) (idx : Int) (safe : Bool)
  | moveBlocks (r dst : Nat)
  | moveBlocksBefore (r t : Nat)
  | regionErase (r : Nat)
  | opDetach (o : Nat)
  | opErase (o : Nat) (safe : Bool)
  | dropAllReferences (o : Nat)
  | setOperand (o : Nat) (i : Int) (v : Nat)
  | setOperands (o : Nat) (vs : List Nat)
  | setSuccessor (o : Nat) (i : Int) (b : Nat)
  | setSuccessors (o : Nat) (bs : List Nat)
  | addRegion (o r : Nat)
  | detachRegion (o r : Nat)
  | detachRegionIdx (o : Nat) (i : Int)
  | replaceAllUsesWith (v w : Nat)
  | replaceUsesWithIf (v w mode : Nat)
  | rwEraseOp (o : Nat) (safe : Bool)
  | rwReplaceOp (o : Nat) (newOps : Many) (newResults : Option (List (Option Nat))) (safe : Bool)
  | rwReplaceValueWithNewType (v nv : Nat)
  | rwInlineBlock (src : Nat) (ip : IP) (vals : List Nat)
  | rwInsertBlock (bs : Many) (bip : BIP)
  | rwInsertOp (ops : Many) (ip : IP)
  | rwMoveRegionContents (r nr : Nat)
  | rwInlineRegion (r : Nat) (bip : BIP)
  | prInsert (cur : Nat) (ops : Many) (ip : Option IP)
  | prErase (cur o : Nat) (safe : Bool)
  | prReplaceAllUsesWith (cur v : Nat) (w : Option Nat) (safe : Bool)
  | prReplaceUsesWithIf (cur v w mode : Nat)
  | prReplace (cur o : Nat) (newOps : Many) (newResults : Option (List (Option Nat))) (safe : Bool)
  | prReplaceValueWithNewType (cur v nv : Nat)
  | prInsertBlockArgument (cur b : Nat) (idx : Int) (nv : Nat)
  | prEraseBlockArgument (cur v : Nat) (safe : Bool)
  | prInlineBlock (cur src : Nat) (ip : IP) (vals : List Nat)
  | prMoveRegionContents (cur r nr : Nat)
  | prInlineRegion (cur r : Nat) (bip : BIP)
  | prCreateBlock (cur : Nat) (bip : BIP) (nb : Nat) (args : List Nat)
deriving Repr

/-! ## parsing -/
abbrev P := StateT (List Int) Option

def pInt : P Int := fun l => match l with
  | x :: r => some (x, r)
  | [] => none
def pNat : P Nat := do
  let x ← pInt
  if x < 0 then failure else pure x.toNat
def pRep {α : Type} (p : P α) : Nat → P (List α)
  | 0 => pure []
  | n + 1 => do
    let x ← p
    let xs ← pRep p n
    pure (x :: xs)
def pList : P (List Nat) := do
  let n ← pNat
  pRep pNat n
def pBool : P Bool := do
  let x ← pNat
  pure (x != 0)
def pOptNat : P (Option Nat) := do
  let x ← pInt
  pure (if x < 0 then none else some x.toNat)
def pMany : P Many := do
  let l ← pList
  let f ← pBool
  pure ⟨l, f⟩
def pIPN : P (Option IP) := do
  let c ← pNat
  let x ← pNat
  match c with
  | 0 => pure (some (.before x))
  | 1 => pure (some (.after x))
  | 2 => pure (some (.start x))
  | 3 => pure (some (.end_ x))
  | 4 => pure none
  | _ => failure
def pIP : P IP := do
  match ← pIPN with
  | some ip => pure ip
  | none => failure
def pBIP : P BIP := do
  let c ← pNat
  let x ← pNat
  match c with
  | 0 => pure (.before x)
  | 1 => pure (.after x)
  | 2 => pure (.start x)
  | 3 => pure (.end_ x)
  | _ => failure
def pVNL : P (Option (List (Option Nat))) := do
  let x ← pInt
  if x < 0 then pure none
  else
    let l ← pRep pOptNat x.toNat
    pure (some l)

def pCall (name : String) : P Call :=
  match name with
  | "new_op" => do pure (.newOp (← pNat) (← pNat) (← pList) (← pList) (← pList) (← pList))
  | "new_block" => do pure (.newBlock (← pNat) (← pList) (← pList))
  | "new_region" => do pure (.newRegion (← pNat) (← pList))
  | "insert_op_before" => do pure (.insertOpBefore (← pNat) (← pNat) (← pNat))
  | "insert_op_after" => do pure (.insertOpAfter (← pNat) (← pNat) (← pNat))
  | "add_op" => do pure (.addOp (← pNat) (← pNat))
  | "add_ops" => do pure (.addOps (← pNat) (← pList))
  | "insert_ops_before" => do pure (.insertOpsBefore (← pNat) (← pList) (← pNat))
  | "insert_ops_after" => do pure (.insertOpsAfter (← pNat) (← pList) (← pNat))
  | "detach_op" => do pure (.detachOp (← pNat) (← pNat))
  | "erase_op" => do pure (.eraseOp (← pNat) (← pNat) (← pBool))
  | "split_before" => do pure (.splitBefore (← pNat) (← pNat) (← pNat) (← pList))
  | "insert_arg" => do pure (.insertArg (← pNat) (← pInt) (← pNat))
  | "erase_arg" => do pure (.eraseArg (← pNat) (← pNat) (← pBool))
  | "block_erase" => do pure (.blockErase (← pNat) (← pBool))
  | "add_block" => do pure (.addBlock (← pNat) (← pMany))
  | "insert_block_before" => do pure (.insertBlockBefore (← pNat) (← pMany) (← pNat))
  | "insert_block_after" => do pure (.insertBlockAfter (← pNat) (← pMany) (← pNat))
  | "insert_block" => do pure (.insertBlock (← pNat) (← pMany) (← pInt))
  | "detach_block" => do pure (.detachBlock (← pNat) (← pNat))
  | "detach_block_idx" => do pure (.detachBlockIdx (← pNat) (← pInt))
  | "erase_block" => do pure (.eraseBlock (← pNat) (← pNat) (← pBool))
  | "erase_block_idx" => do pure (.eraseBlockIdx (← pNat) (← pInt) (← pBool))
  | "move_blocks" => do pure (.moveBlocks (← pNat) (← pNat))
  | "move_blocks_before" => do pure (.moveBlocksBefore (← pNat) (← pNat))
  | "region_erase" => do pure (.regionErase (← pNat))
  | "op_detach" => do pure (.opDetach (← pNat))
  | "op_erase" => do pure (.opErase (← pNat) (← pBool))
  | "drop_all_references" => do pure (.dropAllReferences (← pNat))
  | "set_operand" => do pure (.setOperand (← pNat) (← pInt) (← pNat))
  | "set_operands" => do pure (.setOperands (← pNat) (← pList))
  | "set_successor" => do pure (.setSuccessor (← pNat) (← pInt) (← pNat))
  | "set_successors" => do pure (.setSuccessors (← pNat) (← pList))
  | "add_region" => do pure (.addRegion (← pNat) (← pNat))
  | "detach_region" => do pure (.detachRegion (← pNat) (← pNat))
  | "detach_region_idx" => do pure (.detachRegionIdx (← pNat) (← pInt))
  | "replace_all_uses_with" => do pure (.replaceAllUsesWith (← pNat) (← pNat))
  | "replace_uses_with_if" => do pure (.replaceUsesWithIf (← pNat) (← pNat) (← pNat))
  | "rw_erase_op" => do pure (.rwEraseOp (← pNat) (← pBool))
  | "rw_replace_op" => do pure (.rwReplaceOp (← pNat) (← pMany) (← pVNL) (← pBool))
  | "rw_replace_value_with_new_type" => do pure (.rwReplaceValueWithNewType (← pNat) (← pNat))
  | "rw_inline_block" => do pure (.rwInlineBlock (← pNat) (← pIP) (← pList))
  | "rw_insert_block" => do pure (.rwInsertBlock (← pMany) (← pBIP))
  | "rw_insert_op" => do pure (.rwInsertOp (← pMany) (← pIP))
  | "rw_move_region_contents_to_new_regions" => do pure (.rwMoveRegionContents (← pNat) (← pNat))
  | "rw_inline_region" => do pure (.rwInlineRegion (← pNat) (← pBIP))
  | "pr_insert" => do pure (.prInsert (← pNat) (← pMany) (← pIPN))
  | "pr_erase" => do pure (.prErase (← pNat) (← pNat) (← pBool))
  | "pr_replace_all_uses_with" => do pure (.prReplaceAllUsesWith (← pNat) (← pNat) (← pOptNat) (← pBool))
  | "pr_replace_uses_with_if" => do pure (.prReplaceUsesWithIf (← pNat) (← pNat) (← pNat) (← pNat))
  | "pr_replace" => do pure (.prReplace (← pNat) (← pNat) (← pMany) (← pVNL) (← pBool))
  | "pr_replace_value_with_new_type" => do pure (.prReplaceValueWithNewType (← pNat) (← pNat) (← pNat))
  | "pr_insert_block_argument" => do pure (.prInsertBlockArgument (← pNat) (← pNat) (← pInt) (← pNat))
  | "pr_erase_block_argument" => do pure (.prEraseBlockArgument (← pNat) (← pNat) (← pBool))
  | "pr_inline_block" => do pure (.prInlineBlock (← pNat) (← pNat) (← pIP) (← pList))
  | "pr_move_region_contents_to_new_regions" => do pure (.prMoveRegionContents (← pNat) (← pNat) (← pNat))
  | "pr_inline_region" => do pure (.prInlineRegion (← pNat) (← pNat) (← pBIP))
  | "pr_create_block" => do pure (.prCreateBlock (← pNat) (← pBIP) (← pNat) (← pList))
  | _ => failure

def parseCall (line : String) : Option Call :=
  match words line with
  | [] => none
  | name :: rest =>
    match rest.mapM String.toInt? with
    | none => none
    | some ints =>
      match (pCall name).run ints with
      | some (c, []) => some c
      | _ => none

/-! ## reference checks (the harness' `Exec.dec`) -/
namespace IRStore

def okMany (live : Nat → Bool) (m : Many) : Bool := m.ids.all live && (!m.single || m.ids.length == 1)

def okIP (s : IRStore) : IP → Bool
  | .before o => s.liveO o
  | .after o => s.liveO o
  | .start b => s.liveB b
  | .end_ b => s.liveB b

def okBIP (s : IRStore) : BIP → Bool
  | .before b => s.liveB b
  | .after b => s.liveB b
  | .start r => s.liveR r
  | .end_ r => s.liveR r

def okVNL (s : IRStore) : Option (List (Option Nat)) → Bool
  | none => true
  | some l => l.all (fun x => match x with
    | none => true
    | some v => s.liveV v)

def isArg (s : IRStore) (v : Nat) : Bool := (s.val! v).kind == .arg

def refsOk (s : IRStore) : Call → Bool
  | .newOp k kind res operands succs regions =>
    s.freshO k && kind < 3 && s.freshVs res && operands.all s.liveV && succs.all s.liveB && regions.all s.liveR
  | .newBlock b args ops => s.freshB b && s.freshVs args && ops.all s.liveO
  | .newRegion r bs => s.freshR r && bs.all s.liveB
  | .insertOpBefore b new ex => s.liveB b && s.liveO new && s.liveO ex
  | .insertOpAfter b new ex => s.liveB b && s.liveO new && s.liveO ex
  | .addOp b o => s.liveB b && s.liveO o
  | .addOps b ops => s.liveB b && ops.all s.liveO
  | .insertOpsBefore b ops ex => s.liveB b && ops.all s.liveO && s.liveO ex
  | .insertOpsAfter b ops ex => s.liveB b && ops.all s.liveO && s.liveO ex
  | .detachOp b o => s.liveB b && s.liveO o
  | .eraseOp b o _ => s.liveB b && s.liveO o
  | .splitBefore b o nb args => s.liveB b && s.liveO o && s.freshB nb && s.freshVs args
  | .insertArg b _ nv => s.liveB b && s.freshV nv
  | .eraseArg b v _ => s.liveB b && s.liveV v && s.isArg v
  | .blockErase b _ => s.liveB b
  | .addBlock r bs => s.liveR r && okMany s.liveB bs
  | .insertBlockBefore r bs t => s.liveR r && okMany s.liveB bs && s.liveB t
  | .insertBlockAfter r bs t => s.liveR r && okMany s.liveB bs && s.liveB t
  | .insertBlock r bs _ => s.liveR r && okMany s.liveB bs
  | .detachBlock r b => s.liveR r && s.liveB b
  | .detachBlockIdx r _ => s.liveR r
  | .eraseBlock r b _ => s.liveR r && s.liveB b
  | .eraseBlockIdx r _ _ => s.liveR r
  | .moveBlocks r dst => s.liveR r && s.liveR dst
  | .moveBlocksBefore r t => s.liveR r && s.liveB t
  | .regionErase r => s.liveR r
  | .opDetach o => s.liveO o
  | .opErase o _ => s.liveO o
  | .dropAllReferences o => s.liveO o
  | .setOperand o _ v => s.liveO o && s.liveV v
  | .setOperands o vs => s.liveO o && vs.all s.liveV
  | .setSuccessor o _ b => s.liveO o && s.liveB b
  | .setSuccessors o bs => s.liveO o && bs.all s.liveB
  | .addRegion o r => s.liveO o && s.liveR r
  | .detachRegion o r => s.liveO o && s.liveR r
  | .detachRegionIdx o _ => s.liveO o
  | .replaceAllUsesWith v w => s.liveV v && s.liveV w
  | .replaceUsesWithIf v w mode => s.liveV v && s.liveV w && mode < 4
  | .rwEraseOp o _ => s.liveO o
  | .rwReplaceOp o newOps newResults _ => s.liveO o && okMany s.liveO newOps && s.okVNL newResults
  | .rwReplaceValueWithNewType v nv => s.liveV v && s.freshV nv
  | .rwInlineBlock src ip vals => s.liveB src && s.okIP ip && vals.all s.liveV
  | .rwInsertBlock bs bip => okMany s.liveB bs && s.okBIP bip
  | .rwInsertOp ops ip => okMany s.liveO ops && s.okIP ip
  | .rwMoveRegionContents r nr => s.liveR r && s.freshR nr
  | .rwInlineRegion r bip => s.liveR r && s.okBIP bip
  | .prInsert cur ops ip => s.liveO cur && okMany s.liveO ops && (match ip with
    | none => true
    | some ip => s.okIP ip)
  | .prErase cur o _ => s.liveO cur && s.liveO o
  | .prReplaceAllUsesWith cur v w _ => s.liveO cur && s.liveV v && (match w with
    | none => true
    | some w => s.liveV w)
  | .prReplaceUsesWithIf cur v w mode => s.liveO cur && s.liveV v && s.liveV w && mode < 4
  | .prReplace cur o newOps newResults _ => s.liveO cur && s.liveO o && okMany s.liveO newOps && s.okVNL newResults
  | .prReplaceValueWithNewType cur v nv => s.liveO cur && s.liveV v && s.freshV nv
  | .prInsertBlockArgument cur b _ nv => s.liveO cur && s.liveB b && s.freshV nv
  | .prEraseBlockArgument cur v _ => s.liveO cur && s.liveV v && s.isArg v
  | .prInlineBlock cur src ip vals => s.liveO cur && s.liveB src && s.okIP ip && vals.all s.liveV
  | .prMoveRegionContents cur r nr => s.liveO cur && s.liveR r && s.freshR nr
  | .prInlineRegion cur r bip => s.liveO cur && s.liveR r && s.okBIP bip
  | .prCreateBlock cur bip nb args => s.liveO cur && s.okBIP bip && s.freshB nb && s.freshVs args

/-- with the `PatternRewriter(cur)` constructor guard first -/
def withCur (s : IRStore) (cur : Nat) (k : IRStore → R) : R := do
  s.checkCur cur
  k s

/-- The model function of every call (reference checks done by `exec`). -/
def api (s : IRStore) : Call → R
  | .newOp k _ res operands succs regions => s.newOp k res operands succs regions
  | .newBlock b args ops => s.newBlock b args ops
  | .newRegion r bs => s.newRegion r bs
  | .insertOpBefore b new ex => s.insertOpBefore b new ex
  | .insertOpAfter b new ex => s.insertOpAfter b new ex
  | .addOp b o => s.addOp b o
  | .addOps b ops => s.addOps b ops
  | .insertOpsBefore b ops ex => s.insertOpsBefore b ops ex
  | .insertOpsAfter b ops ex => s.insertOpsAfter b ops ex
  | .detachOp b o => s.detachOp b o
  | .eraseOp b o safe => s.eraseOp b o safe
  | .splitBefore b o nb args => s.splitBefore b o nb args
  | .insertArg b idx nv => s.insertArg b idx nv
  | .eraseArg b v safe => s.eraseArg b v safe
  | .blockErase b safe => s.blockErase b safe
  | .addBlock r bs => s.addBlock r bs.ids
  | .insertBlockBefore r bs t => s.insertBlockBefore r bs.ids t
  | .insertBlockAfter r bs t => s.insertBlockAfter r bs.ids t
  | .insertBlock r bs idx => s.insertBlock r bs.ids idx
  | .detachBlock r b => s.detachBlock r b
  | .detachBlockIdx r idx => s.detachBlockIdx r idx
  | .eraseBlock r b safe => s.eraseBlock r b safe
  | .eraseBlockIdx r idx safe => s.eraseBlockIdx r idx safe
  | .moveBlocks r dst => s.moveBlocks r dst
  | .moveBlocksBefore r t => s.moveBlocksBefore r t
  | .regionErase r => s.regionErase r
  | .opDetach o => s.opDetach o
  | .opErase o safe => s.opErase o safe
  | .dropAllReferences o => s.dropAllReferences o
  | .setOperand o i v => s.setOperand o i v
  | .setOperands o vs => .ok (s.setOperands o vs)
  | .setSuccessor o i b => s.setSuccessor o i b
  | .setSuccessors o bs => .ok (s.setSuccessors o bs)
  | .addRegion o r => s.addRegion o r
  | .detachRegion o r => s.detachRegion o r
  | .detachRegionIdx o i => s.detachRegionIdx o i
  | .replaceAllUsesWith v w => s.replaceAllUsesWith v w
  | .replaceUsesWithIf v w mode => s.replaceUsesIf v w (modePred mode)
  | .rwEraseOp o safe => s.rwEraseOp o safe
  | .rwReplaceOp o newOps newResults safe => s.rwReplaceOp o newOps.ids newResults safe
  | .rwReplaceValueWithNewType v nv => s.replaceValueWithNewType v nv
  | .rwInlineBlock src ip vals => s.rwInlineBlock src ip vals
  | .rwInsertBlock bs bip => s.rwInsertBlock bs.ids bip
  | .rwInsertOp ops ip => s.rwInsertOp ops.ids ip
  | .rwMoveRegionContents r nr => s.rwMoveRegionContents r nr
  | .rwInlineRegion r bip => s.rwInlineRegion r bip
  | .prInsert cur ops ip => s.prInsert cur ops.ids ip
  | .prErase cur o safe => s.withCur cur (·.rwEraseOp o safe)
  | .prReplaceAllUsesWith cur v w safe => s.withCur cur (·.prReplaceAllUsesWith v w safe)
  | .prReplaceUsesWithIf cur v w mode => s.withCur cur (fun s => if v = w then .ok s else s.replaceUsesIf v w (modePred mode))
  | .prReplace cur o newOps newResults safe => s.withCur cur (·.prReplace o newOps.ids newResults safe)
  | .prReplaceValueWithNewType cur v nv => s.withCur cur (·.replaceValueWithNewType v nv)
  | .prInsertBlockArgument cur b idx nv => s.withCur cur (·.insertArg b idx nv)
  | .prEraseBlockArgument cur v safe => s.withCur cur (·.prEraseBlockArgument v safe)
  | .prInlineBlock cur src ip vals => s.withCur cur (·.rwInlineBlock src ip vals)
  | .prMoveRegionContents cur r nr => s.withCur cur (·.rwMoveRegionContents r nr)
  | .prInlineRegion cur r bip => s.withCur cur (·.rwInlineRegion r bip)
  | .prCreateBlock cur bip nb args => s.withCur cur (·.prCreateBlock bip nb args)

def exec (s : IRStore) (c : Call) : R :=
  if s.refsOk c then s.api c else .error .badref

/-- A history: calls that raise (or are not executable) are skipped. -/
def run (s : IRStore) (cs : List Call) : IRStore :=
  cs.foldl (fun s c => match s.exec c with
    | .ok s' => s'
    | .error _ => s) s

/-! ## observation -/
def nm (p : String) : Option Nat → String
  | none => "-"
  | some n => p ++ toString n

def names (p : String) (l : List Nat) : String := ",".intercalate (l.map (fun n => p ++ toString n))

def sortNat (l : List Nat) : List Nat := l.mergeSort (fun a b => a ≤ b)

def usesStr (s : IRStore) (l : L) (c : Nat) : String :=
  let ps := (l.toList c).map s.use!
  let ps := ps.mergeSort (fun a b => a.1 < b.1 || (a.1 == b.1 && a.2 ≤ b.2))
  ",".intercalate (ps.map (fun p => s!"o{p.1}:{p.2}"))

def valIdx (s : IRStore) (vs : List Nat) : String :=
  ",".intercalate (vs.map (fun v => s!"v{v}:{(s.val! v).index}"))

/-- the owner of a value as the harness prints it (`ErasedSSAValue.owner` is the old value's) -/
def ownerStr (s : IRStore) : Nat → Nat → String
  | 0, _ => "?"
  | fuel + 1, v =>
    let d := s.val! v
    match d.kind with
    | .result => s!"o{d.owner}"
    | .arg => s!"b{d.owner}"
    | .erased => ownerStr s fuel d.owner

def dump (s : IRStore) : String :=
  let os := (sortNat (s.ops.map (·.1))).filter (fun k => !s.deadO.contains k)
  let bs := (sortNat (s.blocks.map (·.1))).filter (fun k => !s.deadB.contains k)
  let rs := (sortNat (s.regions.map (·.1))).filter (fun k => !s.deadR.contains k)
  let vs := (sortNat (s.vals.map (·.1))).filter (fun k =>
    (!s.deadV.contains k && (s.val! k).kind != .erased) || (s.vuseL.en k).first.isSome)
  let dbs := (sortNat (s.blocks.map (·.1))).filter (fun k => s.deadB.contains k && (s.buseL.en k).first.isSome)
  let ol := os.map fun k =>
    let d := s.op! k
    let n := s.opL.nd k
    s!"o{k} parent={nm "b" n.parent} next={nm "o" n.next} prev={nm "o" n.prev} operands=[{names "v" d.operands}] succ=[{names "b" d.successors}] regions=[{names "r" d.regions}] results=[{s.valIdx d.results}]"
  let bl := bs.map fun k =>
    let n := s.blockL.nd k
    let e := s.opL.en k
    s!"b{k} parent={nm "r" n.parent} next={nm "b" n.next} prev={nm "b" n.prev} ops=[{names "o" (s.opL.toList k)}] rops=[{names "o" (s.opL.toListBack k)}] first={nm "o" e.first} last={nm "o" e.last} args=[{s.valIdx (s.block! k).args}] uses=[{s.usesStr s.buseL k}]"
  let rl := rs.map fun k =>
    let e := s.blockL.en k
    s!"r{k} parent={nm "o" (s.regionParent k)} blocks=[{names "b" (s.blockL.toList k)}] rblocks=[{names "b" (s.blockL.toListBack k)}] first={nm "b" e.first} last={nm "b" e.last}"
  let vl := vs.map fun k =>
    let d := s.val! k
    let idx := if d.kind == .erased then "e" else toString d.index
    s!"v{k} owner={s.ownerStr 8 k} index={idx} uses=[{s.usesStr s.vuseL k}]"
  let dl := dbs.map fun k => s!"b{k} dead uses=[{s.usesStr s.buseL k}]"
  "; ".intercalate (ol ++ bl ++ rl ++ vl ++ dl)

end IRStore

/-- One protocol line.  `reset` starts a new history from the empty universe. -/
def lineStep (s : IRStore) (line : String) : IRStore × String :=
  if line == "reset" then ({}, "ok")
  else match parseCall line with
    | none => (s, "bad-op")
    | some c =>
      match s.exec c with
      | .ok s' => (s', "ok " ++ s'.dump)
      | .error e => (s, e.toString)

end Xdsl.IR
