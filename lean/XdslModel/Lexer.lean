import XdslModel.Prelude
/-!
Model of `xdsl/utils/mlir_lexer.py` (C07): `MLIRLexer.lex` with every token regular expression
hand-transcribed as a total matcher on a list of code points.

* Input is `List CodePoint`.  A code point carries its value and the three Python `str` predicates
  (`isalpha`, `isnumeric`, `isspace`) as supplied by the harness from CPython.  The lexer *with the
  C07 repairs* consults only `isalpha` (first character of a bare identifier / of the name after
  `@`); every other test is a comparison of the value against ASCII ranges: the whitespace regex is
  compiled with `re.ASCII`, all other classes are explicit ASCII sets, and a number starts with an
  ASCII digit (`"0" <= c <= "9"`, repair of `isnumeric()`).
* The string-literal regex is the repaired one,
  `"[^"\\\n\v\f]*(?:\\(?:["nt\\]|[0-9A-Fa-f]{2})[^"\\\n\v\f]*)*"`, whose alternatives are
  distinguished by their first character; `strBody` is the corresponding deterministic scanner.
* A string literal with a backslash is STRING_LIT iff its unescaped bytes (raw characters UTF-8
  encoded, escapes decoded) are valid UTF-8, else BYTES_LIT (`litBytes`, `utf8Valid`: the strict
  decoder of CPython — no overlong forms, no encoded surrogates, at most U+10FFFF).
* Every matcher returns, next to its result, a *tick count*: one tick per code point (or byte) it reads
  (including the read that ends a run and the end-of-input test).  `Out.steps` is the sum over the
  whole run; `XdslProofs/C07.lean` bounds it linearly in the input length.
* `lex` iterates `MLIRLexer.lex` until the EOF token or the first `ParseError` (the parser pulls
  tokens one at a time; nothing is lexed after an error).  Positions are code-point indices
  (Python `str` indices).  The EOF token has the span `(n, n+1)`, as in the code (`_get_chars`
  advances `pos` even at the end of the input).

Excluded: inputs containing lone surrogates (not text that can be read from a file; the real lexer
raises `UnicodeEncodeError` from `str.encode` when such a string literal contains a backslash).
The model gives them a three-byte encoding that is not valid UTF-8.
-/
namespace Xdsl.Lexer

structure CodePoint where
  val : Nat
  alpha : Bool := false
  numeric : Bool := false
  space : Bool := false
deriving Repr, DecidableEq, Inhabited

abbrev CP := CodePoint

/-! ## ASCII character classes (on the code-point value) -/

/-- `[0-9]` -/
def isDigitN (n : Nat) : Bool := decide (48 ≤ n) && decide (n ≤ 57)
/-- `[a-zA-Z]` -/
def isLetterN (n : Nat) : Bool :=
  (decide (65 ≤ n) && decide (n ≤ 90)) || (decide (97 ≤ n) && decide (n ≤ 122))
/-- `[a-zA-Z0-9_$.]` (IDENTIFIER_SUFFIX) -/
def isIdentCharN (n : Nat) : Bool := isLetterN n || isDigitN n || n == 95 || n == 36 || n == 46
/-- `[a-zA-Z$._-]` -/
def isSuffixStartN (n : Nat) : Bool := isLetterN n || n == 36 || n == 46 || n == 95 || n == 45
/-- `[a-zA-Z0-9$._-]` -/
def isSuffixCharN (n : Nat) : Bool := isSuffixStartN n || isDigitN n
/-- `[0-9a-fA-F]` (also `string.hexdigits`) -/
def isHexN (n : Nat) : Bool :=
  isDigitN n || (decide (97 ≤ n) && decide (n ≤ 102)) || (decide (65 ≤ n) && decide (n ≤ 70))
/-- `\s` under `re.ASCII`: `[ \t\n\r\f\v]` -/
def isWsN (n : Nat) : Bool := (decide (9 ≤ n) && decide (n ≤ 13)) || n == 32
/-- the characters excluded from a raw string run besides `"` and `\`: `\n \v \f` -/
def isStrStopN (n : Nat) : Bool := n == 10 || n == 11 || n == 12
/-- second character of `\"`, `\n`, `\t`, `\\` -/
def isSimpleEscN (n : Nat) : Bool := n == 34 || n == 110 || n == 116 || n == 92
/-- value of a hex digit (0 for anything else) -/
def hexValN (n : Nat) : Nat :=
  if isDigitN n then n - 48
  else if decide (97 ≤ n) && decide (n ≤ 102) then n - 87
  else if decide (65 ≤ n) && decide (n ≤ 70) then n - 55
  else 0

def isDigit (c : CP) : Bool := isDigitN c.val
def isIdentChar (c : CP) : Bool := isIdentCharN c.val
def isSuffixChar (c : CP) : Bool := isSuffixCharN c.val
def isHex (c : CP) : Bool := isHexN c.val

/-! ## Tokens -/

inductive Kind where
  | eof | bareIdent | atIdent | hashIdent | percentIdent | caretIdent | exclIdent
  | floatLit | intLit | stringLit | bytesLit
  | arrow | colon | comma | ellipsis | equal | greater | lBrace | lParen | lSquare | less
  | minus | plus | question | rBrace | rParen | rSquare | slash | star | vbar
  | metaBegin | metaEnd
deriving Repr, DecidableEq, Inhabited

/-- the six `ParseError`s raised by the lexer -/
inductive Msg where
  | ellipsis       -- "Expected three consecutive '.' for an ellipsis"
  | eofAfterAt     -- "Unexpected end of file after @."
  | atExpected     -- "@ identifier expected to start with letter, '_', or '\"'."
  | suffix         -- "Expected suffix identifier after {first_char}"
  | unterminated   -- "End of file reached before closing string literal."
  | unexpected     -- "Unexpected character: …"
deriving Repr, DecidableEq, Inhabited

structure Token where
  kind : Kind
  start : Nat
  stop : Nat
deriving Repr, DecidableEq, Inhabited

structure LexError where
  msg : Msg
  start : Nat
  stop : Nat
deriving Repr, DecidableEq, Inhabited

/-- outcome of one `MLIRLexer.lex` call after whitespace, relative to the token start -/
inductive Res where
  | tok (k : Kind) (len : Nat)
  | eof
  | err (m : Msg) (off len : Nat)
deriving Repr, DecidableEq, Inhabited

/-! ## Matchers — every one returns `(result, ticks)` -/

/-- greedy `[class]*`: number of code points matched -/
def countWhile (p : CP → Bool) : List CP → Nat × Nat
  | [] => (0, 1)
  | c :: r => if p c then let q := countWhile p r; (q.1 + 1, q.2 + 1) else (0, 1)

/-- `_whitespace_regex = ((//[^\n]*(\n)?)|(\s+))*` (`re.ASCII`).  The flag says whether the scan is
inside a `//` comment.  Result: code points consumed. -/
def skipWs : Bool → List CP → Nat × Nat
  | _, [] => (0, 1)
  | true, c :: r => let q := skipWs (c.val != 10) r; (q.1 + 1, q.2 + 1)
  | false, c :: r =>
    if isWsN c.val then let q := skipWs false r; (q.1 + 1, q.2 + 1)
    else if c.val == 47 then
      match r with
      | d :: r' => if d.val == 47 then let q := skipWs true r'; (q.1 + 2, q.2 + 2) else (0, 2)
      | [] => (0, 2)
    else (0, 1)

/-- the single-character punctuation table of `lex` -/
def singlePunct (n : Nat) : Option Kind :=
  if n == 58 then some .colon else if n == 44 then some .comma
  else if n == 40 then some .lParen else if n == 41 then some .rParen
  else if n == 125 then some .rBrace else if n == 91 then some .lSquare
  else if n == 93 then some .rSquare else if n == 60 then some .less
  else if n == 62 then some .greater else if n == 61 then some .equal
  else if n == 43 then some .plus else if n == 47 then some .slash
  else if n == 42 then some .star else if n == 63 then some .question
  else if n == 124 then some .vbar else none

/-- `_suffix_id = ([0-9]+|[a-zA-Z$._-][a-zA-Z0-9$._-]*)` -/
def suffixId : List CP → Option Nat × Nat
  | [] => (none, 1)
  | c :: r =>
    if isDigitN c.val then let q := countWhile isDigit r; (some (q.1 + 1), q.2 + 1)
    else if isSuffixStartN c.val then let q := countWhile isSuffixChar r; (some (q.1 + 1), q.2 + 1)
    else (none, 1)

def prefixKind (n : Nat) : Kind :=
  if n == 35 then .hashIdent else if n == 33 then .exclIdent
  else if n == 94 then .caretIdent else .percentIdent

/-- the repaired string regex after the opening quote: length up to and including the closing
quote, or `none` -/
def strBody : List CP → Option Nat × Nat
  | [] => (none, 1)
  | c :: r =>
    if c.val == 34 then (some 1, 1)
    else if c.val == 92 then
      match r with
      | [] => (none, 2)
      | d :: r' =>
        if isSimpleEscN d.val then
          let q := strBody r'; (q.1.map (· + 2), q.2 + 2)
        else
          match r' with
          | [] => (none, 3)
          | e :: r'' =>
            if isHexN d.val && isHexN e.val then
              let q := strBody r''; (q.1.map (· + 3), q.2 + 3)
            else (none, 3)
    else if isStrStopN c.val then (none, 1)
    else let q := strBody r; (q.1.map (· + 1), q.2 + 1)

/-- `"\\" in lit.text` -/
def hasBackslash : List CP → Bool × Nat
  | [] => (false, 1)
  | c :: r => if c.val == 92 then (true, 1) else let q := hasBackslash r; (q.1, q.2 + 1)

/-- UTF-8 encoding of a code point (`str.encode()`); lone surrogates are outside the model's
quantifier (CPython raises `UnicodeEncodeError`), they get the generic three-byte form here, which
`utf8Valid` rejects -/
def utf8Enc (v : Nat) : List Nat :=
  if v < 128 then [v]
  else if v < 2048 then [192 + v / 64, 128 + v % 64]
  else if v < 65536 then [224 + v / 4096, 128 + (v / 64) % 64, 128 + v % 64]
  else [240 + (v / 262144) % 8, 128 + (v / 4096) % 64, 128 + (v / 64) % 64, 128 + v % 64]

/-- the byte of `\"`, `\n`, `\t`, `\\` -/
def simpleEscByte (n : Nat) : Nat :=
  if n == 110 then 10 else if n == 116 then 9 else n

/-- `lit.bytes_contents` on a literal whose escapes are already known to be valid: raw characters
UTF-8 encoded, `\n \t \\ \"` and `\XX` decoded (the closing quote, last element of the body, travels
along as the ASCII byte it is) -/
def litBytes : List CP → List Nat × Nat
  | [] => ([], 1)
  | c :: r =>
    if c.val == 92 then
      match r with
      | [] => ([], 2)
      | d :: r' =>
        if isSimpleEscN d.val then let q := litBytes r'; (simpleEscByte d.val :: q.1, q.2 + 2)
        else
          match r' with
          | [] => ([], 3)
          | e :: r'' =>
            let q := litBytes r''
            ((hexValN d.val * 16 + hexValN e.val) :: q.1, q.2 + 3)
    else let q := litBytes r; (utf8Enc c.val ++ q.1, q.2 + 1)

/-- continuation byte `80..BF` -/
def isCont (b : Nat) : Bool := decide (128 ≤ b) && decide (b ≤ 191)
/-- second byte of a three-byte sequence with lead `b` (no overlong forms, no surrogates) -/
def second3 (b c : Nat) : Bool :=
  if b == 224 then decide (160 ≤ c) && decide (c ≤ 191)
  else if b == 237 then decide (128 ≤ c) && decide (c ≤ 159)
  else isCont c
/-- second byte of a four-byte sequence with lead `b` (no overlong forms, at most U+10FFFF) -/
def second4 (b c : Nat) : Bool :=
  if b == 240 then decide (144 ≤ c) && decide (c ≤ 191)
  else if b == 244 then decide (128 ≤ c) && decide (c ≤ 143)
  else isCont c

/-- `bytes.decode()` succeeds (strict UTF-8, as CPython's decoder) -/
def utf8Valid : List Nat → Bool × Nat
  | [] => (true, 1)
  | b :: r =>
    if b < 128 then let q := utf8Valid r; (q.1, q.2 + 1)
    else if decide (194 ≤ b) && decide (b ≤ 223) then
      match r with
      | c1 :: r1 => if isCont c1 then let q := utf8Valid r1; (q.1, q.2 + 2) else (false, 2)
      | [] => (false, 2)
    else if decide (224 ≤ b) && decide (b ≤ 239) then
      match r with
      | c1 :: c2 :: r2 =>
        if second3 b c1 && isCont c2 then let q := utf8Valid r2; (q.1, q.2 + 3) else (false, 3)
      | _ => (false, 3)
    else if decide (240 ≤ b) && decide (b ≤ 244) then
      match r with
      | c1 :: c2 :: c3 :: r3 =>
        if second4 b c1 && isCont c2 && isCont c3 then let q := utf8Valid r3; (q.1, q.2 + 4)
        else (false, 4)
      | _ => (false, 4)
    else (false, 1)

/-- STRING_LIT / BYTES_LIT decision of `_lex_string_literal` on the literal text after the opening
quote (`body` = contents and closing quote): without a backslash STRING_LIT; otherwise BYTES_LIT iff
`lit.bytes_contents.decode()` raises `UnicodeDecodeError` -/
def litKind (body : List CP) : Kind × Nat :=
  let b := hasBackslash body
  if b.1 then
    let bs := litBytes body
    let a := utf8Valid bs.1
    (if a.1 then .stringLit else .bytesLit, b.2 + bs.2 + a.2)
  else (.stringLit, b.2)

/-- `_lex_string_literal`, the opening quote already read -/
def lexString (r : List CP) : Res × Nat :=
  match strBody r with
  | (some l, t) => let k := litKind (r.take l); (.tok k.1 (1 + l), 1 + t + k.2)
  | (none, t) => (.err .unterminated 0 1, 1 + t)

/-- `_lex_at_ident`, the `@` already read -/
def lexAt : List CP → Res × Nat
  | [] => (.err .eofAfterAt 0 1, 2)
  | d :: r =>
    if d.alpha || d.val == 95 then
      let q := countWhile isIdentChar r; (.tok .atIdent (2 + q.1), 2 + q.2)
    else if d.val == 34 then
      match strBody r with
      | (some l, t) => let k := litKind (r.take l); (.tok .atIdent (2 + l), 2 + t + k.2)
      | (none, t) => (.err .unterminated 1 1, 2 + t)
    else (.err .atExpected 0 2, 2)

/-- `([eE][+-]?[0-9]+)?` -/
def matchExp : List CP → Nat × Nat
  | [] => (0, 1)
  | c :: r =>
    if c.val == 101 || c.val == 69 then
      let sg : Nat := match r with
        | s :: _ => if s.val == 43 || s.val == 45 then 1 else 0
        | [] => 0
      let k := countWhile isDigit (r.drop sg)
      if k.1 == 0 then (0, 2 + k.2) else (1 + sg + k.1, 2 + k.2)
    else (0, 1)

/-- the hexadecimal test of `_lex_number`: first digit `0`, then `x`, then a hex digit -/
def isHexPrefix (d0 : Nat) : List CP → Bool
  | x :: h :: _ => d0 == 48 && x.val == 120 && isHexN h.val
  | _ => false

/-- `_lex_number`, the first (ASCII) digit `d0` already read -/
def lexNumber (d0 : Nat) (r : List CP) : Res × Nat :=
  if isHexPrefix d0 r then
    let q := countWhile isHex (r.drop 1)
    (.tok .intLit (2 + q.1), 3 + q.2)
  else
    let q := countWhile isDigit r
    match r.drop q.1 with
    | [] => (.tok .intLit (1 + q.1), 2 + q.2)
    | dot :: r2 =>
      if dot.val == 46 then
        let f := countWhile isDigit r2
        let e := matchExp (r2.drop f.1)
        (.tok .floatLit (1 + q.1 + 1 + f.1 + e.1), 2 + q.2 + f.2 + e.2)
      else (.tok .intLit (1 + q.1), 2 + q.2)

/-- `_peek_chars() == a` -/
def startsWith1 (a : Nat) : List CP → Bool
  | d :: _ => d.val == a
  | [] => false

/-- `_peek_chars(2) == ab` (also `_get_chars(2)`; `None` when fewer than two code points are left) -/
def startsWith2 (a b : Nat) : List CP → Bool
  | d :: e :: _ => d.val == a && e.val == b
  | _ => false

/-- `MLIRLexer.lex` after `_consume_whitespace` -/
def lexTok : List CP → Res × Nat
  | [] => (.eof, 1)
  | c :: r =>
    let n := c.val
    if c.alpha || n == 95 then
      let q := countWhile isIdentChar r; (.tok .bareIdent (1 + q.1), 1 + q.2)
    else
      match singlePunct n with
      | some k => (.tok k 1, 1)
      | none =>
        if n == 46 then
          if startsWith2 46 46 r then (.tok .ellipsis 3, 3) else (.err .ellipsis 0 1, 3)
        else if n == 45 then
          if startsWith1 62 r then (.tok .arrow 2, 2) else (.tok .minus 1, 2)
        else if n == 123 then
          if startsWith2 45 35 r then (.tok .metaBegin 3, 3) else (.tok .lBrace 1, 3)
        else if n == 35 && startsWith2 45 125 r then (.tok .metaEnd 3, 3)
        else if n == 64 then lexAt r
        else if n == 35 || n == 33 || n == 94 || n == 37 then
          match suffixId r with
          | (some l, t) => (.tok (prefixKind n) (1 + l), 3 + t)
          | (none, t) => (.err .suffix 0 1, 3 + t)
        else if n == 34 then lexString r
        else if isDigitN n then lexNumber n r
        else (.err .unexpected 0 1, 1)

/-! ## The token stream -/

structure Out where
  toks : List Token := []
  err : Option LexError := none
  steps : Nat := 0
  /-- the fuel of `lexLoop` ran out (`lex_fuel` in the proofs: never) -/
  exhausted : Bool := false
deriving Repr, Inhabited

/-- repeated `lex()` from absolute position `pos` with `rest` the input from there on -/
def lexLoop : Nat → Nat → List CP → Out
  | 0, _, _ => { exhausted := true }
  | fuel + 1, pos, rest =>
    let w := skipWs false rest
    let start := pos + w.1
    let q := lexTok (rest.drop w.1)
    match q.1 with
    | .eof => { toks := [⟨.eof, start, start + 1⟩], steps := w.2 + q.2 }
    | .err m off len => { err := some ⟨m, start + off, start + off + len⟩, steps := w.2 + q.2 }
    | .tok k len =>
      let o := lexLoop fuel (start + len) (rest.drop (w.1 + len))
      { o with toks := ⟨k, start, start + len⟩ :: o.toks, steps := w.2 + q.2 + o.steps }

/-- all tokens of an input (until EOF or the first error) -/
def lex (cs : List CP) : Out := lexLoop (cs.length + 1) 0 cs

/-- the `Except` view: tokens, or the `ParseError` -/
def lexE (cs : List CP) : Except LexError (List Token) :=
  let o := lex cs
  match o.err with
  | some e => .error e
  | none => .ok o.toks

/-! ## Line protocol -/

def kindName : Kind → String
  | .eof => "EOF" | .bareIdent => "BARE_IDENT" | .atIdent => "AT_IDENT" | .hashIdent => "HASH_IDENT"
  | .percentIdent => "PERCENT_IDENT" | .caretIdent => "CARET_IDENT"
  | .exclIdent => "EXCLAMATION_IDENT" | .floatLit => "FLOAT_LIT" | .intLit => "INTEGER_LIT"
  | .stringLit => "STRING_LIT" | .bytesLit => "BYTES_LIT" | .arrow => "ARROW" | .colon => "COLON"
  | .comma => "COMMA" | .ellipsis => "ELLIPSIS" | .equal => "EQUAL" | .greater => "GREATER"
  | .lBrace => "L_BRACE" | .lParen => "L_PAREN" | .lSquare => "L_SQUARE" | .less => "LESS"
  | .minus => "MINUS" | .plus => "PLUS" | .question => "QUESTION" | .rBrace => "R_BRACE"
  | .rParen => "R_PAREN" | .rSquare => "R_SQUARE" | .slash => "SLASH" | .star => "STAR"
  | .vbar => "VERTICAL_BAR" | .metaBegin => "FILE_METADATA_BEGIN" | .metaEnd => "FILE_METADATA_END"

def msgName : Msg → String
  | .ellipsis => "ellipsis" | .eofAfterAt => "eof-after-at" | .atExpected => "at-expected"
  | .suffix => "suffix-expected" | .unterminated => "unterminated-string"
  | .unexpected => "unexpected-character"

def hexVal? (s : String) : Option Nat :=
  if s.isEmpty then none else
  s.toList.foldl (fun acc c =>
    acc.bind fun a =>
      let n := c.toNat
      if 48 ≤ n ∧ n ≤ 57 then some (16 * a + (n - 48))
      else if 97 ≤ n ∧ n ≤ 102 then some (16 * a + (n - 87))
      else none) (some 0)

/-- a code point travels as `<hex>` or `<hex>:<flags>`, flags ⊆ `a` (isalpha) `n` (isnumeric)
`s` (isspace) -/
def decCP (w : String) : Option CP :=
  match w.splitOn ":" with
  | [h] => (hexVal? h).map fun v => { val := v }
  | [h, fl] =>
    (hexVal? h).map fun v =>
      { val := v, alpha := fl.toList.contains 'a', numeric := fl.toList.contains 'n',
        space := fl.toList.contains 's' }
  | _ => none

def decCPs (ws : List String) : Option (List CP) :=
  ws.foldr (fun w acc => match decCP w, acc with
    | some c, some l => some (c :: l)
    | _, _ => none) (some [])

def showOut (o : Out) : String :=
  let ts := o.toks.map fun t => s!"{kindName t.kind}:{t.start}:{t.stop}"
  let tail := match o.err with
    | some e => [s!"ERR:{msgName e.msg}:{e.start}:{e.stop}"]
    | none => if o.exhausted then ["FUEL"] else []
  " ".intercalate ("toks" :: (ts ++ tail))

def classFlags (n : Nat) : String :=
  String.ofList ((if isWsN n then ['w'] else []) ++ (if isDigitN n then ['d'] else []) ++
    (if isLetterN n then ['l'] else []) ++ (if isIdentCharN n then ['i'] else []) ++
    (if isSuffixStartN n then ['s'] else []) ++ (if isSuffixCharN n then ['c'] else []) ++
    (if isHexN n then ['h'] else []) ++ (if isStrStopN n then ['x'] else []) ++
    (if isSimpleEscN n then ['e'] else []))

def lineStep (s : Unit) (line : String) : Unit × String :=
  (s,
  match words line with
  | ["reset"] => "ok"
  | "lex" :: ws =>
    (match decCPs ws with
     | some cs => showOut (lex cs)
     | none => "bad-op")
  | "steps" :: ws =>
    (match decCPs ws with
     | some cs => s!"steps {(lex cs).steps} {cs.length}"
     | none => "bad-op")
  | ["classes", lo, hi] =>
    (match lo.toNat?, hi.toNat? with
     | some lo, some hi =>
       " ".intercalate ("classes" :: (((List.range (hi - lo)).map (· + lo)).filterMap fun n =>
         let f := classFlags n
         if f.isEmpty then none else some s!"{n}:{f}"))
     | _, _ => "bad-op")
  | _ => "bad-op")

end Xdsl.Lexer
