import XdslModel.Prelude
/-!
C14 (C): model of common-subexpression elimination
(`xdsl/transforms/common_subexpression_elimination.py`, `CSEDriver._simplify_block` /
`_simplify_operation` / `_replace_and_delete`) on straight-line code of side-effect-free
single-result operations.

An instruction `dst = key(args)` stands for an operation whose `OperationInfo` (name, attributes,
properties, result types) is the key `key : K`; two operations are CSE candidates iff their keys and
operand lists are equal.  The pass walks the block once, keeps the table of known operations,
replaces the uses of a repeated operation by the earlier result and erases it.

`K` is a parameter: the line protocol uses `K = String` (the harness renders name, every
attribute/property item, and the result types injectively into one token); `OpKey` below is the
structured form with the component-wise `OperationInfo.__eq__` / `__hash__`.

The table of known operations is a Python `dict` keyed by `OperationInfo`: `cseGoH`/`Known.findH`
model the lookup as Python performs it (an entry is a hit when the hashes are equal and `__eq__`
holds, and `__eq__` itself starts with the comparison of the hashes) for an ARBITRARY hash function,
so that colliding hashes are part of the model; `cseGo`/`Known.find` are the collision-free
specification.  (`XdslProofs/C14CSE.lean` proves that both coincide as long as `__eq__` compares
every component, and that they do not when it compares the attribute names only.)
-/
namespace Xdsl.CSE

structure Instr (K : Type) where
  dst : Nat
  key : K
  args : List Nat
deriving Repr, DecidableEq, Inhabited

/-- value replacement accumulated so far (`replace_all_uses_with`) -/
abbrev Repl := AL Nat Nat

def Repl.app (r : Repl) (v : Nat) : Nat := (AL.get r v).getD v

/-- table of known operations: (key, operands) ↦ result -/
abbrev Known (K : Type) := List ((K × List Nat) × Nat)

def Known.find {K : Type} [DecidableEq K] (k : Known K) (key : K) (args : List Nat) : Option Nat :=
  match k with
  | [] => none
  | ((key', args'), d) :: rest => if key' = key ∧ args' = args then some d else Known.find rest key args

/-- one walk over the block: returns the remaining instructions (in order) and the replacement -/
def cseGo {K : Type} [DecidableEq K] (known : Known K) (repl : Repl) : List (Instr K) → List (Instr K) × Repl
  | [] => ([], repl)
  | i :: rest =>
    let args' := i.args.map repl.app
    match known.find i.key args' with
    | some d =>
      -- `_replace_and_delete`: all uses of `i.dst` now use `d`; the operation is erased
      cseGo known ((i.dst, d) :: repl) rest
    | none =>
      let (out, r) := cseGo (((i.key, args'), i.dst) :: known) repl rest
      ({ i with args := args' } :: out, r)

def cse {K : Type} [DecidableEq K] (prog : List (Instr K)) : List (Instr K) × Repl := cseGo [] [] prog

/-! ### the table as the Python `dict[OperationInfo, Operation]` it is: hashes and `__eq__`

`h key args` is `hash(OperationInfo(op))` (any function of the operation's identity: the real one
mixes the name, the SUM of the item hashes of the attribute and property dictionaries, the result
types and the operands); `eqv` is the comparison `__eq__` makes of name, attributes, properties and
result types. -/

/-- `OperationInfo.__eq__`: `hash(self) == hash(other) and <components equal> and operands equal` -/
def infoEq {K : Type} (h : K → List Nat → Int) (eqv : K → K → Bool)
    (k1 : K) (a1 : List Nat) (k2 : K) (a2 : List Nat) : Bool :=
  h k1 a1 == h k2 a2 && eqv k1 k2 && a1 == a2

/-- `dict.get(OperationInfo(op))`: an entry is returned when its hash equals the hash of the probe
and `__eq__` holds.  (If `__eq__` were not an equivalence several entries could qualify and CPython
would take the first in probe order; the model takes the most recent one.) -/
def Known.findH {K : Type} (h : K → List Nat → Int) (eqv : K → K → Bool) :
    Known K → K → List Nat → Option Nat
  | [], _, _ => none
  | ((key', args'), d) :: rest, key, args =>
    if h key' args' == h key args && infoEq h eqv key' args' key args then some d
    else Known.findH h eqv rest key args

/-- `cseGo` with the hashed lookup -/
def cseGoH {K : Type} (h : K → List Nat → Int) (eqv : K → K → Bool) (known : Known K) (repl : Repl) :
    List (Instr K) → List (Instr K) × Repl
  | [] => ([], repl)
  | i :: rest =>
    let args' := i.args.map repl.app
    match known.findH h eqv i.key args' with
    | some d => cseGoH h eqv known ((i.dst, d) :: repl) rest
    | none =>
      let (out, r) := cseGoH h eqv (((i.key, args'), i.dst) :: known) repl rest
      ({ i with args := args' } :: out, r)

def cseH {K : Type} (h : K → List Nat → Int) (eqv : K → K → Bool) (prog : List (Instr K)) :
    List (Instr K) × Repl := cseGoH h eqv [] [] prog

/-- structured `OperationInfo` without the operands: operation name, attribute and property
dictionaries as lists of (name, printed value) sorted by name, printed result types -/
structure OpKey where
  name : String
  attrs : List (String × String)
  props : List (String × String)
  resTys : List String
deriving Repr, DecidableEq, Inhabited

/-- the component comparisons of `OperationInfo.__eq__` (`self.name == other.name and
self.op.attributes == other.op.attributes and self.op.properties == other.op.properties and
self.op.result_types == other.op.result_types`) -/
def OpKey.eqv (a b : OpKey) : Bool :=
  a.name == b.name && a.attrs == b.attrs && a.props == b.props && a.resTys == b.resTys

/-- a coarser comparison: the NAMES of the attributes/properties only, the values being left to the
hash (what `.keys() == .keys()` does) -/
def OpKey.eqvKeysOnly (a b : OpKey) : Bool :=
  a.name == b.name && a.attrs.map (·.1) == b.attrs.map (·.1) && a.props.map (·.1) == b.props.map (·.1)
    && a.resTys == b.resTys

/-- `OperationInfo.__hash__`: `hash((name, sum(hash(i) for i in attributes.items()),
sum(hash(i) for i in properties.items()), hash(result_types), hash(operands)))` with the string hash
`hs`, the item hash `ha` and the tuple hash `mix` as parameters -/
def OpKey.hash (hs : String → Int) (ha : String × String → Int) (mix : List Int → Int)
    (k : OpKey) (args : List Nat) : Int :=
  mix [hs k.name, (k.attrs.map ha).sum, (k.props.map ha).sum, mix (k.resTys.map hs),
       mix (args.map Int.ofNat)]

/-! ### semantics: environments are partial maps; an operation may be undefined (`none`) -/

abbrev Env (V : Type) := Nat → Option V

def Env.set {V : Type} (e : Env V) (k : Nat) (v : V) : Env V := fun x => if x = k then some v else e x

def getArgs {V : Type} (e : Env V) : List Nat → Option (List V)
  | [] => some []
  | a :: as => match e a, getArgs e as with
    | some x, some xs => some (x :: xs)
    | _, _ => none

/-- run a block; `none` = some operation is undefined (UB / unbound operand) -/
def run {K V : Type} (sem : K → List V → Option V) (e : Env V) : List (Instr K) → Option (Env V)
  | [] => some e
  | i :: rest =>
    match getArgs e i.args with
    | some vs => match sem i.key vs with
      | some v => run sem (e.set i.dst v) rest
      | none => none
    | none => none

/-! ### line protocol
`cse <n> (<dst> <key> <k> <arg>*)*` → remaining instructions (collision-free table);
`cseh <n> (<dst> <key> <hash> <k> <arg>*)*` → the same through the hashed table, where `<hash>` is
the hash the implementation was observed to give the attribute/property part of the operation
(equal keys carry equal hashes; different keys may). -/

def parseInstrs : Nat → List String → Option (List (Instr String))
  | 0, [] => some []
  | 0, _ => none
  | n + 1, d :: key :: k :: rest =>
    match d.toNat?, k.toNat? with
    | some d, some k =>
      match (rest.take k).mapM String.toNat?, parseInstrs n (rest.drop k) with
      | some args, some more => if args.length = k then some ({ dst := d, key := key, args := args } :: more) else none
      | _, _ => none
    | _, _ => none
  | _ + 1, _ => none

/-- instructions with an observed hash per instruction -/
def parseInstrsH : Nat → List String → Option (List (Instr String × Int))
  | 0, [] => some []
  | 0, _ => none
  | n + 1, d :: key :: hv :: k :: rest =>
    match d.toNat?, hv.toInt?, k.toNat? with
    | some d, some hv, some k =>
      match (rest.take k).mapM String.toNat?, parseInstrsH n (rest.drop k) with
      | some args, some more =>
        if args.length = k then some (({ dst := d, key := key, args := args }, hv) :: more) else none
      | _, _ => none
    | _, _, _ => none
  | _ + 1, _ => none

/-- hash of an operation in the `cseh` protocol: the observed hash of its key mixed with the operands -/
def obsHash (tbl : List (String × Int)) (key : String) (args : List Nat) : Int :=
  args.foldl (fun acc a => acc * 1000003 + Int.ofNat a) ((AL.get tbl key).getD 0)

def showInstr (i : Instr String) : String :=
  s!"{i.dst}={i.key}(" ++ ",".intercalate (i.args.map toString) ++ ")"

def lineStep (s : Unit) (line : String) : Unit × String :=
  match words line with
  | "cse" :: n :: rest =>
    match n.toNat? with
    | some n =>
      match parseInstrs n rest with
      | some prog =>
        let (out, _) := cse prog
        (s, "ok " ++ " ".intercalate (out.map showInstr))
      | none => (s, "bad-op")
    | none => (s, "bad-op")
  | "cseh" :: n :: rest =>
    match n.toNat? with
    | some n =>
      match parseInstrsH n rest with
      | some progH =>
        let tbl := progH.map fun (i, hv) => (i.key, hv)
        let (out, _) := cseH (obsHash tbl) (fun a b => a == b) (progH.map (·.1))
        (s, "ok " ++ " ".intercalate (out.map showInstr))
      | none => (s, "bad-op")
    | none => (s, "bad-op")
  | _ => (s, "bad-op")

end Xdsl.CSE
