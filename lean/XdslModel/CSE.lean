import XdslModel.Prelude
/-!
C14 (C): model of common-subexpression elimination
(`xdsl/transforms/common_subexpression_elimination.py`, `CSEDriver._simplify_block` /
`_simplify_operation` / `_replace_and_delete`) on straight-line code of side-effect-free
single-result operations.

An instruction `dst = key(args)` stands for an operation whose `OperationInfo` (name, attributes,
properties, result types) is abstracted to the string `key`; two operations are CSE candidates iff
their keys and operand lists are equal.  The pass walks the block once, keeps the table of known
operations, replaces the uses of a repeated operation by the earlier result and erases it.
-/
namespace Xdsl.CSE

structure Instr where
  dst : Nat
  key : String
  args : List Nat
deriving Repr, DecidableEq, Inhabited

/-- value replacement accumulated so far (`replace_all_uses_with`) -/
abbrev Repl := AL Nat Nat

def Repl.app (r : Repl) (v : Nat) : Nat := (AL.get r v).getD v

/-- table of known operations: (key, operands) ↦ result -/
abbrev Known := List ((String × List Nat) × Nat)

def Known.find (k : Known) (key : String) (args : List Nat) : Option Nat :=
  match k with
  | [] => none
  | ((key', args'), d) :: rest => if key' = key ∧ args' = args then some d else Known.find rest key args

/-- one walk over the block: returns the remaining instructions (in order) and the replacement -/
def cseGo (known : Known) (repl : Repl) : List Instr → List Instr × Repl
  | [] => ([], repl)
  | i :: rest =>
    let args' := i.args.map repl.app
    match known.find i.key args' with
    | some d =>
      -- `_replace_and_delete`: all uses of `i.dst` now use `d`; the operation is erased
      cseGo known ((i.dst, d) :: repl) rest
    | none =>
      let (out, r) := cseGo (((i.key, args'), i.dst) :: known) repl rest
      ({ i with args := args' } :: out, r)

def cse (prog : List Instr) : List Instr × Repl := cseGo [] [] prog

/-! ### semantics: environments are partial maps; an operation may be undefined (`none`) -/

abbrev Env (V : Type) := Nat → Option V

def Env.set {V : Type} (e : Env V) (k : Nat) (v : V) : Env V := fun x => if x = k then some v else e x

def getArgs {V : Type} (e : Env V) : List Nat → Option (List V)
  | [] => some []
  | a :: as => match e a, getArgs e as with
    | some x, some xs => some (x :: xs)
    | _, _ => none

/-- run a block; `none` = some operation is undefined (UB / unbound operand) -/
def run {V : Type} (sem : String → List V → Option V) (e : Env V) : List Instr → Option (Env V)
  | [] => some e
  | i :: rest =>
    match getArgs e i.args with
    | some vs => match sem i.key vs with
      | some v => run sem (e.set i.dst v) rest
      | none => none
    | none => none

/-! ### line protocol: `cse <n> (<dst> <key> <k> <arg>*)*` → remaining instructions and replacement -/

def parseInstrs : Nat → List String → Option (List Instr)
  | 0, [] => some []
  | 0, _ => none
  | n + 1, d :: key :: k :: rest =>
    match d.toNat?, k.toNat? with
    | some d, some k =>
      match (rest.take k).mapM String.toNat?, parseInstrs n (rest.drop k) with
      | some args, some more => if args.length = k then some ({ dst := d, key := key, args := args } :: more) else none
      | _, _ => none
    | _, _ => none
  | _ + 1, _ => none

def showInstr (i : Instr) : String :=
  s!"{i.dst}={i.key}(" ++ ",".intercalate (i.args.map toString) ++ ")"

def lineStep (s : Unit) (line : String) : Unit × String :=
  match words line with
  | "cse" :: n :: rest =>
    match n.toNat? with
    | some n =>
      match parseInstrs n rest with
      | some prog =>
        let (out, _) := cse prog
        (s, "ok " ++ " ".intercalate (out.map showInstr))
      | none => (s, "bad-op")
    | none => (s, "bad-op")
  | _ => (s, "bad-op")

end Xdsl.CSE
