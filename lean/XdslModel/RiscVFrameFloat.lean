import XdslModel.RiscV
/-!
C22, the two parts of the RISC-V backend that the integer instruction machine of `RiscV.lean` does not see:

* `FrameWalk` — which registers `PrologueEpilogueInsertion._process_function`
  (xdsl/backend/riscv/prologue_epilogue_insertion.py) saves and where: the function body as the tree
  `func.walk()` visits (an op has result registers and, if it has regions, nested ops — `riscv_scf.for`,
  `rof`, `frep` bodies; the block arguments of those regions, e.g. a loop's induction variable, are written by
  the code the op lowers to and count as written: the harness hands them over as a leading child node without
  regions, which is the position the fixed pass collects them at), the ordered set of callee-saved registers
  that are the result of some op other than `get_register` / `get_float_register` at ANY depth, and the frame layout (`xlen = 4` bytes for
  s-registers, `flen = 8` for fs-registers, offsets in collection order).
  Register codes: integer `x_n` → `n`, float `f_n` → `100 + n`, anything else (unallocated) → other numbers.

* `FloatRules` — `FuseMultiplyAddD` of xdsl/transforms/canonicalization_patterns/riscv.py as a rule on one
  `fadd.d`, given what the pattern reads from the definitions of its operands (an `fmul.d`: multiplicands,
  fast-math flags, number of uses), with the guard of the fixed code (`_is_stable` multiplicands), over an
  abstract float arithmetic `(add, mul, fma)`; float registers `f_n` → `n`, unallocated → `≥ 32`.
  Fast-math flag masks: bit k = k-th flag of `FastMathFlag` (reassoc nnan ninf nsz arcp contract afn).

No Mathlib, no proofs here.  Protocol (model `riscv_frame`):
  clobber <tree>                      →  saved r… | size N | offs o…
     tree = node…, node = `( o r… node… )` | `( g )`
  fuse <flags> <rd> <rs1> <rs2> | <def of rs1> | <def of rs2>   →  none | some fmadd.d rd a b c
     def = `-` | `mul <a> <b> <flags> <uses>`
-/
namespace Xdsl.RiscV

namespace FrameWalk

abbrev XReg := Nat

/-- an operation: `getreg` for `rv32.get_register` / `riscv.get_float_register`, its result registers,
and the operations nested in its regions (all blocks, in order) -/
inductive Node
  | op (getreg : Bool) (results : List XReg) (kids : List Node)

/-- s0..s11 as x-register numbers (fs0..fs11 have the same f-register numbers) -/
def sRegs : List Nat := [8, 9, 18, 19, 20, 21, 22, 23, 24, 25, 26, 27]

/-- `res.type in Registers.S or res.type in Registers.FS` -/
def isCalleeSaved (r : XReg) : Bool :=
  sRegs.contains r || (decide (100 ≤ r) && sRegs.contains (r - 100))

mutual
/-- result registers of the op and of everything nested in it, in `walk()` order, `get_register`s skipped -/
def Node.writes : Node → List XReg
  | .op g rs kids => (if g then [] else rs) ++ writesList kids
def writesList : List Node → List XReg
  | [] => []
  | n :: ns => n.writes ++ writesList ns
end

/-- `OrderedSet(...)`: first occurrences, in order -/
def dedup : List XReg → List XReg
  | [] => []
  | x :: xs => x :: (dedup xs).filter (fun y => y != x)

/-- `used_callee_preserved_registers` -/
def usedCalleeSaved (f : List Node) : List XReg := dedup ((writesList f).filter isCalleeSaved)

/-- the collection that looks only at the operations directly in the function's blocks (NOT what the pass does;
kept for the counterexample theorem) -/
def topLevelOnly (f : List Node) : List XReg :=
  dedup ((f.flatMap fun n => match n with | .op g rs _ => if g then [] else rs).filter isCalleeSaved)

/-- `get_register_size`: xlen = 4, flen = 8 -/
def regSize (r : XReg) : Nat := if r < 100 then 4 else 8

/-- offsets of the save slots, from `sp` after the adjustment, in collection order -/
def offsets : List XReg → Nat → List Nat
  | [], _ => []
  | r :: rs, k => k :: offsets rs (k + regSize r)

def stackSize (rs : List XReg) : Nat := (rs.map regSize).sum

/-! protocol -/

def spanNums : List String → List Nat × List String
  | [] => ([], [])
  | t :: ts =>
    match t.toNat? with
    | some n => let (ns, rest) := spanNums ts; (n :: ns, rest)
    | none => ([], t :: ts)

/-- nodes up to the next unmatched `)` (left in the rest) or the end -/
def parseNodes : Nat → List String → Option (List Node × List String)
  | 0, _ => none
  | _, [] => some ([], [])
  | _ + 1, ")" :: rest => some ([], ")" :: rest)
  | fuel + 1, "(" :: kind :: rest =>
    let (regs, rest1) := spanNums rest
    match parseNodes fuel rest1 with
    | some (kids, ")" :: rest2) =>
      match parseNodes fuel rest2 with
      | some (sibs, rest3) => some (Node.op (kind == "g") regs kids :: sibs, rest3)
      | none => none
    | _ => none
  | _ + 1, _ => none

def showNats (ns : List Nat) : String := " ".intercalate (ns.map toString)

def clobberLine (toks : List String) : String :=
  match parseNodes (toks.length + 1) toks with
  | some (f, []) =>
    let saved := usedCalleeSaved f
    s!"saved {showNats saved} | size {stackSize saved} | offs {showNats (offsets saved 0)}"
  | _ => "bad-op"

end FrameWalk

namespace FloatRules

/-- position of `contract` in `FastMathFlag` -/
def CONTRACT : Nat := 5

/-- `_has_contract_flag` -/
def hasContract (mask : Nat) : Bool := mask.testBit CONTRACT

/-- `_is_stable` on a float register: not yet allocated (a float register is never `zero`) -/
def stableF (r : Nat) : Bool := decide (32 ≤ r)

/-- what the pattern reads from an operand defined by `fmul.d` -/
structure MulDef where
  a : Nat
  b : Nat
  flags : Nat
  uses : Nat
  deriving DecidableEq, Repr

inductive FInstr
  | fmul (rd a b flags : Nat)
  | fadd (rd a b flags : Nat)
  | fmadd (rd a b c : Nat)
  deriving DecidableEq, Repr

/-- the product may be fused: `contract`, a single use, multiplicands still readable at the sum -/
def MulDef.fusable (m : MulDef) : Bool :=
  hasContract m.flags && m.uses == 1 && stableF m.a && stableF m.b

/-- `FuseMultiplyAddD.match_and_rewrite` on `fadd.d rd, rs1, rs2 [flags]`; `d1`/`d2`: the `fmul.d`
defining rs1 / rs2 (`none`: something else).  The product in rs2 is tried first. -/
def fuseMultiplyAddD (flags rd rs1 rs2 : Nat) (d1 d2 : Option MulDef) : Option FInstr :=
  if !hasContract flags then none
  else match d2.filter MulDef.fusable with
    | some m => some (.fmadd rd m.a m.b rs1)
    | none =>
      match d1.filter MulDef.fusable with
      | some m => some (.fmadd rd m.a m.b rs2)
      | none => none

/-- the rule with another acceptance test for the flags and without the stability guard (NOT the code; for the
counterexample theorems: `accept` = "contract or reassoc", allocated multiplicands) -/
def fuseWith (accept : Nat → Bool) (guard : Nat → Bool) (flags rd rs1 rs2 : Nat) (d1 d2 : Option MulDef) : Option FInstr :=
  let ok (m : MulDef) : Bool := accept m.flags && m.uses == 1 && guard m.a && guard m.b
  if !accept flags then none
  else match d2.filter ok with
    | some m => some (.fmadd rd m.a m.b rs1)
    | none =>
      match d1.filter ok with
      | some m => some (.fmadd rd m.a m.b rs2)
      | none => none

/-- float arithmetic, abstract: correctly rounded sum and product, fused multiply-add (one rounding) -/
structure FOps (F : Type) where
  add : F → F → F
  mul : F → F → F
  fma : F → F → F → F

abbrev FSt (F : Type) := Nat → F

def FSt.set {F : Type} (s : FSt F) (r : Nat) (v : F) : FSt F := fun x => if x = r then v else s x

/-- strict execution: every instruction rounds on its own; fast-math flags do not change the result -/
def fexec1 {F : Type} (O : FOps F) : FInstr → FSt F → FSt F
  | .fmul rd a b _, s => s.set rd (O.mul (s a) (s b))
  | .fadd rd a b _, s => s.set rd (O.add (s a) (s b))
  | .fmadd rd a b c, s => s.set rd (O.fma (s a) (s b) (s c))

def fexec {F : Type} (O : FOps F) : List FInstr → FSt F → FSt F
  | [], s => s
  | i :: is, s => fexec O is (fexec1 O i s)

/-- the values `fadd.d rd, rs1, rs2 [flags]` may produce in state `s` when rs1 / rs2 hold the products
described by `d1` / `d2` of multiplicands that still have their values: the strict sum, and — only where the
sum AND the product carry `contract` — the fused multiply-add -/
def licensed {F : Type} (O : FOps F) (s : FSt F) (flags rs1 rs2 : Nat) (d1 d2 : Option MulDef) : List F :=
  O.add (s rs1) (s rs2) ::
    ((match d2 with
      | some m => if hasContract flags && hasContract m.flags then [O.fma (s m.a) (s m.b) (s rs1)] else []
      | none => []) ++
     (match d1 with
      | some m => if hasContract flags && hasContract m.flags then [O.fma (s m.a) (s m.b) (s rs2)] else []
      | none => []))

/-! protocol -/

def parseDef (t : String) : Option (Option MulDef) :=
  match words t with
  | ["-"] => some none
  | ["mul", a, b, f, u] => do
    some (some { a := (← parseNat? a), b := (← parseNat? b), flags := (← parseNat? f), uses := (← parseNat? u) })
  | _ => none

def showF : FInstr → String
  | .fmul rd a b _ => s!"fmul.d {rd} {a} {b}"
  | .fadd rd a b _ => s!"fadd.d {rd} {a} {b}"
  | .fmadd rd a b c => s!"fmadd.d {rd} {a} {b} {c}"

end FloatRules

def frameFloatLineStep (_ : Unit) (line : String) : Unit × String :=
  let bad := ((), "bad-op")
  match line.splitOn "|" with
  | [one] =>
    match words one with
    | "clobber" :: toks => ((), FrameWalk.clobberLine toks)
    | _ => bad
  | [hd, d1, d2] =>
    match words hd, FloatRules.parseDef d1, FloatRules.parseDef d2 with
    | ["fuse", f, rd, a, b], some x, some y =>
      match parseNat? f, parseNat? rd, parseNat? a, parseNat? b with
      | some f, some rd, some a, some b =>
        match FloatRules.fuseMultiplyAddD f rd a b x y with
        | none => ((), "none")
        | some i => ((), "some " ++ FloatRules.showF i)
      | _, _, _, _ => bad
    | _, _, _ => bad
  | _ => bad

end Xdsl.RiscV
