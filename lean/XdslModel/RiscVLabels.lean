import XdslModel.Prelude
/-!
C22: the labels of an emitted RISC-V assembler unit.

A module is printed as ONE unit: function names and the local labels of all functions share one
namespace.  Two parts:

* `assemble`: the symbol table an assembler builds for a unit (list of label definitions and
  instructions with an optional symbolic branch target): a name defined twice makes the unit
  unassemblable (`dup`), a branch to a name that is not defined too (`undef`), otherwise every
  target is resolved to the position of its unique definition.
* `allocShared` / `allocPerFunction`: the names the two loop lowerings
  (`convert-riscv-scf-to-riscv-cf`: `scf_body_k_for`, `scf_body_end_k_for`;
  `lower-riscv-scf-to-labels`: additionally `scf_cond_k_for`) give the loops of a module: ONE
  counter for the whole module (one pattern instance walks the module), so function `i` with `n i`
  loops gets the numbers `n 0 + … + n (i-1) …`.  `allocPerFunction` is the variant that restarts
  the counter in every function (not what the code does; the counterexample of the proof file).

No Mathlib, no proofs here.  Driver protocol (`lineStep`):
  asm <item>…        item = `L<n>` label definition | `I` instruction | `T<n>` instruction with target n
                     → `ok p…` (position of the definition for every `T`, in order) | `dup n` | `undef n`
  alloc <kind>… | <loops of function 0> <loops of function 1> …
                     → per function ` | `-separated, the labels `kind.k` in the order loops are numbered
-/
namespace Xdsl.RiscV.Labels

inductive Item
  | label (n : Nat)
  | ins (target : Option Nat)
  deriving DecidableEq, Repr

/-- names defined by the unit, in order -/
def defs : List Item → List Nat
  | [] => []
  | .label n :: r => n :: defs r
  | .ins _ :: r => defs r

/-- symbolic targets of the unit's instructions, in order -/
def targets : List Item → List Nat
  | [] => []
  | .ins (some n) :: r => n :: targets r
  | _ :: r => targets r

/-- position (counted from `k`) of the first definition of `n` -/
def firstPos (n : Nat) : List Item → Nat → Option Nat
  | [], _ => none
  | .label m :: r, k => if m = n then some k else firstPos n r (k + 1)
  | .ins _ :: r, k => firstPos n r (k + 1)

/-- position (counted from `k`) of the last definition of `n` -/
def lastPos (n : Nat) : List Item → Nat → Option Nat
  | [], _ => none
  | .label m :: r, k =>
    match lastPos n r (k + 1) with
    | some p => some p
    | none => if m = n then some k else none
  | .ins _ :: r, k => lastPos n r (k + 1)

/-- the first name that is defined a second time (`seen`: the names defined so far) -/
def firstDup : List Nat → List Nat → Option Nat
  | _, [] => none
  | seen, n :: r => if n ∈ seen then some n else firstDup (n :: seen) r

inductive Verdict
  | ok (resolved : List Nat)
  | dup (n : Nat)
  | undef (n : Nat)
  deriving DecidableEq, Repr

/-- resolve the targets `ts` against the unit `u`; `none n`: the first name without definition -/
def resolve (u : List Item) : List Nat → Except Nat (List Nat)
  | [] => .ok []
  | n :: r =>
    match firstPos n u 0 with
    | none => .error n
    | some p =>
      match resolve u r with
      | .ok ps => .ok (p :: ps)
      | .error e => .error e

def assemble (u : List Item) : Verdict :=
  match firstDup [] (defs u) with
  | some n => .dup n
  | none =>
    match resolve u (targets u) with
    | .ok ps => .ok ps
    | .error n => .undef n

/-! ### label allocation of the loop lowerings -/

structure Lbl where
  kind : Nat
  idx : Nat
  deriving DecidableEq, Repr

/-- the labels of loop number `k` (one per kind) -/
def loopLabels (kinds : List Nat) (k : Nat) : List Lbl := kinds.map fun c => ⟨c, k⟩

/-- labels of `n` loops numbered from `c` -/
def funcLabels (kinds : List Nat) (c n : Nat) : List Lbl := (List.range' c n).flatMap (loopLabels kinds)

/-- one counter threaded through the functions of the module (`ns`: loops per function) -/
def allocFrom (kinds : List Nat) : Nat → List Nat → List (List Lbl)
  | _, [] => []
  | c, n :: ns => funcLabels kinds c n :: allocFrom kinds (c + n) ns

def allocShared (kinds : List Nat) (ns : List Nat) : List (List Lbl) := allocFrom kinds 0 ns

/-- the counter restarts in every function -/
def allocPerFunction (kinds : List Nat) (ns : List Nat) : List (List Lbl) := ns.map (funcLabels kinds 0)

/-! ### protocol -/

def parseItem (t : String) : Option Item :=
  if t = "I" then some (.ins none)
  else if t.startsWith "L" then (t.drop 1).toNat?.map .label
  else if t.startsWith "T" then (t.drop 1).toNat?.map fun n => .ins (some n)
  else none

def showNats (l : List Nat) : String := " ".intercalate (l.map toString)

def showLbls (l : List Lbl) : String := " ".intercalate (l.map fun x => s!"{x.kind}.{x.idx}")

def lineStep (_ : Unit) (line : String) : Unit × String :=
  let bad := ((), "bad-op")
  match line.splitOn "|" with
  | [one] =>
    match words one with
    | "asm" :: items =>
      match items.mapM parseItem with
      | some u =>
        match assemble u with
        | .ok ps => ((), if ps.isEmpty then "ok" else "ok " ++ showNats ps)
        | .dup n => ((), s!"dup {n}")
        | .undef n => ((), s!"undef {n}")
      | none => bad
    | _ => bad
  | [hd, counts] =>
    match words hd, (words counts).mapM String.toNat? with
    | "alloc" :: kinds, some ns =>
      match kinds.mapM String.toNat? with
      | some ks => ((), " | ".intercalate ((allocShared ks ns).map showLbls))
      | none => bad
    | _, _ => bad
  | _ => bad

end Xdsl.RiscV.Labels
