import XdslModel.Prelude
/-!
Model of `Operation/Block/Region.is_structurally_equivalent` (`xdsl/ir/core.py`, C03), as
repaired by the `fix:` commits of C03 (result types compared; block arguments and operation
results of a block are put in the context before its operations are compared; the parent check
only applies when the parent is in the context; a call without a context ends with
`_is_one_to_one_on_outside_uses`: nothing the first tree takes from outside may be a definition of
the second).

IR trees.  One non-nested inductive type holds the three kinds of IR node *and* the three kinds of
sequence (operations of a block, blocks of a region, regions of an operation): every constructor
is a list cell whose last field is the rest of the sequence.  A single operation / block / region
is the one-cell sequence.

Identities.  Python's `context` is ONE dict keyed by object (SSA values and blocks alike), so the
model uses one id space (`Nat`) for values and blocks and one association list.  Attribute values,
types and names are interned by the harness (equal attribute ⇔ equal number).  Attribute and
property dictionaries travel as key-sorted lists (dict equality ignores order).

The parent check of `Operation.is_structurally_equivalent` is not modelled: with an empty initial
context it passes at the root (`context.get(parent, other.parent)`), and below a block it compares
`context[block]` with `other_block` right after `context[block] = other_block` was stored (block
objects are never re-keyed by nested registrations because they are distinct objects).
-/
namespace Xdsl.StructEq

structure OpHdr where
  name : Nat
  operands : List Nat
  /-- (value id, type) -/
  results : List (Nat × Nat)
  attrs : List (Nat × Nat)
  props : List (Nat × Nat)
  succs : List Nat
deriving Repr, DecidableEq

inductive T
  | nil
  /-- operation cell: header, its regions (a `region` sequence), the following operations -/
  | op (h : OpHdr) (regions : T) (next : T)
  /-- block cell: block id, arguments (id, type), its operations, the following blocks -/
  | block (id : Nat) (args : List (Nat × Nat)) (ops : T) (next : T)
  /-- region cell: its blocks, the following regions -/
  | region (blocks : T) (next : T)
deriving Repr

abbrev Ctx := AL Nat Nat

/-- `context.get(x, x)` -/
def lookup (c : Ctx) (u : Nat) : Nat := (AL.get c u).getD u

/-- `for x, y in zip(xs, ys): context[x] = y` (ids of args / results; `zip` truncates) -/
def regVals : List (Nat × Nat) → List (Nat × Nat) → Ctx → Ctx
  | (x, _) :: xs, (y, _) :: ys, c => regVals xs ys (AL.set c x y)
  | _, _, c => c

/-- `for op, other_op in zip(self.ops, other.ops): for result, … : context[result] = other_result` -/
def preOps : T → T → Ctx → Ctx
  | .op h _ n, .op h' _ n', c => preOps n n' (regVals h.results h'.results c)
  | _, _, c => c

/-- `Block._add_to_structural_equivalence_context` -/
def addBlock (i : Nat) (a : List (Nat × Nat)) (o : T) (i' : Nat) (a' : List (Nat × Nat)) (o' : T)
    (c : Ctx) : Ctx :=
  preOps o o' (regVals a a' (AL.set c i i'))

/-- the registration loop at the head of `Region.is_structurally_equivalent` -/
def preBlocks : T → T → Ctx → Ctx
  | .block i a o n, .block i' a' o' n', c => preBlocks n n' (addBlock i a o i' a' o' c)
  | _, _, c => c

/-- `len(xs) == len(ys) and all(context.get(x, x) == y for x, y in zip(xs, ys))` -/
def usesOk (c : Ctx) : List Nat → List Nat → Bool
  | [], [] => true
  | u :: us, u' :: us' => lookup c u == u' && usesOk c us us'
  | _, _ => false

/-- same length and same types, position by position -/
def typesOk : List (Nat × Nat) → List (Nat × Nat) → Bool
  | [], [] => true
  | (_, t) :: xs, (_, t') :: ys => t == t' && typesOk xs ys
  | _, _ => false

/-- name, attributes, properties, result types (and hence the number of results) -/
def hdrOk (h h' : OpHdr) : Bool :=
  h.name == h'.name && h.attrs == h'.attrs && h.props == h'.props && typesOk h.results h'.results

/-- The walk.  `none` = `False` was returned somewhere; `some c` = `True` with the context as left
behind.  Sequence-length checks of the Python code (`len(ops)`, `len(blocks)`, `len(regions)`)
show up as `nil` against a cell. -/
def eqT : T → T → Ctx → Option Ctx
  | .nil, .nil, c => some c
  | .op h rs n, .op h' rs' n', c =>
    if hdrOk h h' then
      let c1 := regVals h.results h'.results c
      if usesOk c1 h.operands h'.operands && usesOk c1 h.succs h'.succs then
        match eqT rs rs' c1 with
        | some c2 => eqT n n' c2
        | none => none
      else none
    else none
  | .block i a o n, .block i' a' o' n', c =>
    if typesOk a a' then
      match eqT o o' (addBlock i a o i' a' o' c) with
      | some c2 => eqT n n' c2
      | none => none
    else none
  | .region bs n, .region bs' n', c =>
    match eqT bs bs' (preBlocks bs bs' c) with
    | some c2 => eqT n n' c2
    | none => none
  | _, _, _ => none

/-- ids of everything referred to: operands and successors
(`for op in node.walk(): for use in (*op.operands, *op.successors)`) -/
def uses : T → List Nat
  | .nil => []
  | .op h rs n => h.operands ++ (h.succs ++ (uses rs ++ uses n))
  | .block _ _ o n => uses o ++ uses n
  | .region bs n => uses bs ++ uses n

/-- `x in set(context.values())`: some key still maps to `x` -/
def isImage (c : Ctx) (x : Nat) : Bool :=
  c.any (fun q => AL.get c q.1 == some q.2 && q.2 == x)

/-- `_is_one_to_one_on_outside_uses(self, context)`: no operand or successor that is not a key of
the context (taken from outside, it corresponds to itself) is one of its values (a definition of
the other tree) -/
def oneToOne (c : Ctx) (a : T) : Bool :=
  (uses a).all (fun u => (AL.get c u).isSome || !isImage c u)

/-- `a.is_structurally_equivalent(b)` with `context=None`: the walk from an empty context, then the
one-to-one check on the context it left behind -/
def structEq (a b : T) : Bool :=
  match eqT a b [] with
  | some c => oneToOne c a
  | none => false

/-! ## Specification side: definitions, uses, positional pairing, the isomorphism decision -/

def ids (l : List (Nat × Nat)) : List Nat := l.map Prod.fst
def tys (l : List (Nat × Nat)) : List Nat := l.map Prod.snd

/-- ids of everything defined in the tree: results, block arguments, blocks -/
def defs : T → List Nat
  | .nil => []
  | .op h rs n => ids h.results ++ (defs rs ++ defs n)
  | .block i a o n => i :: (ids a ++ (defs o ++ defs n))
  | .region bs n => defs bs ++ defs n

def zipIds : List (Nat × Nat) → List (Nat × Nat) → List (Nat × Nat)
  | (x, _) :: xs, (y, _) :: ys => (x, y) :: zipIds xs ys
  | _, _ => []

/-- definitions of the two trees paired by position -/
def pairs : T → T → AL Nat Nat
  | .op h rs n, .op h' rs' n' => zipIds h.results h'.results ++ (pairs rs rs' ++ pairs n n')
  | .block i a o n, .block i' a' o' n' => (i, i') :: (zipIds a a' ++ (pairs o o' ++ pairs n n'))
  | .region bs n, .region bs' n' => pairs bs bs' ++ pairs n n'
  | _, _ => []

/-- everything agrees under the value/block map `f` -/
def agreeB (f : Nat → Nat) : T → T → Bool
  | .nil, .nil => true
  | .op h rs n, .op h' rs' n' =>
    h.name == h'.name && h.attrs == h'.attrs && h.props == h'.props
      && tys h.results == tys h'.results && (ids h.results).map f == ids h'.results
      && h.operands.map f == h'.operands && h.succs.map f == h'.succs
      && agreeB f rs rs' && agreeB f n n'
  | .block i a o n, .block i' a' o' n' =>
    f i == i' && tys a == tys a' && (ids a).map f == ids a'
      && agreeB f o o' && agreeB f n n'
  | .region bs n, .region bs' n' => agreeB f bs bs' && agreeB f n n'
  | _, _ => false

def nodup : List Nat → Bool
  | [] => true
  | x :: xs => !xs.contains x && nodup xs

/-- every object is defined once (true of any real object graph) -/
def wfB (a : T) : Bool := nodup (defs a)

/-- Independent decision of `Iso`: the only candidate correspondence is the positional one;
values from outside must be identical and must not be definitions of the other side. -/
def isoDecide (a b : T) : Bool :=
  agreeB (lookup (pairs a b)) a b
    && (uses a).all (fun u => (defs a).contains u || !(defs b).contains u)

/-- keys the registration loop of a block puts in the context for its operations -/
def preKeysOps : T → List Nat
  | .op h _ n => ids h.results ++ preKeysOps n
  | _ => []

def preKeysBlocks : T → List Nat
  | .block i a o n => i :: (ids a ++ (preKeysOps o ++ preKeysBlocks n))
  | _ => []

/-- Region scoping (graph regions and any block order allowed): at the moment the walk looks an
operand or successor up, it is either registered already — `r` lists what is — or it is not
defined anywhere in the compared tree (`d` = all its definitions). -/
def scopedB (d : List Nat) : List Nat → T → Bool
  | _, .nil => true
  | r, .op h rs n =>
    let r1 := r ++ ids h.results
    (h.operands ++ h.succs).all (fun u => r1.contains u || !d.contains u)
      && scopedB d r1 rs && scopedB d (r1 ++ defs rs) n
  | r, .block i a o n =>
    scopedB d (r ++ (i :: (ids a ++ preKeysOps o))) o
      && scopedB d (r ++ (i :: (ids a ++ defs o))) n
  | r, .region bs n =>
    scopedB d (r ++ preKeysBlocks bs) bs && scopedB d (r ++ defs bs) n

def scopedRoot (a : T) : Bool := scopedB (defs a) [] a

/-- `op.clone()` / `block.clone()` / `region.clone()`: objects defined in the tree get the identity
`ρ` assigns, references to anything else are kept -/
def renId (d : List Nat) (ρ : Nat → Nat) (u : Nat) : Nat := if d.contains u then ρ u else u

def mapIds (f : Nat → Nat) (l : List (Nat × Nat)) : List (Nat × Nat) := l.map fun p => (f p.1, p.2)

def mapT (f : Nat → Nat) : T → T
  | .nil => .nil
  | .op h rs n =>
    .op { h with operands := h.operands.map f, results := mapIds f h.results, succs := h.succs.map f }
      (mapT f rs) (mapT f n)
  | .block i a o n => .block (f i) (mapIds f a) (mapT f o) (mapT f n)
  | .region bs n => .region (mapT f bs) (mapT f n)

def cloneT (ρ : Nat → Nat) (a : T) : T := mapT (renId (defs a) ρ) a

/-! ## Line protocol

`pair <tree> | <tree>` with trees in prefix form, all tokens natural numbers except the tags:
* `O name nOperands u… nResults (id ty)… nAttrs (k v)… nProps (k v)… nSuccs s… nRegions region…`
* `R nBlocks block…`
* `B id nArgs (id ty)… nOps op…`
Answer: `eq <b> iso <b> wf <b> scoped <b>`.  `clone <k> <tree>` answers the same four for the tree
and its clone under `ρ u = u + k`. -/

def takeNats : Nat → List String → Option (List Nat × List String)
  | 0, ts => some ([], ts)
  | n + 1, t :: ts =>
    match t.toNat?, takeNats n ts with
    | some x, some (xs, r) => some (x :: xs, r)
    | _, _ => none
  | _ + 1, [] => none

def takePairs : Nat → List String → Option (List (Nat × Nat) × List String)
  | 0, ts => some ([], ts)
  | n + 1, a :: b :: ts =>
    match a.toNat?, b.toNat?, takePairs n ts with
    | some x, some y, some (xs, r) => some ((x, y) :: xs, r)
    | _, _, _ => none
  | _ + 1, _ => none

def counted {α : Type} (f : Nat → List String → Option (α × List String)) :
    List String → Option (α × List String)
  | t :: ts => match t.toNat? with | some n => f n ts | none => none
  | [] => none

mutual
/-- `n` operations -/
def parseOps : Nat → Nat → List String → Option (T × List String)
  | 0, _, _ => none
  | _ + 1, 0, ts => some (.nil, ts)
  | fuel + 1, n + 1, "O" :: nm :: ts =>
    match nm.toNat?, counted takeNats ts with
    | some name, some (operands, ts) =>
      match counted takePairs ts with
      | some (results, ts) =>
        match counted takePairs ts with
        | some (attrs, ts) =>
          match counted takePairs ts with
          | some (props, ts) =>
            match counted takeNats ts with
            | some (succs, ts) =>
              match counted (parseRegions fuel) ts with
              | some (rs, ts) =>
                match parseOps fuel n ts with
                | some (rest, ts) => some (.op ⟨name, operands, results, attrs, props, succs⟩ rs rest, ts)
                | none => none
              | none => none
            | none => none
          | none => none
        | none => none
      | none => none
    | _, _ => none
  | _ + 1, _ + 1, _ => none
/-- `n` regions -/
def parseRegions : Nat → Nat → List String → Option (T × List String)
  | 0, _, _ => none
  | _ + 1, 0, ts => some (.nil, ts)
  | fuel + 1, n + 1, "R" :: ts =>
    match counted (parseBlocks fuel) ts with
    | some (bs, ts) =>
      match parseRegions fuel n ts with
      | some (rest, ts) => some (.region bs rest, ts)
      | none => none
    | none => none
  | _ + 1, _ + 1, _ => none
/-- `n` blocks -/
def parseBlocks : Nat → Nat → List String → Option (T × List String)
  | 0, _, _ => none
  | _ + 1, 0, ts => some (.nil, ts)
  | fuel + 1, n + 1, "B" :: i :: ts =>
    match i.toNat?, counted takePairs ts with
    | some i, some (args, ts) =>
      match counted (parseOps fuel) ts with
      | some (ops, ts) =>
        match parseBlocks fuel n ts with
        | some (rest, ts) => some (.block i args ops rest, ts)
        | none => none
      | none => none
    | _, _ => none
  | _ + 1, _ + 1, _ => none
end

def parseTree (ts : List String) : Option T :=
  let fuel := ts.length + 2
  let r := match ts with
    | "O" :: _ => parseOps fuel 1 ts
    | "R" :: _ => parseRegions fuel 1 ts
    | "B" :: _ => parseBlocks fuel 1 ts
    | _ => none
  match r with
  | some (t, []) => some t
  | _ => none

def splitBar : List String → List String × List String
  | [] => ([], [])
  | t :: ts => if t = "|" then ([], ts) else let (l, r) := splitBar ts; (t :: l, r)

def verdict (a b : T) : String :=
  s!"eq {showBool (structEq a b)} iso {showBool (isoDecide a b)} wf {showBool (wfB a && wfB b)} scoped {showBool (scopedRoot a)}"

def lineStep (s : Unit) (line : String) : Unit × String :=
  match words line with
  | ["reset"] => (s, "ok")
  | "pair" :: ts =>
    let (l, r) := splitBar ts
    (match parseTree l, parseTree r with
     | some a, some b => (s, verdict a b)
     | _, _ => (s, "bad-op"))
  | "clone" :: k :: ts =>
    (match k.toNat?, parseTree ts with
     | some k, some a => (s, verdict a (cloneT (· + k) a))
     | _, _ => (s, "bad-op"))
  | _ => (s, "bad-op")

end Xdsl.StructEq
