import XdslModel.Prelude
/-!
Two small pieces of the generic textual form (C04) in which text must pass through UNCHANGED:

* `printString` — `BasePrinter.print_string(text, indent=…)` (`xdsl/utils/base_printer.py`) with no
  pending next-line callback, as the characters that reach the stream: every line break of `text`
  is followed by `indent * indent_num_spaces` spaces.  (The two shortcuts of the real function —
  no line break in `text`; indentation 0 — print `text` itself, which is what this function gives
  in those cases: `printString_zero`, `printString_no_newline` in `XdslProofs/C04Verbatim.lean`.)
  The body of an unregistered attribute/type (`UnregisteredAttr.print_builtin`) is the verbatim
  source text found by the raw scanner of the parser; with the C04 repair it is printed with
  `indent=0`, i.e. `printString 0`.
* `lookup` — `Context.get_optional_op(name, dialect_stack=…)` (`xdsl/context.py`) in a context
  that allows unregistered operations: the name itself if registered, else the first
  `<dialect>.<name>` that is registered for the dialects of the enclosing operations (innermost
  first), else the unregistered operation of that name.  With the C04 repair
  `Parser.parse_operation` passes NO dialect stack for the quoted name of the generic form
  (`lookupGeneric`); the custom form keeps the stack.

Strings are `List Char`.
-/
namespace Xdsl.Verbatim

abbrev Str := List Char

/-- what `print_string(text, indent)` writes; `k = indent * indent_num_spaces` -/
def printString (k : Nat) : Str → Str
  | [] => []
  | c :: cs =>
    if c = '\n' then c :: (List.replicate k ' ' ++ printString k cs) else c :: printString k cs

/-- number of line breaks -/
def newlines : Str → Nat
  | [] => 0
  | c :: cs => (if c = '\n' then 1 else 0) + newlines cs

/-- `f"{dialect_name}.{name}"` -/
def qualify (d name : Str) : Str := d ++ '.' :: name

/-- `Context.get_optional_op` with `allow_unregistered`: (is a registered class, its name) -/
def lookup (known : List Str) (stack : List Str) (name : Str) : Bool × Str :=
  if name ∈ known then (true, name)
  else
    match (stack.reverse.map (qualify · name)).find? (fun n => decide (n ∈ known)) with
    | some n => (true, n)
    | none => (false, name)

/-- the lookup of the quoted operation name of the generic form (repaired parser) -/
def lookupGeneric (known : List Str) (name : Str) : Bool × Str := lookup known [] name

/-! ### names printed bare or quoted
`Printer.print_identifier_or_string_literal` (attribute / property dictionary keys, `DictionaryAttr`
keys, symbol names and `SymbolRefAttr` components) writes the name itself when
`MLIRLexer.bare_identifier_regex.fullmatch(name)` (`[a-zA-Z_][a-zA-Z0-9_$.]*`), a string literal
otherwise.  `lexBare` is what the lexer takes as a bare identifier at the start of a text
(`_lex_bare_identifier`: the first character, then the longest run of suffix characters). -/

/-- `[a-zA-Z_]` -/
def isIdStart (c : Char) : Bool := c.isAlpha || c == '_'
/-- `[a-zA-Z0-9_$.]` -/
def isIdChar (c : Char) : Bool := c.isAlphanum || c == '_' || c == '$' || c == '.'

/-- `bare_identifier_regex.fullmatch(name) is not None`: the name is printed unquoted -/
def isBare : Str → Bool
  | [] => false
  | c :: cs => isIdStart c && cs.all isIdChar

/-- the bare identifier the lexer reads at the start of `t` and the text left after it -/
def lexBare : Str → Option (Str × Str)
  | [] => none
  | c :: cs => if isIdStart c then some (c :: cs.takeWhile isIdChar, cs.dropWhile isIdChar) else none

/-! ### line protocol
`bare <cps>` → `bare` | `quoted`;  `pstr <k> <cps>` → code points written;  `lookup <known> <stack> <name>` / `glookup <known> <name>`
→ `reg <cps>` | `unreg <cps>`.  A string is a comma-separated list of code points (`-` = empty),
a list of strings is `;`-separated (`-` = empty list, `~` = the empty string inside a list). -/

def parseStr (s : String) : Option Str :=
  if s = "-" ∨ s = "~" then some []
  else (s.splitOn ",").filter (· ≠ "") |>.mapM (fun w => w.toNat?.map Char.ofNat)

def parseList (s : String) : Option (List Str) :=
  if s = "-" then some [] else (s.splitOn ";").filter (· ≠ "") |>.mapM parseStr

def showStr (s : Str) : String :=
  if s.isEmpty then "-" else ",".intercalate (s.map fun c => toString c.toNat)

def showLookup (r : Bool × Str) : String := (if r.1 then "reg " else "unreg ") ++ showStr r.2

def lineStep (st : Unit) (line : String) : Unit × String :=
  match words line with
  | ["reset"] => (st, "ok")
  | ["bare", cps] =>
    (match parseStr cps with
     | some s => (st, if isBare s then "bare" else "quoted")
     | none => (st, "bad-op"))
  | ["pstr", k, cps] =>
    (match k.toNat?, parseStr cps with
     | some k, some s => (st, showStr (printString k s))
     | _, _ => (st, "bad-op"))
  | ["lookup", kn, stk, nm] =>
    (match parseList kn, parseList stk, parseStr nm with
     | some kn, some stk, some nm => (st, showLookup (lookup kn stk nm))
     | _, _, _ => (st, "bad-op"))
  | ["glookup", kn, nm] =>
    (match parseList kn, parseStr nm with
     | some kn, some nm => (st, showLookup (lookupGeneric kn nm))
     | _, _ => (st, "bad-op"))
  | _ => (st, "bad-op")

end Xdsl.Verbatim
