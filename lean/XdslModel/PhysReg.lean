import XdslModel.Prelude
/-!
C19 — PHYSICAL identity of registers.

The IR mentions a register through a typed NAME: `t0` / `x5` (riscv.reg), `fa0` / `f10` (riscv.freg),
`rax` / `eax` / `ax` / `al` (x86.reg64 / reg32 / reg16 / reg8), `xmm3` / `ymm3` / `zmm3`
(x86.ssereg / avx2reg / avx512reg), and the infinite registers `j_n`, `fj_n`, `inf_reg_n`, `inf_reg32_n`,
…, `inf_avx512_n`.  Several names are views of ONE register of the machine: the property "no two
simultaneously live values hold the same physical register" speaks about `phys`, the register of the
machine (its number on the line protocol of the `regalloc*` models), never about names or types.

`RegisterStack` keeps its state per `register_pool_key` and `RegisterType.index`: `poolKey` /
`poolIndex` say what these must be — one pool per register FILE, whatever the width of the view.
Driver model `physreg`: `name <file> <width> <idx> <inf>` answers `phys <n> pool <file> <index>`.
-/
namespace Xdsl.PhysReg

/-- the register files: riscv x / f registers, x86 general-purpose and vector registers -/
inductive File
  | rvX | rvF | x86G | x86V
deriving Repr, DecidableEq

/-- a register as the IR names it -/
structure Name where
  file : File
  /-- width in bits of the view (riscv 32; x86 general-purpose 64 / 32 / 16 / 8; vector 128 / 256 / 512) -/
  width : Nat
  /-- finite register: its hardware index; infinite register: its number `n` (`j_n`, `inf_reg_n`, …) -/
  idx : Nat
  inf : Bool
deriving Repr, DecidableEq

def base : File → Nat
  | .rvX => 0 | .rvF => 100 | .x86G => 200 | .x86V => 300

def infBase : File → Nat
  | .rvX => 1000 | .rvF => 2000 | .x86G => 3000 | .x86V => 3500

/-- number of hardware registers of the file -/
def size : File → Nat
  | .rvX => 32 | .rvF => 32 | .x86G => 16 | .x86V => 32

/-- the register of the machine that a name denotes (protocol number); the width plays no role -/
def phys (n : Name) : Nat :=
  if n.inf then infBase n.file + n.idx else base n.file + n.idx

/-- `RegisterType.register_pool_key`: one pool per register file -/
def poolKey (n : Name) : File := n.file

/-- `RegisterType.index` (`~n` for the infinite register number n) -/
def poolIndex (n : Name) : Int :=
  if n.inf then -(n.idx : Int) - 1 else (n.idx : Int)

/-- names that exist: hardware index within the file; infinite numbers below the gap between the
protocol's infinite ranges -/
def wf (n : Name) : Bool :=
  if n.inf then decide (n.idx < 500) else decide (n.idx < size n.file)

def fileOfNat : Nat → Option File
  | 0 => some .rvX | 1 => some .rvF | 2 => some .x86G | 3 => some .x86V | _ => none

def File.toNat : File → Nat
  | .rvX => 0 | .rvF => 1 | .x86G => 2 | .x86V => 3

def lineStep (s : Unit) (line : String) : Unit × String :=
  match words line with
  | ["name", f, w, i, inf] =>
    match f.toNat?.bind fileOfNat, w.toNat?, i.toNat?, inf.toNat? with
    | some f, some w, some i, some b =>
      let n : Name := ⟨f, w, i, b != 0⟩
      if wf n then (s, s!"phys {phys n} pool {(poolKey n).toNat} {poolIndex n}") else (s, "no-such-register")
    | _, _, _, _ => (s, "bad-op")
  | _ => (s, "bad-op")

end Xdsl.PhysReg
