import XdslModel.Prelude
/-!
Model of `AttrParser._raw_scan_balanced` (`xdsl/parser/attribute_parser.py`, C07): the raw
character scan that finds the `>` closing the body of an unregistered dialect attribute / type
(`#dialect.name<...>`, `!dialect<name ...>`).  The parser calls it with the position just after the
opening `<`; the lexer is bypassed, so this loop is the only code that looks at the body.

The Python function is a character loop with a bracket stack (`nesting`) and an inner loop that
skips a string literal (a backslash skips the next character).  The model is one structurally
recursive function over the remaining code points with the two loops as a `Mode`:

* `norm` — the outer `while pos < length` loop;
* `str s` — the inner loop, entered at the opening quote at position `s`.

Input: code-point values only (no Python predicate is consulted by the code).  Positions are
absolute Python `str` indices.  Every call returns, next to the result, a *tick count*: one tick
per loop iteration (outer or inner) plus one for the test that ends the run.
`XdslProofs/C07Scan.lean` bounds it by `n + 1`.

Outcomes (the function returns a position or calls `raise_error`, i.e. raises `ParseError`):
`ok p` (position of the matching `>`), `unbalanced c p` ("Unbalanced '<c>' in dialect symbol
body" at `p`), `unterminated s` ("Unterminated string literal in dialect symbol body" at the
opening quote `s`), `eof` ("Unexpected end of file in dialect symbol body", reported at the
current token).
-/
namespace Xdsl.RawScan

inductive Res where
  | ok (pos : Nat)
  | unbalanced (c pos : Nat)
  | unterminated (start : Nat)
  | eof
deriving Repr, DecidableEq, Inhabited

inductive Mode where
  | norm
  | str (start : Nat)
deriving Repr, DecidableEq, Inhabited

/-- `c in "<([{"` -/
def isOpen (c : Nat) : Bool := c == 60 || c == 40 || c == 91 || c == 123
/-- `c in closers` (`>`, `)`, `]`, `}`) -/
def isClose (c : Nat) : Bool := c == 62 || c == 41 || c == 93 || c == 125
/-- `closers[c]` -/
def opener (c : Nat) : Nat :=
  if c == 62 then 60 else if c == 41 then 40 else if c == 93 then 91 else 123

@[inline] def tick (q : Res × Nat) : Res × Nat := (q.1, q.2 + 1)

/-- the two nested loops of `_raw_scan_balanced`; `pos` is the index of the head of the list -/
def go : Mode → List Nat → Nat → List Nat → Res × Nat
  | .norm, _, _, [] => (.eof, 1)
  | .str s, _, _, [] => (.unterminated s, 1)
  | .str s, st, pos, c :: r =>
    if c == 92 then
      -- `pos += 1`: the character after a backslash is skipped unread
      match r with
      | [] => (.unterminated s, 2)
      | _ :: r' => tick (go (.str s) st (pos + 2) r')
    else if c == 34 then tick (go .norm st (pos + 1) r)
    else tick (go (.str s) st (pos + 1) r)
  | .norm, st, pos, c :: r =>
    if isOpen c then tick (go .norm (c :: st) (pos + 1) r)
    else if c == 45 then
      -- `->` is skipped as a unit, a lone `-` is an ordinary character
      match r with
      | [] => (.eof, 2)
      | d :: r' =>
        if d == 62 then tick (go .norm st (pos + 2) r') else tick (go .norm st (pos + 1) (d :: r'))
    else if isClose c then
      match st with
      | [] => if c == 62 then (.ok pos, 1) else (.unbalanced c pos, 1)
      | top :: st' =>
        if top != opener c then (.unbalanced c pos, 1) else tick (go .norm st' (pos + 1) r)
    else if c == 34 then tick (go (.str pos) st (pos + 1) r)
    else tick (go .norm st (pos + 1) r)

/-- `_raw_scan_balanced(pos)` on `content`: the scan starts at `pos` (anything before it is not
looked at) -/
def scan (content : List Nat) (pos : Nat) : Res × Nat := go .norm [] pos (content.drop pos)

/-! ## Line protocol -/

def hexVal? (s : String) : Option Nat :=
  if s.isEmpty then none else
  s.toList.foldl (fun acc c =>
    acc.bind fun a =>
      let n := c.toNat
      if 48 ≤ n ∧ n ≤ 57 then some (16 * a + (n - 48))
      else if 97 ≤ n ∧ n ≤ 102 then some (16 * a + (n - 87))
      else none) (some 0)

def decCPs (ws : List String) : Option (List Nat) :=
  ws.foldr (fun w acc => match hexVal? w, acc with
    | some c, some l => some (c :: l)
    | _, _ => none) (some [])

def showRes : Res → String
  | .ok p => s!"ok {p}"
  | .unbalanced c p => s!"ERR:unbalanced:{c}:{p}"
  | .unterminated s => s!"ERR:unterminated:{s}"
  | .eof => "ERR:eof"

/-- `scan <pos> <hex code point>*` → `<result> steps <ticks> <code points from pos>` -/
def lineStep (s : Unit) (line : String) : Unit × String :=
  (s,
  match words line with
  | ["reset"] => "ok"
  | "scan" :: p :: ws =>
    (match p.toNat?, decCPs ws with
     | some pos, some cs =>
       let q := scan cs pos
       s!"{showRes q.1} steps {q.2} {cs.length - pos}"
     | _, _ => "bad-op")
  | _ => "bad-op")

end Xdsl.RawScan
