import XdslModel.Prelude
/-!
Model of symbol resolution (C29): `xdsl/utils/symbol_table.py` (`SymbolTable.lookup_symbol_in`,
`lookup_nearest_symbol_from`, `get_nearest_symbol_table`, `_lookup_symbol_in_direct_children`,
`_lookup_symbol_ref_in`, `SymbolTable.__init__/lookup`, `SymbolTableCollection`) and
`xdsl/traits.py` (`SymbolTable.lookup_symbol`, `SymbolTable.verify`, `SymbolOpInterface`).

An operation is a node with
* `isTable`   — the op has the `SymbolTable` trait,
* `isSymbol`  — the op has the `SymbolOpInterface` trait,
* `symName`   — its `sym_name` attribute/property when that is a `StringAttr` (names are numbered),
* `vis`       — its `sym_visibility` attribute/property (`none` = absent = public),
* `body`      — the operations of `regions[0].blocks[0]` (for a table: *the* table body),
* `rest`      — the operations of every other block / region (never consulted by a lookup, but
                lookups start from them and walk up).
A position in the tree is a path of child indices into `body ++ rest`; the parent walk of the
Python code is the chain of ancestors (innermost first) computed by `chainAt`.

The cache of `SymbolTableCollection` is only ever filled lazily from the unchanged IR, so it is
modelled as a function of the tree: `cachedTable` is the dict that `SymbolTable.__init__` builds
(insertion in block order, a later duplicate overwrites an earlier one).
-/
namespace Xdsl.SymbolTable

inductive Vis
  | pub | priv | nested
deriving Repr, DecidableEq

inductive Op where
  | mk (id : Nat) (isTable isSymbol : Bool) (symName : Option Nat) (vis : Option Vis)
       (body rest : List Op)
deriving Repr

namespace Op
def id : Op → Nat | mk i _ _ _ _ _ _ => i
def isTable : Op → Bool | mk _ t _ _ _ _ _ => t
def isSymbol : Op → Bool | mk _ _ s _ _ _ _ => s
def symName : Op → Option Nat | mk _ _ _ n _ _ _ => n
def vis : Op → Option Vis | mk _ _ _ _ v _ _ => v
def body : Op → List Op | mk _ _ _ _ _ b _ => b
def rest : Op → List Op | mk _ _ _ _ _ _ r => r
def children (o : Op) : List Op := o.body ++ o.rest
end Op

/-- `get_name_if_symbol`: the name, only for ops with `SymbolOpInterface` -/
def symbolName (o : Op) : Option Nat := if o.isSymbol then o.symName else none

/-- `SymbolTable.get_symbol_visibility`: absent means public -/
def visibility (o : Op) : Vis := o.vis.getD .pub

def isPrivate (o : Op) : Bool := visibility o == .priv

/-- `_lookup_symbol_in_direct_children`: first op of the table body with that symbol name -/
def directChild (t : Op) (n : Nat) : Option Op :=
  t.body.find? fun o => symbolName o == some n

/-- `SymbolTable.__init__`: `for op in block.ops: if name is not None: table[name] = op` -/
def cachedTable (t : Op) : AL Nat Op :=
  t.body.foldl (fun m o => match symbolName o with | some n => AL.set m n o | none => m) []

/-- `SymbolTableCollection.get_symbol_table(op).lookup(name)` -/
def cachedChild (t : Op) (n : Nat) : Option Op := AL.get (cachedTable t) n

/-- loop of `_lookup_symbol_ref_in` over `symbol.nested_references`; `acc` is `symbols` -/
def refNested (lk : Op → Nat → Option Op) : Op → List Nat → List Op → Option (List Op)
  | _, [], acc => some acc
  | cur, n :: ns, acc =>
    if !cur.isTable then none
    else match lk cur n with
      | none => none
      | some s => if isPrivate s then none else refNested lk s ns (acc ++ [s])

/-- `_lookup_symbol_ref_in(symbol_table_op, symbol, lookup_symbol)` -/
def refIn (lk : Op → Nat → Option Op) (t : Op) (root : Nat) (nested : List Nat) : Option (List Op) :=
  match lk t root with
  | none => none
  | some s => refNested lk s nested [s]

/-- the `symbol` argument: `str`/`StringAttr` (flat) or `SymbolRefAttr` -/
inductive Sym
  | flat (n : Nat)
  | ref (root : Nat) (nested : List Nat)
deriving Repr

def Sym.root : Sym → Nat | flat n => n | ref r _ => r
def Sym.nested : Sym → List Nat | flat _ => [] | ref _ ns => ns

/-- `lookup_symbol_in(op, symbol, all_symbols=True)` -/
def lookupAllIn (lk : Op → Nat → Option Op) (t : Op) : Sym → Option (List Op)
  | .flat n => (lk t n).map fun o => [o]
  | .ref r ns => refIn lk t r ns

/-- `lookup_symbol_in(op, symbol)` (`symbols[-1]`) -/
def lookupIn (lk : Op → Nat → Option Op) (t : Op) : Sym → Option Op
  | .flat n => lk t n
  | .ref r ns => (refIn lk t r ns).bind List.getLast?

/-- `get_nearest_symbol_table` on the ancestor chain (innermost first): first op that is a table -/
def nearestTable : List Op → Option Op
  | [] => none
  | o :: up => if o.isTable then some o else nearestTable up

/-- the op at `path` followed by its ancestors up to the root -/
def chainAt : Op → List Nat → List Op → Option (List Op)
  | o, [], acc => some (o :: acc)
  | o, i :: p, acc =>
    match o.children[i]? with
    | some c => chainAt c p (o :: acc)
    | none => none

/-- `lookup_nearest_symbol_from(from_op, symbol)` -/
def lookupNearest (lk : Op → Nat → Option Op) (chain : List Op) (s : Sym) : Option Op :=
  match nearestTable chain with
  | none => none
  | some t => lookupIn lk t s

/-- `traits.SymbolTable.lookup_symbol` after anchoring (FIXED code): one loop over
`(root_reference, *nested_references)`; from the second component on the current op must be a
symbol table and the op found must not be private. -/
def traitsGo (first : Bool) (tbl : Op) : List Nat → Option Op
  | [] => some tbl
  | n :: ns =>
    if !first && !tbl.isTable then none
    else match directChild tbl n with
      | none => none
      | some o => if !first && isPrivate o then none else traitsGo false o ns

inductive TraitsResult
  | found (o : Op) | notFound | valueError

/-- `traits.SymbolTable.lookup_symbol(op, name)`; `ValueError` when no ancestor is a table -/
def traitsLookup (chain : List Op) (s : Sym) : TraitsResult :=
  match nearestTable chain with
  | none => .valueError
  | some t => match traitsGo true t (s.root :: s.nested) with
    | some o => .found o
    | none => .notFound

/-- `sym_name in met_names` loop of `traits.SymbolTable.verify` (every op carrying a `sym_name`
StringAttr counts, whether or not it has the symbol interface) -/
def noDupNames : List Op → List Nat → Bool
  | [], _ => true
  | o :: os, met =>
    match o.symName with
    | none => noDupNames os met
    | some n => if met.contains n then false else noDupNames os (n :: met)

mutual
/-- the part of `Operation.verify()` that concerns symbol tables, recursively over the tree -/
def verifyB : Op → Bool
  | .mk _ t _ _ _ body rest => (!t || noDupNames body []) && verifyListB body && verifyListB rest
def verifyListB : List Op → Bool
  | [] => true
  | o :: os => verifyB o && verifyListB os
end

/-! ### declarative specification (the property sentence) -/

/-- `o` is a symbol operation named `n` held directly in the body of `t` -/
def Member (t : Op) (n : Nat) (o : Op) : Prop := o ∈ t.body ∧ symbolName o = some n

/-- following the nested components of a reference from the symbol `s` reached so far: `s` must be
a symbol table, the next component names one of its members, and that member is refused when it is
private ("refusing private symbols reached through nesting") -/
inductive Nested : Op → List Nat → Op → Prop
  | done (s : Op) : Nested s [] s
  | step {s o r : Op} {n : Nat} {ns : List Nat} :
      s.isTable = true → Member s n o → isPrivate o = false → Nested o ns r → Nested s (n :: ns) r

/-- resolution of `@root::@nested…` inside the table `t` -/
def ResolvesIn (t : Op) (root : Nat) (nested : List Nat) (r : Op) : Prop :=
  ∃ s, Member t root s ∧ Nested s nested r

/-- `t` is the nearest enclosing symbol table of the first element of the ancestor chain
(innermost first; the start operation itself counts) -/
def NearestTable (chain : List Op) (t : Op) : Prop :=
  ∃ pre post, chain = pre ++ t :: post ∧ t.isTable = true ∧ ∀ x ∈ pre, x.isTable = false

/-- "Looking up a flat or nested symbol reference from an operation returns the operation with that
name in the nearest enclosing symbol table (following nested tables and refusing private symbols
reached through nesting)" -/
def Resolves (chain : List Op) (s : Sym) (r : Op) : Prop :=
  ∃ t, NearestTable chain t ∧ ResolvesIn t s.root s.nested r

/-- `d` is `o` or nested (at any depth, through any region) inside `o` -/
inductive Sub : Op → Op → Prop
  | refl (o : Op) : Sub o o
  | step {o c d : Op} : c ∈ o.children → Sub c d → Sub o d

/-- each element is a child of the next one -/
def ParentChain : List Op → Prop
  | [] => True
  | [_] => True
  | c :: p :: r => c ∈ p.children ∧ ParentChain (p :: r)

/-- no two symbols of the table carry the same name -/
def UniqueSyms (t : Op) : Prop := ∀ n a b, Member t n a → Member t n b → a = b

/-- what a verified module guarantees to the resolvers: every table in it has unique names -/
def Verified (root : Op) : Prop := ∀ t, Sub root t → t.isTable = true → UniqueSyms t

/-! ### names are opaque tokens

The Python code handles a symbol name as a `str`; the model numbers the names.  That is adequate
exactly when the resolvers use nothing of a name but equality with other names: then respelling
the names of a tree and of the reference by any injective map changes no answer.  `Op.rename` is
that respelling (the `XdslProofs.C29` theorems `rename_*` state the invariance for every entry
point; the harness runs the real resolvers under many spellings of the same numbered tree). -/

mutual
/-- the same tree with every `sym_name` sent through `f` -/
def Op.rename (f : Nat → Nat) : Op → Op
  | .mk i t s n v body rest => .mk i t s (n.map f) v (renameList f body) (renameList f rest)
def renameList (f : Nat → Nat) : List Op → List Op
  | [] => []
  | o :: os => o.rename f :: renameList f os
end

/-- the same reference with every component sent through `f` -/
def Sym.rename (f : Nat → Nat) : Sym → Sym
  | .flat n => .flat (f n)
  | .ref r ns => .ref (f r) (ns.map f)

/-- `SymbolTable(op).lookup(name)`: the dict of `__init__`, plain names only -/
def tableLookup (t : Op) : Sym → Option (Option Op)
  | .flat n => some (cachedChild t n)
  | .ref _ _ => none

/-! ### line protocol -/

def parseVis : String → Option (Option Vis)
  | "_" => some none
  | "pub" => some (some .pub)
  | "priv" => some (some .priv)
  | "nest" => some (some .nested)
  | _ => none

def showVis : Vis → String
  | .pub => "pub" | .priv => "priv" | .nested => "nest"

def parseName (s : String) : Option (Option Nat) :=
  if s = "_" then some none else s.toNat?.map some

mutual
/-- op ::= id flags name vis nbody nrest op^nbody op^nrest; flags ∈ {TS,T-,-S,--} -/
def parseOp : Nat → List String → Option (Op × List String)
  | 0, _ => none
  | fuel + 1, i :: fl :: nm :: vs :: nb :: nr :: toks =>
    match i.toNat?, parseName nm, parseVis vs, nb.toNat?, nr.toNat? with
    | some i, some nm, some vs, some nb, some nr =>
      let flags : Option (Bool × Bool) := match fl with
        | "TS" => some (true, true) | "T-" => some (true, false)
        | "-S" => some (false, true) | "--" => some (false, false) | _ => none
      match flags with
      | none => none
      | some (t, s) =>
        match parseOps fuel nb toks with
        | none => none
        | some (body, toks) =>
          match parseOps fuel nr toks with
          | none => none
          | some (rest, toks) => some (.mk i t s nm vs body rest, toks)
    | _, _, _, _, _ => none
  | _ + 1, _ => none
def parseOps : Nat → Nat → List String → Option (List Op × List String)
  | 0, _, _ => none
  | _ + 1, 0, toks => some ([], toks)
  | fuel + 1, k + 1, toks =>
    match parseOp fuel toks with
    | none => none
    | some (o, toks) =>
      match parseOps fuel k toks with
      | none => none
      | some (os, toks) => some (o :: os, toks)
end

def parsePath (s : String) : Option (List Nat) :=
  if s = "r" then some [] else (s.splitOn ".").mapM String.toNat?

def parseSym (form : String) (names : List String) : Option Sym :=
  match names.mapM String.toNat? with
  | none => none
  | some [] => none
  | some (r :: ns) =>
    match form with
    | "s" => if ns.isEmpty then some (.flat r) else none
    | "a" => if ns.isEmpty then some (.flat r) else none
    | "r" => some (.ref r ns)
    | _ => none

def showOpt : Option Op → String
  | none => "none"
  | some o => toString o.id

def showList : Option (List Op) → String
  | none => "none"
  | some os => ",".intercalate (os.map fun o => toString o.id)

def showTraits : TraitsResult → String
  | .found o => toString o.id
  | .notFound => "none"
  | .valueError => "raise:ValueError"

abbrev State := Option Op

def lineStep (st : State) (line : String) : State × String :=
  match words line with
  | "tree" :: toks =>
    (match parseOp (toks.length + 1) toks with
     | some (o, []) => (some o, "ok")
     | _ => (none, "bad-op"))
  | ["verify"] =>
    (match st with
     | some root => (st, if verifyB root then "ok" else "raise:VerifyException")
     | none => (st, "bad-op"))
  | ["info", p] =>
    (match st, parsePath p with
     | some root, some p =>
       (match chainAt root p [] with
        | some (o :: _) =>
          (st, s!"id={o.id} table={showBool o.isTable} name={showOptNat (symbolName o)} vis={showVis (visibility o)}")
        | _ => (st, "bad-op"))
     | _, _ => (st, "bad-op"))
  | "q" :: p :: form :: names =>
    (match st, parsePath p, parseSym form names with
     | some root, some p, some s =>
       (match chainAt root p [] with
        | some (o :: up) =>
          let chain := o :: up
          let inPart :=
            if o.isTable then
              s!"di={showOpt (lookupIn directChild o s)} da={showList (lookupAllIn directChild o s)} " ++
              s!"ci={showOpt (lookupIn cachedChild o s)} ca={showList (lookupAllIn cachedChild o s)} " ++
              s!"tl={match tableLookup o s with | some r => showOpt r | none => "-"}"
            else "di=- da=- ci=- ca=- tl=-"
          (st, s!"near={showOpt (nearestTable chain)} dn={showOpt (lookupNearest directChild chain s)} " ++
               s!"cn={showOpt (lookupNearest cachedChild chain s)} cf={showOpt (lookupNearest cachedChild chain s)} " ++
               s!"tr={showTraits (traitsLookup chain s)} " ++ inPart)
        | _ => (st, "bad-op"))
     | _, _, _ => (st, "bad-op"))
  | ["reset"] => (none, "ok")
  | _ => (st, "bad-op")

end Xdsl.SymbolTable
