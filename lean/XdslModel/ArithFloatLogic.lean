/-!
Hand model of the *decision logic* of three float kernels of `xdsl/interpreters/arith.py`
(`ArithFunctions.run_minimumf`, `run_maximumf`, `run_cmpf`) over an abstract float type: the IEEE
primitives Python applies (`math.isnan`, `==`, `<`, `<=`, `== 0`, `copysign(1.0, ·) < 0`) are the
fields of `FloatOps`; Python's `x > y`, `x >= y`, `x != y` on floats are `lt y x`, `le y x`,
`!(eq x y)` (CPython `float_richcompare`), `min(a, b)` is `b if b < a else a`, `max(a, b)` is
`b if b > a else a` (CPython `min_max`: the first argument is kept unless strictly beaten).

Not translated from the source (the translator's fragment has no floats); tied to the real code by
the correspondence in `harness/props/c15.py` (driver model `arith_float_logic`, instance
`nativeOps` over Lean's binary64 `Float`).  Theorems: `XdslProofs/C15FloatLogic.lean`.
-/
namespace Xdsl.ArithFloatLogic

/-- the float primitives used by the three kernels -/
structure FloatOps (F : Type) where
  /-- `math.isnan(x)` -/
  isNaN : F → Bool
  /-- `x == y` -/
  eq : F → F → Bool
  /-- `x < y` -/
  lt : F → F → Bool
  /-- `x <= y` -/
  le : F → F → Bool
  /-- `x == 0` -/
  isZero : F → Bool
  /-- `copysign(1.0, x) < 0` -/
  signBit : F → Bool
  /-- `float("NaN")` -/
  nan : F
  /-- `0.0` -/
  pzero : F
  /-- `-0.0` -/
  nzero : F

variable {F : Type}

/-- Python `min(a, b)` -/
def pyMin (O : FloatOps F) (a b : F) : F := if O.lt b a then b else a
/-- Python `max(a, b)` -/
def pyMax (O : FloatOps F) (a b : F) : F := if O.lt a b then b else a

/-- `ArithFunctions.run_minimumf` -/
def run_minimumf (O : FloatOps F) (a b : F) : F :=
  if O.isNaN a || O.isNaN b then O.nan
  else if O.isZero a && O.isZero b then
    if O.signBit a || O.signBit b then O.nzero else O.pzero
  else pyMin O a b

/-- `ArithFunctions.run_maximumf` (`copysign(1.0, x) > 0` is `!signBit x`) -/
def run_maximumf (O : FloatOps F) (a b : F) : F :=
  if O.isNaN a || O.isNaN b then O.nan
  else if O.isZero a && O.isZero b then
    if !O.signBit a || !O.signBit b then O.pzero else O.nzero
  else pyMax O a b

/-- `ArithFunctions.run_cmpf`; `none` = `InterpretationError` (predicate outside 0..15) -/
def run_cmpf (O : FloatOps F) (p : Int) (x y : F) : Option Bool :=
  let o := !O.isNaN x && !O.isNaN y
  let u := O.isNaN x || O.isNaN y
  if p = 0 then some false
  else if p = 1 then some (O.eq x y && o)
  else if p = 2 then some (O.lt y x && o)
  else if p = 3 then some (O.le y x && o)
  else if p = 4 then some (O.lt x y && o)
  else if p = 5 then some (O.le x y && o)
  else if p = 6 then some (!O.eq x y && o)
  else if p = 7 then some o
  else if p = 8 then some (O.eq x y || u)
  else if p = 9 then some (O.lt y x || u)
  else if p = 10 then some (O.le y x || u)
  else if p = 11 then some (O.lt x y || u)
  else if p = 12 then some (O.le x y || u)
  else if p = 13 then some (!O.eq x y || u)
  else if p = 14 then some u
  else if p = 15 then some true
  else none

/-! ### instance over the machine's binary64 and the driver protocol -/

/-- Lean's `Float` (IEEE binary64, the representation of a Python `float`) -/
def nativeOps : FloatOps Float where
  isNaN := Float.isNaN
  eq := fun a b => a == b
  lt := fun a b => decide (a < b)
  le := fun a b => decide (a ≤ b)
  isZero := fun a => a == 0.0
  signBit := fun a => a.toBits >>> 63 == 1
  nan := 0.0 / 0.0
  pzero := 0.0
  nzero := -0.0

def showF (x : Float) : String :=
  if x.isNaN then "nan" else "f " ++ toString x.toBits.toNat

def readF (s : String) : Option Float := s.toNat?.map fun n => Float.ofBits (UInt64.ofNat n)

/-- which arm of the min/max decision tree is taken -/
def branch (O : FloatOps F) (a b : F) : String :=
  if O.isNaN a || O.isNaN b then "nan" else if O.isZero a && O.isZero b then "zeros" else "order"

/--
Protocol (floats travel as decimal binary64 bit patterns; NaN results are printed as `nan`):
* `minimumf a b` / `maximumf a b` → `<branch> f <bits>` | `<branch> nan`
* `cmpf p a b` → `bool true|false` | `none`
-/
def lineStep (st : Unit) (line : String) : Unit × String :=
  let ws := (line.splitOn " ").filter (· ≠ "")
  let out : String :=
    match ws with
    | ["reset"] => "ok"
    | ["minimumf", a, b] =>
      (match readF a, readF b with
       | some x, some y => branch nativeOps x y ++ " " ++ showF (run_minimumf nativeOps x y)
       | _, _ => "bad-op")
    | ["maximumf", a, b] =>
      (match readF a, readF b with
       | some x, some y => branch nativeOps x y ++ " " ++ showF (run_maximumf nativeOps x y)
       | _, _ => "bad-op")
    | ["cmpf", p, a, b] =>
      (match p.toInt?, readF a, readF b with
       | some p, some x, some y =>
         (match run_cmpf nativeOps p x y with
          | some r => "bool " ++ (if r then "true" else "false")
          | none => "none")
       | _, _, _ => "bad-op")
    | _ => "bad-op"
  (st, out)

end Xdsl.ArithFloatLogic
