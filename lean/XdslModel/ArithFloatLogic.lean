/-!
Hand model of the *decision logic* of six float kernels of `xdsl/interpreters/arith.py`
(`ArithFunctions.run_minimumf`, `run_maximumf`, `run_cmpf`, and `run_addf`, `run_subf`, `run_mulf` with
`_round_to_float_type`) over an abstract float type: the IEEE
primitives Python applies (`math.isnan`, `==`, `<`, `<=`, `== 0`, `copysign(1.0, ·) < 0`) are the
fields of `FloatOps`; Python's `x > y`, `x >= y`, `x != y` on floats are `lt y x`, `le y x`,
`!(eq x y)` (CPython `float_richcompare`), `min(a, b)` is `b if b < a else a`, `max(a, b)` is
`b if b > a else a` (CPython `min_max`: the first argument is kept unless strictly beaten).

Not translated from the source (the translator's fragment has no floats); tied to the real code by
the correspondence in `harness/props/c15.py` (driver model `arith_float_logic`, instance
`nativeOps` over Lean's binary64 `Float`).  Theorems: `XdslProofs/C15FloatLogic.lean`.
-/
namespace Xdsl.ArithFloatLogic

/-- the float primitives used by the three kernels -/
structure FloatOps (F : Type) where
  /-- `math.isnan(x)` -/
  isNaN : F → Bool
  /-- `x == y` -/
  eq : F → F → Bool
  /-- `x < y` -/
  lt : F → F → Bool
  /-- `x <= y` -/
  le : F → F → Bool
  /-- `x == 0` -/
  isZero : F → Bool
  /-- `copysign(1.0, x) < 0` -/
  signBit : F → Bool
  /-- `float("NaN")` -/
  nan : F
  /-- `0.0` -/
  pzero : F
  /-- `-0.0` -/
  nzero : F

variable {F : Type}

/-- Python `min(a, b)` -/
def pyMin (O : FloatOps F) (a b : F) : F := if O.lt b a then b else a
/-- Python `max(a, b)` -/
def pyMax (O : FloatOps F) (a b : F) : F := if O.lt a b then b else a

/-- `ArithFunctions.run_minimumf` -/
def run_minimumf (O : FloatOps F) (a b : F) : F :=
  if O.isNaN a || O.isNaN b then O.nan
  else if O.isZero a && O.isZero b then
    if O.signBit a || O.signBit b then O.nzero else O.pzero
  else pyMin O a b

/-- `ArithFunctions.run_maximumf` (`copysign(1.0, x) > 0` is `!signBit x`) -/
def run_maximumf (O : FloatOps F) (a b : F) : F :=
  if O.isNaN a || O.isNaN b then O.nan
  else if O.isZero a && O.isZero b then
    if !O.signBit a || !O.signBit b then O.pzero else O.nzero
  else pyMax O a b

/-- `ArithFunctions.run_cmpf`; `none` = `InterpretationError` (predicate outside 0..15) -/
def run_cmpf (O : FloatOps F) (p : Int) (x y : F) : Option Bool :=
  let o := !O.isNaN x && !O.isNaN y
  let u := O.isNaN x || O.isNaN y
  if p = 0 then some false
  else if p = 1 then some (O.eq x y && o)
  else if p = 2 then some (O.lt y x && o)
  else if p = 3 then some (O.le y x && o)
  else if p = 4 then some (O.lt x y && o)
  else if p = 5 then some (O.le x y && o)
  else if p = 6 then some (!O.eq x y && o)
  else if p = 7 then some o
  else if p = 8 then some (O.eq x y || u)
  else if p = 9 then some (O.lt y x || u)
  else if p = 10 then some (O.le y x || u)
  else if p = 11 then some (O.lt x y || u)
  else if p = 12 then some (O.le x y || u)
  else if p = 13 then some (!O.eq x y || u)
  else if p = 14 then some u
  else if p = 15 then some true
  else none

/-! ### instance over the machine's binary64 and the driver protocol -/

/-- Lean's `Float` (IEEE binary64, the representation of a Python `float`) -/
def nativeOps : FloatOps Float where
  isNaN := Float.isNaN
  eq := fun a b => a == b
  lt := fun a b => decide (a < b)
  le := fun a b => decide (a ≤ b)
  isZero := fun a => a == 0.0
  signBit := fun a => a.toBits >>> 63 == 1
  nan := 0.0 / 0.0
  pzero := 0.0
  nzero := -0.0

def showF (x : Float) : String :=
  if x.isNaN then "nan" else "f " ++ toString x.toBits.toNat

def readF (s : String) : Option Float := s.toNat?.map fun n => Float.ofBits (UInt64.ofNat n)

/-! ### the arithmetic kernels `run_addf`, `run_subf`, `run_mulf`

`_round_to_float_type(value, typ)`: the operation is carried out on Python floats (binary64); for a
result type narrower than binary64 (`isinstance(typ, Float32Type | Float16Type | BFloat16Type |
ReducedPrecisionFloatType)`) the result is re-packed in the type (`typ.unpack(typ.pack((value,)), 1)[0]`),
and the `OverflowError` that `struct.pack` raises for a finite value beyond the type's range becomes
`copysign(inf, value)`; for every other type the value is returned unchanged. -/

/-- the primitives used by the three arithmetic kernels; `Ty` = result types -/
structure RoundOps (F Ty : Type) where
  /-- `a + b`, `a - b`, `a * b` on Python floats -/
  add : F → F → F
  sub : F → F → F
  mul : F → F → F
  /-- the `isinstance` test of `_round_to_float_type` -/
  narrow : Ty → Bool
  /-- `typ.unpack(typ.pack((x,)), 1)[0]`; `none` = `OverflowError` -/
  repack : Ty → F → Option F
  /-- `copysign(inf, x)` -/
  copysignInf : F → F

variable {Ty : Type}

/-- `_round_to_float_type` -/
def round_to_float_type (R : RoundOps F Ty) (value : F) (ty : Ty) : F :=
  if R.narrow ty then
    match R.repack ty value with
    | some r => r
    | none => R.copysignInf value
  else value

/-- `ArithFunctions.run_addf` (`ty` = `op.result.type`) -/
def run_addf (R : RoundOps F Ty) (ty : Ty) (a b : F) : F := round_to_float_type R (R.add a b) ty
/-- `ArithFunctions.run_subf` -/
def run_subf (R : RoundOps F Ty) (ty : Ty) (a b : F) : F := round_to_float_type R (R.sub a b) ty
/-- `ArithFunctions.run_mulf` -/
def run_mulf (R : RoundOps F Ty) (ty : Ty) (a b : F) : F := round_to_float_type R (R.mul a b) ty

/-- which arm of `_round_to_float_type` is taken -/
def roundArm (R : RoundOps F Ty) (value : F) (ty : Ty) : String :=
  if R.narrow ty then (match R.repack ty value with | some _ => "rounded" | none => "overflow") else "wide"

/-- result types of the driver instance -/
inductive NTy | f32 | f64 | other
deriving DecidableEq, Repr

/-- instance over Lean's native floats: Python floats are `Float`; re-packing in `f32` is the
conversion `Float → Float32 → Float` (CPython `PyFloat_Pack4` raises `OverflowError` exactly when
the converted value is infinite and the argument is not). -/
def nativeRound : RoundOps Float NTy where
  add := fun a b => a + b
  sub := fun a b => a - b
  mul := fun a b => a * b
  narrow := fun t => t == .f32
  repack := fun t x =>
    match t with
    | .f32 =>
      let r := x.toFloat32.toFloat
      if r.isInf && !x.isInf then none else some r
    | _ => some x
  copysignInf := fun x => if x.toBits >>> 63 == 1 then -(1.0 / 0.0) else 1.0 / 0.0

def readTy (s : String) : Option NTy :=
  if s = "f32" then some .f32 else if s = "f64" then some .f64 else if s = "other" then some .other else none

/-- which arm of the min/max decision tree is taken -/
def branch (O : FloatOps F) (a b : F) : String :=
  if O.isNaN a || O.isNaN b then "nan" else if O.isZero a && O.isZero b then "zeros" else "order"

/--
Protocol (floats travel as decimal binary64 bit patterns; NaN results are printed as `nan`):
* `minimumf a b` / `maximumf a b` → `<branch> f <bits>` | `<branch> nan`
* `cmpf p a b` → `bool true|false` | `none`
* `addf|subf|mulf f32|f64|other a b` → `<wide|rounded|overflow> f <bits>` | `… nan`
-/
def lineStep (st : Unit) (line : String) : Unit × String :=
  let ws := (line.splitOn " ").filter (· ≠ "")
  let out : String :=
    match ws with
    | ["reset"] => "ok"
    | ["minimumf", a, b] =>
      (match readF a, readF b with
       | some x, some y => branch nativeOps x y ++ " " ++ showF (run_minimumf nativeOps x y)
       | _, _ => "bad-op")
    | ["maximumf", a, b] =>
      (match readF a, readF b with
       | some x, some y => branch nativeOps x y ++ " " ++ showF (run_maximumf nativeOps x y)
       | _, _ => "bad-op")
    | ["cmpf", p, a, b] =>
      (match p.toInt?, readF a, readF b with
       | some p, some x, some y =>
         (match run_cmpf nativeOps p x y with
          | some r => "bool " ++ (if r then "true" else "false")
          | none => "none")
       | _, _, _ => "bad-op")
    | [op, ty, a, b] =>
      (match readTy ty, readF a, readF b with
       | some t, some x, some y =>
         if op = "addf" then roundArm nativeRound (x + y) t ++ " " ++ showF (run_addf nativeRound t x y)
         else if op = "subf" then roundArm nativeRound (x - y) t ++ " " ++ showF (run_subf nativeRound t x y)
         else if op = "mulf" then roundArm nativeRound (x * y) t ++ " " ++ showF (run_mulf nativeRound t x y)
         else "bad-op"
       | _, _, _ => "bad-op")
    | _ => "bad-op"
  (st, out)

end Xdsl.ArithFloatLogic
