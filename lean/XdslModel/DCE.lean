import XdslModel.PostOrder
/-!
Model of dead-code elimination (C13): `xdsl/transforms/dead_code_elimination.py`
(`would_be_trivially_dead`, `result_only_effects`, `is_trivially_dead`, `LiveSet.propagate_*`,
`LiveSet.delete_dead`, `region_dce`, `DeadCodeElimination.apply`, `RemoveUnusedOperations`),
`get_effects` / `RecursiveMemoryEffect.get_effects` of `xdsl/traits.py`, with reachability through the
model of `PostOrderIterator` (`XdslModel/PostOrder.lean`, C24).

The model is the code AS FIXED by the two `fix:` commits of C13:
* `propagate_op_liveness` only descends into the regions of an operation that is live (the pinned
  code propagated liveness out of the regions of dead operations: the terminator of a dead `scf.if`
  kept the values used inside it alive, and so did dead cycles through a nested region);
* `DeadCodeElimination.apply` repeats `region_dce` until it reports no change.

IR trees: one non-nested inductive type whose constructors are list cells (operations of a block,
blocks of a region, regions of an operation), as in `StructEq.lean`.  Operations carry an id handed out
by the harness (unique in a program); an operand is the id of the operation defining it (block
arguments are not operations and are left out: liveness only ever looks at `use.operation` of results).

Not mirrored: the hash-set iteration of `_live_ops` (a set: only membership is used) and the
`changed` flag, which is `true` exactly when `set_live` added an element, i.e. when the set grew.
-/
namespace Xdsl.DCE
open Xdsl.Graph

/-- one `EffectInstance`: its kind, and for `ALLOC` whether a value is attached (`allocOn owner`:
the value is a result of operation `owner`) -/
inductive EffI where
  | read | write | free | alloc
  | allocOn (owner : Nat)
deriving Repr, DecidableEq, Inhabited

structure Hdr where
  id : Nat
  /-- ids of the operations defining the operands (block arguments omitted) -/
  operands : List Nat
  /-- `IsTerminator` -/
  term : Bool
  /-- `SymbolOpInterface` -/
  sym : Bool
  /-- union of the effects declared by the operation's own non-recursive `MemoryEffect` traits;
  `none`: no `MemoryEffect` trait at all (or one that answers `None`) -/
  eff : Option (List EffI)
  /-- `RecursiveMemoryEffect` -/
  recursive : Bool
  /-- successor blocks (indices in the enclosing region) -/
  succs : List Nat
deriving Repr, DecidableEq, Inhabited

inductive T where
  | nil
  /-- operation cell: header, its regions, the following operations of the block -/
  | op (h : Hdr) (regions : T) (next : T)
  /-- block cell: its operations, the following blocks of the region -/
  | block (ops : T) (next : T)
  /-- region cell: its blocks, the following regions of the operation -/
  | region (blocks : T) (next : T)
deriving Repr, DecidableEq, Inhabited

/-- the three kinds of sequence -/
inductive Srt where
  | ops | blocks | regions
deriving Repr, DecidableEq

/-- the tree is well-sorted: operations hold regions, regions hold blocks, blocks hold operations
(the parser only builds such trees) -/
def ws : T → Srt → Bool
  | .nil, _ => true
  | .op _ rs next, .ops => ws rs .regions && ws next .ops
  | .block ops next, .blocks => ws ops .ops && ws next .blocks
  | .region bs next, .regions => ws bs .blocks && ws next .regions
  | _, _ => false

/-- all operation headers in the tree (pre-order) -/
def allHdrs : T → List Hdr
  | .nil => []
  | .op h rs next => h :: (allHdrs rs ++ allHdrs next)
  | .block ops next => allHdrs ops ++ allHdrs next
  | .region bs next => allHdrs bs ++ allHdrs next

def allIds (t : T) : List Nat := (allHdrs t).map (·.id)

/-- number of operation and block cells -/
def size : T → Nat
  | .nil => 0
  | .op _ rs next => 1 + size rs + size next
  | .block ops next => 1 + size ops + size next
  | .region bs next => size bs + size next

/-! ## `get_effects`, `would_be_trivially_dead` -/

/-- `get_effects(op)` from the header and the union over the contained operations -/
def opEff (h : Hdr) (inner : Option (List EffI)) : Option (List EffI) :=
  match h.eff with
  | none => none
  | some own => if h.recursive then inner.map (own ++ ·) else some own

/-- union of `get_effects(child)` over all operations directly in the blocks of the regions of the
tree (`RecursiveMemoryEffect.get_effects`: all blocks, reachable or not); `none` if one is unknown -/
def effAll : T → Option (List EffI)
  | .nil => some []
  | .op h rs next =>
    match opEff h (effAll rs), effAll next with
    | some a, some b => some (a ++ b)
    | _, _ => none
  | .block ops next =>
    match effAll ops, effAll next with
    | some a, some b => some (a ++ b)
    | _, _ => none
  | .region bs next =>
    match effAll bs, effAll next with
    | some a, some b => some (a ++ b)
    | _, _ => none

/-- the effect is not observable from outside `rootOp`: `READ`, or `ALLOC` of a value defined by
`rootOp` or below (`rootOp.is_ancestor(v.owner)`); `inside` = ids of `rootOp` and its descendants -/
def effOk (inside : List Nat) : EffI → Bool
  | .read => true
  | .allocOn o => inside.contains o
  | _ => false

/-- `result_only_effects(rootOp)` -/
def resultOnlyEffects (h : Hdr) (rs : T) : Bool :=
  match opEff h (effAll rs) with
  | none => false
  | some es => es.all (effOk (h.id :: allIds rs))

/-- `would_be_trivially_dead(op)` -/
def wbd (h : Hdr) (rs : T) : Bool := !h.term && !h.sym && resultOnlyEffects h rs

/-! ## region graphs -/

/-- `block.last_op.successors` if the last operation is a terminator, else nothing
(`PostOrderIterator.__next__`) -/
def lastSuccs : T → List Nat
  | .op h _ .nil => if h.term then h.succs else []
  | .op _ _ next => lastSuccs next
  | _ => []

def graphOf : T → Graph
  | .block ops next => lastSuccs ops :: graphOf next
  | _ => []

/-- blocks yielded by `PostOrderIterator(region.first_block)`, in that order -/
def reachSet (blocks : T) : List Nat := (PostOrder.postOrder (graphOf blocks) 0).1

/-- every region of the tree has a well-formed graph (successors inside the region) and the
iteration over it finishes within its fuel -/
def wfT : T → Bool
  | .nil => true
  | .op _ rs next => wfT rs && wfT next
  | .block ops next => wfT ops && wfT next
  | .region bs next =>
    (bs == .nil || (Graph.wf (graphOf bs) && (PostOrder.postOrder (graphOf bs) 0).2))
      && wfT bs && wfT next

/-! ## liveness -/

/-- `any(self.is_live(use.operation) for result in op.results for use in result.uses)` -/
def hasLiveUser (root : T) (live : List Nat) (i : Nat) : Bool :=
  (allHdrs root).any fun u => u.operands.contains i && live.contains u.id

/-- One pass of `propagate_region_liveness`.  On an operation list: `for operation in
reversed(block.ops): propagate_op_liveness(operation)`; on a region list: `for region in op.regions:
propagate_region_liveness(region)`, which visits the blocks in post-order; on a block list with
`some k`: the operations of the `k`-th block of the list.  `live` is `_live_ops` (most recent first). -/
def pass (root : T) : T → Option Nat → List Nat → List Nat
  | .nil, _, live => live
  | .op h rs next, _, live =>
    let l1 := pass root next none live
    if l1.contains h.id then pass root rs none l1
    else if !(wbd h rs) || hasLiveUser root l1 h.id then pass root rs none (h.id :: l1)
    else l1
  | .block ops _, some 0, live => pass root ops none live
  | .block _ next, some (k + 1), live => pass root next (some k) live
  | .block _ _, none, live => live
  | .region bs next, _, live =>
    pass root next none ((reachSet bs).foldl (fun l b => pass root bs (some b) l) live)

/-- `while live_set.changed: live_set.changed = False; propagate_region_liveness(region)`;
answers (`_live_ops`, number of passes, loop left within the fuel) -/
def liveLoop (root : T) : Nat → List Nat → Nat → List Nat × Nat × Bool
  | 0, live, n => (live, n, false)
  | fuel + 1, live, n =>
    let l' := pass root root none live
    if l'.length == live.length then (l', n + 1, true) else liveLoop root fuel l' (n + 1)

def liveSet (root : T) : List Nat := (liveLoop root ((allHdrs root).length + 1) [] 0).1

/-! ## deletion -/

/-- `any(self.is_live(op) for op in block.ops)` -/
def anyLive (live : List Nat) : T → Bool
  | .op h _ next => live.contains h.id || anyLive live next
  | _ => false

/-- which blocks of a block list `delete_dead` keeps: the entry block, and every block with a live
operation -/
def keepMask (live : List Nat) : T → Bool → List Bool
  | .block ops next, first => (first || anyLive live ops) :: keepMask live next false
  | _, _ => []

/-- position of block `i` once the blocks not in `mask` are gone (successors are block objects in
the code; the model names a block by its position in the region) -/
def renum (mask : List Bool) (i : Nat) : Nat := ((mask.take i).filter id).length

/-- `delete_dead`; `first`: the block list starts with the entry block of its region; `mask`: the
kept blocks of the enclosing region (to rename the successors of the kept operations) -/
def del (live : List Nat) : T → Bool → List Bool → T
  | .nil, _, _ => .nil
  | .op h rs next, _, mask =>
    if live.contains h.id then
      .op { h with succs := h.succs.map (renum mask) } (del live rs true []) (del live next false mask)
    else del live next false mask
  | .block ops next, first, mask =>
    if !first && !anyLive live ops then del live next false mask
    else .block (del live ops false mask) (del live next false mask)
  | .region bs next, _, _ => .region (del live bs true (keepMask live bs true)) (del live next true [])

/-- `region_dce(region)`: the resulting tree and the returned `changed` (`delete_dead` sets it when
it erases a block or an operation; when nothing is erased the IR is not touched) -/
def dceOnce (root : T) : T × Bool :=
  let r := del (liveSet root) root true []
  if size r == size root then (root, false) else (r, true)

/-- `DeadCodeElimination.apply`: `while region_dce(op.body): pass`; answers the tree, the number of
calls of `region_dce`, and whether the loop ended within the fuel -/
def dceLoop : Nat → T → Nat → T × Nat × Bool
  | 0, t, n => (t, n, false)
  | fuel + 1, t, n =>
    let r := dceOnce t
    if r.2 then dceLoop fuel r.1 (n + 1) else (r.1, n + 1, true)

def dce (root : T) : T × Nat × Bool := dceLoop (size root + 1) root 0

/-! ## trivially dead operations (`is_trivially_dead`; `RemoveUnusedOperations`, and the first step
of `GreedyRewritePatternApplier.match_and_rewrite`) -/

/-- some result of operation `i` has a use -/
def isUsed (root : T) (i : Nat) : Bool := (allHdrs root).any fun u => u.operands.contains i

/-- `is_trivially_dead(op)` -/
def trivDead (root : T) (h : Hdr) (rs : T) : Bool := !isUsed root h.id && wbd h rs

/-- erase every operation that is trivially dead in `root` -/
def trivDel (root : T) : T → T
  | .nil => .nil
  | .op h rs next =>
    if trivDead root h rs then trivDel root next else .op h (trivDel root rs) (trivDel root next)
  | .block ops next => .block (trivDel root ops) (trivDel root next)
  | .region bs next => .region (trivDel root bs) (trivDel root next)

/-- the fixpoint the rewrite walker reaches (it erases one operation at a time and revisits the
operands' owners; erasing trivially dead operations is confluent) -/
def trivLoop : Nat → T → T × Bool
  | 0, t => (t, false)
  | fuel + 1, t =>
    let r := trivDel t t
    if size r == size t then (t, true) else trivLoop fuel r

def triv (root : T) : T × Bool := trivLoop (size root + 1) root

/-! ## line protocol
Trees in prefix form:
* `O id nOperands u… term sym eff rec nSuccs s… nRegions region…` with `term/sym/rec` ∈ `0 1`, and
  `eff` = `U` (unknown) or `K n e…`, `e` ∈ `r w f a A<owner>`
* `R nBlocks block…`
* `B nOps op…`
Commands (the tree is one region, e.g. the module body):
* `wbd <tree>`  → `wbd id=b …` for every operation (pre-order)
* `live <tree>` → `live <passes> <sorted ids>`
* `once <tree>` → `once <changed> <tree'>`   (`region_dce`)
* `dce <tree>`  → `dce <calls> <tree'>`      (`DeadCodeElimination.apply`)
* `triv <tree>` → `triv <tree'>`
-/

def takeNats : Nat → List String → Option (List Nat × List String)
  | 0, ts => some ([], ts)
  | n + 1, t :: ts =>
    match t.toNat?, takeNats n ts with
    | some x, some (xs, r) => some (x :: xs, r)
    | _, _ => none
  | _ + 1, [] => none

def parseEffI (s : String) : Option EffI :=
  if s = "r" then some .read
  else if s = "w" then some .write
  else if s = "f" then some .free
  else if s = "a" then some .alloc
  else if s.startsWith "A" then ((s.drop 1).toString.toNat?).map .allocOn
  else none

def takeEffs : Nat → List String → Option (List EffI × List String)
  | 0, ts => some ([], ts)
  | n + 1, t :: ts =>
    match parseEffI t, takeEffs n ts with
    | some x, some (xs, r) => some (x :: xs, r)
    | _, _ => none
  | _ + 1, [] => none

def counted {α : Type} (f : Nat → List String → Option (α × List String)) :
    List String → Option (α × List String)
  | t :: ts => match t.toNat? with | some n => f n ts | none => none
  | [] => none

def parseBit : String → Option Bool
  | "0" => some false
  | "1" => some true
  | _ => none

def parseEff : List String → Option (Option (List EffI) × List String)
  | "U" :: ts => some (none, ts)
  | "K" :: ts => (counted takeEffs ts).map fun (es, r) => (some es, r)
  | _ => none

mutual
def parseOps : Nat → Nat → List String → Option (T × List String)
  | 0, _, _ => none
  | _ + 1, 0, ts => some (.nil, ts)
  | fuel + 1, n + 1, "O" :: i :: ts =>
    match i.toNat?, counted takeNats ts with
    | some id, some (operands, tm :: sy :: ts) =>
      match parseBit tm, parseBit sy, parseEff ts with
      | some term, some sym, some (eff, rc :: ts) =>
        match parseBit rc, counted takeNats ts with
        | some recursive, some (succs, ts) =>
          match counted (parseRegions fuel) ts with
          | some (rs, ts) =>
            match parseOps fuel n ts with
            | some (rest, ts) => some (.op ⟨id, operands, term, sym, eff, recursive, succs⟩ rs rest, ts)
            | none => none
          | none => none
        | _, _ => none
      | _, _, _ => none
    | _, _ => none
  | _ + 1, _ + 1, _ => none
def parseRegions : Nat → Nat → List String → Option (T × List String)
  | 0, _, _ => none
  | _ + 1, 0, ts => some (.nil, ts)
  | fuel + 1, n + 1, "R" :: ts =>
    match counted (parseBlocks fuel) ts with
    | some (bs, ts) =>
      match parseRegions fuel n ts with
      | some (rest, ts) => some (.region bs rest, ts)
      | none => none
    | none => none
  | _ + 1, _ + 1, _ => none
def parseBlocks : Nat → Nat → List String → Option (T × List String)
  | 0, _, _ => none
  | _ + 1, 0, ts => some (.nil, ts)
  | fuel + 1, n + 1, "B" :: ts =>
    match counted (parseOps fuel) ts with
    | some (ops, ts) =>
      match parseBlocks fuel n ts with
      | some (rest, ts) => some (.block ops rest, ts)
      | none => none
    | none => none
  | _ + 1, _ + 1, _ => none
end

/-- one region -/
def parseTree (ts : List String) : Option T :=
  match parseRegions (ts.length + 2) 1 ts with
  | some (t, []) => some t
  | _ => none

def len : T → Nat
  | .nil => 0
  | .op _ _ next => 1 + len next
  | .block _ next => 1 + len next
  | .region _ next => 1 + len next

def showEffI : EffI → String
  | .read => "r" | .write => "w" | .free => "f" | .alloc => "a"
  | .allocOn o => s!"A{o}"

def showNats (l : List Nat) : List String := toString l.length :: l.map toString

def showBit (b : Bool) : String := if b then "1" else "0"

def showT : T → List String
  | .nil => []
  | .op h rs next =>
    ["O", toString h.id] ++ showNats h.operands ++ [showBit h.term, showBit h.sym]
      ++ (match h.eff with
          | none => ["U"]
          | some es => "K" :: toString es.length :: es.map showEffI)
      ++ [showBit h.recursive] ++ showNats h.succs ++ [toString (len rs)] ++ showT rs ++ showT next
  | .block ops next => ["B", toString (len ops)] ++ showT ops ++ showT next
  | .region bs next => ["R", toString (len bs)] ++ showT bs ++ showT next

def showTree (t : T) : String := " ".intercalate (showT t)

/-- `would_be_trivially_dead` of every operation, pre-order -/
def wbdAll : T → List (Nat × Bool)
  | .nil => []
  | .op h rs next => (h.id, wbd h rs) :: (wbdAll rs ++ wbdAll next)
  | .block ops next => wbdAll ops ++ wbdAll next
  | .region bs next => wbdAll bs ++ wbdAll next

def insertSorted (x : Nat) : List Nat → List Nat
  | [] => [x]
  | y :: ys => if x ≤ y then x :: y :: ys else y :: insertSorted x ys

def sortNats (l : List Nat) : List Nat := l.foldr insertSorted []

def nodupB : List Nat → Bool
  | [] => true
  | x :: xs => !xs.contains x && nodupB xs

/-- accepted input: one region, unique ids, well-formed region graphs -/
def okTree (t : T) : Bool := ws t .regions && nodupB (allIds t) && wfT t

def lineStep (s : Unit) (line : String) : Unit × String :=
  match words line with
  | ["reset"] => (s, "ok")
  | cmd :: ts =>
    match parseTree ts with
    | some t =>
      if !okTree t then (s, "bad-op")
      else if cmd = "wbd" then
        (s, " ".intercalate ("wbd" :: (wbdAll t).map fun (i, b) => s!"{i}={showBit b}"))
      else if cmd = "live" then
        let r := liveLoop t ((allHdrs t).length + 1) [] 0
        if r.2.2 then (s, " ".intercalate ("live" :: toString r.2.1 :: (sortNats r.1).map toString))
        else (s, "not-converged")
      else if cmd = "once" then
        let r := dceOnce t
        (s, s!"once {showBit r.2} " ++ showTree r.1)
      else if cmd = "dce" then
        let r := dce t
        if r.2.2 then (s, s!"dce {r.2.1} " ++ showTree r.1) else (s, "not-converged")
      else if cmd = "triv" then
        let r := triv t
        if r.2 then (s, "triv " ++ showTree r.1) else (s, "not-converged")
      else (s, "bad-op")
    | none => (s, "bad-op")
  | _ => (s, "bad-op")

end Xdsl.DCE
