import XdslModel.Prelude
/-!
Model of `xdsl/utils/arg_spec.py` (C18): the pipeline lexer (`_lexer_rules`, tried in priority
order at every position), the recursive-descent parser (`parse_pipeline`, `_parse_spec`,
`_parse_pass_parameters`, `_parse_parameter_value(_element)`), the printer (`ArgSpec.__str__`,
`_spec_parameter_type_str`) and the typed conversion (`_convert_arg_to_type`,
`ArgSpecConvertible.from_spec/spec`).

Text is `List Char`.  Floats are an abstract type `F`: the parser only ever calls Python's
`float(text)` (`ofText`), the printer only `repr(x)` (`repr`); the executable instance used by the
driver takes `F := List Char` (the text itself, compared on the Python side through `float()`).

The model follows the code *with the C18 repairs* (strings escaped on print / unescaped by the
escape set of the lexer rule; `1e-05`-style reprs printed as `1.0e-05`; `inf`, `-inf`, `nan`
identifiers read as floats; `()` accepted for a union that contains a tuple type but not `None`).
-/
namespace Xdsl.ArgSpec

/-! ## Character classes (as used by the regular expressions) -/

/-- `[0-9]` -/
def isDigit (c : Char) : Bool := decide (48 ≤ c.toNat) && decide (c.toNat ≤ 57)
/-- `[A-Za-z]` -/
def isLetter (c : Char) : Bool :=
  (decide (65 ≤ c.toNat) && decide (c.toNat ≤ 90)) || (decide (97 ≤ c.toNat) && decide (c.toNat ≤ 122))
/-- `[A-Za-z_-]` -/
def isIdentStart1 (c : Char) : Bool := isLetter c || c.toNat == 95 || c.toNat == 45
/-- `[A-Za-z0-9_-]` -/
def isIdentChar (c : Char) : Bool := isLetter c || isDigit c || c.toNat == 95 || c.toNat == 45
/-- `\s` of Python's `re` on `str` patterns (= `str.isspace`); checked against CPython for every
code point by the harness. -/
def isSpace (c : Char) : Bool :=
  let n := c.toNat
  (decide (9 ≤ n) && decide (n ≤ 13)) || (decide (28 ≤ n) && decide (n ≤ 32)) || n == 0x85 || n == 0xA0
    || n == 0x1680 || (decide (0x2000 ≤ n) && decide (n ≤ 0x200A)) || n == 0x2028 || n == 0x2029
    || n == 0x202F || n == 0x205F || n == 0x3000
/-- the second character of an escape `\\[nfvtr"\\]` -/
def isEscapable (c : Char) : Bool :=
  c == 'n' || c == 'f' || c == 'v' || c == 't' || c == 'r' || c == '"' || c == '\\'
/-- characters excluded from the raw alternative `[^\n\f\v\r"\\]` (the closing delimiter and the
backslash are tested separately) -/
def isLineBreak (c : Char) : Bool := c.toNat == 10 || c.toNat == 12 || c.toNat == 11 || c.toNat == 13

/-! ## Matchers: length of the match of one lexer rule at the start of the input -/

/-- length of the longest prefix whose characters satisfy `p` (a greedy `[...]*`) -/
def countWhile (p : Char → Bool) : List Char → Nat
  | [] => 0
  | c :: r => if p c then countWhile p r + 1 else 0

/-- rule 1: `[0-9]+[A-Za-z_-]+[A-Za-z0-9_-]*` → IDENT -/
def matchIdent1 (s : List Char) : Option Nat :=
  let n := countWhile isDigit s
  if n = 0 then none else
  match s.drop n with
  | c :: r => if isIdentStart1 c then some (n + 1 + countWhile isIdentChar r) else none
  | [] => none

/-- `[-+]?` -/
def optSign : List Char → Nat
  | c :: _ => if c == '-' || c == '+' then 1 else 0
  | [] => 0

/-- `([eE][-+]?[0-9]+)?` -/
def matchExp : List Char → Nat
  | c :: r =>
    if c == 'e' || c == 'E' then
      let sg := optSign r
      let k := countWhile isDigit (r.drop sg)
      if k = 0 then 0 else 1 + sg + k
    else 0
  | [] => 0

/-- rule 2: `[-+]?[0-9]+(\.[0-9]*([eE][-+]?[0-9]+)?)?` → NUMBER -/
def matchNumber (s : List Char) : Option Nat :=
  let sg := optSign s
  let s1 := s.drop sg
  let n := countWhile isDigit s1
  if n = 0 then none else
  match s1.drop n with
  | c :: s3 =>
    if c == '.' then
      let m := countWhile isDigit s3
      some (sg + n + 1 + m + matchExp (s3.drop m))
    else some (sg + n)
  | [] => some (sg + n)

/-- rule 3: `[A-Za-z0-9_-]+` → IDENT -/
def matchIdent (s : List Char) : Option Nat :=
  let n := countWhile isIdentChar s
  if n = 0 then none else some n

/-- `(\\[nfvtr"\\]|[^\n\f\v\r<close>\\])*<close>` after the opening delimiter; the result counts the
closing delimiter.  The two alternatives start with different characters, so the regex engine never
finds a match by backtracking that this left-to-right scan misses. -/
def scanBody (close : Char) : List Char → Option Nat
  | [] => none
  | c :: r =>
    if c == close then some 1
    else if c == '\\' then
      match r with
      | e :: r' => if isEscapable e then (scanBody close r').map (· + 2) else none
      | [] => none
    else if isLineBreak c then none
    else (scanBody close r).map (· + 1)

/-- rule 4: `"(\\[nfvtr"\\]|[^\n\f\v\r"\\])*"` → STRING_LIT -/
def matchString : List Char → Option Nat
  | c :: r => if c == '"' then (scanBody '"' r).map (· + 1) else none
  | [] => none

/-- rule 5: `\[(\\[nfvtr"\\]|[^\n\f\v\r\]\\])*\]` → MLIR_PIPELINE -/
def matchMlir : List Char → Option Nat
  | c :: r => if c == '[' then (scanBody ']' r).map (· + 1) else none
  | [] => none

inductive Kind
  | eof | ident | lbrace | rbrace | equals | number | space | stringLit | mlirPipeline | comma
  /-- not a Python token kind: marks the position at which no rule matches (the lexer raises
  `ArgSpecParseError("Unknown token")` when this token is requested) -/
  | bad
  deriving DecidableEq, Repr, Inhabited

/-- rules 6–10: `{`, `}`, `=`, `\s+`, `,` -/
def matchPunct : List Char → Option (Kind × Nat)
  | c :: r =>
    if c == '{' then some (.lbrace, 1)
    else if c == '}' then some (.rbrace, 1)
    else if c == '=' then some (.equals, 1)
    else if isSpace c then some (.space, 1 + countWhile isSpace r)
    else if c == ',' then some (.comma, 1)
    else none
  | [] => none

/-- the first rule (in the order of `_lexer_rules`) that matches, with the length of its match -/
def nextToken (s : List Char) : Option (Kind × Nat) :=
  match matchIdent1 s with
  | some n => some (.ident, n)
  | none =>
  match matchNumber s with
  | some n => some (.number, n)
  | none =>
  match matchIdent s with
  | some n => some (.ident, n)
  | none =>
  match matchString s with
  | some n => some (.stringLit, n)
  | none =>
  match matchMlir s with
  | some n => some (.mlirPipeline, n)
  | none => matchPunct s

structure Token where
  kind : Kind
  text : List Char
  deriving DecidableEq, Repr, Inhabited

/-- `PipelineLexer._generator`: the whole token stream.  It ends with `eof`, or with `bad` (whose
text is the unlexable remainder) where Python raises.  Tokens are contiguous, so the start offset
of a token is the total length of the tokens before it. -/
def lexAll (s : List Char) : List Token :=
  match s with
  | [] => [⟨.eof, []⟩]
  | c :: r =>
    match nextToken (c :: r) with
    | none => [⟨.bad, c :: r⟩]
    | some (k, n) => ⟨k, (c :: r).take n⟩ :: lexAll (r.drop (n - 1))
termination_by s.length
decreasing_by simp only [List.length_drop, List.length_cons]; omega

/-! ## Values, specs -/

/-- `ParameterType = str | int | bool | float` -/
inductive PVal (F : Type) where
  | str (s : List Char)
  | int (i : Int)
  | bool (b : Bool)
  | float (f : F)
  deriving DecidableEq, Repr

/-- `ArgSpec`: name and the parameter dictionary in insertion order -/
structure Spec (F : Type) where
  name : List Char
  params : List (List Char × List (PVal F))
  deriving DecidableEq, Repr

/-- Python `d[k] = v` on an insertion-ordered dict -/
def dictSet {α β : Type} [DecidableEq α] : List (α × β) → α → β → List (α × β)
  | [], k, v => [(k, v)]
  | (a, b) :: r, k, v => if a = k then (a, v) :: r else (a, b) :: dictSet r k v

/-! ## Scalars: ints, escapes, floats -/

def digitVal (c : Char) : Nat := c.toNat - 48
def valDigits (ds : List Char) : Nat := ds.foldl (fun a c => 10 * a + digitVal c) 0

/-- Python `int(text)` for a NUMBER token without `.`: `[-+]?[0-9]+` -/
def parseInt : List Char → Int
  | [] => 0
  | c :: ds =>
    if c == '-' then - (valDigits ds : Int)
    else if c == '+' then (valDigits ds : Int)
    else (valDigits (c :: ds) : Int)

def digitChar (d : Nat) : Char := Char.ofNat (48 + d)

/-- decimal digits, least significant first -/
def digitsRev (n : Nat) : List Char :=
  if h : n < 10 then [digitChar n] else digitChar (n % 10) :: digitsRev (n / 10)
termination_by n
decreasing_by omega

def showNat (n : Nat) : List Char := (digitsRev n).reverse

/-- Python `str(i)` -/
def showInt (i : Int) : List Char :=
  if i < 0 then '-' :: showNat i.natAbs else showNat i.toNat

/-- `_escape_string` for one character -/
def escapeChar (c : Char) : List Char :=
  if c == '\\' then ['\\', '\\']
  else if c == '"' then ['\\', '"']
  else if c.toNat == 10 then ['\\', 'n']
  else if c.toNat == 12 then ['\\', 'f']
  else if c.toNat == 11 then ['\\', 'v']
  else if c.toNat == 9 then ['\\', 't']
  else if c.toNat == 13 then ['\\', 'r']
  else [c]

def escape : List Char → List Char
  | [] => []
  | c :: r => escapeChar c ++ escape r

/-- `_STRING_UNESCAPES[e]` (the lexer rule admits only these seven after a backslash) -/
def unescapeChar (e : Char) : Char :=
  if e == 'n' then Char.ofNat 10
  else if e == 'f' then Char.ofNat 12
  else if e == 'v' then Char.ofNat 11
  else if e == 't' then Char.ofNat 9
  else if e == 'r' then Char.ofNat 13
  else e

/-- `_unescape_string`: `re.sub(r"\\(.)", …)` scanning left to right -/
def unescape : List Char → List Char
  | [] => []
  | c :: r =>
    if c == '\\' then
      match r with
      | e :: r' => unescapeChar e :: unescape r'
      | [] => [c]
    else c :: unescape r

/-- `text.replace("e", ".0e")` -/
def insertDotZero : List Char → List Char
  | [] => []
  | c :: r => if c == 'e' then '.' :: '0' :: 'e' :: insertDotZero r else c :: insertDotZero r

/-- the float case of `_spec_parameter_type_str` applied to `repr(x)` -/
def printFloatText (r : List Char) : List Char :=
  if r.contains 'e' && !r.contains '.' then insertDotZero r else r

def kwTrue : List Char := ['t', 'r', 'u', 'e']
def kwFalse : List Char := ['f', 'a', 'l', 's', 'e']
def kwInf : List Char := ['i', 'n', 'f']
def kwNegInf : List Char := ['-', 'i', 'n', 'f']
def kwNan : List Char := ['n', 'a', 'n']

/-! ## Printer -/
section Printer
variable {F : Type} (repr : F → List Char)

/-- `ArgSpec._spec_parameter_type_str` -/
def printVal : PVal F → List Char
  | .bool b => if b then kwTrue else kwFalse
  | .str s => '"' :: escape s ++ ['"']
  | .int i => showInt i
  | .float f => printFloatText (repr f)

/-- `",".join(...)` / `" ".join(...)` -/
def joinWith (sep : Char) : List (List Char) → List Char
  | [] => []
  | [x] => x
  | x :: y :: r => x ++ sep :: joinWith sep (y :: r)

/-- `ArgSpec._spec_parameter_list_type_str` -/
def printParam (p : List Char × List (PVal F)) : List Char :=
  match p.2 with
  | [] => p.1
  | vs => p.1 ++ '=' :: joinWith ',' (vs.map (printVal repr))

/-- `ArgSpec.__str__` -/
def printSpec (s : Spec F) : List Char :=
  match s.params with
  | [] => s.name
  | ps => s.name ++ '{' :: joinWith ' ' (ps.map (printParam repr)) ++ ['}']

/-- `",".join(str(p.pipeline_pass_spec()) for p in pipeline)` (xdsl/interactive/app.py) -/
def printPipeline (ss : List (Spec F)) : List Char := joinWith ',' (ss.map (printSpec repr))

end Printer

/-! ## Parser -/

inductive Msg
  | unknownToken          -- "Unknown token"
  | expectedPassName      -- "Expected pass name here"
  | expectedComma         -- "Expected a comma after pass argument dict here"
  | expectedMlirOpt       -- "Expected `mlir-opt` to mark an MLIR pipeline here"
  | expectedCommaOrArgs   -- "Expected a comma or pass arguments here"
  | expectedArgName       -- "Expected argument name here"
  | expectedEqSpaceEnd    -- "Expected equals, space or end of arguments here"
  | malformedArgs         -- "Malformed pass arguments, expected either a space or `}` here"
  | unknownValue          -- "Unknown argument value, wrap argument in quotes …"
  /-- not an `ArgSpecParseError`: the token generator is asked for a token after `eof`
  (Python: `StopIteration`, a `RuntimeError` inside the generator).  `parse_total` shows it
  cannot happen. -/
  | stopIteration
  deriving DecidableEq, Repr

/-- error: message and the remaining token stream, headed by the token the error points at -/
abbrev Err := Msg × List Token

/-- `raise ArgSpecParseError(tok, m)` where `tok` was just obtained from the lexer: if the lexer
could not produce it, its own "Unknown token" error surfaces instead. -/
def errTok (m : Msg) (toks : List Token) : Err :=
  match toks with
  | [] => (.stopIteration, [])
  | t :: _ => if t.kind = .bad then (.unknownToken, toks) else (m, toks)

def mlirOptName : List Char := ['m', 'l', 'i', 'r', '-', 'o', 'p', 't']
def mlirArg1 : List Char := "--mlir-print-op-generic".toList
def mlirArg2 : List Char := "--allow-unregistered-dialect".toList
def mlirArg3 : List Char := ['-', 'p']
def mlirPrefix : List Char := "builtin.module(".toList

section Parser
variable {F : Type} (ofText : List Char → F)

/-- the `mlir-opt[...]` shorthand of `_parse_spec` -/
def mlirSpec (text : List Char) : Spec F :=
  ⟨mlirOptName, [(['a', 'r', 'g', 'u', 'm', 'e', 'n', 't', 's'],
    [.str mlirArg1, .str mlirArg2, .str mlirArg3,
     .str (mlirPrefix ++ (text.drop 1).dropLast ++ [')'])])]⟩

/-- `_parse_parameter_value_element` on an already lexed token; `none` = "Unknown argument value" -/
def parseElem (t : Token) : Option (PVal F) :=
  match t.kind with
  | .stringLit => some (.str (unescape (t.text.drop 1).dropLast))
  | .number => if t.text.contains '.' then some (.float (ofText t.text)) else some (.int (parseInt t.text))
  | .ident =>
    if t.text = kwTrue then some (.bool true)
    else if t.text = kwFalse then some (.bool false)
    else if t.text = kwInf ∨ t.text = kwNegInf ∨ t.text = kwNan then some (.float (ofText t.text))
    else some (.str t.text)
  | _ => none

abbrev Res (F : Type) := Except Err (List (Spec F))

/-
The recursive descent of `parse_pipeline` / `_parse_spec` / `_parse_pass_parameters` /
`_parse_parameter_value`, one function per loop head, continuation inlined (every call is on a
strict suffix of the token list, so the recursion is structural).
  * `pPipeline acc`            — head of the `while True` in `parse_pipeline`
  * `pAfter acc`               — the `match lexer.lex()` after a spec was yielded
  * `pParams acc name args`    — head of the `while True` in `_parse_pass_parameters`
  * `pElems acc name args k es`— `_parse_parameter_value`, about to read the next element
-/
mutual
def pPipeline (acc : List (Spec F)) : List Token → Res F
  | [] => .error (.stopIteration, [])
  | name :: rest =>
    if name.kind = .eof then .ok acc
    else if name.kind ≠ .ident then .error (errTok .expectedPassName (name :: rest))
    else
      match rest with
      | [] => .error (.stopIteration, [])
      | t :: rest' =>
        match t.kind with
        | .eof => .ok (acc ++ [⟨name.text, []⟩])
        | .comma => pPipeline (acc ++ [⟨name.text, []⟩]) rest'
        | .lbrace => pParams acc name.text [] rest'
        | .mlirPipeline =>
          if name.text = mlirOptName then pAfter (acc ++ [mlirSpec t.text]) rest'
          else .error (.expectedMlirOpt, name :: t :: rest')
        | _ => .error (errTok .expectedCommaOrArgs (t :: rest'))
def pAfter (acc : List (Spec F)) : List Token → Res F
  | [] => .error (.stopIteration, [])
  | t :: rest =>
    match t.kind with
    | .eof => .ok acc
    | .comma => pPipeline acc rest
    | _ => .error (errTok .expectedComma (t :: rest))
def pParams (acc : List (Spec F)) (name : List Char) (args : List (List Char × List (PVal F))) :
    List Token → Res F
  | [] => .error (.stopIteration, [])
  | k :: rest =>
    if k.kind = .rbrace then pAfter (acc ++ [⟨name, args⟩]) rest
    else if k.kind ≠ .ident then .error (errTok .expectedArgName (k :: rest))
    else
      match rest with
      | [] => .error (.stopIteration, [])
      | t :: rest' =>
        match t.kind with
        | .space => pParams acc name (dictSet args k.text []) rest'
        | .rbrace => pAfter (acc ++ [⟨name, dictSet args k.text []⟩]) rest'
        | .equals => pElems acc name args k.text [] rest'
        | _ => .error (errTok .expectedEqSpaceEnd (t :: rest'))
def pElems (acc : List (Spec F)) (name : List Char) (args : List (List Char × List (PVal F)))
    (key : List Char) (elems : List (PVal F)) : List Token → Res F
  | [] => .error (.stopIteration, [])
  | v :: rest =>
    match parseElem ofText v with
    | none => .error (errTok .unknownValue (v :: rest))
    | some pv =>
      match rest with
      | [] => .error (.stopIteration, [])
      | t :: rest' =>
        match t.kind with
        | .comma => pElems acc name args key (elems ++ [pv]) rest'
        | .space => pParams acc name (dictSet args key (elems ++ [pv])) rest'
        | .rbrace => pAfter (acc ++ [⟨name, dictSet args key (elems ++ [pv])⟩]) rest'
        | _ => .error (errTok .malformedArgs (t :: rest'))
end

/-- `tuple(parse_pipeline(text))` -/
def parsePipeline (text : List Char) : Res F := pPipeline ofText [] (lexAll text)

end Parser

/-! ## Typed conversion (`_convert_arg_to_type`, `from_spec`, `spec`) -/

/-- scalar field types; `lit` is `typing.Literal[...]` of strings -/
inductive Base
  | int | float | bool | str
  | lit (opts : List (List Char))
  deriving DecidableEq, Repr

/-- one alternative of a (flattened) union: a scalar type, `None`, or `tuple[U, ...]` whose element
type `U` is the union of `elems` -/
inductive Alt
  | base (b : Base)
  | none
  | tuple (elems : List Base)
  deriving DecidableEq, Repr

/-- a field type: the list of union alternatives (`typing` flattens nested unions); a list of
length ≥ 2 is a `Union`/`UnionType`, a singleton the type itself -/
abbrev Ty := List Alt

/-- a field value: `None`, a scalar, or a tuple of scalars -/
inductive FVal (F : Type) where
  | none
  | scalar (v : PVal F)
  | tup (vs : List (PVal F))
  deriving DecidableEq, Repr

section Typed
variable {F : Type}

/-- `isa(v, b)` for a scalar `v`; Python's `bool` is a subclass of `int` -/
def isaBase (v : PVal F) : Base → Bool
  | .int => match v with | .int _ => true | .bool _ => true | _ => false
  | .float => match v with | .float _ => true | _ => false
  | .bool => match v with | .bool _ => true | _ => false
  | .str => match v with | .str _ => true | _ => false
  | .lit opts => match v with | .str s => opts.contains s | _ => false

def isaAlt (v : FVal F) : Alt → Bool
  | .base b => match v with | .scalar x => isaBase x b | _ => false
  | .none => match v with | .none => true | _ => false
  | .tuple elems => match v with | .tup vs => vs.all (fun x => elems.any (isaBase x)) | _ => false

/-- `isa(v, ty)` -/
def isa (v : FVal F) (ty : Ty) : Bool := ty.any (isaAlt v)

def isUnion (ty : Ty) : Bool := decide (2 ≤ ty.length)
def allowsNone (ty : Ty) : Bool := ty.contains Alt.none

inductive OptErr
  | nameMismatch | missingRequired | mustContainValue | incompatible | unknownArgs
  deriving DecidableEq, Repr

/-- `_convert_arg_to_type` -/
def convert (value : List (PVal F)) (ty : Ty) : Except OptErr (FVal F) :=
  if isUnion ty && value.isEmpty && allowsNone ty then .ok .none
  else if isUnion ty && value.isEmpty && !isa (FVal.tup value) ty then .error .mustContainValue
  else
    match value with
    | [v] =>
      if isa (.scalar v) ty then .ok (.scalar v)
      else if isa (FVal.tup value) ty then .ok (.tup value) else .error .incompatible
    | _ => if isa (FVal.tup value) ty then .ok (.tup value) else .error .incompatible

/-- a dataclass field that takes part in `__init__` -/
structure Field (F : Type) where
  name : List Char
  ty : Ty
  /-- `none`: neither default nor default factory -/
  default : Option (FVal F)

/-- an `ArgSpecConvertible` subclass -/
structure PassClass (F : Type) where
  name : List Char
  fields : List (Field F)

/-- `_is_optional` -/
def Field.isOptional (f : Field F) : Bool := (isUnion f.ty && allowsNone f.ty) || f.default.isSome
/-- `_get_default` -/
def Field.getDefault (f : Field F) : FVal F := f.default.getD .none

/-- `val` → `arg_list` in `spec()` -/
def argList : FVal F → List (PVal F)
  | .none => []
  | .scalar v => [v]
  | .tup vs => vs

/-- `ArgSpecConvertible.spec(include_default=…)` for the instance whose field values are `vals` -/
def toSpecParams [DecidableEq F] (includeDefault : Bool) :
    List (Field F) → List (FVal F) → List (List Char × List (PVal F))
  | f :: fs, v :: vs =>
    if f.isOptional && decide (v = f.getDefault) && !includeDefault then toSpecParams includeDefault fs vs
    else (f.name, argList v) :: toSpecParams includeDefault fs vs
  | _, _ => []

def toSpec [DecidableEq F] (includeDefault : Bool) (cls : PassClass F) (vals : List (FVal F)) : Spec F :=
  ⟨cls.name, toSpecParams includeDefault cls.fields vals⟩

/-- `k.replace("-", "_")` -/
def normalizeKey (k : List Char) : List Char := k.map (fun c => if c == '-' then '_' else c)

/-- `ArgSpec.normalize_parameter_names` (a dict comprehension: later keys overwrite) -/
def normalizeParams (ps : List (List Char × List (PVal F))) : List (List Char × List (PVal F)) :=
  ps.foldl (fun d p => dictSet d (normalizeKey p.1) p.2) []

def dictGet {α β : Type} [DecidableEq α] : List (α × β) → α → Option β
  | [], _ => none
  | (a, b) :: r, k => if a = k then some b else dictGet r k

def dictDel {α β : Type} [DecidableEq α] : List (α × β) → α → List (α × β)
  | [], _ => []
  | (a, b) :: r, k => if a = k then r else (a, b) :: dictDel r k

/-- the field loop of `from_spec`; returns the values and the spec arguments not consumed -/
def fromSpecFields : List (Field F) → List (List Char × List (PVal F)) →
    Except OptErr (List (FVal F) × List (List Char × List (PVal F)))
  | [], d => .ok ([], d)
  | f :: fs, d =>
    match dictGet d f.name with
    | none =>
      if f.isOptional then
        match fromSpecFields fs d with
        | .ok (vs, d') => .ok (f.getDefault :: vs, d')
        | .error e => .error e
      else .error .missingRequired
    | some value =>
      match convert value f.ty with
      | .error e => .error e
      | .ok v =>
        match fromSpecFields fs (dictDel d f.name) with
        | .ok (vs, d') => .ok (v :: vs, d')
        | .error e => .error e

/-- `ArgSpecConvertible.from_spec` -/
def fromSpec (cls : PassClass F) (spec : Spec F) : Except OptErr (List (FVal F)) :=
  if spec.name ≠ cls.name then .error .nameMismatch
  else
    match fromSpecFields cls.fields (normalizeParams spec.params) with
    | .error e => .error e
    | .ok (vs, []) => .ok vs
    | .ok (_, _ :: _) => .error .unknownArgs

end Typed

/-! ## Line protocol

Text travels as `x` followed by the code points in hex separated by `.` (`x` alone = empty).
Values: `s:<text>` `i:<decimal>` `b:0|1` `f:<text of repr / of the NUMBER token>`.
Spec: `S <name> <n> (K <key> <m> <value>*)*`.  Pipeline: `P <n> <spec>*`.
Types: `<nalts> <alt>*` with alt ::= `int|float|bool|str|none|L <n> <text>*|T <n> <base>*`.
-/

def hexVal? (s : String) : Option Nat :=
  if s.isEmpty then none else
  s.toList.foldl (fun acc c =>
    acc.bind fun a =>
      let n := c.toNat
      if 48 ≤ n ∧ n ≤ 57 then some (16 * a + (n - 48))
      else if 97 ≤ n ∧ n ≤ 102 then some (16 * a + (n - 87))
      else none) (some 0)

def decText (w : String) : Option (List Char) :=
  match w.toList with
  | 'x' :: rest =>
    if rest.isEmpty then some [] else
    ((String.ofList rest).splitOn ".").foldr (fun h acc =>
      match hexVal? h, acc with
      | some n, some l => some (Char.ofNat n :: l)
      | _, _ => none) (some [])
  | _ => none

def hexDigit (n : Nat) : Char := if n < 10 then Char.ofNat (48 + n) else Char.ofNat (87 + n)

def toHex (n : Nat) : String :=
  let rec go (fuel n : Nat) (acc : List Char) : List Char :=
    match fuel with
    | 0 => acc
    | fuel + 1 => if n < 16 then hexDigit n :: acc else go fuel (n / 16) (hexDigit (n % 16) :: acc)
  String.ofList (go 8 n [])

def encText (t : List Char) : String := "x" ++ ".".intercalate (t.map (fun c => toHex c.toNat))

/-- the executable instance: floats are carried as their text -/
abbrev FT := List Char

def encVal : PVal FT → String
  | .str s => "s:" ++ encText s
  | .int i => "i:" ++ toString i
  | .bool b => if b then "b:1" else "b:0"
  | .float f => "f:" ++ encText f

def decVal (w : String) : Option (PVal FT) :=
  match w.splitOn ":" with
  | ["s", t] => (decText t).map .str
  | ["i", t] => t.toInt?.map .int
  | ["b", "1"] => some (.bool true)
  | ["b", "0"] => some (.bool false)
  | ["f", t] => (decText t).map .float
  | _ => none

abbrev P (α : Type) := List String → Option (α × List String)

def pCount {α : Type} (p : P α) : Nat → P (List α)
  | 0, ws => some ([], ws)
  | n + 1, ws =>
    match p ws with
    | none => none
    | some (a, ws') =>
      match pCount p n ws' with
      | none => none
      | some (as, ws'') => some (a :: as, ws'')

def pText : P (List Char)
  | w :: ws => (decText w).map (·, ws)
  | [] => none

def pNat : P Nat
  | w :: ws => w.toNat?.map (·, ws)
  | [] => none

def pVal : P (PVal FT)
  | w :: ws => (decVal w).map (·, ws)
  | [] => none

def pVals : P (List (PVal FT)) := fun ws =>
  match pNat ws with
  | some (n, ws') => pCount pVal n ws'
  | none => none

def pParam : P (List Char × List (PVal FT))
  | "K" :: ws =>
    match pText ws with
    | some (k, ws') => (pVals ws').map fun (vs, r) => ((k, vs), r)
    | none => none
  | _ => none

def pParamList : P (List (List Char × List (PVal FT))) := fun ws =>
  match pNat ws with
  | some (n, ws') => pCount pParam n ws'
  | none => none

def pSpec : P (Spec FT)
  | "S" :: ws =>
    match pText ws with
    | some (name, ws') => (pParamList ws').map fun (ps, r) => (⟨name, ps⟩, r)
    | none => none
  | _ => none

def pPipe : P (List (Spec FT))
  | "P" :: ws =>
    match pNat ws with
    | some (n, ws') => pCount pSpec n ws'
    | none => none
  | _ => none

def pBase : P Base
  | "int" :: ws => some (.int, ws)
  | "float" :: ws => some (.float, ws)
  | "bool" :: ws => some (.bool, ws)
  | "str" :: ws => some (.str, ws)
  | "L" :: ws =>
    match pNat ws with
    | some (n, ws') => (pCount pText n ws').map fun (os, r) => (.lit os, r)
    | none => none
  | _ => none

def pAlt : P Alt
  | "none" :: ws => some (.none, ws)
  | "T" :: ws =>
    match pNat ws with
    | some (n, ws') => (pCount pBase n ws').map fun (bs, r) => (.tuple bs, r)
    | none => none
  | ws => (pBase ws).map fun (b, r) => (.base b, r)

def pTy : P Ty := fun ws =>
  match pNat ws with
  | some (n, ws') => pCount pAlt n ws'
  | none => none

def pFVal : P (FVal FT)
  | "N" :: ws => some (.none, ws)
  | "V" :: ws => (pVal ws).map fun (v, r) => (.scalar v, r)
  | "U" :: ws => (pVals ws).map fun (vs, r) => (.tup vs, r)
  | _ => none

/-- `F <name> <ty> (D <fval> | R)` -/
def pField : P (Field FT)
  | "F" :: ws =>
    match pText ws with
    | some (name, ws1) =>
      match pTy ws1 with
      | some (ty, "R" :: ws2) => some (⟨name, ty, none⟩, ws2)
      | some (ty, "D" :: ws2) => (pFVal ws2).map fun (d, r) => (⟨name, ty, some d⟩, r)
      | _ => none
    | none => none
  | _ => none

/-- `C <name> <n> <field>*` -/
def pClass : P (PassClass FT)
  | "C" :: ws =>
    match pText ws with
    | some (name, ws1) =>
      match pNat ws1 with
      | some (n, ws2) => (pCount pField n ws2).map fun (fs, r) => (⟨name, fs⟩, r)
      | none => none
    | none => none
  | _ => none

def pFVals : P (List (FVal FT)) := fun ws =>
  match pNat ws with
  | some (n, ws') => pCount pFVal n ws'
  | none => none

def encVals (vs : List (PVal FT)) : String :=
  " ".intercalate (toString vs.length :: vs.map encVal)

def encSpec (s : Spec FT) : String :=
  " ".intercalate (["S", encText s.name, toString s.params.length] ++
    s.params.map fun (k, vs) => "K " ++ encText k ++ " " ++ encVals vs)

def encPipe (ss : List (Spec FT)) : String :=
  " ".intercalate (["P", toString ss.length] ++ ss.map encSpec)

def encFVal : FVal FT → String
  | .none => "N"
  | .scalar v => "V " ++ encVal v
  | .tup vs => "U " ++ encVals vs

def kindName : Kind → String
  | .eof => "EOF" | .ident => "IDENT" | .lbrace => "L_BRACE" | .rbrace => "R_BRACE"
  | .equals => "EQUALS" | .number => "NUMBER" | .space => "SPACE" | .stringLit => "STRING_LIT"
  | .mlirPipeline => "MLIR_PIPELINE" | .comma => "COMMA" | .bad => "BAD"

def msgName : Msg → String
  | .unknownToken => "unknown-token" | .expectedPassName => "expected-pass-name"
  | .expectedComma => "expected-comma" | .expectedMlirOpt => "expected-mlir-opt"
  | .expectedCommaOrArgs => "expected-comma-or-args" | .expectedArgName => "expected-arg-name"
  | .expectedEqSpaceEnd => "expected-eq-space-end" | .malformedArgs => "malformed-args"
  | .unknownValue => "unknown-value" | .stopIteration => "stop-iteration"

def optErrName : OptErr → String
  | .nameMismatch => "name-mismatch" | .missingRequired => "missing-required"
  | .mustContainValue => "must-contain-value" | .incompatible => "incompatible"
  | .unknownArgs => "unknown-args"

/-- token stream as `KIND:start:end`; a `bad` token is shown as `BAD:start` -/
def showTokens (toks : List Token) : String :=
  let rec go (pos : Nat) : List Token → List String
    | [] => []
    | t :: r =>
      (if t.kind = .bad then s!"BAD:{pos}"
       else if t.kind = .eof then s!"EOF:{pos}:{pos + 1}"
       else s!"{kindName t.kind}:{pos}:{pos + t.text.length}") :: go (pos + t.text.length) r
  " ".intercalate (go 0 toks)

def tokensLength (toks : List Token) : Nat := toks.foldl (fun a t => a + t.text.length) 0

def showRes (total : Nat) : Res FT → String
  | .ok ss => "ok " ++ encPipe ss
  | .error (m, toks) =>
    let pos := total - tokensLength toks
    let kind := match toks with
      | t :: _ => if t.kind = Kind.bad then "IDENT" else kindName t.kind
      | [] => "NONE"
    s!"err {msgName m} {pos} {kind}"

def lineStep (s : Unit) (line : String) : Unit × String :=
  (s,
  match words line with
  | ["reset"] => "ok"
  | ["lex", t] =>
    (match decText t with
     | some cs => showTokens (lexAll cs)
     | none => "bad-op")
  | ["parse", t] =>
    (match decText t with
     | some cs => showRes cs.length (parsePipeline (F := FT) id cs)
     | none => "bad-op")
  | "print" :: ws =>
    (match pPipe ws with
     | some (ss, []) => encText (printPipeline (F := FT) id ss)
     | _ => "bad-op")
  | ["isspace", n] =>
    (match n.toNat? with
     | some n => showBool (isSpace (Char.ofNat n))
     | none => "bad-op")
  | ["spaces", lo, hi] =>
    (match lo.toNat?, hi.toNat? with
     | some lo, some hi =>
       " ".intercalate ("spaces" :: (((List.range (hi - lo)).map (· + lo)).filter
         (fun n => isSpace (Char.ofNat n))).map toString)
     | _, _ => "bad-op")
  | ["printfloat", t] =>
    (match decText t with
     | some cs => encText (printFloatText cs)
     | none => "bad-op")
  | "convert" :: ws =>
    (match pTy ws with
     | some (ty, ws') =>
       match pVals ws' with
       | some (vs, []) =>
         (match convert vs ty with
          | .ok v => "ok " ++ encFVal v
          | .error e => "err " ++ optErrName e)
       | _ => "bad-op"
     | none => "bad-op")
  | "tospec" :: incl :: ws =>
    (match pClass ws with
     | some (cls, ws') =>
       match pFVals ws' with
       | some (vs, []) => encSpec (toSpec (incl == "1") cls vs)
       | _ => "bad-op"
     | none => "bad-op")
  | "fromspec" :: ws =>
    (match pClass ws with
     | some (cls, ws') =>
       match pSpec ws' with
       | some (sp, []) =>
         (match fromSpec cls sp with
          | .ok vs => "ok " ++ " ".intercalate (toString vs.length :: vs.map encFVal)
          | .error e => "err " ++ optErrName e)
       | _ => "bad-op"
     | none => "bad-op")
  | _ => "bad-op")

end Xdsl.ArgSpec
