import XdslModel.Prelude
/-!
Model of the SSA-name table of `xdsl.parser.core.Parser` (C07): `resolve_operand`,
`_register_ssa_definition`, the value scope of `parse_optional_region` and the final
"values used but not defined" test of `parse_module`.

State of the parser that these functions touch:

* `ssa_values : dict[str, tuple[SSAValue, ...]]` — `vals`, name → the tuple of a definition
  `%name:n = …` (block arguments: a tuple of one);
* `forward_ssa_references : dict[str, dict[int, ForwardDeclaredValue]]` — `fwd`, name → tuple index →
  placeholder, for names used (`%name#i`) before they are defined;
* the `old_ssa_values` copies kept on the Python stack while a region is parsed — `saved`.

Names are numbers, a type is a number, a value is an identity (`id`, drawn from the counter `next`
in creation order) with its type.  Every Python subscript `d[k]` / `t[i]` — which raises `KeyError` /
`IndexError` when the key is absent — is written `sub (lookup) fun x => …`, whose `none` branch is
the outcome `internal`.  `XdslProofs/C07SsaNames.lean` proves that `internal` is unreachable: only
values, placeholders and the six `ParseError`s leave these functions.

Not modelled: dict iteration order (only the *kind* of the first diagnostic is observable here, and all
candidates of one loop have the same kind), `name_hint`s, `replace_all_uses_with` on the IR.
-/
namespace Xdsl.SsaNames

structure Val where
  id : Nat
  ty : Nat
deriving Repr, DecidableEq, Inhabited

/-- the `ParseError`s of the modelled functions -/
inductive Msg where
  | indexOutOfBounds   -- "SSA value tuple index out of bounds. Tuple is of size … but tried to access element …"
  | useTypeMismatch    -- "operand is used with type …, but has been previously used or defined with type …"
  | redefined          -- "SSA value %… is already defined"
  | fwdIndexTooLarge   -- "SSA value %… is referenced with an index larger than its size"
  | fwdTypeMismatch    -- "Result %… is defined with type …, but used with type …"
  | usedNotDefined     -- "values used but not defined: […]"
deriving Repr, DecidableEq, Inhabited

inductive Exn where
  | keyError | indexError
deriving Repr, DecidableEq, Inhabited

inductive Out where
  | value (v : Val)      -- an already defined value
  | forward (v : Val)    -- a `ForwardDeclaredValue`
  | done
  | diag (m : Msg)
  | internal (e : Exn)
deriving Repr, DecidableEq, Inhabited

structure St where
  vals : AL Nat (List Val) := []
  fwd : AL Nat (AL Nat Val) := []
  saved : List (AL Nat (List Val)) := []
  next : Nat := 0
deriving Repr, Inhabited

/-- a Python subscript: the continuation on the element, `internal` when it is absent -/
@[inline] def sub {α : Type} (e : Exn) (x : Option α) (k : α → St × Out) (s : St) : St × Out :=
  match x with
  | some a => k a
  | none => (s, .internal e)

/-- `name in self.forward_ssa_references and index in self.forward_ssa_references[name]` -/
def inFwd (s : St) (name idx : Nat) : Bool :=
  match s.fwd.get name with
  | some refs => refs.has idx
  | none => false

/-- `Parser.resolve_operand(UnresolvedOperand(%name, idx), ty)` -/
def resolve (s : St) (name idx ty : Nat) : St × Out :=
  if inFwd s name idx then
    -- return self.forward_ssa_references[name][operand.index]
    sub .keyError (s.fwd.get name) (fun refs => sub .keyError (refs.get idx) (fun v => (s, .forward v)) s) s
  else if !(s.vals.has name) then
    -- forward_value = ForwardDeclaredValue(type); setdefault(name, {})[index] = forward_value
    let v : Val := ⟨s.next, ty⟩
    let refs := (s.fwd.get name).getD []
    ({ s with fwd := s.fwd.set name (refs.set idx v), next := s.next + 1 }, .forward v)
  else
    sub .keyError (s.vals.get name) (fun tup =>
      if idx ≥ tup.length then (s, .diag .indexOutOfBounds)
      else sub .indexError tup[idx]? (fun r =>
        if r.ty != ty then (s, .diag .useTypeMismatch) else (s, .value r)) s) s

/-- the results of an operation / the arguments of a block: fresh identities with the given types -/
def mkVals (next : Nat) : List Nat → List Val
  | [] => []
  | t :: r => ⟨next, t⟩ :: mkVals (next + 1) r

/-- the loop `for index, value in index_references.items()` of `_register_ssa_definition` -/
def checkRefs (values : List Val) : AL Nat Val → Out
  | [] => .done
  | (i, v) :: r =>
    if i ≥ values.length then .diag .fwdIndexTooLarge
    else match values[i]? with
      | none => .internal .indexError
      | some res => if v.ty != res.ty then .diag .fwdTypeMismatch else checkRefs values r

/-- `Parser._register_ssa_definition(name, values, span)` with `values` fresh values of types `tys` -/
def define (s : St) (name : Nat) (tys : List Nat) : St × Out :=
  if s.vals.has name then (s, .diag .redefined)
  else
    let values := mkVals s.next tys
    let s1 : St := { s with vals := s.vals.set name values, next := s.next + tys.length }
    if s1.fwd.has name then
      sub .keyError (s1.fwd.get name) (fun refs =>
        let s2 : St := { s1 with fwd := s1.fwd.del name }
        if refs.any (fun p => decide (p.1 ≥ tys.length)) then (s2, .diag .fwdIndexTooLarge)
        else (s2, checkRefs values refs)) s1
    else (s1, .done)

/-- entering a region: `old_ssa_values = self.ssa_values.copy()` -/
def push (s : St) : St × Out := ({ s with saved := s.vals :: s.saved }, .done)

/-- leaving a region: `self.ssa_values = old_ssa_values` -/
def pop (s : St) : St × Out :=
  match s.saved with
  | old :: r => ({ s with vals := old, saved := r }, .done)
  | [] => (s, .done)

/-- end of `parse_module`: `if self.forward_ssa_references: raise_error("values used but not defined")` -/
def finish (s : St) : St × Out :=
  if s.fwd.isEmpty then (s, .done) else (s, .diag .usedNotDefined)

/-! ## Event sequences (one parse) -/

inductive Ev where
  | use (name idx ty : Nat)
  | defn (name : Nat) (tys : List Nat)
  | push | pop | finish
deriving Repr, DecidableEq, Inhabited

def step (s : St) : Ev → St × Out
  | .use n i t => resolve s n i t
  | .defn n tys => define s n tys
  | .push => push s
  | .pop => pop s
  | .finish => finish s

/-- a `ParseError` or an internal error ends the parse -/
def Out.stops : Out → Bool
  | .diag _ => true
  | .internal _ => true
  | _ => false

/-- the events of a parse in order, up to the first one that raises; result: its outcome (`done`
when nothing raised) -/
def run (s : St) : List Ev → St × Out
  | [] => (s, .done)
  | e :: r =>
    let q := step s e
    if q.2.stops then q else run q.1 r

/-! ## Line protocol -/

def msgName : Msg → String
  | .indexOutOfBounds => "index-out-of-bounds" | .useTypeMismatch => "use-type"
  | .redefined => "redefined" | .fwdIndexTooLarge => "forward-index"
  | .fwdTypeMismatch => "forward-type" | .usedNotDefined => "used-not-defined"

def showOut : Out → String
  | .value v => s!"value {v.id}"
  | .forward v => s!"forward {v.id}"
  | .done => "ok"
  | .diag m => s!"ERR:{msgName m}"
  | .internal .keyError => "INTERNAL:KeyError"
  | .internal .indexError => "INTERNAL:IndexError"

def nats? (ws : List String) : Option (List Nat) :=
  ws.foldr (fun w acc => match w.toNat?, acc with
    | some n, some l => some (n :: l)
    | _, _ => none) (some [])

/-- one event: `u <name> <idx> <ty>` | `d <name> <ty>*` | `push` | `pop` | `end` -/
def ev? (ws : List String) : Option Ev :=
  match ws with
  | ["u", n, i, t] => match n.toNat?, i.toNat?, t.toNat? with
    | some n, some i, some t => some (.use n i t)
    | _, _, _ => none
  | "d" :: n :: tys => match n.toNat?, nats? tys with
    | some n, some tys => some (.defn n tys)
    | _, _ => none
  | ["push"] => some .push
  | ["pop"] => some .pop
  | ["end"] => some .finish
  | _ => none

/-- split a word list on the separator word `;` -/
def splitSemi : List String → List (List String)
  | [] => [[]]
  | w :: r =>
    match splitSemi r with
    | g :: gs => if w == ";" then [] :: g :: gs else (w :: g) :: gs
    | [] => [[w]]

def evs? (ws : List String) : Option (List Ev) :=
  (splitSemi ws).foldr (fun g acc =>
    if g.isEmpty then acc else
    match ev? g, acc with
    | some e, some l => some (e :: l)
    | _, _ => none) (some [])

/-- `prog <event> ; <event> ; …` — a whole parse from the empty table: outcome of the first raising event
(`ok` when none raises).  `reset` / single events (`u …`, `d …`, `push`, `pop`, `end`) drive a persistent
table. -/
def lineStep (s : St) (line : String) : St × String :=
  match words line with
  | ["reset"] => ({}, "ok")
  | "prog" :: rest =>
    (match evs? rest with
     | some es => (s, showOut (run {} es).2)
     | none => (s, "bad-op"))
  | ws =>
    (match ev? ws with
     | some e => let q := step s e; (q.1, showOut q.2)
     | none => (s, "bad-op"))

end Xdsl.SsaNames
