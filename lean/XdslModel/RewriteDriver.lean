import XdslModel.Worklist
/-!
Model of the greedy rewrite driver of `xdsl/pattern_rewriter.py` (C11):
`PatternRewriteWalker.rewrite_region / _populate_worklist / _process_worklist`, the four
`_handle_operation_*` listeners, and the flag / notification behaviour of every `PatternRewriter`
mutator.  The worklist is the C12 model (`Xdsl.Worklist.WL`, the tombstoned stack + index map),
used through its own `step` function.

Operations are naturals (object identities).  The IR itself is an opaque parameter `IR`: a pattern
is any function `IR → Nat → List Action × IR` — it returns the list of calls it made on the
rewriter (an `Action` carries exactly the data the listeners read from the IR at the moment of the
call: the nested operations `op.walk()` of an erased op, the single-use operand definers, the
users of replaced values …) and the IR after the match.  The driver keeps the set of operations
attached under the root region, the worklist, `rewriter.has_done_action`, the accumulated
`rewriter_has_done_action`, and the log of events delivered to the registered listeners.

The schedule is a parameter: `pick = none` is the LIFO `Worklist.pop`; `pick = some f` is the
perturbed worklist of the check (`pop` returns the present element chosen by `f`, implemented with
`Worklist.remove`).  The walk order of `_populate_worklist` is the parameter `enum`.
-/
namespace Xdsl.RewriteDriver
open Xdsl.Worklist (WL)

/-- One call on the `PatternRewriter` (or, for `replaced`, the listener call made inside
`PatternRewriter.replace`). -/
inductive Action
  /-- `insert(op)`: one op handed to `Builder.insert`; `nested` = ops inside its regions -/
  | insert (op : Nat) (nested : List Nat)
  /-- `handle_operation_replacement(op, …)` inside `replace`; `users` = users of `op.results` -/
  | replaced (op : Nat) (users : List Nat)
  /-- `replace_all_uses_with(from, to)` with `from is not to`; `toNone` = (`to is None`);
  `users` = `[use.operation for use in from.uses]`.  Also `replace_uses_with_if(from, to, pred)`:
  `toNone = false`, `users` = the operations of the uses accepted by `pred`, one entry per accepted
  use, in visiting order (an op using the value in two accepted slots appears twice) -/
  | rauw (toNone : Bool) (users : List Nat)
  /-- `erase(op)`; `nested` = `op.walk()` without `op`; `defs` = owners of single-use operands -/
  | erase (op : Nat) (nested : List Nat) (defs : List Nat)
  /-- `notify_op_modified(op)`; also `replace_value_with_new_type(v, ty)` with `op` = owner of the
  result `v` / the op owning the block of the block argument `v` -/
  | modify (op : Nat)
  /-- `insert_block_argument` / the `erase_arg` part of `erase_block_argument` -/
  | blockArg
  /-- `inline_block(block, ip, arg_values)`; `moved` = ops of the block, `users` = users of the
  block arguments whose operands are rewritten to `arg_values` -/
  | inlineBlock (moved : List Nat) (users : List Nat)
  /-- `create_block` (the fixed code sets the flag) -/
  | createBlock
deriving Repr, DecidableEq

/-- What a registered listener receives. -/
inductive Event
  | inserted (op : Nat) | removed (op : Nat) | modified (op : Nat) | replaced (op : Nat)
  | blockCreated
deriving Repr, DecidableEq

/-- Ghost record of what an observer of the walker sees. -/
inductive TraceItem
  /-- `_populate_worklist`: the pushes, and the attached set at that moment -/
  | sweep (pushes : List Nat) (attached : List Nat)
  /-- one pattern invocation: op, "was attached when invoked", `has_done_action` afterwards,
  worklist (top first), listener events of this match, attached set afterwards -/
  | visit (x : Nat) (att : Bool) (flag : Bool) (wl : List Nat) (events : List Event)
      (attached : List Nat)
  /-- `post_walk_func`: accumulated flag, worklist, listener events, attached set afterwards -/
  | post (changed : Bool) (wl : List Nat) (events : List Event) (attached : List Nat)
deriving Repr, DecidableEq

structure St where
  /-- operations attached under the root region -/
  attached : List Nat := []
  wl : WL := {}
  /-- `rewriter.has_done_action` -/
  flag : Bool := false
  /-- `rewriter_has_done_action` in `_process_worklist` / `op_was_modified` in `rewrite_region` -/
  changed : Bool := false
  /-- events delivered to the registered listeners, oldest first -/
  log : List Event := []
  /-- ghost: every action executed, oldest first -/
  executed : List Action := []
  /-- ghost: observable trace (sweeps, pattern invocations, post-walks), oldest first -/
  trace : List TraceItem := []
deriving Repr

def pushAll (w : WL) (xs : List Nat) : WL :=
  xs.foldl (fun w x => (Worklist.step w (.push x)).1) w

def removeAll (w : WL) (xs : List Nat) : WL :=
  xs.foldl (fun w x => (Worklist.step w (.remove x)).1) w

/-- Does the call set `has_done_action`?  Everything does, except a `replace_all_uses_with` of a
value without uses by another value. -/
def Action.setsFlag : Action → Bool
  | .rauw toNone users => toNone || !users.isEmpty
  | _ => true

/-- Execute one rewriter call: flag, listener events (user listeners and the walker's own
`_handle_operation_*`, which push only when `apply_recursively`), attached set. -/
def exec (recursive : Bool) (s : St) (a : Action) : St :=
  let s := { s with executed := s.executed ++ [a] }
  match a with
  | .insert op nested =>
    -- has_done_action = True; Rewriter.insert_op; handle_operation_insertion(op)
    { s with flag := true,
             attached := s.attached ++ (op :: nested).filter fun y => !s.attached.contains y,
             log := s.log ++ [.inserted op],
             wl := if recursive then pushAll s.wl [op] else s.wl }
  | .replaced op users =>
    -- replace(): has_done_action = True …; handle_operation_replacement: push every user
    { s with flag := true, log := s.log ++ [.replaced op],
             wl := if recursive then pushAll s.wl users else s.wl }
  | .rauw toNone users =>
    -- flag if `to is None` or there were uses; handle_operation_modification for each user
    { s with flag := s.flag || toNone || !users.isEmpty,
             log := s.log ++ users.map .modified,
             wl := if recursive then pushAll s.wl users else s.wl }
  | .erase op nested defs =>
    -- has_done_action = True; handle_operation_removal(op); Rewriter.erase_op
    -- _handle_operation_removal: _add_operands_to_worklist (recursive only), then remove every
    -- op of op.walk() from the worklist
    let w := if recursive then pushAll s.wl defs else s.wl
    { s with flag := true, log := s.log ++ [.removed op],
             wl := removeAll w (op :: nested),
             attached := s.attached.filter fun y => !(op :: nested).contains y }
  | .modify op =>
    { s with flag := true, log := s.log ++ [.modified op],
             wl := if recursive then pushAll s.wl [op] else s.wl }
  | .blockArg => { s with flag := true }
  | .inlineBlock _ _ => { s with flag := true }   -- no listener is called
  | .createBlock => { s with flag := true, log := s.log ++ [.blockCreated] }

def execAll (recursive : Bool) (s : St) (as : List Action) : St := as.foldl (exec recursive) s

/-- `if not self._worklist: return …` followed by `op = self._worklist.pop()`.  With a perturbed
worklist `pop` returns the present element selected by `f` (top of the stack first in the list
given to `f`) and deletes it with `remove`. -/
def popNext (pick : Option (List Nat → Nat)) (w : WL) : Option (Nat × WL) :=
  match Worklist.step w .isEmpty with
  | (w1, .bool true) =>
    (match pick with
     | none =>
       (match Worklist.step w1 .pop with
        | (w2, .item x) => some (x, w2)
        | _ => none)
     | some f =>
       let l := Worklist.abs w1
       (match l[f l % l.length]? with
        | some x => some (x, (Worklist.step w1 (.remove x)).1)
        | none => none))
  | _ => none

structure Params (IR : Type) where
  /-- `apply_recursively` -/
  recursive : Bool
  /-- the pattern: calls made on the rewriter and the IR after the match -/
  pat : IR → Nat → List Action × IR
  /-- `post_walk_func` (e.g. `region_dce`): calls made on the listener (only `erase` for dce),
  IR afterwards, returned boolean.  `none`: no post-walk function. -/
  post : Option (IR → List Action × IR × Bool)
  /-- the order in which `_populate_worklist` pushes (a walk of the region) -/
  enum : IR → List Nat → List Nat
  /-- schedule: `none` = LIFO -/
  pick : Option (IR → List Nat → Nat)

structure D (IR : Type) where
  ir : IR
  st : St

variable {IR : Type}

/-- One iteration of the do/while loop of `_process_worklist`: reset the rewriter on `x`, run the
pattern, accumulate the flag. -/
def matchOp (P : Params IR) (d : D IR) (x : Nat) : D IR :=
  let s0 := { d.st with flag := false }
  let (as, ir') := P.pat d.ir x
  let s1 := execAll P.recursive s0 as
  { ir := ir',
    st := { s1 with
      changed := s1.changed || s1.flag,
      trace := s1.trace ++ [.visit x (d.st.attached.contains x) s1.flag (Worklist.abs s1.wl)
        (s1.log.drop d.st.log.length) s1.attached] } }

/-- `_process_worklist`; `fuel` bounds the number of pattern invocations (termination is a
hypothesis of the property). -/
def process (P : Params IR) : Nat → D IR → Option (D IR)
  | 0, _ => none
  | fuel + 1, d =>
    match popNext (P.pick.map fun f => f d.ir) d.st.wl with
    | none => some d
    | some (x, w) => process P fuel (matchOp P { d with st := { d.st with wl := w } } x)

def populate (P : Params IR) (d : D IR) : D IR :=
  let pushes := P.enum d.ir d.st.attached
  { d with st := { d.st with wl := pushAll d.st.wl pushes,
                             trace := d.st.trace ++ [.sweep pushes d.st.attached] } }

/-- `op_was_modified |= self.post_walk_func(region, pattern_listener)` -/
def postWalk (P : Params IR) (d : D IR) : D IR :=
  match P.post with
  | none => d
  | some f =>
    let (as, ir', b) := f d.ir
    let s := execAll P.recursive d.st as
    -- the listener is called directly: `rewriter.has_done_action` is not involved
    { ir := ir',
      st := { s with flag := d.st.flag, changed := d.st.changed || b,
                     trace := s.trace ++ [.post (d.st.changed || b) (Worklist.abs s.wl)
                       (s.log.drop d.st.log.length) s.attached] } }

/-- populate; `op_was_modified = _process_worklist(…)`; post-walk -/
def sweep (P : Params IR) (fuel : Nat) (d : D IR) : Option (D IR) :=
  (process P fuel (populate P { d with st := { d.st with changed := false } })).map (postWalk P)

/-- `while op_was_modified: …` -/
def outer (P : Params IR) (fuel : Nat) : Nat → D IR → Option (D IR)
  | 0, _ => none
  | n + 1, d =>
    if d.st.changed then
      match sweep P fuel d with
      | none => none
      | some d' => outer P fuel n d'
    else some d

/-- `rewrite_region`: final state and returned boolean. -/
def rewriteRegion (P : Params IR) (fuel : Nat) (d : D IR) : Option (D IR × Bool) :=
  match sweep P fuel d with
  | none => none
  | some d1 =>
    if !P.recursive then some (d1, d1.st.changed)
    else (outer P fuel fuel d1).map fun d2 => (d2, d1.st.changed)

/-! ## Histories: several `rewrite_region` / `rewrite_module` calls on ONE walker

`PatternRewriteWalker._get_rewriter_listener` is evaluated at the beginning of every call: the listener
handed to the rewriter holds copies of the handler lists of `walker.listener` *as they are at that moment*
(plus the walker's own worklist handlers).  Between two calls the user may append handlers to
`walker.listener` or assign a new listener object; the worklist object is the same for all calls.
Handler sets are naturals. -/

/-- What the user does to `walker.listener` between two calls. -/
inductive Edit
  /-- a handler is appended to every handler list of the current `walker.listener` -/
  | add (h : Nat)
  /-- `walker.listener = PatternRewriterListener(…)` holding the handlers `hs` -/
  | replace (hs : List Nat)
deriving Repr, DecidableEq

structure Walker where
  /-- `walker._worklist`: one object for the whole life of the walker -/
  wl : WL := {}
  /-- handlers held by `walker.listener`, in list order -/
  registered : List Nat := []
  /-- ghost: (handler, event) in delivery order, over all calls -/
  delivered : List (Nat × Event) := []
deriving Repr

/-- every event goes to every handler of the combined listener, in list order -/
def deliver (hs : List Nat) (log : List Event) : List (Nat × Event) :=
  log.flatMap fun e => hs.map fun h => (h, e)

def Walker.edit (w : Walker) : Edit → Walker
  | .add h => { w with registered := w.registered ++ [h] }
  | .replace hs => { w with registered := hs }

/-- One call of `rewrite_region` on the region whose ops are `attached`: the combined listener is
built from `w.registered` now; the walker's worklist is used as it was left by the previous call. -/
def call {IR : Type} (P : Params IR) (fuel : Nat) (w : Walker) (ir : IR) (attached : List Nat) :
    Option (Walker × D IR × Bool) :=
  match rewriteRegion P fuel { ir := ir, st := { attached := attached, wl := w.wl } } with
  | none => none
  | some (d, b) =>
    some ({ w with wl := d.st.wl, delivered := w.delivered ++ deliver w.registered d.st.log }, d, b)

/-- One step of a history: listener edits, then whatever the user does to the IR between two calls
together with the choice of the region handed to the next call (`prep` returns the IR and the ops
attached under that region). -/
structure Stage (IR : Type) where
  edits : List Edit
  prep : IR → IR × List Nat

/-- ghost record of one call -/
structure CallRec where
  registered : List Nat
  executed : List Action
  log : List Event
  ret : Bool
deriving Repr

def history {IR : Type} (P : Params IR) (fuel : Nat) :
    Walker → IR → List (Stage IR) → Option (Walker × IR × List CallRec)
  | w, ir, [] => some (w, ir, [])
  | w, ir, s :: rest =>
    let w1 := s.edits.foldl Walker.edit w
    let p := s.prep ir
    match call P fuel w1 p.1 p.2 with
    | none => none
    | some (w2, d, b) =>
      match history P fuel w2 d.ir rest with
      | none => none
      | some (w3, ir3, recs) =>
        some (w3, ir3, { registered := w1.registered, executed := d.st.executed, log := d.st.log,
                         ret := b } :: recs)

/-- what handler `h` has received -/
def view (h : Nat) (l : List (Nat × Event)) : List Event := (l.filter fun p => p.1 == h).map (·.2)

/-! ## Script-driven instance and line protocol

The check records, for every pattern invocation of the real walker, the calls made on the real
rewriter.  `IR := Nat` is the position in that recording; the pattern replays entry `n`. -/

structure Entry where
  op : Nat
  acts : List Action
deriving Repr

structure Script where
  recursive : Bool := true
  init : List Nat := []
  entries : Array Entry := #[]
  /-- populate order of every sweep, keyed by the number of invocations made before it -/
  sweeps : List (Nat × List Nat) := []
  /-- post-walk calls in order: (number of invocations made before, actions, returned bool) -/
  posts : List (Nat × List Action × Bool) := []
  hasPost : Bool := false
  /-- perturbed schedule: the element popped at invocation `n` -/
  picks : Option (Array Nat) := none
  cur : Option Entry := none     -- entry being read
  /-- the walker across the calls of a history (`next` keeps it, `reset` starts a new walker) -/
  walker : Walker := {}
deriving Repr

/-- The script position: invocations made so far, post-walk calls made so far. -/
structure Pos where
  n : Nat := 0
  p : Nat := 0

def scriptParams (sc : Script) : Params Pos where
  recursive := sc.recursive
  pat := fun pos _ =>
    match sc.entries[pos.n]? with
    | some e => (e.acts, { pos with n := pos.n + 1 })
    | none => ([], { pos with n := pos.n + 1 })
  post := if sc.hasPost then some fun pos =>
      match sc.posts[pos.p]? with
      | some (_, as, b) => (as, { pos with p := pos.p + 1 }, b)
      | none => ([], { pos with p := pos.p + 1 }, false)
    else none
  enum := fun pos att =>
    match sc.sweeps.find? (fun e => e.1 = pos.n) with
    | some (_, l) => l
    | none => att
  pick := sc.picks.map fun arr pos l =>
    match arr[pos.n]? with
    | some x => l.idxOf x
    | none => 0

def showNats (l : List Nat) : String := " ".intercalate (l.map toString)

def showEvent : Event → String
  | .inserted x => s!"i{x}" | .removed x => s!"x{x}" | .modified x => s!"m{x}"
  | .replaced x => s!"r{x}" | .blockCreated => "b"

def natsOf (ws : List String) : Option (List Nat) := ws.mapM String.toNat?

/-- split `ws` at the first occurrence of `sep` -/
def splitAt (sep : String) (ws : List String) : List String × List String :=
  (ws.takeWhile (· ≠ sep), (ws.dropWhile (· ≠ sep)).drop 1)

def parseAction (ws : List String) : Option Action :=
  match ws with
  | "ins" :: op :: r => do some (.insert (← op.toNat?) (← natsOf r))
  | "rep" :: op :: r => do some (.replaced (← op.toNat?) (← natsOf r))
  | "rauw" :: b :: r => do some (.rauw (b = "1") (← natsOf r))
  | "erase" :: op :: r =>
    let (n, d) := splitAt "d" r
    do some (.erase (← op.toNat?) (← natsOf n) (← natsOf d))
  | ["mod", op] => do some (.modify (← op.toNat?))
  | ["barg"] => some .blockArg
  | "inline" :: r =>
    let (m, u) := splitAt "u" r
    do some (.inlineBlock (← natsOf m) (← natsOf u))
  | ["blk"] => some .createBlock
  | _ => none

def sortNats (l : List Nat) : List Nat := (l.toArray.qsort (· < ·)).toList

def showEvents (es : List Event) : String := " ".intercalate (es.map showEvent)

def showItem : TraceItem → String
  | .sweep pushes att =>
    s!"S {showNats pushes}{if sortNats pushes == sortNats att then "" else " bad-populate"}"
  | .visit x att flag wl evs attached =>
    s!"M {x} {if att then "a" else "d"} {showBool flag} | {showNats wl} | {showEvents evs} | {showNats (sortNats attached)}"
  | .post ch wl evs attached =>
    s!"P {showBool ch} | {showNats wl} | {showEvents evs} | {showNats (sortNats attached)}"

/-- Run one call (`call`, i.e. the closed driver `rewriteRegion` on the walker's worklist) on the recorded
script and print its trace, followed — when handlers are registered — by what each registered handler
received during this call.  Returns the walker after the call. -/
def runScript (sc : Script) (fuel : Nat) : Walker × String :=
  let P := scriptParams sc
  let w0 := { sc.walker with delivered := [] }
  match call P fuel w0 {} sc.init with
  | none => (sc.walker, "out-of-fuel")
  | some (w, d, ret) =>
    (w, " ; ".intercalate (d.st.trace.map showItem
      ++ [s!"R {showBool ret} used {d.ir.n} of {sc.entries.size}"]
      ++ w0.registered.map fun h => s!"L {h}: {showEvents (view h w.delivered)}"))

/-- Protocol:
* `reset <rec 0|1> <post 0|1>` (new walker) / `next <rec 0|1> <post 0|1>` (next call on the same walker:
  worklist and registered handlers are kept); `listener add <h>` / `listener replace <hs>`; `init <ids>`; `sweep <n> <ids>`; `entry <op>`; `act <action>`;
  `postwalk <n> <ret 0|1>` followed by `pact <action>` lines; `picks <ids>`; `run <fuel>`. -/
def lineStep (sc : Script) (line : String) : Script × String :=
  let flush (sc : Script) : Script :=
    match sc.cur with
    | some e => { sc with entries := sc.entries.push e, cur := none }
    | none => sc
  match words line with
  | ["reset", r, p] => ({ recursive := r = "1", hasPost := p = "1" }, "ok")
  | ["next", r, p] => ({ recursive := r = "1", hasPost := p = "1", walker := sc.walker }, "ok")
  | ["listener", "add", h] =>
    (match h.toNat? with
     | some h => ({ sc with walker := sc.walker.edit (.add h) }, "ok")
     | none => (sc, "bad-op"))
  | "listener" :: "replace" :: ws =>
    (match natsOf ws with
     | some hs => ({ sc with walker := sc.walker.edit (.replace hs) }, "ok")
     | none => (sc, "bad-op"))
  | "init" :: ws =>
    (match natsOf ws with
     | some l => ({ sc with init := l }, "ok")
     | none => (sc, "bad-op"))
  | "sweep" :: n :: ws =>
    (match n.toNat?, natsOf ws with
     | some n, some l => ({ flush sc with sweeps := sc.sweeps ++ [(n, l)] }, "ok")
     | _, _ => (sc, "bad-op"))
  | ["entry", op] =>
    (match op.toNat? with
     | some op => ({ flush sc with cur := some { op := op, acts := [] } }, "ok")
     | none => (sc, "bad-op"))
  | "act" :: ws =>
    (match sc.cur, parseAction ws with
     | some e, some a => ({ sc with cur := some { e with acts := e.acts ++ [a] } }, "ok")
     | _, _ => (sc, "bad-op"))
  | ["postwalk", n, b] =>
    (match n.toNat? with
     | some n => ({ flush sc with posts := sc.posts ++ [(n, ([] : List Action), decide (b = "1"))] }, "ok")
     | none => (sc, "bad-op"))
  | "pact" :: ws =>
    (match sc.posts.reverse, parseAction ws with
     | (n, as, b) :: r, some a => ({ sc with posts := (((n, as ++ [a], b)) :: r).reverse }, "ok")
     | _, _ => (sc, "bad-op"))
  | "picks" :: ws =>
    (match natsOf ws with
     | some l => ({ sc with picks := some l.toArray }, "ok")
     | none => (sc, "bad-op"))
  | ["run", fuel] =>
    (match fuel.toNat? with
     | some f => let sc := flush sc; let (w, out) := runScript sc f; ({ sc with walker := w }, out)
     | none => (sc, "bad-op"))
  | _ => (sc, "bad-op")

end Xdsl.RewriteDriver
