import XdslModel.DeclFormat
import XdslModel.Skeleton
/-!
The *generic* form of a declarative-format operation instance (C05, clause "the custom and generic
printings parse to equivalent IR"), on the token skeleton of C04 (`XdslModel/Skeleton.lean`:
`pr` = `Printer.print_op_with_default_format`, `parseT` = the grammar of `Parser._parse_generic_operation`).

* `genericTree C D M op` — the real `Operation` object behind the abstract instance `op` as the generic
  printer sees it (`irdl_op_init`): the operand / operand-type / result-type / region / successor
  segments flattened, the properties and attributes as dictionary entries, followed by the
  segment-size entries `operandSegmentSizes` / `resultSegmentSizes` that the `AttrSized…Segments`
  options add (`M`: per construct `unique` = no option, at most one optional/variadic definition;
  `sized asProp` = the sizes are a property / an attribute).  `printGeneric = Skeleton.pr ∘ genericTree`.
* `instOf C D M` — from the operation the generic parser builds (`op_type.create` of the flat lists
  and the two dictionaries) back to the abstract instance: what the accessors of the operation class
  return (`UniqueVariadicAccessor`, `SameOptionalAccessor`, `Before/AfterVariadicSingleAccessor` =
  `splitByKinds`; `Single/Variadic/OptionalAttrAccessor` + `verify_variadic_attr_size` =
  `segBySizes`), the dictionaries without the segment-size entries.
  `parseGeneric = instOf ∘ Skeleton.parseT`.
* `Codec` — the dictionary between the carriers of the two models (value / block ids ↔ printed
  names, attribute names ↔ key tokens, type / attribute ids ↔ opaque token groups, the dense `i32`
  array of sizes, region ids ↔ block lists).

The `SameVariadic…Size` options and `AttrSized{Region,Successor}Segments` are not modelled.
No proofs here.
-/
namespace Xdsl.DeclGeneric
open Xdsl.DeclFormat

abbrev SStr := Skeleton.Str
abbrev STok := Skeleton.Tok
abbrev Opq := Skeleton.Opq
abbrev Entry := Skeleton.Entry
abbrev NTree := Skeleton.NTree

structure Codec where
  nv : Nat → SStr
  vn : SStr → Nat
  nb : Nat → SStr
  bn : SStr → Nat
  key : String → Skeleton.Key
  name : Nat → String
  ty : Nat → Opq
  tyId : Opq → Nat
  /-- attribute value → opaque group; `none`: a `UnitAttr`, printed as the bare key -/
  av : Nat → Option Opq
  avId : Option Opq → Nat
  /-- `DenseArrayBase.from_list(i32, sizes)` -/
  sizes : List Nat → Opq
  sizesOf : Opq → Option (List Nat)
  /-- the blocks of a region (id `0`: a region without blocks) -/
  region : Nat → NTree
  regionId : NTree → Nat
  opName : Nat

inductive SegMode
  | unique
  | sized (asProp : Bool)
  deriving DecidableEq, Repr

structure Modes where
  operands : SegMode := .unique
  results : SegMode := .unique
  deriving Repr

def opSegName : String := "operandSegmentSizes"
def resSegName : String := "resultSegmentSizes"

def entryOf (C : Codec) (p : String × Nat) : Entry := (C.key p.1, C.av p.2)
def pairOf (C : Codec) (e : Entry) : String × Nat := (C.name e.1.id, C.avId e.2)

def lens (segs : List (List Nat)) : List Nat := segs.map List.length

/-- the entries `irdl_op_init` appends for the `AttrSized…Segments` options stored in the property
dictionary (`asProp = true`) / the attribute dictionary -/
def segEntries (C : Codec) (M : Modes) (op : OpInst) (asProp : Bool) : List Entry :=
  (if M.operands = .sized asProp then [(C.key opSegName, some (C.sizes (lens op.operands)))] else []) ++
  (if M.results = .sized asProp then [(C.key resSegName, some (C.sizes (lens op.resultTys)))] else [])

def hdrOf (C : Codec) (M : Modes) (op : OpInst) : Skeleton.Hdr SStr SStr :=
  { results := [], name := C.opName,
    operands := op.operands.flatten.map C.nv,
    succs := op.succs.flatten.map C.nb,
    props := op.props.map (entryOf C) ++ segEntries C M op true,
    attrs := op.attrs.map (entryOf C) ++ segEntries C M op false,
    inTys := op.operandTys.flatten.map C.ty,
    outTys := op.resultTys.flatten.map C.ty }

def regionChain (C : Codec) : List Nat → NTree
  | [] => .nil
  | n :: ns => .region (C.region n) (regionChain C ns)

def genericTree (C : Codec) (M : Modes) (op : OpInst) : NTree :=
  .op (hdrOf C M op) (regionChain C op.regions.flatten) .nil

/-- the generic text of the instance (without the result list, which `print_op` writes before
either form) -/
def printGeneric (C : Codec) (M : Modes) (op : OpInst) : List STok := Skeleton.pr (genericTree C M op)

/-! ### from the parsed generic operation to the abstract instance -/

def splitSizes : List Nat → List Nat → List (List Nat)
  | [], _ => []
  | n :: ns, xs => xs.take n :: splitSizes ns (xs.drop n)

def lookupSizes (C : Codec) (es : List Entry) (name : String) : Option (List Nat) :=
  match es.find? (fun e => e.1.id == (C.key name).id) with
  | some (_, some a) => C.sizesOf a
  | _ => none

/-- `verify_variadic_attr_size` and the `Single/Variadic/OptionalAttrAccessor`s -/
def segBySizes (kinds : List Kind) (sizes flat : List Nat) : Option (List (List Nat)) :=
  if sizes.length = kinds.length ∧ sizes.sum = flat.length then
    (if fits kinds (splitSizes sizes flat) then some (splitSizes sizes flat) else none)
  else none

def segment (C : Codec) (mode : SegMode) (kinds : List Kind) (name : String)
    (h : Skeleton.Hdr SStr SStr) (flat : List Nat) : Option (List (List Nat)) :=
  match mode with
  | .unique => splitByKinds kinds flat
  | .sized asProp =>
    (lookupSizes C (if asProp then h.props else h.attrs) name).bind fun sz => segBySizes kinds sz flat

def regionList (C : Codec) : NTree → List Nat
  | .region bs nx => C.regionId bs :: regionList C nx
  | _ => []

def notSeg (C : Codec) (e : Entry) : Bool :=
  !(C.name e.1.id == opSegName || C.name e.1.id == resSegName)

def instOfOp (C : Codec) (D : Defs) (M : Modes) (h : Skeleton.Hdr SStr SStr) (rs : NTree) : Option OpInst :=
  (segment C M.operands D.operandKinds opSegName h (h.operands.map C.vn)).bind fun ops =>
  (segment C M.operands D.operandKinds opSegName h (h.inTys.map C.tyId)).bind fun otys =>
  (segment C M.results D.resultKinds resSegName h (h.outTys.map C.tyId)).bind fun rtys =>
  (splitByKinds D.regionKinds (regionList C rs)).bind fun regs =>
  (splitByKinds D.succKinds (h.succs.map C.bn)).map fun succs =>
    { operands := ops, operandTys := otys, resultTys := rtys, regions := regs, succs := succs,
      props := (h.props.filter (notSeg C)).map (pairOf C),
      attrs := (h.attrs.filter (notSeg C)).map (pairOf C) }

def instOf (C : Codec) (D : Defs) (M : Modes) : NTree → Option OpInst
  | .op h rs .nil => instOfOp C D M h rs
  | _ => none

def parseGeneric (C : Codec) (D : Defs) (M : Modes) (defs : Nat → List Nat) (toks : List STok) : Option OpInst :=
  (Skeleton.parseT defs toks).bind (instOf C D M)

/-! ### a concrete codec for the driver -/

def isBareStart (c : Char) : Bool := c.isAlpha || c == '_'
def isBareRest (c : Char) : Bool := c.isAlphanum || c == '_' || c == '$' || c == '.'

/-- bare-id of the MLIR grammar: `[a-zA-Z_][a-zA-Z0-9_$.]*` -/
def isBareKey (s : String) : Bool :=
  match s.toList with
  | [] => false
  | c :: r => isBareStart c && r.all isBareRest

def encSizes : List Nat → Nat
  | [] => 0
  | x :: l => 2 ^ x * (2 * encSizes l + 1)

def decSizes : Nat → Nat → Option (List Nat)
  | _, 0 => some []
  | 0, _ => none
  | f + 1, n + 1 =>
    let rec tz (fuel m acc : Nat) : Nat × Nat :=
      match fuel with
      | 0 => (acc, m)
      | k + 1 => if m % 2 = 0 && m ≠ 0 then tz k (m / 2) (acc + 1) else (acc, m)
    let p := tz (n + 1) (n + 1) 0
    (decSizes f ((p.2 - 1) / 2)).map (p.1 :: ·)

def markerBlock (n : Nat) : NTree :=
  .block none [] (.op ⟨[], n + 1, [], [], [], [], [], []⟩ .nil .nil) .nil

/-- values are printed `%v<n>`, blocks `^s<n>`, a key is its index in `keys`, a type id `n` is the
group `3n`, an attribute value `3n+1` (`units`: the ids of `UnitAttr`), a size array `3·enc+2`, a
non-empty region `n` is a block holding the marker operation named `n+1` (the harness puts the real
region's tokens in its place) -/
def driverCodec (keys : List String) (units funcTys : List Nat) : Codec :=
  { nv := fun n => 'v' :: Names.natDigits n
    vn := fun s => (String.ofList (s.drop 1)).toNat?.getD 0
    nb := fun n => 's' :: Names.natDigits n
    bn := fun s => (String.ofList (s.drop 1)).toNat?.getD 0
    key := fun s => ⟨keys.idxOf s, isBareKey s⟩
    name := fun i => keys.getD i ""
    ty := fun n => ⟨3 * n, funcTys.contains n⟩
    tyId := fun a => a.id / 3
    av := fun n => if units.contains n then none else some ⟨3 * n + 1, false⟩
    avId := fun a => match a with | none => units.headD 0 | some a => a.id / 3
    sizes := fun l => ⟨3 * encSizes l + 2, false⟩
    sizesOf := fun a => if a.id % 3 = 2 then decSizes (a.id + 1) (a.id / 3) else none
    region := fun n => if n = 0 then .nil else markerBlock n
    regionId := fun t =>
      match t with
      | .block _ _ (.op h _ _) _ => h.name - 1
      | _ => 0
    opName := 0 }

/-! ### line protocol: everything of `decl_format`, plus the generic form -/

structure St where
  base : DeclFormat.St := {}
  keys : List String := []
  units : List Nat := []
  modes : Modes := {}
  deriving Repr

def parseMode : String → Option SegMode
  | "u" => some .unique | "p" => some (.sized true) | "a" => some (.sized false) | _ => none

def codecOf (s : St) : Codec := driverCodec s.keys s.units s.base.defs.funcTys

def lineStep (s : St) (line : String) : St × String :=
  match words line with
  | ["reset"] => ({}, "ok")
  | ["gcfg", mo, mr, us, ks] =>
    (match (field "MO=" mo).bind parseMode, (field "MR=" mr).bind parseMode,
           (field "UNITS=" us).bind (fun x => if x = "-" then some [] else parseNatList x), field "KEYS=" ks with
     | some mo, some mr, some us, some ks =>
       ({ s with modes := { operands := mo, results := mr }, units := us, keys := parseNames ks }, "ok")
     | _, _, _, _ => (s, "bad-op"))
  | ["gprint"] =>
    let toks := printGeneric (codecOf s) s.modes s.base.op
    (s, if toks.isEmpty then "-" else " ".intercalate (toks.map Skeleton.shTok))
  | ["groundtrip"] =>
    (match parseGeneric (codecOf s) s.base.defs s.modes (fun _ => []) (printGeneric (codecOf s) s.modes s.base.op) with
     | some op' => (s, "some " ++ showOp s.base.defs op')
     | none => (s, "none"))
  | _ =>
    let r := DeclFormat.lineStep s.base line
    ({ s with base := r.1 }, r.2)

end Xdsl.DeclGeneric
