import XdslModel.Prelude
/-!
Model of `xdsl/ir/affine/affine_expr.py`, the map operations of `affine_map.py` that the
property names (`compose`, `replace_dims_and_symbols`, `eval`) and the expression part of
`xdsl/parser/affine_parser.py` (C26).

* `Expr` mirrors the four storage classes (`AffineConstantExpr`, `AffineDimExpr`,
  `AffineSymExpr`, `AffineBinaryOpExpr(kind, lhs, rhs)`).
* Python `//` and `%` on `int` are floor division / floor modulo: `Int.fdiv` / `Int.fmod`.
  `AffineExpr.eval` computes ceildiv as `-(-lhs // rhs)`; mirrored literally.
* A Python `raise` is an `Except.error` carrying the exception class.
* The smart constructors perform exactly the on-the-fly simplifications of `__add__`, `__mul__`,
  `__floordiv__`, `ceil_div`, `__mod__`, `__neg__`, `__sub__`.
* `SimpleAffineExprFlattener` keeps rows `[dims, symbols, locals, constant]` on a stack while it
  walks the expression in post-order.  The model is the equivalent recursion (lhs, then rhs, then the
  node); a row is `(co, k)` = (coefficients of dims, symbols and locals; constant term), and the
  insertion of a zero column into every pending row when a local is added is done when the
  recursion returns to the pending row (`Row.extend`).
-/
namespace Xdsl.Affine

/-- `AffineBinaryOpKind` -/
inductive Kind where
  | add | mul | mod | floordiv | ceildiv
  deriving DecidableEq, Repr, Inhabited

inductive Expr where
  | const (v : Int)
  | dim (p : Nat)
  | sym (p : Nat)
  | bin (k : Kind) (l r : Expr)
  deriving DecidableEq, Repr, Inhabited

/-- exception classes that can leave the modelled functions -/
inductive Err where
  | notImplemented | zeroDivision | value | assertion | parse | index | fuel
  deriving DecidableEq, Repr, Inhabited

abbrev R := Except Err

def Err.name : Err → String
  | .notImplemented => "NotImplementedError"
  | .zeroDivision => "ZeroDivisionError"
  | .value => "ValueError"
  | .assertion => "AssertionError"
  | .parse => "ParseError"
  | .index => "IndexError"
  | .fuel => "model-out-of-fuel"

/-! ## evaluation -/

/-- Python `a // b` (also defined, as `0`, for `b = 0` where Python raises) -/
def pyFloorDiv (a b : Int) : Int := Int.fdiv a b
/-- Python `a % b` -/
def pyMod (a b : Int) : Int := Int.fmod a b
/-- `-(-a // b)` as written in `AffineExpr.eval` -/
def pyCeilDiv (a b : Int) : Int := -(Int.fdiv (-a) b)

def evalBin : Kind → Int → Int → Int
  | .add, a, b => a + b
  | .mul, a, b => a * b
  | .mod, a, b => pyMod a b
  | .floordiv, a, b => pyFloorDiv a b
  | .ceildiv, a, b => pyCeilDiv a b

/-- value of an expression under an assignment of dimensions and symbols (total; used by the
theorems) -/
def eval (ρd ρs : Nat → Int) : Expr → Int
  | .const v => v
  | .dim p => ρd p
  | .sym p => ρs p
  | .bin k l r => evalBin k (eval ρd ρs l) (eval ρd ρs r)

def Kind.isDivLike : Kind → Bool
  | .mod | .floordiv | .ceildiv => true
  | _ => false

/-- `AffineExpr.eval(dims, symbols)` on Python sequences, with its exceptions
(`IndexError` for a position outside the sequence, `ZeroDivisionError`). -/
def evalPy (ds ss : List Int) : Expr → R Int
  | .const v => pure v
  | .dim p => match ds[p]? with | some v => pure v | none => throw .index
  | .sym p => match ss[p]? with | some v => pure v | none => throw .index
  | .bin k l r => do
    let a ← evalPy ds ss l
    let b ← evalPy ds ss r
    if k.isDivLike && b == 0 then throw .zeroDivision else pure (evalBin k a b)

/-! ## smart constructors -/

/-- `_try_fold_constant` on two constants -/
def foldConst (k : Kind) (x y : Int) : R Expr :=
  match k with
  | .add => pure (.const (x + y))
  | .mul => pure (.const (x * y))
  | .mod => if y = 0 then throw .zeroDivision else pure (.const (pyMod x y))
  | .floordiv => if y = 0 then throw .zeroDivision else pure (.const (pyFloorDiv x y))
  | .ceildiv => if y = 0 then throw .zeroDivision else pure (.const (pyCeilDiv x y))

/-- `_simplify_add(self, other)` followed by the fallback `AffineBinaryOpExpr(Add, self, other)`,
i.e. `__add__` after the swap that puts a constant on the right. -/
def addCore : Expr → Expr → Expr
  | .const x, .const y => .const (x + y)
  | .bin .add l (.const c), .const y =>
    if y = 0 then .bin .add l (.const c)
    else match l with
      -- `self.lhs + fold`: `__add__` swaps the constant `self.lhs` to the right and folds
      | .const x => .const (c + y + x)
      | _ => addCore l (.const (c + y))
  | self, .const y => if y = 0 then self else .bin .add self (.const y)
  | self, other => .bin .add self other

/-- `AffineExpr.__add__` -/
def mkAdd (a b : Expr) : Expr :=
  match a with
  | .const _ => addCore b a
  | _ => addCore a b

/-- `e.__mul__(AffineConstantExpr(k))` (also `k * e` and `AffineConstantExpr(k) * e`) -/
def mulC : Expr → Int → Expr
  | .const x, k => .const (k * x)
  | .bin .mul l (.const d), k => if k = 1 then .bin .mul l (.const d) else mulC l (d * k)
  | .bin .add l r, k => if k = 1 then .bin .add l r else mkAdd (mulC l k) (mulC r k)
  | e, k => if k = 1 then e else .bin .mul e (.const k)

/-- `AffineExpr.__mul__` -/
def mkMul (a b : Expr) : R Expr :=
  match a, b with
  | .const x, b => pure (mulC b x)
  | a, .const y => pure (mulC a y)
  | _, _ => throw .notImplemented

/-- `__floordiv__`, `ceil_div`, `__mod__` (`k` one of the three division-like kinds) -/
def mkDiv (k : Kind) (a b : Expr) : R Expr :=
  match a, b with
  | .const x, .const y =>
    -- `_try_fold_constant` leaves division and remainder by zero unfolded (the expression is kept)
    if y = 0 then pure (.bin k (.const x) (.const y)) else foldConst k x y
  | a, .const y => pure (.bin k a (.const y))
  | _, _ => throw .notImplemented

/-- `AffineExpr.binary(kind, lhs, rhs)` -/
def mkBin (k : Kind) (a b : Expr) : R Expr :=
  match k with
  | .add => pure (mkAdd a b)
  | .mul => mkMul a b
  | k => mkDiv k a b

/-- `AffineExpr.__neg__` -/
def mkNeg : Expr → Expr
  | .const v => .const (-v)
  | e => mulC e (-1)

/-- `AffineExpr.__sub__`: `self + (-1 * other)` -/
def mkSub (a b : Expr) : Expr := mkAdd a (mulC b (-1))

/-- `is_pure_affine` -/
def pureAffine : Expr → Bool
  | .bin .add l r => pureAffine l && pureAffine r
  | .bin .mul l r =>
    ((match l with | .const _ => true | _ => false) || (match r with | .const _ => true | _ => false))
      && pureAffine l && pureAffine r
  | .bin _ l r => (match r with | .const _ => true | _ => false) && pureAffine l
  | _ => true

/-! ## replace / compose -/

/-- `AffineExpr.replace_dims_and_symbols` -/
def replace (nd ns : List Expr) : Expr → R Expr
  | .const v => pure (.const v)
  | .dim p => pure (nd.getD p (.dim p))
  | .sym p => pure (ns.getD p (.sym p))
  | .bin k l r => do
    let l' ← replace nd ns l
    let r' ← replace nd ns r
    mkBin k l' r'

structure Map where
  numDims : Nat
  numSyms : Nat
  results : List Expr
  deriving Repr, Inhabited

/-- `AffineExpr.compose(map)` -/
def compose (e : Expr) (m : Map) : R Expr := replace m.results [] e

def mapM' {α β : Type} (f : α → R β) : List α → R (List β)
  | [] => pure []
  | a :: as => do
    let b ← f a
    let bs ← mapM' f as
    pure (b :: bs)

/-- `AffineMap.replace_dims_and_symbols` -/
def Map.replace (m : Map) (nd ns : List Expr) (rd rs : Nat) : R Map := do
  let rs' ← mapM' (Affine.replace nd ns) m.results
  pure { numDims := rd, numSyms := rs, results := rs' }

/-- `AffineMap.compose(other)`; `ValueError` when `self.num_dims != len(other.results)` -/
def Map.compose (self other : Map) : R Map :=
  if self.numDims ≠ other.results.length then throw .value
  else do
    let numDims := other.numDims
    let numSyms := self.numSyms + other.numSyms
    let newDims := (List.range numDims).map Expr.dim
    let newSyms := (List.range other.numSyms).map (fun s => Expr.sym (self.numSyms + s))
    let newMap ← other.replace newDims newSyms numDims numSyms
    let results ← mapM' (fun e => Affine.compose e newMap) self.results
    pure { numDims := numDims, numSyms := numSyms, results := results }

/-- `AffineMap.eval`: asserts the argument counts -/
def Map.evalPy (m : Map) (ds ss : List Int) : R (List Int) :=
  if ds.length ≠ m.numDims ∨ ss.length ≠ m.numSyms then throw .assertion
  else mapM' (Affine.evalPy ds ss) m.results

/-! ## SimpleAffineExprFlattener -/

/-- one entry of `operand_expr_stack`: coefficients of `[dims, symbols, locals]` and the constant -/
structure Row where
  co : List Int
  k : Int
  deriving Repr, Inhabited, DecidableEq

/-- `add_local_floordiv_id` inserts a zero column (before the constant) into every stacked row -/
def Row.extend (r : Row) (n : Nat) : Row := { r with co := r.co ++ List.replicate n 0 }

/-- `row = [0] * len; row[pos] = 1` -/
def unitCo : Nat → Nat → List Int
  | 0, _ => []
  | n + 1, 0 => 1 :: List.replicate n 0
  | n + 1, p + 1 => 0 :: unitCo n p

/-- the expressions the columns of a row stand for -/
def colExprs (nd ns : Nat) (locals : List Expr) : List Expr :=
  (List.range nd).map Expr.dim ++ (List.range ns).map Expr.sym ++ locals

/-- `AffineExpr.from_flat_form` -/
def fromFlat (nd ns : Nat) (locals : List Expr) (row : Row) : R Expr :=
  if row.co.length ≠ nd + ns + locals.length then throw .assertion
  else
    let terms := ((colExprs nd ns locals).zip row.co).filter (fun p => p.2 ≠ 0)
    let e := terms.foldl (fun acc p => mkAdd acc (mulC p.1 p.2)) (.const 0)
    pure (if row.k ≠ 0 then mkAdd e (.const row.k) else e)

/-- `math.gcd(*(abs(l) for l in xs))` -/
def gcdList : List Int → Nat
  | [] => 0
  | x :: xs => Nat.gcd x.natAbs (gcdList xs)

/-- `math.gcd(*(abs(l) for l in lhs), rhs_const)` -/
def rowGcd (row : Row) (c : Int) : Nat := Nat.gcd (gcdList row.co) (Nat.gcd row.k.natAbs c.natAbs)

def Row.divBy (row : Row) (g : Int) : Row :=
  if g ≠ 1 then { co := row.co.map (fun l => pyFloorDiv l g), k := pyFloorDiv row.k g } else row

def isConst : Expr → Bool
  | .const _ => true
  | _ => false

/-- `visit_div_expr` after both operand rows have been popped -/
def visitDiv (nd ns : Nat) (isCeil : Bool) (lhs rhs : Row) (rhsExpr : Expr) (locals : List Expr) :
    R (Row × List Expr) :=
  if !isConst rhsExpr then throw .notImplemented
  else
    let c := rhs.k
    if c ≤ 0 then throw .value
    else
      let g : Int := (rowGcd lhs c : Nat)
      let lhs' := lhs.divBy g
      let divisor := pyFloorDiv c g
      if divisor = 1 then pure (lhs', locals)
      else do
        let a ← fromFlat nd ns locals lhs'
        let divExpr ← mkDiv (if isCeil then .ceildiv else .floordiv) a (.const divisor)
        match locals.idxOf? divExpr with
        | some loc =>
          pure ({ co := unitCo (nd + ns + locals.length) (nd + ns + loc), k := 0 }, locals)
        | none =>
          pure ({ co := unitCo (nd + ns + locals.length + 1) (nd + ns + locals.length), k := 0 },
                locals ++ [divExpr])

/-- `visit_mod_expr` after both operand rows have been popped -/
def visitMod (nd ns : Nat) (lhs rhs : Row) (rhsExpr : Expr) (locals : List Expr) :
    R (Row × List Expr) :=
  if !isConst rhsExpr then throw .notImplemented
  else
    let c := rhs.k
    if c ≤ 0 then throw .assertion
    else if lhs.co.all (fun l => pyMod l c == 0) && pyMod lhs.k c == 0 then
      pure ({ co := lhs.co.map (fun _ => 0), k := 0 }, locals)
    else do
      let g : Int := (rowGcd lhs c : Nat)
      let floorDividend := lhs.divBy g
      let floorDivisor := pyFloorDiv c g
      let dividendExpr ← fromFlat nd ns locals floorDividend
      let floorDivExpr ← mkDiv .floordiv dividendExpr (.const floorDivisor)
      match locals.idxOf? floorDivExpr with
      | none => pure ({ co := lhs.co ++ [-c], k := lhs.k }, locals ++ [floorDivExpr])
      | some loc => pure ({ co := lhs.co.modify (nd + ns + loc) (fun x => x - c), k := lhs.k }, locals)

/-- the post-order walk of `SimpleAffineExprFlattener.simplify`: returns the row left on the stack
for `e` and the grown list of local expressions -/
def flat (nd ns : Nat) : Expr → List Expr → R (Row × List Expr)
  | .const v, L => pure ({ co := List.replicate (nd + ns + L.length) 0, k := v }, L)
  | .dim p, L =>
    if p < nd then pure ({ co := unitCo (nd + ns + L.length) p, k := 0 }, L) else throw .assertion
  | .sym p, L =>
    if p < ns then pure ({ co := unitCo (nd + ns + L.length) (nd + p), k := 0 }, L)
    else throw .assertion
  | .bin k l r, L0 => do
    let (lr, L1) ← flat nd ns l L0
    let (rr, L2) ← flat nd ns r L1
    let lr := lr.extend (L2.length - L1.length)
    match k with
    | .add => pure ({ co := List.zipWith (· + ·) lr.co rr.co, k := lr.k + rr.k }, L2)
    | .mul =>
      if !isConst r then throw .notImplemented
      else pure ({ co := lr.co.map (fun l => l * rr.k), k := lr.k * rr.k }, L2)
    | .floordiv => visitDiv nd ns false lr rr r L2
    | .ceildiv => visitDiv nd ns true lr rr r L2
    | .mod => visitMod nd ns lr rr r L2

/-- `AffineExpr.simplify(num_dims, num_symbols)` -/
def simplify (nd ns : Nat) (e : Expr) : R Expr :=
  if !pureAffine e then throw .notImplemented
  else do
    let (row, L) ← flat nd ns e []
    fromFlat nd ns L row

/-! ## printer -/

def Kind.token : Kind → String
  | .add => "+"
  | .mul => "*"
  | .mod => "mod"
  | .floordiv => "floordiv"
  | .ceildiv => "ceildiv"

/-- `__str__` -/
def toStr : Expr → String
  | .const v => toString v
  | .dim p => "d" ++ toString p
  | .sym p => "s" ++ toString p
  | .bin k l r => "(" ++ toStr l ++ " " ++ k.token ++ " " ++ toStr r ++ ")"

/-! ## tokens, lexer for the fragment of MLIR syntax that affine expressions use -/

inductive Tok where
  | lp | rp | plus | minus | star
  | int (n : Nat)
  | ident (s : String)
  deriving DecidableEq, Repr, Inhabited

/-- the token sequence of `toStr e` -/
def toToks : Expr → List Tok
  | .const v => if v < 0 then [.minus, .int v.natAbs] else [.int v.natAbs]
  | .dim p => [.ident ("d" ++ toString p)]
  | .sym p => [.ident ("s" ++ toString p)]
  | .bin k l r =>
    [.lp] ++ toToks l
      ++ [match k with
          | .add => .plus | .mul => .star | k => .ident k.token]
      ++ toToks r ++ [.rp]

def isIdentStart (c : Char) : Bool := c.isAlpha || c == '_'
def isIdentCont (c : Char) : Bool := c.isAlphanum || c == '_' || c == '$' || c == '.'

/-- value of a decimal literal -/
def digitsVal (cs : List Char) : Nat := Nat.ofDigitChars 10 cs 0

/-- lexer for spaces, parentheses, `+ - *`, decimal literals and bare identifiers; every other
character is a `ParseError` (the harness only sends this alphabet). -/
def lexAux : Nat → List Char → List Tok → R (List Tok)
  | 0, _, _ => throw .fuel
  | _ + 1, [], acc => pure acc.reverse
  | f + 1, c :: cs, acc =>
    if c == ' ' then lexAux f cs acc
    else if c == '(' then lexAux f cs (.lp :: acc)
    else if c == ')' then lexAux f cs (.rp :: acc)
    else if c == '+' then lexAux f cs (.plus :: acc)
    else if c == '-' then lexAux f cs (.minus :: acc)
    else if c == '*' then lexAux f cs (.star :: acc)
    else if c.isDigit then
      let ds := (c :: cs).takeWhile Char.isDigit
      lexAux f ((c :: cs).dropWhile Char.isDigit) (.int (digitsVal ds) :: acc)
    else if isIdentStart c then
      let w := (c :: cs).takeWhile isIdentCont
      lexAux f ((c :: cs).dropWhile isIdentCont) (.ident (String.ofList w) :: acc)
    else throw .parse

def lex (s : String) : R (List Tok) := lexAux (s.length + 1) s.toList []

/-! ## `AffineParser._parse_affine_expr` (precedence climbing) on tokens -/

/-- `_get_token_precedence` -/
def tokPrec : Option Tok → Int
  | some .plus => 10
  | some .minus => 10
  | some .star => 20
  | some (.ident s) => if s = "ceildiv" ∨ s = "floordiv" ∨ s = "mod" then 20 else -1
  | _ => -1

def dimNames (n : Nat) : List String := (List.range n).map (fun i => "d" ++ toString i)
def symNames (n : Nat) : List String := (List.range n).map (fun i => "s" ++ toString i)

/-- `parse_optional_bare_id` applied to an identifier token -/
def resolveId (nd ns : Nat) (s : String) : R Expr :=
  match (dimNames nd).idxOf? s with
  | some i => pure (.dim i)
  | none =>
    match (symNames ns).idxOf? s with
    | some i => pure (.sym i)
    | none => throw .parse

/-- `_create_binop_expr` (the token is known to have precedence ≥ 10) -/
def createBinop (lhs rhs : Expr) (op : Tok) : R Expr :=
  match op with
  | .plus => pure (mkAdd lhs rhs)
  | .minus => pure (mkSub lhs rhs)
  | .star => mkMul lhs rhs
  | .ident s =>
    if s = "ceildiv" then mkDiv .ceildiv lhs rhs
    else if s = "floordiv" then mkDiv .floordiv lhs rhs
    else if s = "mod" then mkDiv .mod lhs rhs
    else throw .parse
  | _ => throw .parse

mutual
/-- `_parse_primary` -/
def parsePrimary (nd ns : Nat) : Nat → List Tok → R (Expr × List Tok)
  | 0, _ => throw .fuel
  | _ + 1, [] => throw .parse
  | f + 1, t :: ts =>
    match t with
    | .ident s => do
      let e ← resolveId nd ns s
      pure (e, ts)
    | .lp => do
      let (e, ts') ← parseExpr nd ns f ts
      match ts' with
      | .rp :: ts'' => pure (e, ts'')
      | _ => throw .parse
    | .int n => pure (.const n, ts)
    | .minus => do
      let (e, ts') ← parsePrimary nd ns f ts
      pure (mkNeg e, ts')
    | _ => throw .parse

/-- `_parse_binop_rhs` (one loop iteration per call) -/
def parseBinopRhs (nd ns : Nat) : Nat → Expr → Int → List Tok → R (Expr × List Tok)
  | 0, _, _, _ => throw .fuel
  | f + 1, lhs, prec, ts =>
    let tokPrec' := tokPrec ts.head?
    if tokPrec' < prec then pure (lhs, ts)
    else
      match ts with
      | [] => pure (lhs, ts)
      | op :: ts1 => do
        let (rhs, ts2) ← parsePrimary nd ns f ts1
        let nextPrec := tokPrec ts2.head?
        let (rhs, ts3) ←
          if tokPrec' < nextPrec then parseBinopRhs nd ns f rhs (tokPrec' + 1) ts2
          else pure (rhs, ts2)
        let lhs' ← createBinop lhs rhs op
        parseBinopRhs nd ns f lhs' prec ts3

/-- `_parse_affine_expr` -/
def parseExpr (nd ns : Nat) : Nat → List Tok → R (Expr × List Tok)
  | 0, _ => throw .fuel
  | f + 1, ts => do
    let (lhs, ts') ← parsePrimary nd ns f ts
    parseBinopRhs nd ns f lhs 0 ts'
end

def parseFuel (ts : List Tok) : Nat := 4 * ts.length + 8

/-- lex and parse one affine expression; returns the expression and the unconsumed tokens -/
def parseStr (nd ns : Nat) (s : String) : R (Expr × List Tok) := do
  let ts ← lex s
  parseExpr nd ns (parseFuel ts) ts

/-! ## line protocol -/

def Kind.code : Kind → String
  | .add => "+"
  | .mul => "*"
  | .mod => "%"
  | .floordiv => "/"
  | .ceildiv => "^"

/-- canonical s-expression (Polish notation, space separated) -/
def showExpr : Expr → String
  | .const v => "c" ++ toString v
  | .dim p => "d" ++ toString p
  | .sym p => "s" ++ toString p
  | .bin k l r => k.code ++ " " ++ showExpr l ++ " " ++ showExpr r

/-- A build program: leaves, raw `AffineBinaryOpExpr(kind, l, r)` nodes (`+ * % / ^`) and
applications of the operators (`add sub mul fdiv cdiv mod neg`). -/
inductive Prog where
  | leaf (e : Expr)
  | raw (k : Kind) (l r : Prog)
  | op (k : Kind) (l r : Prog)
  | sub (l r : Prog)
  | neg (a : Prog)
  deriving Repr, Inhabited

def Prog.build : Prog → R Expr
  | .leaf e => pure e
  | .raw k l r => do
    let a ← l.build
    let b ← r.build
    pure (.bin k a b)
  | .op k l r => do
    let a ← l.build
    let b ← r.build
    mkBin k a b
  | .sub l r => do
    let a ← l.build
    let b ← r.build
    pure (mkSub a b)
  | .neg a => do
    let a ← a.build
    pure (mkNeg a)

def parseLeaf (w : String) : Option Expr :=
  match w.toList with
  | 'c' :: rest => (String.ofList rest).toInt?.map Expr.const
  | 'd' :: rest => (String.ofList rest).toNat?.map Expr.dim
  | 's' :: rest => (String.ofList rest).toNat?.map Expr.sym
  | _ => none

def rawKind (w : String) : Option Kind :=
  if w = "+" then some .add else if w = "*" then some .mul else if w = "%" then some .mod
  else if w = "/" then some .floordiv else if w = "^" then some .ceildiv else none

def opKind (w : String) : Option Kind :=
  if w = "add" then some .add else if w = "mul" then some .mul else if w = "mod" then some .mod
  else if w = "fdiv" then some .floordiv else if w = "cdiv" then some .ceildiv else none

/-- read one program in Polish notation from a word list -/
def readProg : Nat → List String → Option (Prog × List String)
  | 0, _ => none
  | _ + 1, [] => none
  | f + 1, w :: ws =>
    match rawKind w with
    | some k =>
      (readProg f ws).bind fun (l, ws1) => (readProg f ws1).map fun (r, ws2) => (.raw k l r, ws2)
    | none =>
      match opKind w with
      | some k =>
        (readProg f ws).bind fun (l, ws1) => (readProg f ws1).map fun (r, ws2) => (.op k l r, ws2)
      | none =>
        if w = "sub" then
          (readProg f ws).bind fun (l, ws1) => (readProg f ws1).map fun (r, ws2) => (.sub l r, ws2)
        else if w = "neg" then (readProg f ws).map fun (a, ws1) => (.neg a, ws1)
        else (parseLeaf w).map fun e => (.leaf e, ws)

/-- read `n` programs -/
def readProgs : Nat → List String → Option (List Prog × List String)
  | 0, ws => some ([], ws)
  | n + 1, ws =>
    (readProg (ws.length + 1) ws).bind fun (p, ws1) =>
      (readProgs n ws1).map fun (ps, ws2) => (p :: ps, ws2)

def readInts : Nat → List String → Option (List Int × List String)
  | 0, ws => some ([], ws)
  | _ + 1, [] => none
  | n + 1, w :: ws => w.toInt?.bind fun v => (readInts n ws).map fun (vs, r) => (v :: vs, r)

def showR (r : R String) : String :=
  match r with
  | .ok s => s
  | .error e => "raise " ++ e.name

def buildAll (ps : List Prog) : R (List Expr) := mapM' Prog.build ps

def showMap (m : Map) : String :=
  s!"map {m.numDims} {m.numSyms} {m.results.length}" ++
    String.join (m.results.map fun e => " | " ++ showExpr e)

/-- read `<nd> <ns> <k> <prog>*k` -/
def readMap (ws : List String) : Option (Nat × Nat × List Prog × List String) :=
  match ws with
  | a :: b :: c :: rest =>
    match a.toNat?, b.toNat?, c.toNat? with
    | some nd, some ns, some k => (readProgs k rest).map fun (ps, r) => (nd, ns, ps, r)
    | _, _, _ => none
  | _ => none

def showTokCount (ts : List Tok) : String := toString ts.length

/-- Stateless protocol; every line carries its operands as build programs.
* `build P` → `ok E`
* `pure P` → `bool b`
* `simplify nd ns P` → `ok E`
* `eval nd ns v… w… P` → `int v`
* `replace n m P*n P*m P` → `ok E`        (`P.replace_dims_and_symbols(dims, syms)`)
* `compose k P*k P` → `ok E`               (`P.compose(AffineMap(_, _, results))`)
* `mapcompose nd ns k P*k nd' ns' k' P*k'` → `map nd ns k | E | …`
* `mapeval nd ns k P*k a b v… w…` → `ints …`
* `str P` → `str text`
* `parse nd ns text…` → `ok E rest n`
-/
def lineStep (st : Unit) (line : String) : Unit × String :=
  let out : String :=
    match words line with
    | ["reset"] => "ok"
    | "build" :: ws =>
      (match readProgs 1 ws with
       | some ([p], []) => showR (do let e ← p.build; pure ("ok " ++ showExpr e))
       | _ => "bad-op")
    | "pure" :: ws =>
      (match readProgs 1 ws with
       | some ([p], []) => showR (do let e ← p.build; pure ("bool " ++ showBool (pureAffine e)))
       | _ => "bad-op")
    | "str" :: ws =>
      (match readProgs 1 ws with
       | some ([p], []) => showR (do let e ← p.build; pure ("str " ++ toStr e))
       | _ => "bad-op")
    | "simplify" :: a :: b :: ws =>
      (match a.toNat?, b.toNat?, readProgs 1 ws with
       | some nd, some ns, some ([p], []) =>
         showR (do let e ← p.build; let e' ← simplify nd ns e; pure ("ok " ++ showExpr e'))
       | _, _, _ => "bad-op")
    | "eval" :: a :: b :: ws =>
      (match a.toNat?, b.toNat? with
       | some nd, some ns =>
         (match readInts nd ws with
          | some (ds, ws1) =>
            (match readInts ns ws1 with
             | some (ss, ws2) =>
               (match readProgs 1 ws2 with
                | some ([p], []) =>
                  showR (do let e ← p.build; let v ← evalPy ds ss e; pure ("int " ++ toString v))
                | _ => "bad-op")
             | none => "bad-op")
          | none => "bad-op")
       | _, _ => "bad-op")
    | "replace" :: a :: b :: ws =>
      (match a.toNat?, b.toNat? with
       | some n, some m =>
         (match readProgs (n + m + 1) ws with
          | some (ps, []) =>
            showR (do
              let es ← buildAll ps
              let e' ← replace (es.take n) ((es.drop n).take m) (es.getD (n + m) (.const 0))
              pure ("ok " ++ showExpr e'))
          | _ => "bad-op")
       | _, _ => "bad-op")
    | "compose" :: a :: ws =>
      (match a.toNat? with
       | some k =>
         (match readProgs (k + 1) ws with
          | some (ps, []) =>
            showR (do
              let es ← buildAll ps
              let e' ← compose (es.getD k (.const 0)) { numDims := 0, numSyms := 0, results := es.take k }
              pure ("ok " ++ showExpr e'))
          | _ => "bad-op")
       | none => "bad-op")
    | "mapcompose" :: ws =>
      (match readMap ws with
       | some (nd1, ns1, ps1, rest) =>
         (match readMap rest with
          | some (nd2, ns2, ps2, []) =>
            showR (do
              let r1 ← buildAll ps1
              let r2 ← buildAll ps2
              let m ← Map.compose { numDims := nd1, numSyms := ns1, results := r1 }
                        { numDims := nd2, numSyms := ns2, results := r2 }
              pure (showMap m))
          | _ => "bad-op")
       | none => "bad-op")
    | "mapeval" :: ws =>
      (match readMap ws with
       | some (nd, ns, ps, a :: b :: rest) =>
         (match a.toNat?, b.toNat? with
          | some na, some nb =>
            (match readInts na rest with
             | some (ds, rest1) =>
               (match readInts nb rest1 with
                | some (ss, []) =>
                  showR (do
                    let rs ← buildAll ps
                    let vs ← Map.evalPy { numDims := nd, numSyms := ns, results := rs } ds ss
                    pure ("ints" ++ String.join (vs.map fun v => " " ++ toString v)))
                | _ => "bad-op")
             | none => "bad-op")
          | _, _ => "bad-op")
       | _ => "bad-op")
    | "parse" :: a :: b :: _ =>
      (match a.toNat?, b.toNat? with
       | some nd, some ns =>
         -- the text is everything after the third word
         let text := String.intercalate " " ((line.splitOn " ").drop 3)
         showR (do
           let (e, rest) ← parseStr nd ns text
           pure ("ok " ++ showExpr e ++ " rest " ++ showTokCount rest))
       | _, _ => "bad-op")
    | _ => "bad-op"
  (st, out)

end Xdsl.Affine
