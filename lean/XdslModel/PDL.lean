import XdslModel.Prelude
/-!
# C27 — specification-level model of PDL patterns (xdsl/interpreters/pdl.py as the reference reading)

Payload IR: one block of region-free operations (`IR`), values are block arguments or operation results.
Pattern: the single-root fragment of `pdl.pattern` — `pdl.type`, `pdl.attribute`, `pdl.operand`,
`pdl.operation` whose operands are `pdl.operand`s or `pdl.result`s of earlier `pdl.operation`s; the root is the
last operation.  `matchOp` threads a binding through the pattern exactly like `PDLMatcher.match_operation`
(a node reached a second time must be bound to the same entity).  `applyRw` executes the rewrite section
(`pdl.operation` = create before the root, `pdl.replace`, `pdl.erase`) with the run-time checks of
`PatternRewriter.replace/erase` (number of replacement values, no remaining uses) and a local availability check
for every value a created operation or a replacement uses.

Neither the predicate-tree compiler (convert_pdl_to_pdl_interp) nor the pdl_interp interpreter is modelled:
both real paths are tested against this specification (harness/props/c27.py).
-/
namespace Xdsl.PDL

abbrev OpId := Nat
abbrev Ty := Nat

/-- interned attribute value together with its type when it is a typed attribute -/
structure Attr where
  val : Nat
  ty : Option Ty
  deriving DecidableEq, Repr, Inhabited

inductive Val where
  | arg (k : Nat)
  | res (o : OpId) (i : Nat)
  deriving DecidableEq, Repr, Inhabited

structure Op where
  id : OpId
  name : Nat
  operands : List Val
  attrs : List (Nat × Attr)
  resTys : List Ty
  deriving DecidableEq, Repr, Inhabited

structure IR where
  argTys : List Ty
  ops : List Op
  deriving DecidableEq, Repr, Inhabited

def findOp : List Op → OpId → Option Op
  | [], _ => none
  | x :: r, o => if x.id = o then some x else findOp r o

def IR.find (ir : IR) (o : OpId) : Option Op := findOp ir.ops o

def Op.attr (x : Op) (n : Nat) : Option Attr := AL.get x.attrs n

def IR.typeOf (ir : IR) : Val → Option Ty
  | .arg k => ir.argTys[k]?
  | .res o i => match ir.find o with
    | some x => x.resTys[i]?
    | none => none

/-! ## patterns -/

inductive ORef where
  | val (v : Nat)
  | res (op : Nat) (idx : Nat)
  deriving DecidableEq, Repr, Inhabited

structure AttrPat where
  val : Option Attr
  ty : Option Nat
  deriving DecidableEq, Repr, Inhabited

structure OpPat where
  name : Option Nat
  attrs : List (Nat × Nat)
  operands : List ORef
  results : List Nat
  deriving DecidableEq, Repr, Inhabited

structure Pattern where
  types : List (Option Ty)
  attrs : List AttrPat
  vals : List (Option Nat)
  ops : List OpPat
  deriving DecidableEq, Repr, Inhabited

def Pattern.root (p : Pattern) : Nat := p.ops.length - 1

structure Binding where
  ops : AL Nat OpId := []
  vals : AL Nat Val := []
  attrs : AL Nat Attr := []
  tys : AL Nat Ty := []
  deriving DecidableEq, Repr, Inhabited

/-- an optional constant constraint: absent, or equal to the actual entity -/
def optEq {α : Type} [DecidableEq α] (c : Option α) (x : α) : Bool :=
  match c with
  | some c => decide (c = x)
  | none => true

/-- `PDLMatcher.match_type` -/
def bindTy (p : Pattern) (b : Binding) (t : Nat) (x : Ty) : Option Binding :=
  match AL.get b.tys t with
  | some y => if y = x then some b else none
  | none =>
    match p.types[t]? with
    | none => none
    | some none => some { b with tys := (t, x) :: b.tys }
    | some (some c) => if c = x then some { b with tys := (t, x) :: b.tys } else none

/-- `PDLMatcher.match_operand` -/
def bindVal (p : Pattern) (ir : IR) (b : Binding) (v : Nat) (x : Val) : Option Binding :=
  match AL.get b.vals v with
  | some y => if y = x then some b else none
  | none =>
    match p.vals[v]? with
    | none => none
    | some none => some { b with vals := (v, x) :: b.vals }
    | some (some t) =>
      match ir.typeOf x with
      | none => none
      | some ty =>
        match bindTy p b t ty with
        | none => none
        | some b' => some { b' with vals := (v, x) :: b'.vals }

/-- `PDLMatcher.match_attribute` (an attribute without a type never satisfies a type constraint) -/
def bindAttr (p : Pattern) (b : Binding) (a : Nat) (x : Attr) : Option Binding :=
  match AL.get b.attrs a with
  | some y => if y = x then some b else none
  | none =>
    match p.attrs[a]? with
    | none => none
    | some ap =>
      if optEq ap.val x then
        match ap.ty with
        | none => some { b with attrs := (a, x) :: b.attrs }
        | some t =>
          match x.ty with
          | none => none
          | some ty =>
            match bindTy p b t ty with
            | none => none
            | some b' => some { b' with attrs := (a, x) :: b'.attrs }
      else none

def matchAttrs (p : Pattern) (x : Op) : Binding → List (Nat × Nat) → Option Binding
  | b, [] => some b
  | b, (n, a) :: r =>
    match x.attr n with
    | none => none
    | some av =>
      match bindAttr p b a av with
      | none => none
      | some b' => matchAttrs p x b' r

def matchResults (p : Pattern) : Binding → List Nat → List Ty → Option Binding
  | b, [], [] => some b
  | b, t :: ts, x :: xs =>
    match bindTy p b t x with
    | none => none
    | some b' => matchResults p b' ts xs
  | _, _, _ => none

/-- operands: `pdl.operand` → `match_operand`; `pdl.result idx of j` → the actual operand must be result
`idx` of an operation matching pattern op `j` (`match_result`) -/
def matchOperands (p : Pattern) (ir : IR) (rec : Binding → Nat → OpId → Option Binding) :
    Binding → List ORef → List Val → Option Binding
  | b, [], [] => some b
  | b, r :: rs, x :: xs =>
    match (match r with
      | .val v => bindVal p ir b v x
      | .res j idx =>
        match x with
        | .res o k => if k = idx then rec b j o else none
        | .arg _ => none) with
    | none => none
    | some b' => matchOperands p ir rec b' rs xs
  | _, _, _ => none

/-- `PDLMatcher.match_operation`; `fuel` bounds the nesting depth -/
def matchOp (p : Pattern) (ir : IR) : Nat → Binding → Nat → OpId → Option Binding
  | 0, _, _, _ => none
  | fuel + 1, b, i, o =>
    match AL.get b.ops i with
    | some o' => if o' = o then some b else none
    | none =>
      match p.ops[i]?, ir.find o with
      | some pat, some x =>
        if optEq pat.name x.name then
          match matchAttrs p x b pat.attrs with
          | none => none
          | some b1 =>
            match matchOperands p ir (fun b' j o' => matchOp p ir fuel b' j o') b1 pat.operands x.operands with
            | none => none
            | some b2 =>
              match matchResults p b2 pat.results x.resTys with
              | none => none
              | some b3 =>
                -- (bound meanwhile = the op is its own transitive operand: impossible in SSA form, refused)
                match AL.get b3.ops i with
                | some _ => none
                | none => some { b3 with ops := (i, o) :: b3.ops }
        else none
      | _, _ => none

/-- the denotation: the binding of the pattern's nodes when its root is instantiated at operation `o` -/
def matchRoot (p : Pattern) (ir : IR) (o : OpId) : Option Binding :=
  if p.ops = [] then none else matchOp p ir (p.ops.length + 1) {} p.root o

/-! ## rewrites -/

inductive RVal where
  | cap (v : Nat)
  | mres (op : Nat) (idx : Nat)
  | nres (k : Nat) (idx : Nat)
  deriving DecidableEq, Repr, Inhabited

inductive ROp where
  | m (i : Nat)
  | n (k : Nat)
  deriving DecidableEq, Repr, Inhabited

inductive RAttr where
  | cap (a : Nat)
  | const (x : Attr)
  deriving DecidableEq, Repr, Inhabited

inductive RTy where
  | cap (t : Nat)
  | const (x : Ty)
  deriving DecidableEq, Repr, Inhabited

inductive Action where
  | create (name : Nat) (operands : List RVal) (attrs : List (Nat × RAttr)) (tys : List RTy)
  | replaceVals (t : ROp) (vs : List RVal)
  | replaceOp (t : ROp) (w : ROp)
  | erase (t : ROp)
  deriving Repr, Inhabited

/-- a value is available: a block argument of the block, or result `i` of an operation still in the block -/
def validIn (nargs : Nat) (ops : List Op) : Val → Bool
  | .arg k => decide (k < nargs)
  | .res o i => ops.any fun x => decide (x.id = o) && decide (i < x.resTys.length)

def IR.valid (ir : IR) (v : Val) : Bool := validIn ir.argTys.length ir.ops v

/-- no dangling uses: every operand of every operation is available -/
def IR.closed (ir : IR) : Bool := ir.ops.all fun x => x.operands.all ir.valid

def usesOp (ops : List Op) (o : OpId) : Bool :=
  ops.any fun x => x.operands.any fun v => match v with
    | .res o' _ => decide (o' = o)
    | .arg _ => false

def freshId (ops : List Op) : OpId := ops.foldl (fun m x => max m (x.id + 1)) 0

def insertBefore (ops : List Op) (at_ : OpId) (new : Op) : Option (List Op) :=
  match ops with
  | [] => none
  | x :: r => if x.id = at_ then some (new :: x :: r) else (insertBefore r at_ new).map (x :: ·)

def substVal (src dst : Val) (v : Val) : Val := if v = src then dst else v

def substOps (src dst : Val) (ops : List Op) : List Op :=
  ops.map fun x => { x with operands := x.operands.map (substVal src dst) }

/-- `Rewriter.erase_op(op, safe_erase=True)` -/
def eraseOp (ops : List Op) (o : OpId) : Option (List Op) :=
  if usesOp ops o then none else some (ops.filter fun x => !decide (x.id = o))

/-- `old_result[k].replace_all_uses_with(new_result[k])` for k = 0, 1, … in this order -/
def replaceSeq (o : OpId) : Nat → List Val → List Op → List Op
  | _, [], ops => ops
  | k, v :: vs, ops => replaceSeq o (k + 1) vs (substOps (.res o k) v ops)

structure RState where
  ir : IR
  created : List OpId
  deriving Repr, Inhabited

def evalVal (st : RState) (b : Binding) (r : RVal) : Option Val :=
  match (match r with
    | .cap v => AL.get b.vals v
    | .mres i idx => (AL.get b.ops i).map fun o => Val.res o idx
    | .nres k idx => (st.created[k]?).map fun o => Val.res o idx) with
  | none => none
  | some v => if st.ir.valid v then some v else none

def evalVals (st : RState) (b : Binding) : List RVal → Option (List Val)
  | [] => some []
  | r :: rs =>
    match evalVal st b r, evalVals st b rs with
    | some v, some vs => some (v :: vs)
    | _, _ => none

def evalOp (st : RState) (b : Binding) (r : ROp) : Option Op :=
  match (match r with
    | .m i => AL.get b.ops i
    | .n k => st.created[k]?) with
  | none => none
  | some o => st.ir.find o

def evalAttrs (b : Binding) : List (Nat × RAttr) → Option (List (Nat × Attr))
  | [] => some []
  | (n, r) :: rs =>
    match (match r with | .cap a => AL.get b.attrs a | .const x => some x), evalAttrs b rs with
    | some x, some xs => some ((n, x) :: xs)
    | _, _ => none

def evalTys (b : Binding) : List RTy → Option (List Ty)
  | [] => some []
  | r :: rs =>
    match (match r with | .cap t => AL.get b.tys t | .const x => some x), evalTys b rs with
    | some x, some xs => some (x :: xs)
    | _, _ => none

def doReplace (st : RState) (x : Op) (vs : List Val) : Option RState :=
  if vs.length = x.resTys.length then
    match eraseOp (replaceSeq x.id 0 vs st.ir.ops) x.id with
    | some ops => some { st with ir := { st.ir with ops := ops } }
    | none => none
  else none

def step (rootId : OpId) (b : Binding) (st : RState) : Action → Option RState
  | .create name operands attrs tys =>
    match evalVals st b operands, evalAttrs b attrs, evalTys b tys with
    | some vs, some as, some ts =>
      let id := freshId st.ir.ops
      match insertBefore st.ir.ops rootId { id := id, name := name, operands := vs, attrs := as, resTys := ts } with
      | some ops => some { ir := { st.ir with ops := ops }, created := st.created ++ [id] }
      | none => none
    | _, _, _ => none
  | .replaceVals t rs =>
    match evalOp st b t, evalVals st b rs with
    | some x, some vs => doReplace st x vs
    | _, _ => none
  | .replaceOp t w =>
    match evalOp st b t, evalOp st b w with
    | some x, some y => doReplace st x ((List.range y.resTys.length).map fun k => Val.res y.id k)
    | _, _ => none
  | .erase t =>
    match evalOp st b t with
    | some x =>
      match eraseOp st.ir.ops x.id with
      | some ops => some { st with ir := { st.ir with ops := ops } }
      | none => none
    | none => none

def steps (rootId : OpId) (b : Binding) : RState → List Action → Option RState
  | st, [] => some st
  | st, a :: r =>
    match step rootId b st a with
    | none => none
    | some st' => steps rootId b st' r

/-- the rewrite section executed under binding `b` with the root bound to `rootId` -/
def applyRw (rw : List Action) (ir : IR) (b : Binding) (rootId : OpId) : Option IR :=
  (steps rootId b { ir := ir, created := [] } rw).map (·.ir)

inductive Outcome where
  | nomatch
  | error
  | done (ir : IR)
  deriving DecidableEq, Repr, Inhabited

def rewriteAt (p : Pattern) (rw : List Action) (ir : IR) (o : OpId) : Outcome :=
  match matchRoot p ir o with
  | none => .nomatch
  | some b =>
    match applyRw rw ir b o with
    | none => .error
    | some ir' => .done ir'

/-! ## greedy application: `PatternRewriteWalker` (xdsl/pattern_rewriter.py) on one block of region-free operations

Both passes (`apply-pdl`, `apply-pdl-interp`) hand their pattern to a `PatternRewriteWalker` with the default
configuration.  The walker keeps a worklist (`utils/worklist.py`: a LIFO stack without duplicates), populates it with
every operation so that the first one (`walk_reverse`: the last one) is on top, visits what it pops, and repeats whole
walks until one of them changes nothing.  The rewriter's listener pushes created operations, the users of replaced
results, modified operations and — when an operation is erased — the defining operations of its operands that have
no other use; an erased operation leaves the worklist.  Which users are pushed first depends on the order of the use
lists (`IRWithUses`: newest use first), so these are part of the state (`Side.uses`).

The payload component is computed by the specification (`step`) alone; the side state never influences it except
through the ORDER of the visits.  That order is observable for patterns that are not confluent (XdslProofs/C27Drive). -/

abbrev Use := OpId × Nat

structure Side where
  uses : AL Val (List Use) := []
  wl : List OpId := []
  deriving Repr, Inhabited

/-- `Worklist.push` (top of the stack = head of the list) -/
def wlPush (o : OpId) (wl : List OpId) : List OpId := if o ∈ wl then wl else o :: wl

def usesOf (u : AL Val (List Use)) (v : Val) : List Use := (AL.get u v).getD []

/-- `IRWithUses.add_use`: the newest use comes first -/
def addUse (u : AL Val (List Use)) (v : Val) (x : Use) : AL Val (List Use) := AL.set u v (x :: usesOf u v)

def removeUse (u : AL Val (List Use)) (v : Val) (x : Use) : AL Val (List Use) := AL.set u v ((usesOf u v).erase x)

/-- the operands of a new operation are registered in index order -/
def addUsesFrom (id : OpId) : Nat → List Val → AL Val (List Use) → AL Val (List Use)
  | _, [], u => u
  | i, v :: vs, u => addUsesFrom id (i + 1) vs (addUse u v (id, i))

/-- `Operation.drop_all_references` -/
def removeUsesFrom (id : OpId) : Nat → List Val → AL Val (List Use) → AL Val (List Use)
  | _, [], u => u
  | i, v :: vs, u => removeUsesFrom id (i + 1) vs (removeUse u v (id, i))

/-- use lists of a freshly parsed block: operations in program order -/
def initUses (ir : IR) : AL Val (List Use) :=
  ir.ops.foldl (fun u x => addUsesFrom x.id 0 x.operands u) []

/-- `PatternRewriter.erase`: `_handle_operation_removal` (single-use producers of the operands are pushed, the
operation leaves the worklist), then the operation's own uses are dropped -/
def sideErase (sd : Side) (x : Op) : Side :=
  let wl1 := x.operands.foldl (fun wl v =>
    match v with
    | .res o _ => if (usesOf sd.uses v).length = 1 then wlPush o wl else wl
    | .arg _ => wl) sd.wl
  { uses := removeUsesFrom x.id 0 x.operands sd.uses, wl := wl1.filter fun o => !decide (o = x.id) }

/-- `replace_all_uses_with` result by result: every use moves to the front of the new value's use list (in the order
of the old list), then `_handle_operation_modification` pushes the users -/
def sideRauw (o : OpId) : Nat → List Val → Side → Side
  | _, [], sd => sd
  | k, v :: vs, sd =>
    if v = .res o k then sideRauw o (k + 1) vs sd
    else
      let snap := usesOf sd.uses (.res o k)
      let uses := snap.foldl (fun u x => addUse (removeUse u (.res o k) x) v x) sd.uses
      let wl := snap.foldl (fun wl x => wlPush x.1 wl) sd.wl
      sideRauw o (k + 1) vs { uses := uses, wl := wl }

/-- `PatternRewriter.replace(op, [], values)`: `_handle_operation_replacement` pushes the users of every result,
then the uses are replaced, then the operation is erased -/
def sideReplace (sd : Side) (x : Op) (vs : List Val) : Side :=
  let wl1 := (List.range x.resTys.length).foldl (fun wl k =>
    (usesOf sd.uses (.res x.id k)).foldl (fun wl u => wlPush u.1 wl) wl) sd.wl
  sideErase (sideRauw x.id 0 vs { sd with wl := wl1 }) x

/-- what the listener does for one action, given the state BEFORE the action (the same evaluations as `step`) -/
def sideStep (b : Binding) (st : RState) (sd : Side) : Action → Side
  | .create _ operands _ _ =>
    match evalVals st b operands with
    | some vs =>
      let id := freshId st.ir.ops
      { uses := addUsesFrom id 0 vs sd.uses, wl := wlPush id sd.wl }
    | none => sd
  | .replaceVals t rs =>
    match evalOp st b t, evalVals st b rs with
    | some x, some vs => sideReplace sd x vs
    | _, _ => sd
  | .replaceOp t w =>
    match evalOp st b t, evalOp st b w with
    | some x, some y => sideReplace sd x ((List.range y.resTys.length).map fun k => Val.res y.id k)
    | _, _ => sd
  | .erase t =>
    match evalOp st b t with
    | some x => sideErase sd x
    | none => sd

/-- `steps` with the listener's bookkeeping alongside -/
def stepsW (rootId : OpId) (b : Binding) : RState → Side → List Action → Option (RState × Side)
  | st, sd, [] => some (st, sd)
  | st, sd, a :: r =>
    match step rootId b st a with
    | none => none
    | some st' => stepsW rootId b st' (sideStep b st sd a) r

/-- one visit of operation `o` with matcher `m`: `none` = the rewrite raised (the walker aborts); the flag is
`rewriter.has_done_action` -/
def visitW (m : IR → OpId → Option Binding) (rw : List Action) (ir : IR) (sd : Side) (o : OpId) : Option (IR × Side × Bool) :=
  match m ir o with
  | none => some (ir, sd, false)
  | some b =>
    match stepsW o b { ir := ir, created := [] } sd rw with
    | none => none
    | some (st, sd') => some (st.ir, sd', !rw.isEmpty)

/-- `_populate_worklist`: every operation is pushed, in reverse program order (so that the first is on top) unless
`walk_reverse` -/
def populate (rev : Bool) (ir : IR) (wl : List OpId) : List OpId :=
  let ids := ir.ops.map (·.id)
  (if rev then ids else ids.reverse).foldl (fun wl o => wlPush o wl) wl

structure DState where
  ir : IR
  sd : Side
  changed : Bool
  deriving Repr, Inhabited

inductive DOut where
  | done (ir : IR)
  | error
  | fuel
  deriving DecidableEq, Repr, Inhabited

/-- `_process_worklist` inside the `while op_was_modified` loop of `rewrite_region`; `fuel` bounds the number of visits -/
def driveLoop (m : IR → OpId → Option Binding) (rw : List Action) (rev : Bool) : Nat → DState → DOut
  | 0, _ => .fuel
  | fuel + 1, s =>
    match s.sd.wl with
    | [] =>
      if s.changed then
        driveLoop m rw rev fuel { s with sd := { s.sd with wl := populate rev s.ir [] }, changed := false }
      else .done s.ir
    | o :: rest =>
      match visitW m rw s.ir { s.sd with wl := rest } o with
      | none => .error
      | some (ir', sd', ch) => driveLoop m rw rev fuel { ir := ir', sd := sd', changed := s.changed || ch }

def driveWith (m : IR → OpId → Option Binding) (rw : List Action) (rev : Bool) (fuel : Nat) (ir : IR) : DOut :=
  driveLoop m rw rev fuel { ir := ir, sd := { uses := initUses ir, wl := populate rev ir [] }, changed := false }

/-- greedy application of a PDL pattern by `PatternRewriteWalker(pattern, walk_reverse := rev)` -/
def driveW (p : Pattern) (rw : List Action) (rev : Bool) (fuel : Nat) (ir : IR) : DOut :=
  driveWith (matchRoot p) rw rev fuel ir

/-! ## line protocol (all structures travel as sequences of naturals with length prefixes) -/

abbrev P (α : Type) := List Nat → Option (α × List Nat)

def pNat : P Nat
  | [] => none
  | n :: r => some (n, r)

def pOpt : P (Option Nat)
  | [] => none
  | 0 :: r => some (none, r)
  | (n + 1) :: r => some (some n, r)

def pRep {α : Type} (f : P α) : Nat → P (List α)
  | 0, ts => some ([], ts)
  | n + 1, ts =>
    match f ts with
    | none => none
    | some (x, ts') =>
      match pRep f n ts' with
      | none => none
      | some (xs, ts'') => some (x :: xs, ts'')

def pList {α : Type} (f : P α) : P (List α)
  | [] => none
  | n :: ts => if n ≤ ts.length then pRep f n ts else none

def pAttr : P Attr := fun ts =>
  match ts with
  | v :: ts => match pOpt ts with
    | some (t, ts) => some ({ val := v, ty := t }, ts)
    | none => none
  | [] => none

def pAttrPat : P AttrPat := fun ts =>
  match ts with
  | 0 :: ts => match pOpt ts with
    | some (t, ts) => some ({ val := none, ty := t }, ts)
    | none => none
  | (v + 1) :: ts => match pOpt ts with
    | some (vt, ts) => match pOpt ts with
      | some (t, ts) => some ({ val := some { val := v, ty := vt }, ty := t }, ts)
      | none => none
    | none => none
  | [] => none

def pPair : P (Nat × Nat)
  | a :: b :: r => some ((a, b), r)
  | _ => none

def pORef : P ORef
  | 0 :: a :: _ :: r => some (.val a, r)
  | 1 :: a :: b :: r => some (.res a b, r)
  | _ => none

def pOpPat : P OpPat := fun ts =>
  match pOpt ts with
  | some (name, ts) => match pList pPair ts with
    | some (attrs, ts) => match pList pORef ts with
      | some (opnds, ts) => match pList pNat ts with
        | some (res, ts) => some ({ name := name, attrs := attrs, operands := opnds, results := res }, ts)
        | none => none
      | none => none
    | none => none
  | none => none

def pPattern : P Pattern := fun ts =>
  match pList pOpt ts with
  | some (types, ts) => match pList pAttrPat ts with
    | some (attrs, ts) => match pList pOpt ts with
      | some (vals, ts) => match pList pOpPat ts with
        | some (ops, ts) => some ({ types := types, attrs := attrs, vals := vals, ops := ops }, ts)
        | none => none
      | none => none
    | none => none
  | none => none

def pRVal : P RVal
  | 0 :: a :: _ :: r => some (.cap a, r)
  | 1 :: a :: b :: r => some (.mres a b, r)
  | 2 :: a :: b :: r => some (.nres a b, r)
  | _ => none

def pROp : P ROp
  | 0 :: a :: r => some (.m a, r)
  | 1 :: a :: r => some (.n a, r)
  | _ => none

def pNamedRAttr : P (Nat × RAttr)
  | n :: 0 :: a :: _ :: r => some ((n, .cap a), r)
  | n :: 1 :: v :: 0 :: r => some ((n, .const { val := v, ty := none }), r)
  | n :: 1 :: v :: (t + 1) :: r => some ((n, .const { val := v, ty := some t }), r)
  | _ => none

def pRTy : P RTy
  | 0 :: a :: r => some (.cap a, r)
  | 1 :: a :: r => some (.const a, r)
  | _ => none

def pAction : P Action
  | 0 :: name :: ts =>
    match pList pRVal ts with
    | some (opnds, ts) => match pList pNamedRAttr ts with
      | some (attrs, ts) => match pList pRTy ts with
        | some (tys, ts) => some (.create name opnds attrs tys, ts)
        | none => none
      | none => none
    | none => none
  | 1 :: ts =>
    match pROp ts with
    | some (t, ts) => match pList pRVal ts with
      | some (vs, ts) => some (.replaceVals t vs, ts)
      | none => none
    | none => none
  | 2 :: ts =>
    match pROp ts with
    | some (t, ts) => match pROp ts with
      | some (w, ts) => some (.replaceOp t w, ts)
      | none => none
    | none => none
  | 3 :: ts =>
    match pROp ts with
    | some (t, ts) => some (.erase t, ts)
    | none => none
  | _ => none

def pVal : P Val
  | 0 :: a :: _ :: r => some (.arg a, r)
  | 1 :: a :: b :: r => some (.res a b, r)
  | _ => none

def pNamedAttr : P (Nat × Attr) := fun ts =>
  match ts with
  | n :: ts => match pAttr ts with
    | some (a, ts) => some ((n, a), ts)
    | none => none
  | [] => none

def pOp : P Op := fun ts =>
  match ts with
  | id :: name :: ts => match pList pVal ts with
    | some (opnds, ts) => match pList pNamedAttr ts with
      | some (attrs, ts) => match pList pNat ts with
        | some (res, ts) => some ({ id := id, name := name, operands := opnds, attrs := attrs, resTys := res }, ts)
        | none => none
      | none => none
    | none => none
  | _ => none

def pIR : P IR := fun ts =>
  match pList pNat ts with
  | some (args, ts) => match pList pOp ts with
    | some (ops, ts) => some ({ argTys := args, ops := ops }, ts)
    | none => none
  | none => none

def parseNats (ws : List String) : Option (List Nat) :=
  ws.foldr (fun w acc => match acc, w.toNat? with
    | some l, some n => some (n :: l)
    | _, _ => none) (some [])

/-! printing: operation ids are replaced by positions -/

def posOf (ops : List Op) (o : OpId) : Option Nat :=
  match ops with
  | [] => none
  | x :: r => if x.id = o then some 0 else (posOf r o).map (· + 1)

def showVal (ops : List Op) : Val → String
  | .arg k => s!"a{k}"
  | .res o i => match posOf ops o with
    | some k => s!"r{k}.{i}"
    | none => "dangling"

def insertSorted {α : Type} (k : Nat) (v : α) : List (Nat × α) → List (Nat × α)
  | [] => [(k, v)]
  | (k', v') :: r => if k ≤ k' then (k, v) :: (k', v') :: r else (k', v') :: insertSorted k v r

def sortByKey {α : Type} (l : List (Nat × α)) : List (Nat × α) :=
  l.foldr (fun kv acc => insertSorted kv.1 kv.2 acc) []

def showOp (ops : List Op) (x : Op) : String :=
  s!"{x.name}(" ++ ",".intercalate (x.operands.map (showVal ops)) ++ "){" ++
  ",".intercalate ((sortByKey x.attrs).map fun (n, a) => s!"{n}={a.val}") ++ "}(" ++
  ",".intercalate (x.resTys.map toString) ++ ")"

def showIR (ir : IR) : String :=
  "args(" ++ ",".intercalate (ir.argTys.map toString) ++ ") " ++ ";".intercalate (ir.ops.map (showOp ir.ops))

def showBinding (ir : IR) (b : Binding) : String :=
  "ops=" ++ ",".intercalate ((sortByKey b.ops).map fun (i, o) =>
      s!"{i}:" ++ (match posOf ir.ops o with | some k => toString k | none => "?")) ++
  " vals=" ++ ",".intercalate ((sortByKey b.vals).map fun (i, v) => s!"{i}:{showVal ir.ops v}") ++
  " attrs=" ++ ",".intercalate ((sortByKey b.attrs).map fun (i, a) => s!"{i}:{a.val}") ++
  " tys=" ++ ",".intercalate ((sortByKey b.tys).map fun (i, t) => s!"{i}:{t}")

/-! ## the `pdl.pattern` operation: header + body

The header (`benefit`, optional symbol name) is carried along but no function of the specification has access to it:
what a SINGLE pattern does to a payload does not depend on its benefit (the benefit orders several patterns; 0 is the
lowest priority, not "never applies") nor on its name (a label; the conversion names the rewriter function after it).
Both real paths are run under generated headers and compared with this header-blind denotation. -/

structure Header where
  benefit : Nat := 1
  sym : Option Nat := none
  deriving DecidableEq, Repr, Inhabited

structure PatternOp where
  hdr : Header
  body : Pattern
  rw : List Action
  deriving Inhabited

def PatternOp.matchRoot (po : PatternOp) (ir : IR) (o : OpId) : Option Binding := PDL.matchRoot po.body ir o
def PatternOp.rewriteAt (po : PatternOp) (ir : IR) (o : OpId) : Outcome := PDL.rewriteAt po.body po.rw ir o
def PatternOp.driveW (po : PatternOp) (rev : Bool) (fuel : Nat) (ir : IR) : DOut := PDL.driveW po.body po.rw rev fuel ir

structure State where
  pat : Option (Pattern × List Action) := none
  ir : Option IR := none
  hdr : Header := {}
  deriving Inhabited

/-- Lines: `pat <nats>` (pattern followed by the action list), `ir <nats>`, `match <pos>`, `apply <pos>`
(`<pos>` = position of the candidate root operation), `closed` (no dangling uses in the stored IR),
`drive <fuel>` / `driverev <fuel>` (greedy application by the walker, program order / `walk_reverse`),
`hdr <benefit> <0 | sym+1>` (header of the `pdl.pattern` op for the following queries; `reset` restores the default). -/
def lineStep (s : State) (line : String) : State × String :=
  match words line with
  | ["reset"] => ({}, "ok")
  | "pat" :: ws =>
    match parseNats ws with
    | some ts =>
      match pPattern ts with
      | some (p, ts) =>
        match pList pAction ts with
        | some (rw, []) => ({ s with pat := some (p, rw) }, "ok")
        | _ => (s, "bad-op")
      | none => (s, "bad-op")
    | none => (s, "bad-op")
  | "ir" :: ws =>
    match parseNats ws with
    | some ts =>
      match pIR ts with
      | some (ir, []) => ({ s with ir := some ir }, "ok")
      | _ => (s, "bad-op")
    | none => (s, "bad-op")
  | ["hdr", b, n] =>
    match b.toNat?, n.toNat? with
    | some b, some n => ({ s with hdr := { benefit := b, sym := if n = 0 then none else some (n - 1) } }, "ok")
    | _, _ => (s, "bad-op")
  | ["closed"] =>
    match s.ir with
    | some ir => (s, showBool ir.closed)
    | none => (s, "bad-op")
  | [cmd, k] =>
    match s.pat, s.ir, k.toNat? with
    | some (p, rw), some ir, some k =>
      let po : PatternOp := ⟨s.hdr, p, rw⟩
      if cmd = "drive" || cmd = "driverev" then
        match po.driveW (cmd = "driverev") k ir with
        | .done ir' => (s, "done " ++ showIR ir' ++ (if ir'.closed then "" else " !dangling"))
        | .error => (s, "error")
        | .fuel => (s, "fuel")
      else
      match ir.ops[k]? with
      | some x =>
        if cmd = "match" then
          match po.matchRoot ir x.id with
          | some b => (s, "match " ++ showBinding ir b)
          | none => (s, "nomatch")
        else if cmd = "apply" then
          match po.rewriteAt ir x.id with
          | .nomatch => (s, "nomatch")
          | .error => (s, "error")
          | .done ir' => (s, showIR ir' ++ (if ir'.closed then "" else " !dangling"))
        else (s, "bad-op")
      | none => (s, "bad-op")
    | _, _, _ => (s, "bad-op")
  | _ => (s, "bad-op")

end Xdsl.PDL
