import XdslModel.MiniIR
/-!
C23 — model of the LLVM backend (`xdsl/backend/llvm/{convert,convert_op,convert_type}.py`).

Two small languages and the translation between them:

* `DFunc`  : the llvm-*dialect* subset as xDSL stores it (op classes of `xdsl/dialects/llvm.py`;
  overflow flags as the integer bit mask of the `overflowFlags` property, `isExact`/`isDisjoint`/
  `nonNeg` unit properties as booleans, icmp/fcmp predicates as the integer stored in the
  `predicate` property, constants as separate `llvm.mlir.constant` ops, block arguments).
* `IFunc`  : the LLVM-*IR* subset as it is printed by llvmlite (mnemonics, flag keywords, predicate
  keywords, constants inline as operands, phi nodes).
* `conv`   : `convert_module`/`_convert_func`/`convert_op` on that subset: the class → builder-method →
  mnemonic table, the flag tables, the predicate tables (incl. llvmlite's `icmp_signed/unsigned`,
  `fcmp_ordered/unordered` spelling rules), `val_map` (constants are substituted into their uses), the
  block-argument → phi construction (incoming lists filled while converting the branch ops, in block
  order, then-edge before else-edge) and the `cond_br` with two identical successors (operands that
  differ are merged by a `select` on the condition and the merged value is entered twice — the repaired
  behaviour).  `conv` returns `none` where the Python code raises (`KeyError` for a use that is
  converted before its definition, `ValueError` for the fcmp predicates `_false`/`_true`, an
  out-of-range predicate index, llvmlite's `TypeError` for a store through a typed pointer of another
  element type) and for programs that cannot come from real IR (an SSA id defined twice, a branch to
  the entry block).

Both languages get a fuel-indexed executable semantics on bit patterns (`BitVec` for the integer
operations; IEEE operations through Lean's native `Float`/`Float32`, never unfolded by a proof).
`none` inside a run means "poison was produced or undefined behaviour was executed": such inputs are
outside the property.  No Mathlib.
-/
namespace Xdsl.LLVM
open Xdsl.MiniIR (SExp readSExp atomNat? atomInt?)

/-- `mapM` in `Option` with plain structural equations -/
def allSome {α β : Type} (f : α → Option β) : List α → Option (List β)
  | [] => some []
  | x :: xs =>
    match f x with
    | none => none
    | some y => (allSome f xs).map (y :: ·)

/-! ## Types, values, memory -/

inductive Ty where
  | int (w : Nat) | f32 | f64 | ptr
deriving DecidableEq, Repr, Inhabited

def Ty.size : Ty → Nat
  | .int w => (w + 7) / 8
  | .f32 => 4
  | .f64 => 8
  | .ptr => 8

inductive Val where
  | int (w n : Nat)            -- bit pattern `n < 2^w`
  | f32 (bits : Nat)
  | f64 (bits : Nat)
  | ptr (alloc : Nat) (off : Int)   -- allocation index, byte offset
deriving DecidableEq, Repr, Inhabited

/-- byte-addressed memory: one byte list per `alloca`; `none` = never written -/
structure Mem where
  allocs : List (List (Option Nat)) := []
deriving Repr, Inhabited

def Mem.alloca (m : Mem) (n : Nat) : Mem × Nat :=
  ({ allocs := m.allocs ++ [List.replicate n none] }, m.allocs.length)

def Mem.read (m : Mem) (a : Nat) (off : Int) (n : Nat) : Option (List Nat) :=
  if off < 0 then none else
  match m.allocs[a]? with
  | none => none
  | some bytes =>
    if off.toNat + n ≤ bytes.length then ((bytes.drop off.toNat).take n).mapM id else none

def Mem.write (m : Mem) (a : Nat) (off : Int) (bs : List Nat) : Option Mem :=
  if off < 0 then none else
  match m.allocs[a]? with
  | none => none
  | some bytes =>
    if off.toNat + bs.length ≤ bytes.length then
      let bytes' := bytes.take off.toNat ++ bs.map some ++ bytes.drop (off.toNat + bs.length)
      some { allocs := m.allocs.set a bytes' }
    else none

def toBytes (n : Nat) : Nat → List Nat
  | 0 => []
  | k + 1 => n % 256 :: toBytes (n / 256) k

def ofBytes : List Nat → Nat
  | [] => 0
  | b :: r => b + 256 * ofBytes r

def Val.encode : Val → Option (List Nat)
  | .int w n => some (toBytes n ((w + 7) / 8))
  | .f32 b => some (toBytes b 4)
  | .f64 b => some (toBytes b 8)
  | .ptr _ _ => none

def decodeVal (ty : Ty) (bs : List Nat) : Option Val :=
  match ty with
  | .int w => let n := ofBytes bs; if n < 2 ^ w then some (.int w n) else none
  | .f32 => some (.f32 (ofBytes bs))
  | .f64 => some (.f64 (ofBytes bs))
  | .ptr => none

def Val.hasTy : Val → Ty → Bool
  | .int w _, .int w' => w == w'
  | .f32 _, .f32 => true
  | .f64 _, .f64 => true
  | .ptr _ _, .ptr => true
  | _, _ => false

/-! ## IEEE operations (native; parameters of the proofs) -/

def toF32 (b : Nat) : Float32 := Float32.ofBits b.toUInt32
def toF64 (b : Nat) : Float := Float.ofBits b.toUInt64

inductive FRel where | lt | eq | gt | un
deriving DecidableEq, Repr

def frel32 (a b : Nat) : FRel :=
  let x := toF32 a; let y := toF32 b
  if x.isNaN || y.isNaN then .un else if x < y then .lt else if x == y then .eq else .gt

def frel64 (a b : Nat) : FRel :=
  let x := toF64 a; let y := toF64 b
  if x.isNaN || y.isNaN then .un else if x < y then .lt else if x == y then .eq else .gt

/-- the Python float of a `FloatAttr` (an f64 bit pattern) rounded to f32, as llvmlite's `_as_float` does -/
def f64ToF32Bits (d : Nat) : Nat := (toF64 d).toFloat32.toBits.toNat

def sitofp32 (w n : Nat) : Nat := (Float32.ofInt (BitVec.ofNat w n).toInt).toBits.toNat
def sitofp64 (w n : Nat) : Nat := (Float.ofInt (BitVec.ofNat w n).toInt).toBits.toNat
def fpext (a : Nat) : Nat := (toF32 a).toFloat.toBits.toNat

/-! ## The dialect side -/

/-- op classes of `_BINARY_OP_MAP` on integers -/
inductive DBin where
  | AddOp | SubOp | MulOp | UDivOp | SDivOp | URemOp | SRemOp | AndOp | OrOp | XOrOp | ShlOp | LShrOp | AShrOp
deriving DecidableEq, Repr, Inhabited

inductive DFBin where
  | FAddOp | FSubOp | FMulOp | FDivOp | FRemOp
deriving DecidableEq, Repr, Inhabited

/-- op classes of `_CAST_OP_NAMES` (pointer casts are outside the subset) -/
inductive DCast where
  | TruncOp | ZExtOp | SExtOp | BitcastOp | SIToFPOp | FPExtOp
deriving DecidableEq, Repr, Inhabited

inductive DIdx where
  | const (v : Int)                 -- entry of `rawConstantIndices`
  | ssa (id : Nat) (w : Nat)        -- `GEP_USE_SSA_VAL` placeholder + the SSA index of width `w`
deriving DecidableEq, Repr, Inhabited

inductive DOp where
  /-- `llvm.mlir.constant` with an `IntegerAttr`; `v` is the Python int of the attribute -/
  | const (res : Nat) (w : Nat) (v : Int)
  /-- `llvm.mlir.constant` with a `FloatAttr`; `d` = bit pattern of the Python float (a double) -/
  | fconst (res : Nat) (ty : Ty) (d : Nat)
  | bin (k : DBin) (res : Nat) (w : Nat) (lhs rhs : Nat) (ovf : Nat) (exact disjoint : Bool)
  | icmp (res : Nat) (pred : Nat) (w : Nat) (lhs rhs : Nat)
  | fbin (k : DFBin) (res : Nat) (ty : Ty) (lhs rhs : Nat)
  | fcmp (res : Nat) (pred : Nat) (ty : Ty) (lhs rhs : Nat)
  | fneg (res : Nat) (ty : Ty) (arg : Nat)
  | cast (k : DCast) (res : Nat) (fromTy toTy : Ty) (arg : Nat) (ovf : Nat) (nneg : Bool)
  | select (res : Nat) (ty : Ty) (cond lhs rhs : Nat)
  | alloca (res : Nat) (elem : Ty) (sizeW : Nat) (size : Nat)
  | load (res : Nat) (ty : Ty) (ptr : Nat)
  | store (ty : Ty) (val ptr : Nat)
  | gep (res : Nat) (elem : Ty) (ptr : Nat) (idx : DIdx) (inbounds : Bool)
deriving Repr, Inhabited

inductive DTerm where
  | ret (ty : Ty) (v : Nat)
  | br (dest : Nat) (args : List Nat)
  | condbr (c : Nat) (t : Nat) (targs : List Nat) (e : Nat) (eargs : List Nat)
  | unreachable
deriving Repr, Inhabited

structure DBlock where
  args : List (Nat × Ty)
  ops : List DOp
  term : DTerm
deriving Repr, Inhabited

structure DFunc where
  ret : Ty
  blocks : List DBlock
deriving Repr, Inhabited

/-! ### dialect semantics of the single operations (MLIR LLVM-dialect documentation) -/

def bit (n i : Nat) : Bool := (n / 2 ^ i) % 2 == 1

/-- `IntegerOverflowFlags`: bit 0 = nsw, bit 1 = nuw. `none` = poison / undefined behaviour. -/
def DBin.eval (k : DBin) (ovf : Nat) (exact disjoint : Bool) {w : Nat} (x y : BitVec w) : Option (BitVec w) :=
  let nsw := bit ovf 0
  let nuw := bit ovf 1
  match k with
  | .AddOp => if (nsw && BitVec.saddOverflow x y) || (nuw && BitVec.uaddOverflow x y) then none else some (x + y)
  | .SubOp => if (nsw && BitVec.ssubOverflow x y) || (nuw && BitVec.usubOverflow x y) then none else some (x - y)
  | .MulOp => if (nsw && BitVec.smulOverflow x y) || (nuw && BitVec.umulOverflow x y) then none else some (x * y)
  | .UDivOp => if y = 0 then none else if exact && x % y ≠ 0 then none else some (x / y)
  | .SDivOp => if y = 0 || BitVec.sdivOverflow x y then none
               else if exact && BitVec.srem x y ≠ 0 then none else some (BitVec.sdiv x y)
  | .URemOp => if y = 0 then none else some (x % y)
  | .SRemOp => if y = 0 || BitVec.sdivOverflow x y then none else some (BitVec.srem x y)
  | .AndOp => some (x &&& y)
  | .OrOp => if disjoint && (x &&& y) ≠ 0 then none else some (x ||| y)
  | .XOrOp => some (x ^^^ y)
  | .ShlOp =>
    if y.toNat ≥ w then none
    else
      let r := x <<< y.toNat
      if (nsw && BitVec.sshiftRight r y.toNat ≠ x) || (nuw && r >>> y.toNat ≠ x) then none else some r
  | .LShrOp => if y.toNat ≥ w then none
               else if exact && (x >>> y.toNat) <<< y.toNat ≠ x then none else some (x >>> y.toNat)
  | .AShrOp => if y.toNat ≥ w then none
               else if exact && (BitVec.sshiftRight x y.toNat) <<< y.toNat ≠ x then none
               else some (BitVec.sshiftRight x y.toNat)

/-- `ICmpPredicate`: eq=0 ne=1 slt=2 sle=3 sgt=4 sge=5 ult=6 ule=7 ugt=8 uge=9 -/
def dICmp (pred : Nat) {w : Nat} (x y : BitVec w) : Option Bool :=
  match pred with
  | 0 => some (x == y)
  | 1 => some (x != y)
  | 2 => some (BitVec.slt x y)
  | 3 => some (BitVec.sle x y)
  | 4 => some (BitVec.slt y x)
  | 5 => some (BitVec.sle y x)
  | 6 => some (BitVec.ult x y)
  | 7 => some (BitVec.ule x y)
  | 8 => some (BitVec.ult y x)
  | 9 => some (BitVec.ule y x)
  | _ => none

/-- `FCmpPredicate`: _false=0 oeq ogt oge olt ole one ord ueq ugt uge ult ule une uno _true=15 -/
def dFCmp (pred : Nat) (r : FRel) : Option Bool :=
  match pred with
  | 0 => some false
  | 1 => some (r == .eq)
  | 2 => some (r == .gt)
  | 3 => some (r == .gt || r == .eq)
  | 4 => some (r == .lt)
  | 5 => some (r == .lt || r == .eq)
  | 6 => some (r == .lt || r == .gt)
  | 7 => some (r != .un)
  | 8 => some (r == .un || r == .eq)
  | 9 => some (r == .un || r == .gt)
  | 10 => some (r == .un || r == .gt || r == .eq)
  | 11 => some (r == .un || r == .lt)
  | 12 => some (r == .un || r == .lt || r == .eq)
  | 13 => some (r != .eq)
  | 14 => some (r == .un)
  | 15 => some true
  | _ => none

def boolVal (b : Bool) : Val := .int 1 (if b then 1 else 0)

def frelOf (ty : Ty) (a b : Val) : Option FRel :=
  match ty, a, b with
  | .f32, .f32 x, .f32 y => some (frel32 x y)
  | .f64, .f64 x, .f64 y => some (frel64 x y)
  | _, _, _ => none

/-! `frem` (C `fmod`) has no native counterpart in Lean: it is computed exactly on the decoded
significands (`eb` exponent bits, `mb` stored significand bits). -/

/-- `(isNaN, isInf, sign, m, e)` with value `(-1)^sign * m * 2^e` for finite numbers (`e` as an offset from
the smallest exponent, so that it is a natural number) -/
def fdecode (eb mb bits : Nat) : Bool × Bool × Bool × Nat × Nat :=
  let sign := bits / 2 ^ (eb + mb) % 2 == 1
  let ex := bits / 2 ^ mb % 2 ^ eb
  let mant := bits % 2 ^ mb
  if ex = 2 ^ eb - 1 then (mant != 0, mant == 0, sign, 0, 0)
  else if ex = 0 then (false, false, sign, mant, 0)
  else (false, false, sign, 2 ^ mb + mant, ex - 1)

def bitLength (n : Nat) : Nat := if n = 0 then 0 else Nat.log2 n + 1

/-- bits of `(-1)^sign * m * 2^e` (same exponent convention), assuming it is representable -/
def fencode (eb mb : Nat) (sign : Bool) (m e : Nat) : Nat :=
  let s := if sign then 2 ^ (eb + mb) else 0
  if m = 0 then s
  else
    let l := bitLength m
    if l > mb + 1 then
      let sh := l - (mb + 1)
      s + (e + sh + 1) * 2 ^ mb + (m / 2 ^ sh - 2 ^ mb)
    else
      let d := min (mb + 1 - l) e
      let m' := m * 2 ^ d
      let e' := e - d
      if m' ≥ 2 ^ mb then s + (e' + 1) * 2 ^ mb + (m' - 2 ^ mb) else s + m'

def fremBits (eb mb x y : Nat) : Nat :=
  let qnan := (2 ^ eb - 1) * 2 ^ mb + 2 ^ (mb - 1)
  let (xn, xi, xs, xm, xe) := fdecode eb mb x
  let (yn, yi, _, ym, ye) := fdecode eb mb y
  if xn || yn || xi || (!yi && ym == 0) then qnan
  else if yi || xm == 0 then x
  else
    let e := min xe ye
    let r := (xm * 2 ^ (xe - e)) % (ym * 2 ^ (ye - e))
    fencode eb mb xs r e

/-- shared IEEE arithmetic -/
inductive FArith where | add | sub | mul | div | rem
deriving DecidableEq, Repr

def farith (k : FArith) (ty : Ty) (a b : Val) : Option Val :=
  match ty, a, b with
  | .f32, .f32 x, .f32 y =>
    let p := toF32 x; let q := toF32 y
    match k with
    | .add => some (.f32 (p + q).toBits.toNat)
    | .sub => some (.f32 (p - q).toBits.toNat)
    | .mul => some (.f32 (p * q).toBits.toNat)
    | .div => some (.f32 (p / q).toBits.toNat)
    | .rem => some (.f32 (fremBits 8 23 x y))
  | .f64, .f64 x, .f64 y =>
    let p := toF64 x; let q := toF64 y
    match k with
    | .add => some (.f64 (p + q).toBits.toNat)
    | .sub => some (.f64 (p - q).toBits.toNat)
    | .mul => some (.f64 (p * q).toBits.toNat)
    | .div => some (.f64 (p / q).toBits.toNat)
    | .rem => some (.f64 (fremBits 11 52 x y))
  | _, _, _ => none

def DFBin.arith : DFBin → FArith
  | .FAddOp => .add | .FSubOp => .sub | .FMulOp => .mul | .FDivOp => .div | .FRemOp => .rem

/-- `fneg` flips the sign bit (also of a NaN) -/
def fnegVal (ty : Ty) (a : Val) : Option Val :=
  match ty, a with
  | .f32, .f32 x => some (.f32 (if x < 2 ^ 31 then x + 2 ^ 31 else x - 2 ^ 31))
  | .f64, .f64 x => some (.f64 (if x < 2 ^ 63 then x + 2 ^ 63 else x - 2 ^ 63))
  | _, _ => none

/-- value-level meaning of the cast kinds, shared by both languages; the flag handling is not shared -/
inductive CastK where | trunc | zext | sext | bitcast | sitofp | fpext
deriving DecidableEq, Repr

/-- `lossS`/`lossU`: the truncation changes the signed / unsigned value; `neg`: the operand is negative -/
def castCore (k : CastK) (toTy : Ty) (a : Val) (noLossS noLossU nonNeg : Bool) : Option Val :=
  match k, a, toTy with
  | .trunc, .int w n, .int v =>
    if v < w then
      let x := BitVec.ofNat w n
      let r := x.truncate v
      if (noLossS && r.signExtend w ≠ x) || (noLossU && r.zeroExtend w ≠ x) then none
      else some (.int v r.toNat)
    else none
  | .zext, .int w n, .int v =>
    if w < v then
      if nonNeg && n ≥ 2 ^ (w - 1) then none else some (.int v n)
    else none
  | .sext, .int w n, .int v =>
    if w < v then some (.int v ((BitVec.ofNat w n).signExtend v).toNat) else none
  | .bitcast, .int 32 n, .f32 => some (.f32 n)
  | .bitcast, .int 64 n, .f64 => some (.f64 n)
  | .bitcast, .f32 b, .int 32 => if (toF32 b).isNaN then none else some (.int 32 b)
  | .bitcast, .f64 b, .int 64 => if (toF64 b).isNaN then none else some (.int 64 b)
  | .sitofp, .int w n, .f32 => some (.f32 (sitofp32 w n))
  | .sitofp, .int w n, .f64 => some (.f64 (sitofp64 w n))
  | .fpext, .f32 b, .f64 => some (.f64 (fpext b))
  | _, _, _ => none

def DCast.kind : DCast → CastK
  | .TruncOp => .trunc | .ZExtOp => .zext | .SExtOp => .sext | .BitcastOp => .bitcast
  | .SIToFPOp => .sitofp | .FPExtOp => .fpext

def selectVal (c a b : Val) : Option Val :=
  match c with
  | .int 1 n => some (if n = 1 then a else b)
  | _ => none

def allocaDen (elem : Ty) (mem : Mem) (size : Val) : Option (Mem × Option Val) :=
  match size with
  | .int _ n =>
    let (m', a) := mem.alloca (n * elem.size)
    some (m', some (.ptr a 0))
  | _ => none

def loadDen (ty : Ty) (mem : Mem) (p : Val) : Option (Mem × Option Val) :=
  match p with
  | .ptr a off => do
    let bs ← mem.read a off ty.size
    let v ← decodeVal ty bs
    some (mem, some v)
  | _ => none

def storeDen (ty : Ty) (mem : Mem) (v p : Val) : Option (Mem × Option Val) :=
  match p with
  | .ptr a off =>
    if v.hasTy ty then do
      let bs ← v.encode
      let m' ← mem.write a off bs
      some (m', none)
    else none
  | _ => none

/-- `getelementptr elem, ptr, idx` with one index; a result outside `[0, size]` of the allocation is
treated as poison whether or not `inbounds` is set (conservative exclusion). -/
def gepDen (elem : Ty) (mem : Mem) (p : Val) (idx : Int) : Option (Mem × Option Val) :=
  match p with
  | .ptr a off =>
    match mem.allocs[a]? with
    | none => none
    | some bytes =>
      let off' := off + idx * elem.size
      if 0 ≤ off' && off' ≤ bytes.length then some (mem, some (.ptr a off')) else none
  | _ => none

def intOf (w : Nat) : Val → Option (BitVec w)
  | .int w' n => if w' = w then some (BitVec.ofNat w n) else none
  | _ => none

def pure1 (mem : Mem) (v : Option Val) : Option (Mem × Option Val) := v.map fun x => (mem, some x)

/-- argument ids of an op, in operand order -/
def DOp.args : DOp → List Nat
  | .const .. => []
  | .fconst .. => []
  | .bin _ _ _ a b _ _ _ => [a, b]
  | .icmp _ _ _ a b => [a, b]
  | .fbin _ _ _ a b => [a, b]
  | .fcmp _ _ _ a b => [a, b]
  | .fneg _ _ a => [a]
  | .cast _ _ _ _ a _ _ => [a]
  | .select _ _ c a b => [c, a, b]
  | .alloca _ _ _ s => [s]
  | .load _ _ p => [p]
  | .store _ v p => [v, p]
  | .gep _ _ p (.const _) _ => [p]
  | .gep _ _ p (.ssa i _) _ => [p, i]

def DOp.res : DOp → Option Nat
  | .const r .. => some r
  | .fconst r .. => some r
  | .bin _ r .. => some r
  | .icmp r .. => some r
  | .fbin _ r .. => some r
  | .fcmp r .. => some r
  | .fneg r .. => some r
  | .cast _ r .. => some r
  | .select r .. => some r
  | .alloca r .. => some r
  | .load r .. => some r
  | .store .. => none
  | .gep r .. => some r

def constVal (w : Nat) (v : Int) : Val := .int w (BitVec.ofInt w v).toNat

def fconstVal (ty : Ty) (d : Nat) : Option Val :=
  match ty with
  | .f32 => some (.f32 (f64ToF32Bits d))
  | .f64 => some (.f64 d)
  | _ => none

/-- denotation of a dialect op on the values of `args` -/
def DOp.den (op : DOp) (mem : Mem) (vs : List Val) : Option (Mem × Option Val) :=
  match op, vs with
  | .const _ w v, [] => some (mem, some (constVal w v))
  | .fconst _ ty d, [] => pure1 mem (fconstVal ty d)
  | .bin k _ w _ _ ovf ex dj, [a, b] => do
    let x ← intOf w a; let y ← intOf w b
    let r ← k.eval ovf ex dj x y
    some (mem, some (.int w r.toNat))
  | .icmp _ p w _ _, [a, b] => do
    let x ← intOf w a; let y ← intOf w b
    let r ← dICmp p x y
    some (mem, some (boolVal r))
  | .fbin k _ ty _ _, [a, b] => pure1 mem (farith k.arith ty a b)
  | .fcmp _ p ty _ _, [a, b] => do
    let r ← frelOf ty a b
    let c ← dFCmp p r
    some (mem, some (boolVal c))
  | .fneg _ ty _, [a] => pure1 mem (fnegVal ty a)
  | .cast k _ fromTy toTy _ ovf nneg, [a] =>
    if a.hasTy fromTy then pure1 mem (castCore k.kind toTy a (k = .TruncOp && bit ovf 0) (k = .TruncOp && bit ovf 1) (k = .ZExtOp && nneg))
    else none
  | .select _ _ _ _ _, [c, a, b] => pure1 mem (selectVal c a b)
  | .alloca _ elem _ _, [s] => allocaDen elem mem s
  | .load _ ty _, [p] => loadDen ty mem p
  | .store ty _ _, [v, p] => storeDen ty mem v p
  | .gep _ elem _ (.const i) _, [p] => gepDen elem mem p (BitVec.ofInt 32 i).toInt
  | .gep _ elem _ (.ssa _ w) _, [p, i] => do
    let x ← intOf w i
    gepDen elem mem p x.toInt
  | _, _ => none

abbrev Env := List (Nat × Val)

def bindRes {κ : Type} (r : Option κ) (v : Option Val) (env : List (κ × Val)) : List (κ × Val) :=
  match r, v with
  | some k, some x => (k, x) :: env
  | _, _ => env

def DOp.step (op : DOp) (env : Env) (mem : Mem) : Option (Env × Mem) := do
  let vs ← allSome (AL.get env) op.args
  let (mem', r) ← op.den mem vs
  some (bindRes op.res r env, mem')

def runOpsD (env : Env) (mem : Mem) : List DOp → Option (Env × Mem)
  | [] => some (env, mem)
  | op :: rest =>
    match op.step env mem with
    | none => none
    | some (env', mem') => runOpsD env' mem' rest

inductive DNext where
  | ret (v : Val)
  | jump (dest : Nat) (vals : List Val)
deriving Repr

def condOf : Val → Option Bool
  | .int 1 n => some (n = 1)
  | _ => none

/-- Both argument lists of a `cond_br` are evaluated (in valid SSA both dominate the terminator). -/
def DTerm.eval (env : Env) : DTerm → Option DNext
  | .ret ty v => do
    let x ← AL.get env v
    if x.hasTy ty then some (.ret x) else none
  | .br d args => do some (.jump d (← allSome (AL.get env) args))
  | .condbr c t ta e ea => do
    let cv ← AL.get env c
    let b ← condOf cv
    let tv ← allSome (AL.get env) ta
    let ev ← allSome (AL.get env) ea
    some (if b then .jump t tv else .jump e ev)
  | .unreachable => none

inductive Res where
  | ok (v : Val)
  | ub          -- poison produced or undefined behaviour executed (or ill-formed program)
  | timeout
deriving DecidableEq, Repr, Inhabited

def bindArgs {κ : Type} : List κ → List Val → Option (List (κ × Val))
  | [], [] => some []
  | k :: ks, v :: vs => (bindArgs ks vs).map ((k, v) :: ·)
  | _, _ => none

/-- one block: bind the block arguments, run the ops, evaluate the terminator -/
def blockD (f : DFunc) (b : Nat) (vals : List Val) (env : Env) (mem : Mem) : Option (DNext × Env × Mem) :=
  match f.blocks[b]? with
  | none => none
  | some blk =>
    match bindArgs (blk.args.map (·.1)) vals with
    | none => none
    | some binds =>
      match runOpsD (binds ++ env) mem blk.ops with
      | none => none
      | some (env', mem') =>
        match blk.term.eval env' with
        | none => none
        | some nx => some (nx, env', mem')

def runD (f : DFunc) : Nat → Nat → List Val → Env → Mem → Res
  | 0, _, _, _, _ => .timeout
  | fuel + 1, b, vals, env, mem =>
    match blockD f b vals env mem with
    | none => .ub
    | some (.ret v, _, _) => .ok v
    | some (.jump d vs, env', mem') => runD f fuel d vs env' mem'

def semD (f : DFunc) (fuel : Nat) (args : List Val) : Res := runD f fuel 0 args [] {}

/-! ## The LLVM-IR side -/

inductive IBin where
  | add | sub | mul | udiv | sdiv | urem | srem | and | or | xor | shl | lshr | ashr
deriving DecidableEq, Repr, Inhabited

inductive IFBin where | fadd | fsub | fmul | fdiv | frem
deriving DecidableEq, Repr, Inhabited

inductive ICast where | trunc | zext | sext | bitcast | sitofp | fpext
deriving DecidableEq, Repr, Inhabited

inductive IFlag where | nsw | nuw | exact | disjoint | nneg
deriving DecidableEq, Repr, Inhabited

/-- `icmp` condition codes of the LLVM language reference -/
inductive IPred where | eq | ne | ugt | uge | ult | ule | sgt | sge | slt | sle
deriving DecidableEq, Repr, Inhabited

/-- `fcmp` condition codes of the LLVM language reference -/
inductive IFPred where
  | ffalse | oeq | ogt | oge | olt | ole | one | ord | ueq | ugt | uge | ult | ule | une | uno | ftrue
deriving DecidableEq, Repr, Inhabited

/-- register names: `v id` carries the dialect SSA id it was created for; `s b i` is the select that
the repaired `_convert_condbr` emits in block `b` for argument `i` of a doubled successor -/
inductive IReg where
  | v (id : Nat)
  | s (b i : Nat)
deriving DecidableEq, Repr, Inhabited

inductive IOperand where
  | reg (r : IReg)
  | cint (w : Nat) (v : Int)          -- `iW <decimal>`
  | cf32 (d : Nat)                    -- `float 0x<double bits>`
  | cf64 (d : Nat)                    -- `double 0x<bits>`
deriving DecidableEq, Repr, Inhabited

inductive IInstr where
  | bin (k : IBin) (flags : List IFlag) (res : IReg) (w : Nat) (a b : IOperand)
  | icmp (p : IPred) (res : IReg) (w : Nat) (a b : IOperand)
  | fbin (k : IFBin) (res : IReg) (ty : Ty) (a b : IOperand)
  | fcmp (p : IFPred) (res : IReg) (ty : Ty) (a b : IOperand)
  | fneg (res : IReg) (ty : Ty) (a : IOperand)
  | cast (k : ICast) (flags : List IFlag) (res : IReg) (fromTy : Ty) (a : IOperand) (toTy : Ty)
  | select (res : IReg) (ty : Ty) (c a b : IOperand)
  | alloca (res : IReg) (elem : Ty) (sizeW : Nat) (size : IOperand)
  | load (res : IReg) (ty : Ty) (p : IOperand)
  | store (ty : Ty) (v p : IOperand)
  | gep (res : IReg) (inbounds : Bool) (elem : Ty) (p : IOperand) (idxW : Nat) (idx : IOperand)
deriving Repr, Inhabited

structure IPhi where
  res : IReg
  ty : Ty
  incoming : List (IOperand × Nat)     -- (value, predecessor block)
deriving Repr, Inhabited

inductive ITerm where
  | ret (ty : Ty) (v : IOperand)
  | br (dest : Nat)
  | condbr (c : IOperand) (t e : Nat)
  | unreachable
deriving Repr, Inhabited

structure IBlock where
  phis : List IPhi
  instrs : List IInstr
  term : ITerm
deriving Repr, Inhabited

structure IFunc where
  ret : Ty
  params : List (Nat × Ty)
  blocks : List IBlock
deriving Repr, Inhabited

/-! ### LLVM-IR semantics of the single instructions (LLVM language reference) -/

def IBin.eval (k : IBin) (fl : List IFlag) {w : Nat} (x y : BitVec w) : Option (BitVec w) :=
  let nsw := fl.contains .nsw
  let nuw := fl.contains .nuw
  let exact := fl.contains .exact
  match k with
  | .add => if (nsw && BitVec.saddOverflow x y) || (nuw && BitVec.uaddOverflow x y) then none else some (x + y)
  | .sub => if (nsw && BitVec.ssubOverflow x y) || (nuw && BitVec.usubOverflow x y) then none else some (x - y)
  | .mul => if (nsw && BitVec.smulOverflow x y) || (nuw && BitVec.umulOverflow x y) then none else some (x * y)
  | .udiv => if y = 0 then none else if exact && x % y ≠ 0 then none else some (x / y)
  | .sdiv => if y = 0 || BitVec.sdivOverflow x y then none
             else if exact && BitVec.srem x y ≠ 0 then none else some (BitVec.sdiv x y)
  | .urem => if y = 0 then none else some (x % y)
  | .srem => if y = 0 || BitVec.sdivOverflow x y then none else some (BitVec.srem x y)
  | .and => some (x &&& y)
  | .or => if fl.contains .disjoint && (x &&& y) ≠ 0 then none else some (x ||| y)
  | .xor => some (x ^^^ y)
  | .shl =>
    if y.toNat ≥ w then none
    else
      let r := x <<< y.toNat
      if (nsw && BitVec.sshiftRight r y.toNat ≠ x) || (nuw && r >>> y.toNat ≠ x) then none else some r
  | .lshr => if y.toNat ≥ w then none
             else if exact && (x >>> y.toNat) <<< y.toNat ≠ x then none else some (x >>> y.toNat)
  | .ashr => if y.toNat ≥ w then none
             else if exact && (BitVec.sshiftRight x y.toNat) <<< y.toNat ≠ x then none
             else some (BitVec.sshiftRight x y.toNat)

def IPred.eval (p : IPred) {w : Nat} (x y : BitVec w) : Bool :=
  match p with
  | .eq => x == y
  | .ne => x != y
  | .ugt => BitVec.ult y x
  | .uge => BitVec.ule y x
  | .ult => BitVec.ult x y
  | .ule => BitVec.ule x y
  | .sgt => BitVec.slt y x
  | .sge => BitVec.sle y x
  | .slt => BitVec.slt x y
  | .sle => BitVec.sle x y

def IFPred.eval (p : IFPred) (r : FRel) : Bool :=
  let ord := r != .un
  match p with
  | .ffalse => false
  | .oeq => ord && r == .eq
  | .ogt => ord && r == .gt
  | .oge => ord && (r == .gt || r == .eq)
  | .olt => ord && r == .lt
  | .ole => ord && (r == .lt || r == .eq)
  | .one => ord && r != .eq
  | .ord => ord
  | .ueq => !ord || r == .eq
  | .ugt => !ord || r == .gt
  | .uge => !ord || (r == .gt || r == .eq)
  | .ult => !ord || r == .lt
  | .ule => !ord || (r == .lt || r == .eq)
  | .une => !ord || r != .eq
  | .uno => !ord
  | .ftrue => true

def IFBin.arith : IFBin → FArith
  | .fadd => .add | .fsub => .sub | .fmul => .mul | .fdiv => .div | .frem => .rem

def ICast.kind : ICast → CastK
  | .trunc => .trunc | .zext => .zext | .sext => .sext | .bitcast => .bitcast
  | .sitofp => .sitofp | .fpext => .fpext

abbrev IEnv := List (IReg × Val)

def evalOperand (env : IEnv) : IOperand → Option Val
  | .reg r => AL.get env r
  | .cint w v => some (constVal w v)
  | .cf32 d => some (.f32 (f64ToF32Bits d))
  | .cf64 d => some (.f64 d)

def IInstr.args : IInstr → List IOperand
  | .bin _ _ _ _ a b => [a, b]
  | .icmp _ _ _ a b => [a, b]
  | .fbin _ _ _ a b => [a, b]
  | .fcmp _ _ _ a b => [a, b]
  | .fneg _ _ a => [a]
  | .cast _ _ _ _ a _ => [a]
  | .select _ _ c a b => [c, a, b]
  | .alloca _ _ _ s => [s]
  | .load _ _ p => [p]
  | .store _ v p => [v, p]
  | .gep _ _ _ p _ i => [p, i]

def IInstr.res : IInstr → Option IReg
  | .bin _ _ r .. => some r
  | .icmp _ r .. => some r
  | .fbin _ r .. => some r
  | .fcmp _ r .. => some r
  | .fneg r .. => some r
  | .cast _ _ r .. => some r
  | .select r .. => some r
  | .alloca r .. => some r
  | .load r .. => some r
  | .store .. => none
  | .gep r .. => some r

def IInstr.den (i : IInstr) (mem : Mem) (vs : List Val) : Option (Mem × Option Val) :=
  match i, vs with
  | .bin k fl _ w _ _, [a, b] => do
    let x ← intOf w a; let y ← intOf w b
    let r ← k.eval fl x y
    some (mem, some (.int w r.toNat))
  | .icmp p _ w _ _, [a, b] => do
    let x ← intOf w a; let y ← intOf w b
    some (mem, some (boolVal (p.eval x y)))
  | .fbin k _ ty _ _, [a, b] => pure1 mem (farith k.arith ty a b)
  | .fcmp p _ ty _ _, [a, b] => do
    let r ← frelOf ty a b
    some (mem, some (boolVal (p.eval r)))
  | .fneg _ ty _, [a] => pure1 mem (fnegVal ty a)
  | .cast k fl _ fromTy _ toTy, [a] =>
    if a.hasTy fromTy then pure1 mem (castCore k.kind toTy a (k = .trunc && fl.contains .nsw) (k = .trunc && fl.contains .nuw) (k = .zext && fl.contains .nneg))
    else none
  | .select _ _ _ _ _, [c, a, b] => pure1 mem (selectVal c a b)
  | .alloca _ elem _ _, [s] => allocaDen elem mem s
  | .load _ ty _, [p] => loadDen ty mem p
  | .store ty _ _, [v, p] => storeDen ty mem v p
  | .gep _ _ elem _ w _, [p, i] => do
    let x ← intOf w i
    gepDen elem mem p x.toInt
  | _, _ => none

def IInstr.step (i : IInstr) (env : IEnv) (mem : Mem) : Option (IEnv × Mem) := do
  let vs ← allSome (evalOperand env) i.args
  let (mem', r) ← i.den mem vs
  some (bindRes i.res r env, mem')

def runInstrs (env : IEnv) (mem : Mem) : List IInstr → Option (IEnv × Mem)
  | [] => some (env, mem)
  | i :: rest =>
    match i.step env mem with
    | none => none
    | some (env', mem') => runInstrs env' mem' rest

/-- all phis of a block read the environment of the predecessor (simultaneous assignment); the value
is the first incoming entry for the predecessor -/
def evalPhi (env : IEnv) (pred : Nat) (φ : IPhi) : Option (IReg × Val) := do
  let (o, _) ← φ.incoming.find? (·.2 = pred)
  let v ← evalOperand env o
  some (φ.res, v)

def evalPhis (env : IEnv) (pred : Nat) (phis : List IPhi) : Option (List (IReg × Val)) :=
  allSome (evalPhi env pred) phis

inductive INext where
  | ret (v : Val)
  | jump (dest : Nat)
deriving Repr

def ITerm.eval (env : IEnv) : ITerm → Option INext
  | .ret ty v => do
    let x ← evalOperand env v
    if x.hasTy ty then some (.ret x) else none
  | .br d => some (.jump d)
  | .condbr c t e => do
    let cv ← evalOperand env c
    let b ← condOf cv
    some (.jump (if b then t else e))
  | .unreachable => none

/-- one block entered from `pred`: phis (simultaneously), instructions, terminator -/
def blockI (q : IFunc) (b pred : Nat) (env : IEnv) (mem : Mem) : Option (INext × IEnv × Mem) :=
  match q.blocks[b]? with
  | none => none
  | some blk =>
    match evalPhis env pred blk.phis with
    | none => none
    | some binds =>
      match runInstrs (binds ++ env) mem blk.instrs with
      | none => none
      | some (env', mem') =>
        match blk.term.eval env' with
        | none => none
        | some nx => some (nx, env', mem')

def runI (q : IFunc) : Nat → Nat → Nat → IEnv → Mem → Res
  | 0, _, _, _, _ => .timeout
  | fuel + 1, b, pred, env, mem =>
    match blockI q b pred env mem with
    | none => .ub
    | some (.ret v, _, _) => .ok v
    | some (.jump d, env', mem') => runI q fuel d b env' mem'

/-- the parameters are bound to the arguments (an arity mismatch is the caller's undefined behaviour; the
dialect side reports it as `ub` when it binds the entry block's arguments) -/
def semI (q : IFunc) (fuel : Nat) (args : List Val) : Res :=
  runI q fuel 0 0 ((q.params.map fun p => IReg.v p.1).zip args) {}

/-! ## `conv`: the translation -/

/-- `_BINARY_OP_MAP` composed with the mnemonic llvmlite's builder method emits -/
def convBin : DBin → IBin
  | .AddOp => .add | .SubOp => .sub | .MulOp => .mul | .UDivOp => .udiv | .SDivOp => .sdiv
  | .URemOp => .urem | .SRemOp => .srem | .AndOp => .and | .OrOp => .or | .XOrOp => .xor
  | .ShlOp => .shl | .LShrOp => .lshr | .AShrOp => .ashr

def convFBin : DFBin → IFBin
  | .FAddOp => .fadd | .FSubOp => .fsub | .FMulOp => .fmul | .FDivOp => .fdiv | .FRemOp => .frem

/-- `_CAST_OP_NAMES` -/
def convCast : DCast → ICast
  | .TruncOp => .trunc | .ZExtOp => .zext | .SExtOp => .sext | .BitcastOp => .bitcast
  | .SIToFPOp => .sitofp | .FPExtOp => .fpext

/-- `OverflowAttr.from_int` followed by `[f.value for f in attr.data]`; `none` = `ValueError` -/
def overflowFlags (ovf : Nat) : Option (List IFlag) :=
  match ovf with
  | 0 => some []
  | 1 => some [.nsw]
  | 2 => some [.nuw]
  | 3 => some [.nsw, .nuw]
  | _ => none

/-- the `match op:` of `_convert_binop`: which property of which base class becomes `flags=` -/
def convBinFlags (k : DBin) (ovf : Nat) (exact disjoint : Bool) : Option (List IFlag) :=
  match k with
  | .AddOp | .SubOp | .MulOp | .ShlOp => overflowFlags ovf          -- ArithmeticBinOpOverflow
  | .UDivOp | .SDivOp | .LShrOp | .AShrOp => some (if exact then [.exact] else [])   -- ArithmeticBinOpExact
  | .OrOp => some (if disjoint then [.disjoint] else [])             -- ArithmeticBinOpDisjoint
  | .URemOp | .SRemOp | .AndOp | .XOrOp => some []                   -- ArithmeticBinOperation

/-- `_convert_cast`: `overflowFlags` of `IntegerConversionOpOverflow` (an `OverflowAttr`, here as its
bit mask), `nonNeg` of `IntegerConversionOpNNeg` -/
def convCastFlags (k : DCast) (ovf : Nat) (nneg : Bool) : Option (List IFlag) :=
  match k with
  | .TruncOp => overflowFlags ovf
  | .ZExtOp => some (if nneg then [.nneg] else [])
  | _ => some []

/-- comparison symbol of `_ICMP_PRED_MAP` / `_FCMP_CMP_MAP` -/
inductive CmpSym where | lt | le | eq | ne | gt | ge
deriving DecidableEq, Repr

/-- `ALL_ICMP_FLAGS[index]` then `_ICMP_PRED_MAP[flag]` -/
def icmpPredMap (pred : Nat) : Option (CmpSym × Bool) :=
  match pred with
  | 0 => some (.eq, true)     -- "eq"
  | 1 => some (.ne, true)     -- "ne"
  | 2 => some (.lt, true)     -- "slt"
  | 3 => some (.le, true)     -- "sle"
  | 4 => some (.gt, true)     -- "sgt"
  | 5 => some (.ge, true)     -- "sge"
  | 6 => some (.lt, false)    -- "ult"
  | 7 => some (.le, false)    -- "ule"
  | 8 => some (.gt, false)    -- "ugt"
  | 9 => some (.ge, false)    -- "uge"
  | _ => none                 -- IndexError

/-- llvmlite `IRBuilder.icmp_signed` / `icmp_unsigned`: `==`/`!=` stay, the others get `s`/`u` -/
def llvmliteICmp (sym : CmpSym) (signed : Bool) : IPred :=
  match sym, signed with
  | .eq, _ => .eq
  | .ne, _ => .ne
  | .lt, true => .slt | .le, true => .sle | .gt, true => .sgt | .ge, true => .sge
  | .lt, false => .ult | .le, false => .ule | .gt, false => .ugt | .ge, false => .uge

def convICmpPred (pred : Nat) : Option IPred :=
  (icmpPredMap pred).map fun (s, sg) => llvmliteICmp s sg

/-- `ALL_FCMP_FLAGS[index].value` (strings as character lists so that the kernel can compute with them) -/
def fcmpFlagName (pred : Nat) : Option (List Char) :=
  [['_', 'f', 'a', 'l', 's', 'e'], ['o', 'e', 'q'], ['o', 'g', 't'], ['o', 'g', 'e'], ['o', 'l', 't'],
   ['o', 'l', 'e'], ['o', 'n', 'e'], ['o', 'r', 'd'], ['u', 'e', 'q'], ['u', 'g', 't'], ['u', 'g', 'e'],
   ['u', 'l', 't'], ['u', 'l', 'e'], ['u', 'n', 'e'], ['u', 'n', 'o'], ['_', 't', 'r', 'u', 'e']][pred]?

/-- `_FCMP_CMP_MAP.get(key)` -/
def fcmpCmpMap (key : List Char) : Option CmpSym :=
  match key with
  | ['e', 'q'] => some .eq | ['g', 't'] => some .gt | ['g', 'e'] => some .ge | ['l', 't'] => some .lt
  | ['l', 'e'] => some .le | ['n', 'e'] => some .ne | _ => none

/-- llvmlite `_CMP_MAP` -/
def cmpSymName : CmpSym → List Char
  | .lt => ['l', 't'] | .le => ['l', 'e'] | .eq => ['e', 'q'] | .ne => ['n', 'e'] | .gt => ['g', 't']
  | .ge => ['g', 'e']

/-- `FCMPInstr.VALID_OP` (anything else: `ValueError`) -/
def fpredOfChars (s : List Char) : Option IFPred :=
  match s with
  | ['f', 'a', 'l', 's', 'e'] => some .ffalse | ['o', 'e', 'q'] => some .oeq | ['o', 'g', 't'] => some .ogt
  | ['o', 'g', 'e'] => some .oge | ['o', 'l', 't'] => some .olt | ['o', 'l', 'e'] => some .ole
  | ['o', 'n', 'e'] => some .one | ['o', 'r', 'd'] => some .ord | ['u', 'e', 'q'] => some .ueq
  | ['u', 'g', 't'] => some .ugt | ['u', 'g', 'e'] => some .uge | ['u', 'l', 't'] => some .ult
  | ['u', 'l', 'e'] => some .ule | ['u', 'n', 'e'] => some .une | ['u', 'n', 'o'] => some .uno
  | ['t', 'r', 'u', 'e'] => some .ftrue | _ => none

def fpredOfName (s : String) : Option IFPred := fpredOfChars s.toList

/-- `_convert_fcmp` + llvmlite `fcmp_ordered/unordered`:
`is_ordered = pred[0] == "o"; key = pred[1:]; cmpop = _FCMP_CMP_MAP.get(key, pred)`; llvmlite prefixes
`o`/`u` when `cmpop` is a comparison symbol and uses it verbatim otherwise. -/
def convFCmpPred (pred : Nat) : Option IFPred :=
  match fcmpFlagName pred with
  | none => none
  | some name =>
    let isOrdered := name.head? == some 'o'
    let key := name.tail
    let opname :=
      match fcmpCmpMap key with
      | some sym => (if isOrdered then 'o' else 'u') :: cmpSymName sym
      | none => name
    fpredOfChars opname

/-- what `val_map` holds for an SSA value: the llvmlite value created for it -/
def DOp.operand : DOp → Option (Nat × IOperand)
  | .const r w v => some (r, .cint w v)
  | .fconst r .f32 d => some (r, .cf32 d)
  | .fconst r .f64 d => some (r, .cf64 d)
  | .fconst .. => none
  | op => op.res.map fun r => (r, .reg (.v r))

abbrev VMap := List (Nat × IOperand)

/-- every binding `val_map` ever receives for the function: block arguments (function arguments for
the entry block, phis otherwise) and op results -/
def DBlock.defs (b : DBlock) : VMap :=
  b.args.map (fun a => (a.1, IOperand.reg (.v a.1))) ++ b.ops.filterMap DOp.operand

def DFunc.defs (f : DFunc) : VMap := f.blocks.flatMap DBlock.defs

def look (m : VMap) (id : Nat) : Option IOperand := AL.get m id

/-- `convert_op` on one op: `[]` for constants (they only enter `val_map`) -/
def convOp (m : VMap) : DOp → Option (List IInstr)
  | .const .. => some []
  | .fconst _ ty _ => if ty = .f32 || ty = .f64 then some [] else none
  | .bin k r w a b ovf ex dj => do
    let fl ← convBinFlags k ovf ex dj
    some [.bin (convBin k) fl (.v r) w (← look m a) (← look m b)]
  | .icmp r p w a b => do
    some [.icmp (← convICmpPred p) (.v r) w (← look m a) (← look m b)]
  | .fbin k r ty a b => do some [.fbin (convFBin k) (.v r) ty (← look m a) (← look m b)]
  | .fcmp r p ty a b => do some [.fcmp (← convFCmpPred p) (.v r) ty (← look m a) (← look m b)]
  | .fneg r ty a => do some [.fneg (.v r) ty (← look m a)]
  | .cast k r fromTy toTy a ovf nneg => do
    let fl ← convCastFlags k ovf nneg
    some [.cast (convCast k) fl (.v r) fromTy (← look m a) toTy]
  | .select r ty c a b => do some [.select (.v r) ty (← look m c) (← look m a) (← look m b)]
  | .alloca r elem sw s => do some [.alloca (.v r) elem sw (← look m s)]
  | .load r ty p => do some [.load (.v r) ty (← look m p)]
  | .store ty v p => do some [.store ty (← look m v) (← look m p)]
  | .gep r elem p (.const i) inb => do
    -- constant indices become `ir.Constant(ir.IntType(32), idx)`
    some [.gep (.v r) inb elem (← look m p) 32 (.cint 32 i)]
  | .gep r elem p (.ssa i w) inb => do
    some [.gep (.v r) inb elem (← look m p) w (← look m i)]

def convOps (m : VMap) : List DOp → Option (List IInstr)
  | [] => some []
  | op :: rest => do
    let is ← convOp m op
    let js ← convOps m rest
    some (is ++ js)

/-- an edge out of a block as the phi construction sees it: `phi.add_incoming(value, current_block)` -/
structure Edge where
  dest : Nat
  vals : List IOperand
deriving Repr, Inhabited

/-- the repaired `_convert_condbr` for `cond_br %c, ^d(ta…), ^d(ea…)`: operand pairs that are the same SSA
value are passed on, the others are merged by `select %c, t, e` (named `s b i`).  Returns the selects and
the merged incoming values; `none` mirrors a failing `val_map` lookup (and unequal lengths, which real IR
does not have). -/
def mergeArgs (m : VMap) (b : Nat) (tys : List Ty) (c : IOperand) :
    Nat → List Nat → List Nat → Option (List IInstr × List IOperand)
  | _, [], [] => some ([], [])
  | i, t :: ts, e :: es =>
    match look m t, look m e, mergeArgs m b tys c (i + 1) ts es with
    | some t', some e', some (is, os) =>
      if t = e then some (is, t' :: os)
      else some (IInstr.select (.s b i) ((tys[i]?).getD (.int 1)) c t' e' :: is, IOperand.reg (.s b i) :: os)
    | _, _, _ => none
  | _, _, _ => none

/-- `_convert_return`, `_convert_br`, `_convert_condbr` (block `b`): extra instructions, the terminator and
the incoming entries it adds.  `argTys d` = types of the arguments of block `d`. -/
def convTerm (m : VMap) (argTys : Nat → List Ty) (b : Nat) : DTerm → Option (List IInstr × ITerm × List Edge)
  | .ret ty v => do some ([], .ret ty (← look m v), [])
  | .br d args => do some ([], .br d, [⟨d, ← allSome (look m) args⟩])
  | .condbr c t ta e ea => do
    let c' ← look m c
    if t = e then
      -- both edges reach the same block: the phi receives the merged value twice
      let (is, os) ← mergeArgs m b (argTys t) c' 0 ta ea
      some (is, .condbr c' t e, [⟨t, os⟩, ⟨e, os⟩])
    else
      let ta' ← allSome (look m) ta
      let ea' ← allSome (look m) ea
      some ([], .condbr c' t e, [⟨t, ta'⟩, ⟨e, ea'⟩])
  | .unreachable => some ([], .unreachable, [])

def DFunc.argTys (f : DFunc) (d : Nat) : List Ty :=
  match f.blocks[d]? with
  | some blk => blk.args.map (·.2)
  | none => []

structure CBlock where
  instrs : List IInstr
  term : ITerm
  edges : List Edge
deriving Repr, Inhabited

def convBlock (f : DFunc) (m : VMap) (b : Nat) (blk : DBlock) : Option CBlock := do
  let is ← convOps m blk.ops
  let (extra, t, es) ← convTerm m f.argTys b blk.term
  some ⟨is ++ extra, t, es⟩

def convBlocks (f : DFunc) (m : VMap) : Nat → List DBlock → Option (List CBlock)
  | _, [] => some []
  | b, blk :: rest => do
    let c ← convBlock f m b blk
    let cs ← convBlocks f m (b + 1) rest
    some (c :: cs)

/-- incoming entries of argument `i` of block `d` contributed by block `b` -/
def incomingFrom (d i b : Nat) (es : List Edge) : List (IOperand × Nat) :=
  es.filterMap fun e => if e.dest = d then (e.vals[i]?).map (·, b) else none

/-- … by all blocks, in block order (the order in which the branch ops are converted) -/
def incomingAll (d i : Nat) : Nat → List CBlock → List (IOperand × Nat)
  | _, [] => []
  | b, c :: rest => incomingFrom d i b c.edges ++ incomingAll d i (b + 1) rest

def mkPhis (cs : List CBlock) (d : Nat) : Nat → List (Nat × Ty) → List IPhi
  | _, [] => []
  | i, (id, ty) :: rest => ⟨.v id, ty, incomingAll d i 0 cs⟩ :: mkPhis cs d (i + 1) rest

def assemble (f : DFunc) (cs : List CBlock) : Nat → List DBlock → List CBlock → List IBlock
  | d, blk :: bs, c :: rest =>
    ⟨if d = 0 then [] else mkPhis cs d 0 blk.args, c.instrs, c.term⟩ :: assemble f cs (d + 1) bs rest
  | _, _, _ => []

def allDistinct : List Nat → Bool
  | [] => true
  | x :: xs => !xs.contains x && allDistinct xs

/-- Python's dict lookup `val_map[x]` fails unless `x` was bound earlier in conversion order:
all block arguments first (`_convert_func` binds them up front), then the ops block by block. -/
def orderOps (seen : List Nat) : List DOp → Option (List Nat)
  | [] => some seen
  | op :: rest =>
    if op.args.all seen.contains then
      orderOps (match op.res with | some r => r :: seen | none => seen) rest
    else none

def DTerm.uses : DTerm → List Nat
  | .ret _ v => [v]
  | .br _ a => a
  | .condbr c _ ta _ ea => c :: ta ++ ea
  | .unreachable => []

def DTerm.dests : DTerm → List Nat
  | .br d _ => [d]
  | .condbr _ t _ e _ => [t, e]
  | _ => []

def orderBlocks (seen : List Nat) : List DBlock → Bool
  | [] => true
  | blk :: rest =>
    match orderOps seen blk.ops with
    | none => false
    | some seen' => blk.term.uses.all seen'.contains && orderBlocks seen' rest

def DFunc.orderOK (f : DFunc) : Bool :=
  orderBlocks (f.blocks.flatMap fun b => b.args.map (·.1)) f.blocks

/-- llvmlite's static type of a pointer value: `alloca T` and `getelementptr T, …` (one index) yield a
typed pointer `T*`; anything else of pointer type is opaque -/
def DFunc.pointee (f : DFunc) (p : Nat) : Option Ty :=
  (f.blocks.flatMap (·.ops)).findSome? fun op =>
    match op with
    | .alloca r elem _ _ => if r = p then some elem else none
    | .gep r elem _ _ _ => if r = p then some elem else none
    | _ => none

/-- `IRBuilder.store` raises `TypeError` when the pointer is typed and its pointee is not the value's type -/
def DFunc.storesOK (f : DFunc) : Bool :=
  (f.blocks.flatMap (·.ops)).all fun op =>
    match op with
    | .store ty _ p => match f.pointee p with | some t => t == ty | none => true
    | _ => true

/-- no branch targets the entry block, every target exists -/
def DFunc.destsOK (f : DFunc) : Bool :=
  f.blocks.all fun b => b.term.dests.all fun d => d != 0 && d < f.blocks.length

def conv (f : DFunc) : Option IFunc :=
  let m := f.defs
  if allDistinct (m.map (·.1)) && f.orderOK && f.destsOK && f.storesOK then
    match f.blocks with
    | [] => none
    | entry :: _ =>
      match convBlocks f m 0 f.blocks with
      | none => none
      | some cs => some ⟨f.ret, entry.args, assemble f cs 0 f.blocks cs⟩
  else none

/-! ## S-expression reader / printer and the line protocol -/

def parseTy : SExp → Option Ty
  | .atom "f32" => some .f32
  | .atom "f64" => some .f64
  | .atom "ptr" => some .ptr
  | .atom s => if s.startsWith "i" then ((s.drop 1).toString.toNat?).map .int else none
  | _ => none

def tyWidth : Ty → Option Nat
  | .int w => some w
  | _ => none

def showTy : Ty → String
  | .int w => s!"i{w}"
  | .f32 => "f32"
  | .f64 => "f64"
  | .ptr => "ptr"

def parseBool : SExp → Option Bool
  | .atom "1" => some true
  | .atom "0" => some false
  | _ => none

def parseDBin : String → Option DBin
  | "add" => some .AddOp | "sub" => some .SubOp | "mul" => some .MulOp | "udiv" => some .UDivOp
  | "sdiv" => some .SDivOp | "urem" => some .URemOp | "srem" => some .SRemOp | "and" => some .AndOp
  | "or" => some .OrOp | "xor" => some .XOrOp | "shl" => some .ShlOp | "lshr" => some .LShrOp
  | "ashr" => some .AShrOp | _ => none

def parseDFBin : String → Option DFBin
  | "fadd" => some .FAddOp | "fsub" => some .FSubOp | "fmul" => some .FMulOp | "fdiv" => some .FDivOp
  | "frem" => some .FRemOp | _ => none

def parseDCast : String → Option DCast
  | "trunc" => some .TruncOp | "zext" => some .ZExtOp | "sext" => some .SExtOp
  | "bitcast" => some .BitcastOp | "sitofp" => some .SIToFPOp | "fpext" => some .FPExtOp | _ => none

def parseTyped : SExp → Option (Nat × Ty)
  | .list [a, t] => do some (← atomNat? a, ← parseTy t)
  | _ => none

/-- dialect ops; op names are those of the dialect (`llvm.<name>`) -/
def parseDOp : SExp → Option DOp
  | .list [.atom "const", r, t, v] => do
    some (.const (← atomNat? r) (← tyWidth (← parseTy t)) (← atomInt? v))
  | .list [.atom "fconst", r, t, d] => do some (.fconst (← atomNat? r) (← parseTy t) (← atomNat? d))
  | .list [.atom "bin", .atom k, r, t, a, b, ovf, ex, dj] => do
    some (.bin (← parseDBin k) (← atomNat? r) (← tyWidth (← parseTy t)) (← atomNat? a) (← atomNat? b)
      (← atomNat? ovf) (← parseBool ex) (← parseBool dj))
  | .list [.atom "icmp", r, p, t, a, b] => do
    some (.icmp (← atomNat? r) (← atomNat? p) (← tyWidth (← parseTy t)) (← atomNat? a) (← atomNat? b))
  | .list [.atom "fbin", .atom k, r, t, a, b] => do
    some (.fbin (← parseDFBin k) (← atomNat? r) (← parseTy t) (← atomNat? a) (← atomNat? b))
  | .list [.atom "fcmp", r, p, t, a, b] => do
    some (.fcmp (← atomNat? r) (← atomNat? p) (← parseTy t) (← atomNat? a) (← atomNat? b))
  | .list [.atom "fneg", r, t, a] => do some (.fneg (← atomNat? r) (← parseTy t) (← atomNat? a))
  | .list [.atom "cast", .atom k, r, ft, tt, a, ovf, nn] => do
    some (.cast (← parseDCast k) (← atomNat? r) (← parseTy ft) (← parseTy tt) (← atomNat? a)
      (← atomNat? ovf) (← parseBool nn))
  | .list [.atom "select", r, t, c, a, b] => do
    some (.select (← atomNat? r) (← parseTy t) (← atomNat? c) (← atomNat? a) (← atomNat? b))
  | .list [.atom "alloca", r, t, st, s] => do
    some (.alloca (← atomNat? r) (← parseTy t) (← tyWidth (← parseTy st)) (← atomNat? s))
  | .list [.atom "load", r, t, p] => do some (.load (← atomNat? r) (← parseTy t) (← atomNat? p))
  | .list [.atom "store", t, v, p] => do some (.store (← parseTy t) (← atomNat? v) (← atomNat? p))
  | .list [.atom "gep", r, t, p, .list [.atom "c", i], inb] => do
    some (.gep (← atomNat? r) (← parseTy t) (← atomNat? p) (.const (← atomInt? i)) (← parseBool inb))
  | .list [.atom "gep", r, t, p, .list [.atom "v", i, it], inb] => do
    some (.gep (← atomNat? r) (← parseTy t) (← atomNat? p) (.ssa (← atomNat? i) (← tyWidth (← parseTy it)))
      (← parseBool inb))
  | _ => none

def parseEdge : SExp → Option (Nat × List Nat)
  | .list (d :: args) => do some (← atomNat? d, ← args.mapM atomNat?)
  | _ => none

def parseDTerm : SExp → Option DTerm
  | .list [.atom "ret", t, v] => do some (.ret (← parseTy t) (← atomNat? v))
  | .list [.atom "br", e] => do let (d, a) ← parseEdge e; some (.br d a)
  | .list [.atom "condbr", c, t, e] => do
    let (td, ta) ← parseEdge t; let (ed, ea) ← parseEdge e
    some (.condbr (← atomNat? c) td ta ed ea)
  | .list [.atom "unreachable"] => some .unreachable
  | _ => none

def splitLast {α : Type} : List α → Option (List α × α)
  | [] => none
  | [x] => some ([], x)
  | x :: xs => (splitLast xs).map fun (i, l) => (x :: i, l)

def parseDBlock : SExp → Option DBlock
  | .list (.atom "block" :: .list (.atom "args" :: args) :: body) => do
    let (ops, t) ← splitLast body
    some ⟨← args.mapM parseTyped, ← ops.mapM parseDOp, ← parseDTerm t⟩
  | _ => none

def parseDFunc : SExp → Option DFunc
  | .list (.atom "func" :: .list [.atom "ret", t] :: blocks) => do
    some ⟨← parseTy t, ← blocks.mapM parseDBlock⟩
  | _ => none

/-! IR reader (what the harness re-reads from the emitted `.ll` text) -/

def parseIReg : SExp → Option IReg
  | .list [.atom "v", n] => do some (.v (← atomNat? n))
  | .list [.atom "s", b, i] => do some (.s (← atomNat? b) (← atomNat? i))
  | _ => none

def parseOperand : SExp → Option IOperand
  | .list [.atom "r", r] => do some (.reg (← parseIReg r))
  | .list [.atom "ci", w, v] => do some (.cint (← atomNat? w) (← atomInt? v))
  | .list [.atom "cf32", d] => do some (.cf32 (← atomNat? d))
  | .list [.atom "cf64", d] => do some (.cf64 (← atomNat? d))
  | _ => none

def parseIBin : String → Option IBin
  | "add" => some .add | "sub" => some .sub | "mul" => some .mul | "udiv" => some .udiv
  | "sdiv" => some .sdiv | "urem" => some .urem | "srem" => some .srem | "and" => some .and
  | "or" => some .or | "xor" => some .xor | "shl" => some .shl | "lshr" => some .lshr
  | "ashr" => some .ashr | _ => none

def parseIFBin : String → Option IFBin
  | "fadd" => some .fadd | "fsub" => some .fsub | "fmul" => some .fmul | "fdiv" => some .fdiv
  | "frem" => some .frem | _ => none

def parseICast : String → Option ICast
  | "trunc" => some .trunc | "zext" => some .zext | "sext" => some .sext | "bitcast" => some .bitcast
  | "sitofp" => some .sitofp | "fpext" => some .fpext | _ => none

def parseFlag : SExp → Option IFlag
  | .atom "nsw" => some .nsw | .atom "nuw" => some .nuw | .atom "exact" => some .exact
  | .atom "disjoint" => some .disjoint | .atom "nneg" => some .nneg | _ => none

def parseFlags : SExp → Option (List IFlag)
  | .list fs => fs.mapM parseFlag
  | _ => none

def parseIPred : String → Option IPred
  | "eq" => some .eq | "ne" => some .ne | "ugt" => some .ugt | "uge" => some .uge | "ult" => some .ult
  | "ule" => some .ule | "sgt" => some .sgt | "sge" => some .sge | "slt" => some .slt | "sle" => some .sle
  | _ => none

def parseIInstr : SExp → Option IInstr
  | .list [.atom "bin", .atom k, fl, r, t, a, b] => do
    some (.bin (← parseIBin k) (← parseFlags fl) (← parseIReg r) (← tyWidth (← parseTy t))
      (← parseOperand a) (← parseOperand b))
  | .list [.atom "icmp", .atom p, r, t, a, b] => do
    some (.icmp (← parseIPred p) (← parseIReg r) (← tyWidth (← parseTy t)) (← parseOperand a) (← parseOperand b))
  | .list [.atom "fbin", .atom k, r, t, a, b] => do
    some (.fbin (← parseIFBin k) (← parseIReg r) (← parseTy t) (← parseOperand a) (← parseOperand b))
  | .list [.atom "fcmp", .atom p, r, t, a, b] => do
    some (.fcmp (← fpredOfName p) (← parseIReg r) (← parseTy t) (← parseOperand a) (← parseOperand b))
  | .list [.atom "fneg", r, t, a] => do some (.fneg (← parseIReg r) (← parseTy t) (← parseOperand a))
  | .list [.atom "cast", .atom k, fl, r, ft, a, tt] => do
    some (.cast (← parseICast k) (← parseFlags fl) (← parseIReg r) (← parseTy ft) (← parseOperand a) (← parseTy tt))
  | .list [.atom "select", r, t, c, a, b] => do
    some (.select (← parseIReg r) (← parseTy t) (← parseOperand c) (← parseOperand a) (← parseOperand b))
  | .list [.atom "alloca", r, t, st, s] => do
    some (.alloca (← parseIReg r) (← parseTy t) (← tyWidth (← parseTy st)) (← parseOperand s))
  | .list [.atom "load", r, t, p] => do some (.load (← parseIReg r) (← parseTy t) (← parseOperand p))
  | .list [.atom "store", t, v, p] => do some (.store (← parseTy t) (← parseOperand v) (← parseOperand p))
  | .list [.atom "gep", r, inb, t, p, it, i] => do
    some (.gep (← parseIReg r) (← parseBool inb) (← parseTy t) (← parseOperand p) (← tyWidth (← parseTy it))
      (← parseOperand i))
  | _ => none

def parseIncoming : SExp → Option (IOperand × Nat)
  | .list [o, b] => do some (← parseOperand o, ← atomNat? b)
  | _ => none

def parsePhi : SExp → Option IPhi
  | .list (r :: t :: inc) => do some ⟨← parseIReg r, ← parseTy t, ← inc.mapM parseIncoming⟩
  | _ => none

def parseITerm : SExp → Option ITerm
  | .list [.atom "ret", t, v] => do some (.ret (← parseTy t) (← parseOperand v))
  | .list [.atom "br", d] => do some (.br (← atomNat? d))
  | .list [.atom "condbr", c, t, e] => do some (.condbr (← parseOperand c) (← atomNat? t) (← atomNat? e))
  | .list [.atom "unreachable"] => some .unreachable
  | _ => none

def parseIBlock : SExp → Option IBlock
  | .list (.atom "block" :: .list (.atom "phis" :: phis) :: body) => do
    let (is, t) ← splitLast body
    some ⟨← phis.mapM parsePhi, ← is.mapM parseIInstr, ← parseITerm t⟩
  | _ => none

def parseIFunc : SExp → Option IFunc
  | .list (.atom "func" :: .list [.atom "ret", t] :: .list (.atom "params" :: ps) :: blocks) => do
    some ⟨← parseTy t, ← ps.mapM parseTyped, ← blocks.mapM parseIBlock⟩
  | _ => none

/-! printer of the IR side (same grammar as `parseIFunc`) -/

def showReg : IReg → String
  | .v n => s!"(v {n})"
  | .s b i => s!"(s {b} {i})"

def showOperand : IOperand → String
  | .reg r => s!"(r {showReg r})"
  | .cint w v => s!"(ci {w} {v})"
  | .cf32 d => s!"(cf32 {d})"
  | .cf64 d => s!"(cf64 {d})"

def showFlag : IFlag → String
  | .nsw => "nsw" | .nuw => "nuw" | .exact => "exact" | .disjoint => "disjoint" | .nneg => "nneg"

def showFlags (fl : List IFlag) : String := "(" ++ " ".intercalate (fl.map showFlag) ++ ")"

def showIBin : IBin → String
  | .add => "add" | .sub => "sub" | .mul => "mul" | .udiv => "udiv" | .sdiv => "sdiv" | .urem => "urem"
  | .srem => "srem" | .and => "and" | .or => "or" | .xor => "xor" | .shl => "shl" | .lshr => "lshr"
  | .ashr => "ashr"

def showIFBin : IFBin → String
  | .fadd => "fadd" | .fsub => "fsub" | .fmul => "fmul" | .fdiv => "fdiv" | .frem => "frem"

def showICast : ICast → String
  | .trunc => "trunc" | .zext => "zext" | .sext => "sext" | .bitcast => "bitcast" | .sitofp => "sitofp"
  | .fpext => "fpext"

def showIPred : IPred → String
  | .eq => "eq" | .ne => "ne" | .ugt => "ugt" | .uge => "uge" | .ult => "ult" | .ule => "ule"
  | .sgt => "sgt" | .sge => "sge" | .slt => "slt" | .sle => "sle"

def showIFPred : IFPred → String
  | .ffalse => "false" | .oeq => "oeq" | .ogt => "ogt" | .oge => "oge" | .olt => "olt" | .ole => "ole"
  | .one => "one" | .ord => "ord" | .ueq => "ueq" | .ugt => "ugt" | .uge => "uge" | .ult => "ult"
  | .ule => "ule" | .une => "une" | .uno => "uno" | .ftrue => "true"

def showB (b : Bool) : String := if b then "1" else "0"

def showInstr : IInstr → String
  | .bin k fl r w a b => s!"(bin {showIBin k} {showFlags fl} {showReg r} i{w} {showOperand a} {showOperand b})"
  | .icmp p r w a b => s!"(icmp {showIPred p} {showReg r} i{w} {showOperand a} {showOperand b})"
  | .fbin k r t a b => s!"(fbin {showIFBin k} {showReg r} {showTy t} {showOperand a} {showOperand b})"
  | .fcmp p r t a b => s!"(fcmp {showIFPred p} {showReg r} {showTy t} {showOperand a} {showOperand b})"
  | .fneg r t a => s!"(fneg {showReg r} {showTy t} {showOperand a})"
  | .cast k fl r ft a tt => s!"(cast {showICast k} {showFlags fl} {showReg r} {showTy ft} {showOperand a} {showTy tt})"
  | .select r t c a b => s!"(select {showReg r} {showTy t} {showOperand c} {showOperand a} {showOperand b})"
  | .alloca r t sw s => s!"(alloca {showReg r} {showTy t} i{sw} {showOperand s})"
  | .load r t p => s!"(load {showReg r} {showTy t} {showOperand p})"
  | .store t v p => s!"(store {showTy t} {showOperand v} {showOperand p})"
  | .gep r inb t p w i => s!"(gep {showReg r} {showB inb} {showTy t} {showOperand p} i{w} {showOperand i})"

def showPhi (φ : IPhi) : String :=
  "(" ++ showReg φ.res ++ " " ++ showTy φ.ty ++
    String.join (φ.incoming.map fun (o, b) => s!" ({showOperand o} {b})") ++ ")"

def showTerm : ITerm → String
  | .ret t v => s!"(ret {showTy t} {showOperand v})"
  | .br d => s!"(br {d})"
  | .condbr c t e => s!"(condbr {showOperand c} {t} {e})"
  | .unreachable => "(unreachable)"

def showBlock (b : IBlock) : String :=
  "(block (phis" ++ String.join (b.phis.map fun φ => " " ++ showPhi φ) ++ ")" ++
    String.join (b.instrs.map fun i => " " ++ showInstr i) ++ " " ++ showTerm b.term ++ ")"

def showFunc (q : IFunc) : String :=
  "(func (ret " ++ showTy q.ret ++ ") (params" ++
    String.join (q.params.map fun (n, t) => s!" ({n} {showTy t})") ++ ")" ++
    String.join (q.blocks.map fun b => " " ++ showBlock b) ++ ")"

/-! line protocol -/

def hexDigits (n : Nat) : String := String.ofList (Nat.toDigits 16 n)

def showVal : Val → String
  | .int w n => s!"i{w}:{n}"
  | .f32 b => if (toF32 b).isNaN then "f32:nan" else s!"f32:{b}"
  | .f64 b => if (toF64 b).isNaN then "f64:nan" else s!"f64:{b}"
  | .ptr a o => s!"ptr:{a}:{o}"

def showRes : Res → String
  | .ok v => "val " ++ showVal v
  | .ub => "ub"
  | .timeout => "timeout"

/-- argument `iW:n`, `f32:bits`, `f64:bits` -/
def parseVal (s : String) : Option Val :=
  match s.splitOn ":" with
  | [t, n] => do
    let k ← n.toNat?
    match parseTy (.atom t) with
    | some (.int w) => if k < 2 ^ w then some (.int w k) else none
    | some .f32 => some (.f32 k)
    | some .f64 => some (.f64 k)
    | _ => none
  | _ => none

structure State where
  d : Option DFunc := none
  c : Option IFunc := none     -- conv d
  i : Option IFunc := none     -- re-read from the emitted text
deriving Inhabited

def runWith (q : Option IFunc) (rest : List String) : String :=
  match q, rest with
  | some q, fuel :: args =>
    match fuel.toNat?, args.mapM parseVal with
    | some n, some vs => showRes (semI q n vs)
    | _, _ => "bad-op"
  | _, _ => "bad-op"

/-! ### Float formats (the float rows of `convert_type`)

The six builtin float formats, the LLVM IR type that denotes each, and the rows the pinned `convert_type`
has: `f16/f32/f64` are translated, `bf16/f80/f128` raise "Type not supported" (llvmlite has no type for them). -/

inductive FloatFmt where
  | f16 | bf16 | f32 | f64 | f80 | f128
  deriving DecidableEq, Repr

namespace FloatFmt

def ofName : String → Option FloatFmt
  | "f16" => some f16 | "bf16" => some bf16 | "f32" => some f32
  | "f64" => some f64 | "f80" => some f80 | "f128" => some f128
  | _ => none

/-- storage width in bits -/
def bits : FloatFmt → Nat
  | f16 => 16 | bf16 => 16 | f32 => 32 | f64 => 64 | f80 => 80 | f128 => 128

/-- significand precision (hidden bit included): what distinguishes formats of one width -/
def precision : FloatFmt → Nat
  | f16 => 11 | bf16 => 8 | f32 => 24 | f64 => 53 | f80 => 64 | f128 => 113

/-- the LLVM IR type with the same format -/
def llvmName : FloatFmt → String
  | f16 => "half" | bf16 => "bfloat" | f32 => "float"
  | f64 => "double" | f80 => "x86_fp80" | f128 => "fp128"

end FloatFmt

/-- `convert_type` on a float type: the emitted LLVM type name, `none` = LLVMTranslationException. -/
def convFloatTy : FloatFmt → Option String
  | .f16 => some "half"
  | .f32 => some "float"
  | .f64 => some "double"
  | _ => none

/-- `prog <sexp>`: load a dialect function, answer `conv <ir sexp>` or `not-translated`;
`fmt <float type>`: `<llvm type of that format> <what convert_type emits | not-translated>`;
`ir <sexp>`: load an IR function re-read from emitted text; `run|runconv|runir <fuel> <val>*`. -/
def lineStep (s : State) (line : String) : State × String :=
  match words line with
  | "prog" :: _ =>
    match (readSExp ((line.drop 5).toString)).bind parseDFunc with
    | none => ({}, "bad-op")
    | some f =>
      match conv f with
      | some q => ({ d := some f, c := some q }, "conv " ++ showFunc q)
      | none => ({ d := some f }, "not-translated")
  | "ir" :: _ =>
    match (readSExp ((line.drop 3).toString)).bind parseIFunc with
    | none => ({ s with i := none }, "bad-op")
    | some q => ({ s with i := some q }, "ok")
  | "run" :: fuel :: args =>
    match s.d, fuel.toNat?, args.mapM parseVal with
    | some f, some n, some vs => (s, showRes (semD f n vs))
    | _, _, _ => (s, "bad-op")
  | ["fmt", name] =>
    match FloatFmt.ofName name with
    | none => (s, "bad-op")
    | some f => (s, f.llvmName ++ " " ++ (convFloatTy f).getD "not-translated")
  | "runconv" :: rest => (s, runWith s.c rest)
  | "runir" :: rest => (s, runWith s.i rest)
  | _ => (s, "bad-op")

end Xdsl.LLVM
