import XdslModel.Prelude
/-!
C21 — x86-64 subset machine, straight-line source language, polynomial translation validator and
SysV frame-shape check.

* Machine: 16 general-purpose registers (`BitVec 64`, index = hardware encoding: 0 rax, 1 rcx, 2 rdx,
  3 rbx, 4 rsp, 5 rbp, 6 rsi, 7 rdi, 8–15 r8–r15) and a qword-granular memory `BitVec 64 → BitVec 64`
  (address of an 8-byte slot ↦ its content; all accesses of the modelled subset are `[rsp+k]` with
  8-byte slots).  Instructions: exactly what the xDSL pipeline
  `convert-func-to-x86-func,convert-arith-to-x86,…,x86-prologue-epilogue-insertion -t x86-asm`
  prints for integer functions — `mov r,r | mov r,imm | mov r,[rsp+k] | add/imul r,r | push r | pop r |
  ret | label` — plus `sub/and/or/xor r,r` and `mov [rsp+k],r` (exist in the dialect; the machine runs
  them, the validator rejects what it cannot express).  Operand sizes: 64 (`q`), 32 (`d`, result
  zero-extended into the 64-bit register as the hardware does), 16 (`w`) and 8 (`b`, low byte registers;
  the upper bits of the destination are kept).
* Source: SSA list over `const/add/mul` at width `sz.bits` (what `convert-arith-to-x86` lowers).
* `validate src asm`: symbolic execution of the assembly on integer polynomials over the argument
  values (modulo nothing: coefficients are `Int`; evaluation happens in `BitVec w`), compared with the
  polynomial of the source.
* `frameOk asm`: the shape `label* push r₁ … push rₙ body pop rₙ … pop r₁ ret` where `body` neither
  touches `rsp`/memory nor writes a callee-saved register outside `{r₁…rₙ}`.
-/
namespace Xdsl.X86

abbrev W := BitVec 64

inductive Sz | q | d | w | b
deriving DecidableEq, Repr

def Sz.bits : Sz → Nat
  | .q => 64
  | .d => 32
  | .w => 16
  | .b => 8

inductive Alu | add | sub | imul | and | or | xor
deriving DecidableEq, Repr

inductive Instr
  | mov (sz : Sz) (d s : Nat)
  | movi (sz : Sz) (d : Nat) (imm : Int)
  | load (sz : Sz) (d : Nat) (k : Int)
  | store (k : Int) (s : Nat)
  | alu (op : Alu) (sz : Sz) (d s : Nat)
  | push (s : Nat)
  | pop (d : Nat)
  | ret
  | label
deriving DecidableEq, Repr

structure St where
  reg : Nat → W
  mem : W → W

def RSP : Nat := 4
def RAX : Nat := 0

/-- low `sz.bits` bits of a register value -/
def trunc (sz : Sz) (v : W) : BitVec sz.bits := v.setWidth sz.bits

/-- value that lands in a 64-bit register holding `old` when an instruction of operand size `sz`
produces `v`: 32-bit results are zero-extended, 16- and 8-bit results replace the low bits only
(written arithmetically: clear the low bits of `old`, add the low bits of `v`) -/
def wr (sz : Sz) (old v : W) : W :=
  match sz with
  | .q => v
  | .d => (v.setWidth 32).setWidth 64
  | .w => old - (old.setWidth 16).setWidth 64 + (v.setWidth 16).setWidth 64
  | .b => old - (old.setWidth 8).setWidth 64 + (v.setWidth 8).setWidth 64

def setReg (σ : St) (r : Nat) (v : W) : St :=
  { σ with reg := fun x => if x = r then v else σ.reg x }

def setMem (σ : St) (a : W) (v : W) : St :=
  { σ with mem := fun x => if x = a then v else σ.mem x }

def aluOp : Alu → W → W → W
  | .add, a, b => a + b
  | .sub, a, b => a - b
  | .imul, a, b => a * b
  | .and, a, b => a &&& b
  | .or, a, b => a ||| b
  | .xor, a, b => a ^^^ b

def addr (σ : St) (k : Int) : W := σ.reg RSP + BitVec.ofInt 64 k

/-- one instruction (`ret` is handled by `run`; here it is a no-op) -/
def step (i : Instr) (σ : St) : St :=
  match i with
  | .mov sz d s => setReg σ d (wr sz (σ.reg d) (σ.reg s))
  | .movi sz d imm => setReg σ d (wr sz (σ.reg d) (BitVec.ofInt 64 imm))
  | .load sz d k => setReg σ d (wr sz (σ.reg d) (σ.mem (addr σ k)))
  | .store k s => setMem σ (addr σ k) (σ.reg s)
  | .alu op sz d s => setReg σ d (wr sz (σ.reg d) (aluOp op (σ.reg d) (σ.reg s)))
  | .push s => setMem (setReg σ RSP (σ.reg RSP - 8)) (σ.reg RSP - 8) (σ.reg s)
  | .pop d => setReg (setReg σ RSP (σ.reg RSP + 8)) d (σ.mem (σ.reg RSP))
  | .ret => σ
  | .label => σ

/-- `ret`: pop the return address -/
def retStep (σ : St) : St := setReg σ RSP (σ.reg RSP + 8)

/-- run until `ret`; falling off the end is a fault -/
def run : List Instr → St → Option St
  | [], _ => none
  | .ret :: _, σ => some (retStep σ)
  | i :: rest, σ => run rest (step i σ)

def exec (l : List Instr) (σ : St) : St := l.foldl (fun s i => step i s) σ

/-! ## SysV calling convention -/

/-- integer argument registers rdi, rsi, rdx, rcx, r8, r9 -/
def argReg : Nat → Nat
  | 0 => 7
  | 1 => 6
  | 2 => 2
  | 3 => 1
  | 4 => 8
  | _ => 9

/-- inverse of `argReg` on the six argument registers -/
def argIdx : Nat → Option Nat
  | 7 => some 0
  | 6 => some 1
  | 2 => some 2
  | 1 => some 3
  | 8 => some 4
  | 9 => some 5
  | _ => none

def csIdx : Nat → Option Nat
  | 3 => some 0
  | 5 => some 1
  | 12 => some 2
  | 13 => some 3
  | 14 => some 4
  | 15 => some 5
  | _ => none

def calleeSaved : List Nat := [3, 5, 12, 13, 14, 15]

/-- the `i`-th integer argument as found in the state at function entry -/
def argOf (σ : St) (i : Nat) : W :=
  if i < 6 then σ.reg (argReg i)
  else σ.mem (σ.reg RSP + BitVec.ofNat 64 (8 * (i - 6 + 1)))

/-! ## Source programs -/

inductive SOp
  | const (c : Int)
  | add (a b : Nat)
  | mul (a b : Nat)
deriving DecidableEq, Repr

structure Src where
  sz : Sz
  nargs : Nat
  ops : List SOp
  ret : Nat
deriving Repr

def evalOps {w : Nat} : List SOp → List (BitVec w) → Option (List (BitVec w))
  | [], vals => some vals
  | .const c :: r, vals => evalOps r (vals ++ [BitVec.ofInt w c])
  | .add a b :: r, vals =>
    match vals[a]?, vals[b]? with
    | some x, some y => evalOps r (vals ++ [x + y])
    | _, _ => none
  | .mul a b :: r, vals =>
    match vals[a]?, vals[b]? with
    | some x, some y => evalOps r (vals ++ [x * y])
    | _, _ => none

/-- MLIR semantics of the source at width `s.sz.bits`; `none` = ill-formed (dangling index) -/
def evalSrc (s : Src) (arg : Nat → BitVec s.sz.bits) : Option (BitVec s.sz.bits) :=
  match evalOps s.ops ((List.range s.nargs).map arg) with
  | some vals => vals[s.ret]?
  | none => none

/-! ## Polynomials with `Int` coefficients -/

abbrev Mono := List Nat
abbrev Poly := List (Mono × Int)

def minsert (v : Nat) : Mono → Mono
  | [] => [v]
  | x :: r => if v ≤ x then v :: x :: r else x :: minsert v r

def mmul (a b : Mono) : Mono := a.foldr minsert b

def monoLt : Mono → Mono → Bool
  | [], [] => false
  | [], _ :: _ => true
  | _ :: _, [] => false
  | x :: a, y :: b => if x < y then true else if y < x then false else monoLt a b

/-- graded: shorter monomials first, then lexicographic -/
def monoBefore (a b : Mono) : Bool :=
  if a.length < b.length then true else if b.length < a.length then false else monoLt a b

def pins (m : Mono) (c : Int) : Poly → Poly
  | [] => [(m, c)]
  | (m', c') :: r =>
    if m = m' then (m, c + c') :: r
    else if monoBefore m m' then (m, c) :: (m', c') :: r
    else (m', c') :: pins m c r

def padd (p q : Poly) : Poly := p.foldr (fun t acc => pins t.1 t.2 acc) q

def pscale (m : Mono) (c : Int) (q : Poly) (acc : Poly) : Poly :=
  q.foldr (fun t acc => pins (mmul m t.1) (c * t.2) acc) acc

def pmul (p q : Poly) : Poly := p.foldr (fun t acc => pscale t.1 t.2 q acc) []

def pneg (p : Poly) : Poly := p.map fun t => (t.1, -t.2)

def pconst (c : Int) : Poly := [([], c)]
def pvar (i : Nat) : Poly := [([i], 1)]

/-- drop zero coefficients (canonical form for the comparison) -/
def pclean (p : Poly) : Poly := p.filter fun t => t.2 ≠ 0

def evalMono {w : Nat} (env : Nat → BitVec w) (m : Mono) : BitVec w :=
  m.foldr (fun v acc => env v * acc) 1

def evalPoly {w : Nat} (env : Nat → BitVec w) (p : Poly) : BitVec w :=
  p.foldr (fun t acc => BitVec.ofInt w t.2 * evalMono env t.1 + acc) 0

/-- size guard: the product of two polynomials is computed only below this many term pairs -/
def mulCap : Nat := 6000

def pmul? (p q : Poly) : Option Poly :=
  if p.length * q.length ≤ mulCap then some (pclean (pmul p q)) else none

/-! ## Symbolic execution -/

structure Sym where
  reg : Nat → Option Poly
  /-- qwords pushed and not yet popped -/
  depth : Nat

def Sym.set (S : Sym) (r : Nat) (p : Option Poly) : Sym :=
  { S with reg := fun x => if x = r then p else S.reg x }

def depthCap : Nat := 4096
def stackArgCap : Nat := 4096

/-- stack-argument index addressed by `[rsp+k]` when `depth` qwords have been pushed -/
def slotOf (nstack depth : Nat) (k : Int) : Option Nat :=
  let off := k - 8 * (depth : Int)
  if 8 ≤ off ∧ off % 8 = 0 then
    let j := (off / 8).toNat - 1
    if j < nstack then some j else none
  else none

def symStep (sz : Sz) (nstack : Nat) (i : Instr) (S : Sym) : Option Sym :=
  match i with
  | .mov sz' d s =>
    if sz' = sz ∧ d ≠ RSP then
      match S.reg s with
      | some p => some (S.set d (some p))
      | none => none
    else none
  | .movi sz' d imm =>
    if sz' = sz ∧ d ≠ RSP then some (S.set d (some (pconst imm))) else none
  | .load sz' d k =>
    if sz' = sz ∧ d ≠ RSP then
      match slotOf nstack S.depth k with
      | some j => some (S.set d (some (pvar (6 + j))))
      | none => none
    else none
  | .store _ _ => none
  | .alu op sz' d s =>
    if sz' = sz ∧ d ≠ RSP then
      match S.reg d, S.reg s with
      | some p, some q =>
        match op with
        | .add => some (S.set d (some (pclean (padd p q))))
        | .sub => some (S.set d (some (pclean (padd p (pneg q)))))
        | .imul =>
          match pmul? p q with
          | some r => some (S.set d (some r))
          | none => none
        | _ => none
      | _, _ => none
    else none
  | .push _ => if S.depth < depthCap then some { S with depth := S.depth + 1 } else none
  | .pop d =>
    if d ≠ RSP ∧ 0 < S.depth then some { (S.set d none) with depth := S.depth - 1 } else none
  | .ret => some S
  | .label => some S

/-- symbolic value of `rax` at the first `ret` -/
def symRun (sz : Sz) (nstack : Nat) : List Instr → Sym → Option Poly
  | [], _ => none
  | .ret :: _, S => S.reg RAX
  | i :: rest, S =>
    match symStep sz nstack i S with
    | some S' => symRun sz nstack rest S'
    | none => none

def symInit (nargs : Nat) : Sym :=
  { reg := fun r =>
      match argIdx r with
      | some i => if i < nargs then some (pvar i) else none
      | none => none
    depth := 0 }

/-! ## Source polynomial -/

/-- polynomial of every SSA value; an entry is `none` when the polynomial exceeds the size guard (only
fatal if the returned value needs it); the result is `none` when an operand index dangles -/
def polyOps : List SOp → List (Option Poly) → Option (List (Option Poly))
  | [], vals => some vals
  | .const c :: r, vals => polyOps r (vals ++ [some (pconst c)])
  | .add a b :: r, vals =>
    match vals[a]?, vals[b]? with
    | some x, some y =>
      polyOps r (vals ++ [match x, y with
        | some x, some y => some (pclean (padd x y))
        | _, _ => none])
    | _, _ => none
  | .mul a b :: r, vals =>
    match vals[a]?, vals[b]? with
    | some x, some y =>
      polyOps r (vals ++ [match x, y with
        | some x, some y => pmul? x y
        | _, _ => none])
    | _, _ => none

def srcPoly (s : Src) : Option Poly :=
  match polyOps s.ops ((List.range s.nargs).map fun i => some (pvar i)) with
  | some vals =>
    match vals[s.ret]? with
    | some q => q
    | none => none
  | none => none

def validate (s : Src) (a : List Instr) : Bool :=
  if s.nargs ≤ 6 + stackArgCap then
    match symRun s.sz (s.nargs - 6) a (symInit s.nargs), srcPoly s with
    | some p, some q => pclean p == pclean q
    | _, _ => false
  else false

/-! ## Frame shape -/

def isLabel : Instr → Bool
  | .label => true
  | _ => false

def pushReg? : Instr → Option Nat
  | .push r => some r
  | _ => none

/-- leading `push`es -/
def takePushes : List Instr → List Nat × List Instr
  | .push r :: rest => let (rs, t) := takePushes rest; (r :: rs, t)
  | l => ([], l)

/-- instructions before the first `ret` (and whether a `ret` exists) -/
def beforeRet : List Instr → Option (List Instr)
  | [] => none
  | .ret :: _ => some []
  | i :: rest => (beforeRet rest).map (i :: ·)

def writeOk (saved : List Nat) (d : Nat) : Bool :=
  d ≠ RSP && (!calleeSaved.contains d || saved.contains d)

def bodyInstrOk (saved : List Nat) : Instr → Bool
  | .mov _ d _ => writeOk saved d
  | .movi _ d _ => writeOk saved d
  | .load _ d _ => writeOk saved d
  | .alu _ _ d _ => writeOk saved d
  | .label => true
  | _ => false

def frameOk (a : List Instr) : Bool :=
  let a := a.dropWhile isLabel
  let (rs, rest) := takePushes a
  match beforeRet rest with
  | none => false
  | some pre =>
    let n := rs.length
    n ≤ pre.length && n ≤ depthCap && !rs.contains RSP &&
    pre.drop (pre.length - n) == rs.reverse.map Instr.pop &&
    (pre.take (pre.length - n)).all (bodyInstrOk rs)

/-! ## Prologue / epilogue insertion

Model of the repaired `X86PrologueEpilogueInsertion._process_function` on a single-block function
whose body (between the function label and `ret`) is the register-allocated instruction list:
callee-saved registers are recognised by register index whatever the width of the name used, pushed in
order of first definition and popped in reverse; accesses relative to the entry `rsp` are rebased by
the number of bytes pushed. -/

def destOf : Instr → Option Nat
  | .mov _ d _ => some d
  | .movi _ d _ => some d
  | .load _ d _ => some d
  | .alu _ _ d _ => some d
  | _ => none

def addUsed (acc : List Nat) (d : Nat) : List Nat :=
  if calleeSaved.contains d && !acc.contains d then acc ++ [d] else acc

/-- callee-saved registers defined by the body, in order of first definition -/
def usedCS (body : List Instr) : List Nat := (body.filterMap destOf).foldl addUsed []

def rebase (n : Nat) : Instr → Instr
  | .load sz d k => .load sz d (k + 8 * (n : Int))
  | i => i

def insertPrologue (body : List Instr) : List Instr :=
  let used := usedCS body
  .label :: (used.map Instr.push ++ body.map (rebase used.length) ++ used.reverse.map Instr.pop ++ [.ret])

/-- instructions of a register-allocated body: no stack-pointer operand, loads only at non-negative
offsets from the entry `rsp` -/
def plainInstr : Instr → Bool
  | .mov _ d s => d ≠ RSP && s ≠ RSP
  | .movi _ d _ => d ≠ RSP
  | .load _ d k => d ≠ RSP && 0 ≤ k && k < 4294967296
  | .alu _ _ d s => d ≠ RSP && s ≠ RSP
  | _ => false

def showSz : Sz → String
  | .q => "q"
  | .d => "d"
  | .w => "w"
  | .b => "b"

def showAlu : Alu → String
  | .add => "add"
  | .sub => "sub"
  | .imul => "imul"
  | .and => "and"
  | .or => "or"
  | .xor => "xor"

def showInstr : Instr → String
  | .mov sz d s => s!"mov {showSz sz} {d} {s}"
  | .movi sz d imm => s!"movi {showSz sz} {d} {imm}"
  | .load sz d k => s!"ld {showSz sz} {d} {k}"
  | .store k s => s!"st {k} {s}"
  | .alu op sz d s => s!"alu {showAlu op} {showSz sz} {d} {s}"
  | .push s => s!"push {s}"
  | .pop d => s!"pop {d}"
  | .ret => "ret"
  | .label => "label"

/-! ## Line protocol -/

def parseSz : String → Option Sz
  | "q" => some .q
  | "d" => some .d
  | "w" => some .w
  | "b" => some .b
  | _ => none

def parseAlu : String → Option Alu
  | "add" => some .add
  | "sub" => some .sub
  | "imul" => some .imul
  | "and" => some .and
  | "or" => some .or
  | "xor" => some .xor
  | _ => none

def parseReg (s : String) : Option Nat :=
  match s.toNat? with
  | some n => if n < 16 then some n else none
  | none => none

def parseInstr : List String → Option Instr
  | ["mov", sz, d, s] => do pure (.mov (← parseSz sz) (← parseReg d) (← parseReg s))
  | ["movi", sz, d, imm] => do pure (.movi (← parseSz sz) (← parseReg d) (← imm.toInt?))
  | ["ld", sz, d, k] => do pure (.load (← parseSz sz) (← parseReg d) (← k.toInt?))
  | ["st", k, s] => do pure (.store (← k.toInt?) (← parseReg s))
  | ["alu", op, sz, d, s] => do pure (.alu (← parseAlu op) (← parseSz sz) (← parseReg d) (← parseReg s))
  | ["push", s] => do pure (.push (← parseReg s))
  | ["pop", d] => do pure (.pop (← parseReg d))
  | ["ret"] => some .ret
  | ["label"] => some .label
  | _ => none

def parseSOp : List String → Option SOp
  | ["c", c] => do pure (.const (← c.toInt?))
  | ["a", a, b] => do pure (.add (← a.toNat?) (← b.toNat?))
  | ["m", a, b] => do pure (.mul (← a.toNat?) (← b.toNat?))
  | _ => none

/-- split a token list on `sep` -/
def splitToks (sep : String) (l : List String) : List (List String) :=
  let (cur, acc) := l.foldr (fun t (cur, acc) => if t = sep then ([], cur :: acc) else (t :: cur, acc)) ([], [])
  cur :: acc

def parseList {α : Type} (f : List String → Option α) (toks : List String) : Option (List α) :=
  ((splitToks ";" toks).filter (· ≠ [])).mapM f

structure PState where
  src : Src := { sz := .q, nargs := 0, ops := [], ret := 0 }
  asm : List Instr := []

/-- index of the first instruction the symbolic executor refuses (diagnostics only) -/
def firstReject (sz : Sz) (nstack : Nat) : List Instr → Sym → Nat → String
  | [], _, i => s!"no-ret@{i}"
  | .ret :: _, S, i => if (S.reg RAX).isSome then "none" else s!"rax-unknown@{i}"
  | x :: rest, S, i =>
    match symStep sz nstack x S with
    | some S' => firstReject sz nstack rest S' (i + 1)
    | none =>
      match x with
      | .alu .imul sz' d s =>
        if sz' = sz ∧ d ≠ RSP ∧ (S.reg d).isSome ∧ (S.reg s).isSome then s!"toobig@{i}" else s!"unsupported@{i}"
      | _ => s!"unsupported@{i}"

def validateMsg (s : Src) (a : List Instr) : String :=
  if validate s a then "ok"
  else
    match srcPoly s with
    | none =>
      match polyOps s.ops ((List.range s.nargs).map fun i => some (pvar i)) with
      | some _ => "reject:toobig-source"
      | none => "reject:source-illformed"
    | some _ =>
      match firstReject s.sz (s.nargs - 6) a (symInit s.nargs) 0 with
      | "none" => "reject:mismatch"
      | m => "reject:" ++ m

/-- what the native trampoline leaves in the registers that carry no argument -/
def fillerReg (r : Nat) : W :=
  match r with
  | 0 => BitVec.ofNat 64 0x7171717171717171
  | 10 => BitVec.ofNat 64 0x7373737373737373
  | 11 => BitVec.ofNat 64 0x7272727272727272
  | _ =>
    match argIdx r with
    | some i => BitVec.ofNat 64 (0x6a6a6a6a00000000 + i)
    | none => BitVec.ofNat 64 (0x5A5A000000000000 + 0x1111 * r)
def entryRsp : W := BitVec.ofNat 64 0x7FFF00001000

/-- state at function entry: arguments per SysV, callee-saved registers as given, return address slot -/
def enter (args : List W) (cs : List W) : St :=
  let regs : Nat → W := fun r =>
    if r = RSP then entryRsp
    else
      match argIdx r with
      | some i => args.getD i (fillerReg r)
      | none =>
        match csIdx r with
        | some i => cs.getD i (fillerReg r)
        | none => fillerReg r
  let stackArgs := args.drop 6
  let mem : W → W := fun a =>
    let off := (a - entryRsp).toNat
    if off % 8 = 0 ∧ 1 ≤ off / 8 ∧ off / 8 ≤ stackArgs.length then stackArgs.getD (off / 8 - 1) 0
    else BitVec.ofNat 64 0xC0DE
  { reg := regs, mem := mem }

def showW (v : W) : String := toString v.toNat

def parseWs (l : List String) : Option (List W) :=
  l.mapM fun t => (t.toNat?).map (BitVec.ofNat 64)

def lineStep (st : PState) (line : String) : PState × String :=
  match words line with
  | "check" :: sz :: nargs :: ret :: "|" :: rest =>
    match parseSz sz, nargs.toNat?, ret.toNat?, splitToks "|" rest with
    | some sz, some nargs, some ret, [srcT, asmT] =>
      match parseList parseSOp srcT, parseList parseInstr asmT with
      | some ops, some asm =>
        let s : Src := { sz := sz, nargs := nargs, ops := ops, ret := ret }
        ({ src := s, asm := asm },
          s!"validate={validateMsg s asm} frame={if frameOk asm then "ok" else "bad"}")
      | _, _ => (st, "bad-op")
    | _, _, _, _ => (st, "bad-op")
  | "prologue" :: rest =>
    match parseList parseInstr rest with
    | some body =>
      -- `plain`/`pre`: hypotheses of `prologue_pass_correct` (body shape, validator on the code before
      -- frame insertion) for the source loaded by the preceding `check` line
      let pre := validate st.src (.label :: body ++ [.ret])
      (st, s!"plain={body.all plainInstr} pre={pre} | " ++ " ; ".intercalate ((insertPrologue body).map showInstr))
    | none => (st, "bad-op")
  | "run" :: rest =>
    match splitToks "|" rest with
    | [csT, argT] =>
      match parseWs csT, parseWs argT with
      | some cs, some args =>
        let σ0 := enter args cs
        let ev := match evalSrc st.src (fun i => trunc st.src.sz (args.getD i 0)) with
          | some v => toString v.toNat
          | none => "none"
        match run st.asm σ0 with
        | none => (st, s!"fault eval={ev}")
        | some σ =>
          let csOut := " ".intercalate (calleeSaved.map fun r => showW (σ.reg r))
          let delta := (σ.reg RSP - entryRsp).toInt
          (st, s!"rax={(trunc st.src.sz (σ.reg RAX)).toNat} cs={csOut} rspdelta={delta} eval={ev}")
      | _, _ => (st, "bad-op")
    | _ => (st, "bad-op")
  | _ => (st, "bad-op")

end Xdsl.X86
