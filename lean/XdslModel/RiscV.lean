import XdslModel.Prelude
/-!
RV32IM (+ the Zbs/Zbb immediates of xDSL's `rv32` dialect) instruction-level semantics on `BitVec 32`
for C22.  Registers are natural numbers: 0 is `x0` (reads 0, writes discarded), 1..31 the physical
registers (ABI numbering: 1 = ra, 2 = sp, 8/9/18..27 = s0..s11, 10..17 = a0..a7), numbers ≥ 32 stand
for not-yet-allocated SSA values ("virtual registers").  Memory is a map from byte address to 32-bit
word; only aligned word accesses exist (`lw`/`sw`), a misaligned access traps.

No Mathlib, no proofs here.  `lineStep` is the driver protocol:
  exec <seed> | r=v … | instr;… | r … | addr …      straight-line execution
  run <fuel> <entry pc> <seed> | r=v … | instr;… | r …  program-counter execution
  enc instr                                          encodability of one instruction
-/
namespace Xdsl.RiscV

abbrev W := BitVec 32
abbrev Reg := Nat

inductive ROp
  | add | sub | mul | and | or | xor | sll | srl | sra | slt | sltu | div | divu | rem | remu
  | mulh | mulhu | mulhsu
  deriving DecidableEq, Repr

inductive IOp
  | addi | andi | ori | xori | slti | sltiu
  deriving DecidableEq, Repr

inductive SOp
  | slli | srli | srai | bclri | bexti | binvi | bseti | rori
  deriving DecidableEq, Repr

inductive BOp
  | beq | bne | blt | bge | bltu | bgeu
  deriving DecidableEq, Repr

inductive Instr
  | r (op : ROp) (rd rs1 rs2 : Reg)
  | i (op : IOp) (rd rs1 : Reg) (imm : Int)
  | sh (op : SOp) (rd rs1 : Reg) (amt : Nat)
  | li (rd : Reg) (imm : Int)
  | mv (rd rs : Reg)
  | lw (rd base : Reg) (off : Int)
  | sw (val base : Reg) (off : Int)
  | br (op : BOp) (rs1 rs2 : Reg) (target : Nat)
  | j (target : Nat)
  | jal (target : Nat)
  | ret
  | nop
  deriving DecidableEq, Repr

/-- machine state: register file and word memory -/
structure St where
  regs : Reg → W
  mem : W → W

def St.get (s : St) (r : Reg) : W := if r = 0 then 0 else s.regs r

def St.set (s : St) (r : Reg) (v : W) : St :=
  if r = 0 then s else { s with regs := fun x => if x = r then v else s.regs x }

def St.store (s : St) (a v : W) : St := { s with mem := fun x => if x = a then v else s.mem x }

/-- the 32-bit image of a decoded immediate / `li` constant -/
def imm32 (i : Int) : W := BitVec.ofInt 32 i

def b2w (b : Bool) : W := if b then 1#32 else 0#32

def intMin : W := 0x80000000#32

def aluR (op : ROp) (a b : W) : W :=
  match op with
  | .add => a + b
  | .sub => a - b
  | .mul => a * b
  | .and => a &&& b
  | .or => a ||| b
  | .xor => a ^^^ b
  | .sll => a <<< (b.toNat % 32)
  | .srl => a >>> (b.toNat % 32)
  | .sra => a.sshiftRight (b.toNat % 32)
  | .slt => b2w (a.slt b)
  | .sltu => b2w (a.ult b)
  | .div =>
    if b = 0#32 then BitVec.allOnes 32
    else if a = intMin ∧ b = BitVec.allOnes 32 then a
    else BitVec.ofInt 32 (Int.tdiv a.toInt b.toInt)
  | .divu => if b = 0#32 then BitVec.allOnes 32 else a / b
  | .rem =>
    if b = 0#32 then a
    else if a = intMin ∧ b = BitVec.allOnes 32 then 0#32
    else BitVec.ofInt 32 (Int.tmod a.toInt b.toInt)
  | .remu => if b = 0#32 then a else a % b
  | .mulh => BitVec.ofInt 32 (Int.fdiv (a.toInt * b.toInt) 4294967296)
  | .mulhu => BitVec.ofNat 32 (a.toNat * b.toNat / 4294967296)
  | .mulhsu => BitVec.ofInt 32 (Int.fdiv (a.toInt * (b.toNat : Int)) 4294967296)

def aluI (op : IOp) (a : W) (imm : Int) : W :=
  match op with
  | .addi => a + imm32 imm
  | .andi => a &&& imm32 imm
  | .ori => a ||| imm32 imm
  | .xori => a ^^^ imm32 imm
  | .slti => b2w (a.slt (imm32 imm))
  | .sltiu => b2w (a.ult (imm32 imm))

def aluS (op : SOp) (a : W) (n : Nat) : W :=
  match op with
  | .slli => a <<< n
  | .srli => a >>> n
  | .srai => a.sshiftRight n
  | .bclri => a &&& ~~~((1#32) <<< n)
  | .bexti => (a >>> n) &&& 1#32
  | .binvi => a ^^^ ((1#32) <<< n)
  | .bseti => a ||| ((1#32) <<< n)
  | .rori => a.rotateRight n

def taken (op : BOp) (a b : W) : Bool :=
  match op with
  | .beq => a == b
  | .bne => a != b
  | .blt => a.slt b
  | .bge => !(a.slt b)
  | .bltu => a.ult b
  | .bgeu => !(a.ult b)

def fitsSI12 (i : Int) : Bool := decide (-2048 ≤ i) && decide (i ≤ 2047)

/-- "assembles": immediates fit their encodings (`li` is a pseudo-instruction for any 32-bit value,
given either as signed or as unsigned number) -/
def Instr.encodable : Instr → Bool
  | .i _ _ _ imm => fitsSI12 imm
  | .sh _ _ _ n => decide (n < 32)
  | .li _ imm => decide (-2147483648 ≤ imm) && decide (imm < 4294967296)
  | .lw _ _ off => fitsSI12 off
  | .sw _ _ off => fitsSI12 off
  | _ => true

def aligned (a : W) : Bool := a.toNat % 4 == 0

/-- one non-control instruction (control instructions are identities here; `step` treats them) -/
def exec1 (ins : Instr) (s : St) : Option St :=
  match ins with
  | .r op rd a b => some (s.set rd (aluR op (s.get a) (s.get b)))
  | .i op rd a imm => some (s.set rd (aluI op (s.get a) imm))
  | .sh op rd a n => some (s.set rd (aluS op (s.get a) n))
  | .li rd imm => some (s.set rd (imm32 imm))
  | .mv rd a => some (s.set rd (s.get a))
  | .lw rd base off =>
    let addr := s.get base + imm32 off
    if aligned addr then some (s.set rd (s.mem addr)) else none
  | .sw v base off =>
    let addr := s.get base + imm32 off
    if aligned addr then some (s.store addr (s.get v)) else none
  | _ => some s

/-- straight-line execution; `none` = trap -/
def exec : List Instr → St → Option St
  | [], s => some s
  | i :: is, s => (exec1 i s).bind (exec is)

/-! ### program-counter execution -/

def TEXT : Nat := 0x00010000
def HALT : Nat := 0x0FFFFFF0
def RA : Reg := 1

/-- `none` = trap; `some (none, s)` = halted; `some (some pc', s)` = continue -/
def step (prog : Array Instr) (pc : Nat) (s : St) : Option (Option Nat × St) :=
  match prog[pc]? with
  | none => none
  | some ins =>
    if !ins.encodable then none else
    match ins with
    | .br op a b t => some (some (if taken op (s.get a) (s.get b) then t else pc + 1), s)
    | .j t => some (some t, s)
    | .jal t => some (some t, s.set RA (BitVec.ofNat 32 (TEXT + 4 * (pc + 1))))
    | .ret =>
      let ra := (s.get RA).toNat
      if ra = HALT then some (none, s)
      else if ra < TEXT ∨ (ra - TEXT) % 4 ≠ 0 ∨ (ra - TEXT) / 4 > prog.size then none
      else some (some ((ra - TEXT) / 4), s)
    | _ => (exec1 ins s).map fun s' => (some (pc + 1), s')

inductive Outcome
  | halted (s : St) (steps : Nat)
  | trap
  | fuel

def run (prog : Array Instr) : Nat → Nat → Nat → St → Outcome
  | 0, _, _, _ => .fuel
  | fuel + 1, n, pc, s =>
    match step prog pc s with
    | none => .trap
    | some (none, s') => .halted s' (n + 1)
    | some (some pc', s') => run prog fuel (n + 1) pc' s'

/-! ### protocol -/

def parseInt? (s : String) : Option Int := s.toInt?

def parseNat? (s : String) : Option Nat := s.toNat?

def rop? : String → Option ROp
  | "add" => some .add | "sub" => some .sub | "mul" => some .mul | "and" => some .and
  | "or" => some .or | "xor" => some .xor | "sll" => some .sll | "srl" => some .srl
  | "sra" => some .sra | "slt" => some .slt | "sltu" => some .sltu | "div" => some .div
  | "divu" => some .divu | "rem" => some .rem | "remu" => some .remu | "mulh" => some .mulh
  | "mulhu" => some .mulhu | "mulhsu" => some .mulhsu | _ => none

def iop? : String → Option IOp
  | "addi" => some .addi | "andi" => some .andi | "ori" => some .ori | "xori" => some .xori
  | "slti" => some .slti | "sltiu" => some .sltiu | _ => none

def sop? : String → Option SOp
  | "slli" => some .slli | "srli" => some .srli | "srai" => some .srai | "bclri" => some .bclri
  | "bexti" => some .bexti | "binvi" => some .binvi | "bseti" => some .bseti | "rori" => some .rori
  | _ => none

def bop? : String → Option BOp
  | "beq" => some .beq | "bne" => some .bne | "blt" => some .blt | "bge" => some .bge
  | "bltu" => some .bltu | "bgeu" => some .bgeu | _ => none

def ropName : ROp → String
  | .add => "add" | .sub => "sub" | .mul => "mul" | .and => "and" | .or => "or" | .xor => "xor"
  | .sll => "sll" | .srl => "srl" | .sra => "sra" | .slt => "slt" | .sltu => "sltu" | .div => "div"
  | .divu => "divu" | .rem => "rem" | .remu => "remu" | .mulh => "mulh" | .mulhu => "mulhu"
  | .mulhsu => "mulhsu"

def iopName : IOp → String
  | .addi => "addi" | .andi => "andi" | .ori => "ori" | .xori => "xori" | .slti => "slti"
  | .sltiu => "sltiu"

def sopName : SOp → String
  | .slli => "slli" | .srli => "srli" | .srai => "srai" | .bclri => "bclri" | .bexti => "bexti"
  | .binvi => "binvi" | .bseti => "bseti" | .rori => "rori"

def bopName : BOp → String
  | .beq => "beq" | .bne => "bne" | .blt => "blt" | .bge => "bge" | .bltu => "bltu" | .bgeu => "bgeu"

def parseInstr (t : String) : Option Instr :=
  match words t with
  | ["ret"] => some .ret
  | ["nop"] => some .nop
  | ["j", a] => (parseNat? a).map .j
  | ["jal", a] => (parseNat? a).map .jal
  | ["li", a, b] => do some (.li (← parseNat? a) (← parseInt? b))
  | ["mv", a, b] => do some (.mv (← parseNat? a) (← parseNat? b))
  | ["lw", a, b, c] => do some (.lw (← parseNat? a) (← parseNat? b) (← parseInt? c))
  | ["sw", a, b, c] => do some (.sw (← parseNat? a) (← parseNat? b) (← parseInt? c))
  | [m, a, b, c] =>
    match rop? m, iop? m, sop? m, bop? m with
    | some op, _, _, _ => do some (.r op (← parseNat? a) (← parseNat? b) (← parseNat? c))
    | _, some op, _, _ => do some (.i op (← parseNat? a) (← parseNat? b) (← parseInt? c))
    | _, _, some op, _ => do some (.sh op (← parseNat? a) (← parseNat? b) (← parseNat? c))
    | _, _, _, some op => do some (.br op (← parseNat? a) (← parseNat? b) (← parseNat? c))
    | _, _, _, _ => none
  | _ => none

def showInstr : Instr → String
  | .r op a b c => s!"{ropName op} {a} {b} {c}"
  | .i op a b c => s!"{iopName op} {a} {b} {c}"
  | .sh op a b c => s!"{sopName op} {a} {b} {c}"
  | .li a b => s!"li {a} {b}"
  | .mv a b => s!"mv {a} {b}"
  | .lw a b c => s!"lw {a} {b} {c}"
  | .sw a b c => s!"sw {a} {b} {c}"
  | .br op a b c => s!"{bopName op} {a} {b} {c}"
  | .j a => s!"j {a}"
  | .jal a => s!"jal {a}"
  | .ret => "ret"
  | .nop => "nop"

def parseInstrs (t : String) : Option (List Instr) :=
  ((t.splitOn ";").filter (fun x => (words x) ≠ [])).mapM parseInstr

def showInstrs (is : List Instr) : String := ";".intercalate (is.map showInstr)

/-- initial memory: 0 when `seed = 0`, else the same pseudo-random word the harness uses -/
def mem0 (seed : Nat) (a : W) : W :=
  if seed = 0 then 0#32 else BitVec.ofNat 32 (a.toNat * 2654435761 + seed * 40503)

def parseRegs (t : String) : Option (List (Reg × W)) :=
  (words t).mapM fun kv =>
    match kv.splitOn "=" with
    | [k, v] => do some ((← parseNat? k), BitVec.ofNat 32 (← parseNat? v))
    | _ => none

def initSt (seed : Nat) (rs : List (Reg × W)) : St :=
  rs.foldl (fun s kv => s.set kv.1 kv.2) { regs := fun _ => 0#32, mem := mem0 seed }

def showObs (s : St) (rs : List Reg) (addrs : List Nat) : String :=
  " ".intercalate (rs.map fun r => toString (s.get r).toNat) ++ " | " ++
  " ".intercalate (addrs.map fun a => toString (s.mem (BitVec.ofNat 32 a)).toNat)

def lineStep (_ : Unit) (line : String) : Unit × String :=
  let bad := ((), "bad-op")
  match (line.splitOn "|").map (fun x => x) with
  | [hd, regs, prog, obs, addrs] =>
    match words hd, parseRegs regs, parseInstrs prog, (words obs).mapM parseNat?, (words addrs).mapM parseNat? with
    | ["exec", seed], some rs, some is, some os, some as =>
      match parseNat? seed with
      | none => bad
      | some sd =>
        if is.any (fun i => !i.encodable) then ((), "trap") else
        match exec is (initSt sd rs) with
        | none => ((), "trap")
        | some s => ((), "ok " ++ showObs s os as)
    | _, _, _, _, _ => bad
  | [hd, regs, prog, obs] =>
    match words hd, parseRegs regs, parseInstrs prog, (words obs).mapM parseNat? with
    | ["run", fuel, entry, seed], some rs, some is, some os =>
      match parseNat? fuel, parseNat? entry, parseNat? seed with
      | some f, some e, some sd =>
        let s0 := (initSt sd rs).set RA (BitVec.ofNat 32 HALT)
        match run is.toArray f 0 e s0 with
        | .trap => ((), "trap")
        | .fuel => ((), "fuel")
        | .halted s n => ((), s!"ok {" ".intercalate (os.map fun r => toString (s.get r).toNat)} steps={n}")
      | _, _, _ => bad
    | _, _, _, _ => bad
  | [one] =>
    match words one with
    | "enc" :: rest =>
      match parseInstr (" ".intercalate rest) with
      | some i => ((), if i.encodable then "ok" else "bad")
      | none => bad
    | _ => bad
  | _ => bad

end Xdsl.RiscV
