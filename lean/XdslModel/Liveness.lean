import XdslModel.Prelude
/-!
Model of the sparse backward liveness analysis (C25):
`xdsl/analysis/liveness_analysis.py` (`Liveness`, `LivenessAnalysis.visit_operation_impl`,
`set_to_exit_state`), `xdsl/analysis/sparse_analysis.py` (`SparseBackwardDataFlowAnalysis.initialize /
visit_operation / get_lattice_element_for`, `PropagatingLattice.on_update`) and
`xdsl/analysis/dataflow.py` (`DataFlowSolver.initialize_and_run / enqueue / propagate_if_changed`,
`AnalysisState.on_update`), for supported IR: every op sits in an executable block and has neither
regions nor successors (those raise `NotImplementedError` in the real code and are outside C25).

Values and ops are dense indices handed out by the harness (program order).  One analysis is loaded
that ever enqueues work (`LivenessAnalysis`), so a work item `(ProgramPoint.before(op), analysis)`
is just the op index.

* `St.live`  : `Liveness.is_live` of the lattice attached to each value (absent lattice = dead).
* `St.reg`   : op `i` has executed `get_lattice_element_for(point_i, r)` for its results, i.e.
               `(point_i, analysis) ∈ lattice(r).dependents` for every result `r` of op `i`.
* `St.wl`    : `solver._worklist`, front first; `enqueue` appends at the back (duplicates allowed,
               as in the `deque`).
* `St.trace` : ghost field, the ops popped from the worklist so far (most recent first); only used to
               compare schedules with the real solver.
The scheduler is a parameter: `pick k wl` is the index (taken modulo the length) of the work item
removed at the `k`-th iteration of `while self._worklist`.  The real solver is `pick = fun _ _ => 0`.
-/
namespace Xdsl.Liveness

structure Op where
  operands : List Nat
  results  : List Nat
  /-- `would_be_trivially_dead(op)` -/
  wbd      : Bool
deriving Repr, Inhabited

structure Prog where
  /-- value ids are `0 … nvals-1` -/
  nvals : Nat := 0
  /-- ops in program order (the initialisation walk visits them in reverse) -/
  ops   : List Op := []
  /-- lattices set to live before the run (the test-suite idiom `_seed_live`) -/
  seeds : List Nat := []
  /-- values handed to `set_to_exit_state` after the initialisation walk -/
  exits : List Nat := []
deriving Repr

structure St where
  live  : List Bool
  reg   : List Bool
  wl    : List Nat
  trace : List Nat
deriving Repr

def isLive (st : St) (v : Nat) : Bool := st.live.getD v false

def hasResult (p : Prog) (i v : Nat) : Bool :=
  match p.ops[i]? with
  | some op => op.results.contains v
  | none => false

/-- `lattice(v).dependents`: the program points registered by `get_lattice_element_for`.  (A Python
`set`; for SSA-shaped input it has at most one element, here it is listed in op order.) -/
def deps (p : Prog) (st : St) (v : Nat) : List Nat :=
  (List.range p.ops.length).filter fun i => st.reg.getD i false && hasResult p i v

/-- `self.propagate_if_changed(lat, lat.mark_live())` — also `self.meet(lat, live_result)` and
`set_to_exit_state(lat)`: if the lattice is dead make it live and run `on_update`, which enqueues
every dependent.  (Ids outside `0 … nvals-1` have no lattice in the model: no change.) -/
def mark (p : Prog) (st : St) (v : Nat) : St :=
  if v < st.live.length && !isLive st v then
    { st with live := st.live.set v true, wl := st.wl ++ deps p st v }
  else st

def markAll (p : Prog) (st : St) (vs : List Nat) : St := vs.foldl (mark p) st

/-- `SparseBackwardDataFlowAnalysis.visit_operation` + `LivenessAnalysis.visit_operation_impl`. -/
def visit (p : Prog) (j : Nat) (st : St) : St :=
  match p.ops[j]? with
  | none => st
  | some op =>
    if op.operands.isEmpty then st                       -- `if not op.operands: return`
    else
      -- result lattices register `before(op)` as dependent
      let st0 := { st with reg := st.reg.set j true }
      -- `if not would_be_trivially_dead(op): for operand: propagate_if_changed(operand.mark_live())`
      let st1 := if op.wbd then st0 else markAll p st0 op.operands
      -- `for result: if result.is_live: (for operand: self.meet(operand, result)); break`
      if op.results.any (isLive st1) then markAll p st1 op.operands else st1

def init0 (p : Prog) : St :=
  { live := p.seeds.foldl (fun l v => l.set v true) (List.replicate p.nvals false)
    reg := List.replicate p.ops.length false
    wl := []
    trace := [] }

/-- `analysis.initialize(op)`: the stack walk visits the ops of a block last-to-first (and later
functions before earlier ones), then the boundary values are set to their exit state. -/
def init (p : Prog) : St :=
  markAll p ((List.range p.ops.length).reverse.foldl (fun st j => visit p j st) (init0 p)) p.exits

abbrev Sched := Nat → List Nat → Nat

/-- one iteration of `while self._worklist: point, analysis = pop(); analysis.visit(point)` -/
def step (p : Prog) (pick : Sched) (k : Nat) (st : St) : St :=
  let i := pick k st.wl % st.wl.length
  let j := st.wl.getD i 0
  visit p j { st with wl := st.wl.eraseIdx i, trace := j :: st.trace }

def run (p : Prog) (pick : Sched) : Nat → Nat → St → St
  | 0, _, st => st
  | f + 1, k, st => if st.wl.isEmpty then st else run p pick f (k + 1) (step p pick k st)

/-- enough iterations for every schedule (`XdslProofs.C25.solver_terminates`) -/
def fuel (p : Prog) (st : St) : Nat := st.wl.length + p.ops.length * p.nvals

def solveSt (p : Prog) (pick : Sched) : St := run p pick (fuel p (init p)) 0 (init p)

/-- the liveness of every value after `initialize_and_run` under scheduler `pick` -/
def solve (p : Prog) (pick : Sched) : List Bool := (solveSt p pick).live

/-! Line protocol:
`reset <nvals>` · `op <wbd 0|1> <#operands> <operands…> <results…>` · `seed <v>` · `exit <v>` ·
`solve <i₀ i₁ …>` (index chosen at iteration k, 0 when the list is exhausted; FIFO = `solve`). -/

def natList (ws : List String) : Option (List Nat) := ws.mapM String.toNat?

def showBits (l : List Bool) : String := String.join (l.map fun b => if b then "1" else "0")

def showNats (l : List Nat) : String := ",".intercalate (l.map toString)

def lineStep (p : Prog) (line : String) : Prog × String :=
  match words line with
  | ["reset", n] =>
    match n.toNat? with
    | some n => ({ nvals := n }, "ok")
    | none => (p, "bad-op")
  | "op" :: w :: n :: rest =>
    match w.toNat?, n.toNat?, natList rest with
    | some w, some n, some vs =>
      if w ≤ 1 ∧ n ≤ vs.length then
        ({ p with ops := p.ops ++ [{ operands := vs.take n, results := vs.drop n, wbd := w == 1 }] }, "ok")
      else (p, "bad-op")
    | _, _, _ => (p, "bad-op")
  | ["seed", v] =>
    match v.toNat? with
    | some v => ({ p with seeds := p.seeds ++ [v] }, "ok")
    | none => (p, "bad-op")
  | ["exit", v] =>
    match v.toNat? with
    | some v => ({ p with exits := p.exits ++ [v] }, "ok")
    | none => (p, "bad-op")
  | "solve" :: is =>
    match natList is with
    | some sched =>
      let st := solveSt p (fun k _ => sched.getD k 0)
      (p, s!"live={showBits st.live} trace={showNats st.trace.reverse} rest={st.wl.length}")
    | none => (p, "bad-op")
  | _ => (p, "bad-op")

end Xdsl.Liveness
