import XdslModel.Prelude
/-!
Model of the sparse backward liveness analysis (C25):
`xdsl/analysis/liveness_analysis.py` (`Liveness`, `LivenessAnalysis.visit_operation_impl`,
`set_to_exit_state`), `xdsl/analysis/sparse_analysis.py` (`SparseBackwardDataFlowAnalysis.initialize /
visit_operation / get_lattice_element_for`, `PropagatingLattice.on_update`) and
`xdsl/analysis/dataflow.py` (`DataFlowSolver.initialize_and_run / enqueue / propagate_if_changed`,
`AnalysisState.on_update`) together with the `Executable` gating of
`xdsl/analysis/dead_code_analysis.py` (`Executable.set_to_live / on_update`,
`DeadCodeAnalysis.initialize`), for supported IR: ops have neither regions nor successors (those
raise `NotImplementedError` in the real code and are outside C25).

Executability.  `visit_operation` returns at once for an op whose parent block's `Executable` state
is not live.  In the real code a block becomes executable only during initialisation:
`DeadCodeAnalysis.initialize` marks the entry block of the top-level op (nothing else ever — its
`visit` is never enqueued), and the test-suite idiom sets `.live = True` by hand.  What matters is
whether this happens before or after `LivenessAnalysis.initialize` (the load order of the analyses):
* before (`Prog.pre`): `block_content_subscribers` is still empty, nothing is enqueued, the
  initial backward walk visits the ops of the block;
* after (`Prog.post`): the walk skipped every op of the block (no lattice was touched, nothing was
  registered); `Executable.on_update` enqueues `(before(op), liveness)` for every op of the block in
  forward order (`enable`), and the worklist loop visits them;
* never: the ops are skipped for good.

Values and ops are dense indices handed out by the harness (program order).  One analysis is loaded
that ever enqueues work (`LivenessAnalysis`), so a work item `(ProgramPoint.before(op), analysis)`
is just the op index.

* `St.live`  : `Liveness.is_live` of the lattice attached to each value (absent lattice = dead).
* `St.reg`   : op `i` has executed `get_lattice_element_for(point_i, r)` for its results, i.e.
               `(point_i, analysis) ∈ lattice(r).dependents` for every result `r` of op `i`.
* `St.wl`    : `solver._worklist`, front first; `enqueue` appends at the back (duplicates allowed,
               as in the `deque`).
* `St.trace` : ghost field, the ops popped from the worklist so far (most recent first); only used to
               compare schedules with the real solver.
The scheduler is a parameter: `pick k wl` is the index (taken modulo the length) of the work item
removed at the `k`-th iteration of `while self._worklist`.  The real solver is `pick = fun _ _ => 0`.
-/
namespace Xdsl.Liveness

structure Op where
  operands : List Nat
  results  : List Nat
  /-- `would_be_trivially_dead(op)` -/
  wbd      : Bool
  /-- id of the parent block -/
  blk      : Nat := 0
deriving Repr, Inhabited

structure Prog where
  /-- value ids are `0 … nvals-1` -/
  nvals : Nat := 0
  /-- ops in program order (the initialisation walk visits them in reverse) -/
  ops   : List Op := []
  /-- lattices set to live before the run (the test-suite idiom `_seed_live`) -/
  seeds : List Nat := []
  /-- values handed to `set_to_exit_state` after the initialisation walk -/
  exits : List Nat := []
  /-- blocks whose `Executable` state is live before `LivenessAnalysis.initialize` runs -/
  pre   : List Nat := []
  /-- blocks marked live (`set_to_live` + `on_update`) after `LivenessAnalysis.initialize`, in order -/
  post  : List Nat := []
deriving Repr

structure St where
  live  : List Bool
  reg   : List Bool
  wl    : List Nat
  trace : List Nat
  /-- blocks whose `Executable` state is live -/
  exec  : List Nat
deriving Repr

/-- `get_or_create_state(at_start_of_block(b), Executable).live` -/
def isExec (st : St) (b : Nat) : Bool := st.exec.contains b

def isLive (st : St) (v : Nat) : Bool := st.live.getD v false

def hasResult (p : Prog) (i v : Nat) : Bool :=
  match p.ops[i]? with
  | some op => op.results.contains v
  | none => false

/-- `lattice(v).dependents`: the program points registered by `get_lattice_element_for`.  (A Python
`set`; for SSA-shaped input it has at most one element, here it is listed in op order.) -/
def deps (p : Prog) (st : St) (v : Nat) : List Nat :=
  (List.range p.ops.length).filter fun i => st.reg.getD i false && hasResult p i v

/-- `self.propagate_if_changed(lat, lat.mark_live())` — also `self.meet(lat, live_result)` and
`set_to_exit_state(lat)`: if the lattice is dead make it live and run `on_update`, which enqueues
every dependent.  (Ids outside `0 … nvals-1` have no lattice in the model: no change.) -/
def mark (p : Prog) (st : St) (v : Nat) : St :=
  if v < st.live.length && !isLive st v then
    { st with live := st.live.set v true, wl := st.wl ++ deps p st v }
  else st

def markAll (p : Prog) (st : St) (vs : List Nat) : St := vs.foldl (mark p) st

/-- `SparseBackwardDataFlowAnalysis.visit_operation` + `LivenessAnalysis.visit_operation_impl`. -/
def visit (p : Prog) (j : Nat) (st : St) : St :=
  match p.ops[j]? with
  | none => st
  | some op =>
    if op.operands.isEmpty then st                       -- `if not op.operands: return`
    else if !isExec st op.blk then st                    -- parent block not executable: do nothing
    else
      -- result lattices register `before(op)` as dependent
      let st0 := { st with reg := st.reg.set j true }
      -- `if not would_be_trivially_dead(op): for operand: propagate_if_changed(operand.mark_live())`
      let st1 := if op.wbd then st0 else markAll p st0 op.operands
      -- `for result: if result.is_live: (for operand: self.meet(operand, result)); break`
      if op.results.any (isLive st1) then markAll p st1 op.operands else st1

def init0 (p : Prog) : St :=
  { live := p.seeds.foldl (fun l v => l.set v true) (List.replicate p.nvals false)
    reg := List.replicate p.ops.length false
    wl := []
    trace := []
    exec := p.pre }

/-- the ops of block `b`, in program order (`for op in block.ops`) -/
def blockOps (p : Prog) (b : Nat) : List Nat :=
  (List.range p.ops.length).filter fun i =>
    match p.ops[i]? with
    | some op => op.blk == b
    | none => false

/-- `propagate_if_changed(executable, executable.set_to_live())` once `LivenessAnalysis` has
subscribed to the block: no change if already live; else `Executable.on_update` enqueues every op
of the block for the subscribed analysis. -/
def enable (p : Prog) (st : St) (b : Nat) : St :=
  if isExec st b then st
  else { st with exec := b :: st.exec, wl := st.wl ++ blockOps p b }

/-- `analysis.initialize(op)`: the stack walk visits the ops of a block last-to-first (and later
functions before earlier ones), then the boundary values are set to their exit state; afterwards the
analyses loaded later are initialised (`post`: blocks they mark executable). -/
def init (p : Prog) : St :=
  p.post.foldl (enable p)
    (markAll p ((List.range p.ops.length).reverse.foldl (fun st j => visit p j st) (init0 p)) p.exits)

abbrev Sched := Nat → List Nat → Nat

/-- one iteration of `while self._worklist: point, analysis = pop(); analysis.visit(point)` -/
def step (p : Prog) (pick : Sched) (k : Nat) (st : St) : St :=
  let i := pick k st.wl % st.wl.length
  let j := st.wl.getD i 0
  visit p j { st with wl := st.wl.eraseIdx i, trace := j :: st.trace }

def run (p : Prog) (pick : Sched) : Nat → Nat → St → St
  | 0, _, st => st
  | f + 1, k, st => if st.wl.isEmpty then st else run p pick f (k + 1) (step p pick k st)

/-- enough iterations for every schedule (`XdslProofs.C25.solver_terminates`) -/
def fuel (p : Prog) (st : St) : Nat := st.wl.length + p.ops.length * p.nvals

def solveSt (p : Prog) (pick : Sched) : St := run p pick (fuel p (init p)) 0 (init p)

/-- the liveness of every value after `initialize_and_run` under scheduler `pick` -/
def solve (p : Prog) (pick : Sched) : List Bool := (solveSt p pick).live

/-! ## Removability of one op *instance*

`would_be_trivially_dead(op)` (`xdsl/transforms/dead_code_elimination.py`) is a function of the op
instance, not of its class: `get_effects(op)` (`xdsl/traits.py`) asks every `MemoryEffect` trait of the
class for the effects of *this* op, and `RegisterAllocatedMemoryEffect.get_effects`
(`xdsl/backend/register_type.py`; every riscv / x86 instruction, `test.allocatable`) answers from the
types of the op's results and operands: a `WRITE` per result whose type is an allocated register, a
`READ` per such operand.  Two ops of one class therefore differ in removability.  `Inst` is what the
harness reads off the real op (class-level traits, instance-level types); `instWbd` is the flag the
solver model then uses (`opi` line), so no answer of the real function is copied into the model.
Traits with a `get_effects` of their own that is not listed here (`dmp.swap`, stencil, recursive
effects — the latter only on ops with regions, outside C25) are not described: such ops travel as
`op` lines with the flag of the real function.  None of the listed traits attaches a value to an
`ALLOC` effect, so `result_only_effects` reduces to "every effect is a `READ`". -/

inductive EffKind
  | read | write | alloc | free
deriving DecidableEq, Repr

/-- which implementation of `MemoryEffect.get_effects` a trait of the op's class uses -/
inductive Trait
  /-- `NoMemoryEffect` (`Pure`) -/
  | noEffect
  | read | write | alloc | free
  /-- `RegisterAllocatedMemoryEffect` -/
  | regAlloc
deriving DecidableEq, Repr

structure Inst where
  /-- `op.has_trait(IsTerminator)` -/
  term     : Bool := false
  /-- `op.has_trait(SymbolOpInterface)` -/
  sym      : Bool := false
  /-- `op.get_traits_of_type(MemoryEffect)`; `[]`: no such trait, the effects are unknown -/
  traits   : List Trait := []
  /-- per operand: its type is a `RegisterType` with `is_allocated` -/
  inAlloc  : List Bool := []
  /-- per result: its type is a `RegisterType` with `is_allocated` -/
  outAlloc : List Bool := []
deriving Repr

/-- `trait.get_effects(op)` (kinds only) -/
def traitEffects (i : Inst) : Trait → List EffKind
  | .noEffect => []
  | .read => [.read]
  | .write => [.write]
  | .alloc => [.alloc]
  | .free => [.free]
  | .regAlloc =>
    (i.outAlloc.filter id).map (fun _ => EffKind.write) ++ (i.inAlloc.filter id).map (fun _ => EffKind.read)

/-- `get_effects(op)`: `none` without any `MemoryEffect` trait, else the union over the traits -/
def getEffects (i : Inst) : Option (List EffKind) :=
  if i.traits.isEmpty then none else some (i.traits.flatMap (traitEffects i))

/-- `result_only_effects(op)` -/
def resultOnlyEffects (i : Inst) : Bool :=
  match getEffects i with
  | none => false
  | some es => es.all (· == EffKind.read)

/-- `would_be_trivially_dead(op)` -/
def instWbd (i : Inst) : Bool := !i.term && !i.sym && resultOnlyEffects i


/-! Line protocol (state: program under construction and the block id given to the next ops):
`reset <nvals>` · `blk <b>` · `op <wbd 0|1> <#operands> <operands…> <results…>` ·
`opi <term 0|1> <sym 0|1> <traits> <inAlloc> <outAlloc> <#operands> <operands…> <results…>` (the flag is
`instWbd`; `<traits>`: `-` or letters `N r w a f G`; `<inAlloc>`/`<outAlloc>`: `-` or one bit per
operand/result) · `wbd` (→ the flags of all ops) · `seed <v>` · `exit <v>` · `pre <b>` · `post <b>` ·
`solve <i₀ i₁ …>` (index chosen at iteration k, 0 when the list is exhausted; FIFO = `solve`). -/

def natList (ws : List String) : Option (List Nat) := ws.mapM String.toNat?

def showBits (l : List Bool) : String := String.join (l.map fun b => if b then "1" else "0")

def showNats (l : List Nat) : String := ",".intercalate (l.map toString)

def parseTraits (w : String) : Option (List Trait) :=
  if w == "-" then some [] else
  w.toList.mapM fun c =>
    if c == 'N' then some Trait.noEffect else if c == 'r' then some Trait.read
    else if c == 'w' then some Trait.write else if c == 'a' then some Trait.alloc
    else if c == 'f' then some Trait.free else if c == 'G' then some Trait.regAlloc else none

def parseBits (w : String) : Option (List Bool) :=
  if w == "-" then some [] else
  w.toList.mapM fun c => if c == '1' then some true else if c == '0' then some false else none

def lineStep (pc : Prog × Nat) (line : String) : (Prog × Nat) × String :=
  let (p, cur) := pc
  match words line with
  | ["reset", n] =>
    match n.toNat? with
    | some n => (({ nvals := n }, 0), "ok")
    | none => (pc, "bad-op")
  | ["blk", b] =>
    match b.toNat? with
    | some b => ((p, b), "ok")
    | none => (pc, "bad-op")
  | "op" :: w :: n :: rest =>
    match w.toNat?, n.toNat?, natList rest with
    | some w, some n, some vs =>
      if w ≤ 1 ∧ n ≤ vs.length then
        (({ p with ops := p.ops ++
            [{ operands := vs.take n, results := vs.drop n, wbd := w == 1, blk := cur }] }, cur), "ok")
      else (pc, "bad-op")
    | _, _, _ => (pc, "bad-op")
  | "opi" :: t :: sy :: tr :: ia :: oa :: n :: rest =>
    match t.toNat?, sy.toNat?, parseTraits tr, parseBits ia, parseBits oa, n.toNat?, natList rest with
    | some t, some sy, some tr, some ia, some oa, some n, some vs =>
      if t ≤ 1 ∧ sy ≤ 1 ∧ n ≤ vs.length ∧ ia.length = n ∧ oa.length = vs.length - n then
        let i : Inst := { term := t == 1, sym := sy == 1, traits := tr, inAlloc := ia, outAlloc := oa }
        (({ p with ops := p.ops ++
            [{ operands := vs.take n, results := vs.drop n, wbd := instWbd i, blk := cur }] }, cur), "ok")
      else (pc, "bad-op")
    | _, _, _, _, _, _, _ => (pc, "bad-op")
  | ["wbd"] => (pc, s!"wbd={showBits (p.ops.map (·.wbd))}")
  | ["seed", v] =>
    match v.toNat? with
    | some v => (({ p with seeds := p.seeds ++ [v] }, cur), "ok")
    | none => (pc, "bad-op")
  | ["exit", v] =>
    match v.toNat? with
    | some v => (({ p with exits := p.exits ++ [v] }, cur), "ok")
    | none => (pc, "bad-op")
  | ["pre", b] =>
    match b.toNat? with
    | some b => (({ p with pre := p.pre ++ [b] }, cur), "ok")
    | none => (pc, "bad-op")
  | ["post", b] =>
    match b.toNat? with
    | some b => (({ p with post := p.post ++ [b] }, cur), "ok")
    | none => (pc, "bad-op")
  | "solve" :: is =>
    match natList is with
    | some sched =>
      let st := solveSt p (fun k _ => sched.getD k 0)
      (pc, s!"live={showBits st.live} trace={showNats st.trace.reverse} rest={st.wl.length}")
    | none => (pc, "bad-op")
  | _ => (pc, "bad-op")

end Xdsl.Liveness
