import XdslModel.PyInt
import XdslModel.Sem
/-!
C14 (C): rule-level models of the rewrite patterns in
`xdsl/transforms/canonicalization_patterns/arith.py` and of `SignlessIntegerBinaryOperation.fold`
(`xdsl/dialects/arith.py`), as functions on small expression trees.

The integer patterns are parametrised by the fold kernels (`Kernels`: `py_operation`,
`is_right_unit`, `is_right_zero`, `IntegerType.normalized_value`); `Kernels.ref` is a hand-written
copy used by the driver, `XdslProofs/C14Rules.lean` proves it equal to the kernels regenerated from
the source (`XdslModel/Generated/ArithPyOps.lean`) and proves `rule_preserves` for both.
No Mathlib, no import of the generated files (the shared `driver` must not depend on them).
-/
namespace Xdsl.ArithRules
open Xdsl

/-! ## integer expressions of one width -/

/-- `var i`: any SSA value that is not an integer `arith.constant`; `const c`: `arith.constant c`
(the attribute's Python int); `bin op a b`: `arith.<op> a, b`. -/
inductive E where
  | var (i : Nat)
  | const (c : Int)
  | bin (op : String) (a b : E)
deriving Repr, DecidableEq, Inhabited

/-- `none` = the reference semantics gives poison / undefined behaviour (or the op is unknown) -/
def eval (w : Nat) (env : Nat → BitVec w) : E → Option (BitVec w)
  | .var i => some (env i)
  | .const c => some (BitVec.ofInt w c)
  | .bin op a b =>
    match eval w env a, eval w env b with
    | some x, some y =>
      match Sem.intBin op x y with
      | .val v => some v
      | _ => none
    | _, _ => none

/-- the Python-level kernels the patterns call -/
structure Kernels where
  /-- `op.py_operation(lhs, rhs)`; `none` when the class does not override it (returns `None`) -/
  pyOp : String → Option (Int → Int → Int)
  /-- `op.is_right_unit(attr)` for an attribute of a type of width `w` with data `c` -/
  isRightUnit : String → Int → Int → Bool
  isRightZero : String → Int → Int → Bool
  /-- `IntegerType.normalized_value(v, truncate_bits=True)` -/
  normalize : Int → Int → Option Int

/-- ops carrying the `Commutative` trait -/
def commutative (op : String) : Bool :=
  op = "arith.addi" || op = "arith.muli" || op = "arith.andi" || op = "arith.ori" || op = "arith.xori"

/-- `IntegerType.normalized_value(v, truncate_bits=True)` of a signless type: the two's-complement
representative of the `w`-bit pattern of `v` (stated with `BitVec`; `XdslProofs/C14Rules.lean` proves
it equal to the function regenerated from `builtin.py` for every `w ≥ 1`) -/
def normalizeRef (w v : Int) : Option Int := some (BitVec.ofInt w.toNat v).toInt

/-- `IntegerAttr(1, type).value.data` for a signless type of width `w` (`-1` for `i1`) -/
def oneRef (w : Int) : Int := (BitVec.ofInt w.toNat 1).toInt

def Kernels.ref : Kernels where
  pyOp op :=
    if op = "arith.addi" then some (· + ·)
    else if op = "arith.subi" then some (· - ·)
    else if op = "arith.muli" then some (· * ·)
    else if op = "arith.andi" then some Py.land
    else if op = "arith.ori" then some Py.lor
    else if op = "arith.xori" then some Py.xor
    else none
  isRightUnit op w c :=
    if op = "arith.addi" || op = "arith.subi" || op = "arith.ori" || op = "arith.xori"
        || op = "arith.shli" || op = "arith.shrui" || op = "arith.shrsi" then c == 0
    else if op = "arith.muli" || op = "arith.divui" || op = "arith.divsi" || op = "arith.floordivsi"
        || op = "arith.ceildivsi" || op = "arith.ceildivui" then c == oneRef w
    else false
  isRightZero op _ c :=
    if op = "arith.muli" || op = "arith.andi" then c == 0 else false
  normalize := normalizeRef

/-- the result attribute `IntegerAttr(r, type, truncate_bits=True)`: normalised for `IntegerType`,
kept as it is for `IndexType` (`index = true`) -/
def mkConst (K : Kernels) (w : Nat) (index : Bool) (r : Int) : Option E :=
  if index then some (.const r) else (K.normalize w r).map .const

/-- `SignlessIntegerBinaryOperationConstantProp` -/
def constProp (K : Kernels) (w : Nat) (index : Bool) : E → Option E
  | .bin op (.const a) (.const b) =>
    match K.pyOp op with
    | some f => mkConst K w index (f a b)
    | none => none
  | .bin op (.const a) r => if commutative op then some (.bin op r (.const a)) else none
  | _ => none

/-- `SignlessIntegerBinaryOperationZeroOrUnitRight` -/
def zeroOrUnitRight (K : Kernels) (w : Nat) : E → Option E
  | .bin op a (.const c) =>
    if K.isRightZero op w c then some (.const c)
    else if K.isRightUnit op w c then some a
    else none
  | _ => none

def isConst : E → Option Int
  | .const c => some c
  | _ => none

/-- `SignlessIntegerBinaryOperation.fold` (used by `Folder.try_fold` in `canonicalize`) -/
def fold (K : Kernels) (w : Nat) (index : Bool) : E → Option E
  | .bin op a b =>
    let both : Option E :=
      match isConst a, isConst b with
      | some x, some y => (K.pyOp op).bind fun f => mkConst K w index (f x y)
      | _, _ => none
    match both with
    | some r => some r
    | none =>
      match isConst b with
      | some c => if K.isRightUnit op w c then some a else
          if !commutative op then none else
          match isConst a with
          | some c' => if K.isRightUnit op w c' then some b else none
          | none => none
      | none =>
        if !commutative op then none else
        match isConst a with
        | some c' => if K.isRightUnit op w c' then some b else none
        | none => none
  | _ => none

/-! ## cmpi / select -/

/-- `ApplyCmpiPredicateToEqualOperands`: `cmpi p x x` → constant `p ∈ {eq, sle, sge, ule, uge}` -/
def cmpiSame (p : Int) : Bool := p = 0 || p = 3 || p = 5 || p = 7 || p = 9

/-- reference semantics of `arith.select` (`Sem.pureOp`: the condition is the i1 pattern 1) -/
def selSem {α : Type} (c : BitVec 1) (a b : α) : α := if c == 1#1 then a else b

/-- `SelectConstPattern`: `const_value` truthy → lhs, else rhs -/
def selectConst {α : Type} (c : Int) (a b : α) : α := if c ≠ 0 then a else b

/-- `SelectTrueFalsePattern` on an `i1` select whose branches are the constants `l`, `r`:
`some (inl ())` = replace by the condition, `some (inr r)` = `arith.xori cond, <const r>` -/
def selectTrueFalse (l r : Int) : Option (Unit ⊕ Int) :=
  if l ≠ 0 ∧ r = 0 then some (.inl ())
  else if l = 0 ∧ r ≠ 0 then some (.inr r)
  else none

/-- `SelectFoldCmpfPattern`: `select (cmpf p a b fastmath<F>) x y` with `x = a`, `y = b`
(`sameOperands`) and both `nnan` and `nsz` in `F` becomes `maximumf a b` for
`p ∈ {ogt, oge, ugt, uge}` (2, 3, 9, 10) and `minimumf a b` for `{olt, ole, ult, ule}` (4, 5, 11, 12). -/
inductive MinMax where
  | maximumf | minimumf
deriving Repr, DecidableEq, Inhabited

def selectCmpf (p : Int) (nnan nsz sameOperands : Bool) : Option MinMax :=
  if !(nnan && nsz) then none
  else if !sameOperands then none
  else if p = 2 || p = 3 || p = 9 || p = 10 then some .maximumf
  else if p = 4 || p = 5 || p = 11 || p = 12 then some .minimumf
  else none

/-- what the rule needs to know about floats: the three IEEE relations, NaN / zero tests, and
`arith.maximumf` / `arith.minimumf` defined exactly as in the reference semantics (`Sem.f64Bin`) -/
structure FloatOrd (F : Type) where
  lt : F → F → Bool
  eq : F → F → Bool
  isNaN : F → Bool
  isZero : F → Bool
  neg : F → Bool          -- sign bit
  nan : F
  pzero : F
  nzero : F

def FloatOrd.maximumf {F : Type} (O : FloatOrd F) (a b : F) : F :=
  if O.isNaN a || O.isNaN b then O.nan
  else if O.isZero a && O.isZero b then (if !O.neg a || !O.neg b then O.pzero else O.nzero)
  else if O.lt b a then a else b

def FloatOrd.minimumf {F : Type} (O : FloatOrd F) (a b : F) : F :=
  if O.isNaN a || O.isNaN b then O.nan
  else if O.isZero a && O.isZero b then (if O.neg a || O.neg b then O.nzero else O.pzero)
  else if O.lt a b then a else b

def FloatOrd.minmax {F : Type} (O : FloatOrd F) : MinMax → F → F → F
  | .maximumf => O.maximumf
  | .minimumf => O.minimumf

/-- `arith.cmpf p a b` (reference semantics: `Sem.cmpfTable` on the three relations) -/
def FloatOrd.cmpf {F : Type} (O : FloatOrd F) (p : Int) (a b : F) : Option Bool :=
  Sem.cmpfTable p (O.lt a b) (O.eq a b) (O.lt b a)

/-! ## float constant folding (`_fold_const_operation`, as repaired) and reassociation -/

/-- the Python float primitives used by the fold, as parameters -/
structure PyFloat (F : Type) where
  add : F → F → F
  sub : F → F → F
  mul : F → F → F
  /-- Python `/`; raises `ZeroDivisionError` for a zero divisor (never called then) -/
  div : F → F → F
  eqZero : F → Bool            -- `x == 0.0`
  isNaN : F → Bool             -- `math.isnan`
  copysign : F → F → F         -- `math.copysign`
  nan : F
  inf : F
  one : F

inductive FOp where
  | addf | subf | mulf | divf
deriving Repr, DecidableEq, Inhabited

def foldFloat {F : Type} (P : PyFloat F) (op : FOp) (l r : F) : F :=
  match op with
  | .addf => P.add l r
  | .subf => P.sub l r
  | .mulf => P.mul l r
  | .divf =>
    if P.eqZero r then
      if P.eqZero l || P.isNaN l then P.nan
      else P.mul (P.copysign P.inf l) (P.copysign P.one r)
    else P.div l r

/-- float expressions: `bin op reassoc a b` carries whether `fastmath` contains `reassoc` -/
inductive FE (F : Type) where
  | var (i : Nat)
  | const (c : F)
  | bin (op : FOp) (reassoc : Bool) (a b : FE F)
deriving Inhabited

def FE.eval {F : Type} (sem : FOp → F → F → F) (env : Nat → F) : FE F → F
  | .var i => env i
  | .const c => c
  | .bin op _ a b => sem op (a.eval sem env) (b.eval sem env)

def FE.isConst {F : Type} : FE F → Option F
  | .const c => some c
  | _ => none

/-- `FoldConstConstOp` -/
def foldConstConst {F : Type} (P : PyFloat F) : FE F → Option (FE F)
  | .bin op _ (.const l) (.const r) => some (.const (foldFloat P op l r))
  | _ => none

/-- `FoldConstsByReassociation` seen from the outer operation `u` whose operand `inner` has `u` as
its only user: `(c1 op x) op c2` (any operand order) → `fold(c1, c2) op x`, for `addf`/`mulf` with
`reassoc` on both. -/
def reassociate {F : Type} (P : PyFloat F) : FE F → Option (FE F)
  | .bin op fu l r =>
    if op ≠ .addf ∧ op ≠ .mulf then none else
    -- which operand of `u` is the inner operation?  (`u.rhs == op.result` decides the constant)
    let pick (inner other : FE F) : Option (FE F) :=
      match inner, other.isConst with
      | .bin op' fo a b, some c2 =>
        if op' ≠ op ∨ !fo ∨ !fu then none else
        -- `const1, val = (lhs.owner, rhs) if lhs is a constant else (rhs.owner, lhs)`
        match a.isConst, b.isConst with
        | some c1, _ => some (.bin op true (.const (foldFloat P op c1 c2)) b)
        | none, some c1 => some (.bin op true (.const (foldFloat P op c1 c2)) a)
        | none, none => none
      | _, _ => none
    match pick r l with      -- u.rhs is the inner result: const2 = u.lhs
    | some e => some e
    | none => pick l r       -- otherwise const2 = u.rhs
  | _ => none

/-! ## line protocol (correspondence with the real patterns) -/

partial def parseE : List String → Option (E × List String)
  | "v" :: i :: rest => i.toNat?.map fun n => (.var n, rest)
  | "c" :: c :: rest => c.toInt?.map fun n => (.const n, rest)
  | "b" :: op :: rest => do
    let (a, r1) ← parseE rest
    let (b, r2) ← parseE r1
    some (.bin op a b, r2)
  | _ => none

def showE : E → String
  | .var i => s!"v {i}"
  | .const c => s!"c {c}"
  | .bin op a b => s!"b {op} {showE a} {showE b}"

def showOE : Option E → String
  | some e => showE e
  | none => "none"

def pyF64 : PyFloat Float where
  add := (· + ·)
  sub := (· - ·)
  mul := (· * ·)
  div := (· / ·)
  eqZero x := x == 0.0
  isNaN x := x.isNaN
  copysign x y := if (y.toBits >>> 63 == 1) != (x.toBits >>> 63 == 1) then -x else x
  nan := 0.0 / 0.0
  inf := 1.0 / 0.0
  one := 1.0

def pyF32 : PyFloat Float32 where
  add := (· + ·)
  sub := (· - ·)
  mul := (· * ·)
  div := (· / ·)
  eqZero x := x == 0.0
  isNaN x := x.isNaN
  copysign x y := if (y.toBits >>> 31 == 1) != (x.toBits >>> 31 == 1) then -x else x
  nan := 0.0 / 0.0
  inf := 1.0 / 0.0
  one := 1.0

def parseFOp : String → Option FOp
  | "addf" => some .addf | "subf" => some .subf | "mulf" => some .mulf | "divf" => some .divf
  | _ => none

def showF64 (x : Float) : String := if x.isNaN then "nan" else toString x.toBits.toNat
def showF32 (x : Float32) : String := if x.isNaN then "nan" else toString x.toBits.toNat

/--
* `constprop <w> <index 0|1> <expr>` / `unitzero <w> <expr>` / `fold <w> <index> <expr>` → expr | none
* `cmpisame <p>` → bool
* `selcmpf <p> <nnan> <nsz> <same-operands>` → `maximumf` | `minimumf` | `none`
* `selconst <c>` → `lhs` | `rhs`;  `seltf <l> <r>` → `cond` | `xor <r>` | `none`
* `ffold64 <op> <lbits> <rbits>` / `ffold32 …` → bits | nan   (model of the Python fold on native floats)
* `fref64 <op> <lbits> <rbits>` / `fref32 …` → bits | nan     (reference semantics `Sem.f64Bin`)
-/
def lineStep (s : Unit) (line : String) : Unit × String :=
  let K := Kernels.ref
  match words line with
  | "constprop" :: w :: idx :: rest =>
    match w.toNat?, parseE rest with
    | some w, some (e, []) => (s, showOE (constProp K w (idx = "1") e))
    | _, _ => (s, "bad-op")
  | "unitzero" :: w :: rest =>
    match w.toNat?, parseE rest with
    | some w, some (e, []) => (s, showOE (zeroOrUnitRight K w e))
    | _, _ => (s, "bad-op")
  | "fold" :: w :: idx :: rest =>
    match w.toNat?, parseE rest with
    | some w, some (e, []) => (s, showOE (fold K w (idx = "1") e))
    | _, _ => (s, "bad-op")
  | ["cmpisame", p] =>
    match p.toInt? with
    | some p => (s, showBool (cmpiSame p))
    | none => (s, "bad-op")
  | ["selcmpf", p, nnan, nsz, same] =>
    match p.toInt? with
    | some p =>
      (s, match selectCmpf p (nnan = "1") (nsz = "1") (same = "1") with
          | some .maximumf => "maximumf"
          | some .minimumf => "minimumf"
          | none => "none")
    | none => (s, "bad-op")
  | ["selconst", c] =>
    match c.toInt? with
    | some c => (s, selectConst c "lhs" "rhs")
    | none => (s, "bad-op")
  | ["seltf", l, r] =>
    match l.toInt?, r.toInt? with
    | some l, some r =>
      (s, match selectTrueFalse l r with
          | some (.inl _) => "cond"
          | some (.inr r) => s!"xor {r}"
          | none => "none")
    | _, _ => (s, "bad-op")
  | ["ffold64", op, l, r] =>
    match parseFOp op, l.toNat?, r.toNat? with
    | some op, some l, some r => (s, showF64 (foldFloat pyF64 op (Float.ofBits l.toUInt64) (Float.ofBits r.toUInt64)))
    | _, _, _ => (s, "bad-op")
  | ["ffold32", op, l, r] =>
    match parseFOp op, l.toNat?, r.toNat? with
    | some op, some l, some r => (s, showF32 (foldFloat pyF32 op (Float32.ofBits l.toUInt32) (Float32.ofBits r.toUInt32)))
    | _, _, _ => (s, "bad-op")
  | ["fref64", op, l, r] =>
    match l.toNat?, r.toNat? with
    | some l, some r =>
      (s, match Sem.f64Bin ("arith." ++ op) (Float.ofBits l.toUInt64) (Float.ofBits r.toUInt64) with
          | some x => showF64 x
          | none => "bad-op")
    | _, _ => (s, "bad-op")
  | ["fref32", op, l, r] =>
    match l.toNat?, r.toNat? with
    | some l, some r =>
      (s, match Sem.f32Bin ("arith." ++ op) (Float32.ofBits l.toUInt32) (Float32.ofBits r.toUInt32) with
          | some x => showF32 x
          | none => "bad-op")
    | _, _ => (s, "bad-op")
  | _ => (s, "bad-op")

end Xdsl.ArithRules
