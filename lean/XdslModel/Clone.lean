import XdslModel.Prelude
/-!
Model of the clone algorithm of `xdsl/ir/core.py` (C02):
`Operation.clone_without_regions`, `Operation.clone`, `Region.clone_into`, `Region.clone`.

IR is a tree whose nodes carry identities (`Nat`): operation ids, block ids, value ids (results and
block arguments) and the identities of the `attributes` / `properties` dict objects (`aref`, `pref`).
Identities stand for Python object identity; everything the algorithm creates takes its identity
from the counter `St.next` (a fresh object).  `value_mapper` / `block_mapper` are association lists
threaded through the recursion exactly as the two Python dicts are.

Mutation through a reference (`new.operands = …` in phase 2, and the follow-up edits) is modelled as
an update *by identity* applied to every tree of the universe, so that "the source is not modified"
and "IR already in the destination is not modified" are real statements (they need freshness of the
created identities) and not true by construction.

The tree is an indexed family so that an op chain, a block chain and a region chain cannot be
confused: `T .ops` is the op list of a block (or a single detached op), `T .blocks` the block list of
a region, `T .regions` the region list of an op.
-/
namespace Xdsl.Clone

inductive Kind | ops | blocks | regions
  deriving DecidableEq, Repr

/-- Operation without its regions.  `results`/`args` are `(value id, type code)`. -/
structure OpHdr where
  id : Nat
  name : Nat
  aref : Nat
  attrs : List (Nat × Nat)
  pref : Nat
  props : List (Nat × Nat)
  results : List (Nat × Nat)
  operands : List Nat
  succs : List Nat
  deriving DecidableEq, Repr

structure BlockHdr where
  id : Nat
  args : List (Nat × Nat)
  deriving DecidableEq, Repr

inductive T : Kind → Type
  | nil {k : Kind} : T k
  | op (h : OpHdr) (rs : T .regions) (nx : T .ops) : T .ops
  | block (h : BlockHdr) (ops : T .ops) (nx : T .blocks) : T .blocks
  | region (bs : T .blocks) (nx : T .regions) : T .regions
  deriving DecidableEq, Repr

/-- `value_mapper`, `block_mapper`, and the allocator of fresh identities. -/
structure St where
  vm : AL Nat Nat := []
  bm : AL Nat Nat := []
  next : Nat := 0
  deriving DecidableEq, Repr

/-- `mapper.get(x, x)` -/
def mapVal (m : AL Nat Nat) (v : Nat) : Nat := (AL.get m v).getD v

/-- Create fresh values of the same types and record `value_mapper[old] = new` one by one
(results of a cloned op; arguments of a cloned block). -/
def cloneVals (vm : AL Nat Nat) (n : Nat) : List (Nat × Nat) → List (Nat × Nat) × AL Nat Nat × Nat
  | [] => ([], vm, n)
  | (v, ty) :: r =>
    let c := cloneVals (AL.set vm v n) (n + 1) r
    ((n, ty) :: c.1, c.2.1, c.2.2)

/-- `cloned_op.results[operand.index]` for an operand that is a result of the cloned op itself
(`isinstance(operand, OpResult) and operand.op is self`). -/
def ownResult : List (Nat × Nat) → List (Nat × Nat) → Nat → Option Nat
  | (r, _) :: rs, (r', _) :: rs', v => if r = v then some r' else ownResult rs rs' v
  | _, _, _ => none

/-- `Operation.clone_without_regions` minus the regions: operands through the *current*
`value_mapper` (or none) except that a use of the op's own result becomes a use of the clone's
result, successors through the *current* `block_mapper`, `attributes.copy()` and
`properties.copy()` are new dict objects with the same entries, fresh results registered in
`value_mapper`. -/
def cloneHdr (st : St) (h : OpHdr) (cloneOperands : Bool) : OpHdr × St :=
  let c := cloneVals st.vm (st.next + 3) h.results
  ({ id := st.next, name := h.name, aref := st.next + 1, attrs := h.attrs, pref := st.next + 2,
     props := h.props, results := c.1,
     operands := if cloneOperands then
         h.operands.map fun v => (ownResult h.results c.1 v).getD (mapVal st.vm v)
       else [],
     succs := h.succs.map (mapVal st.bm) },
   { st with vm := c.2.1, next := c.2.2 })

/-- first loop of `Region.clone_into`: one new `Block()` per source block, `block_mapper[b] = new`.
The new blocks get consecutive identities starting at `n`.  (Only block chains have blocks.) -/
def regBlocks : {k : Kind} → AL Nat Nat → Nat → T k → AL Nat Nat × Nat
  | _, bm, n, .block h _ nx => regBlocks (AL.set bm h.id n) (n + 1) nx
  | _, bm, n, _ => (bm, n)

/-- number of cells of a chain -/
def chainLen : {k : Kind} → T k → Nat
  | _, .nil => 0
  | _, .op _ _ nx => 1 + chainLen nx
  | _, .block _ _ nx => 1 + chainLen nx
  | _, .region _ nx => 1 + chainLen nx

/-- Phase 1 (everything except operands).
* op cell: `Operation.clone(..., clone_operands=False)` = `clone_without_regions` then every region
  `clone_into` the new op's empty region, then the next op of the block;
* region cell: `Region.clone_into(fresh region, 0, vm, bm, clone_operands=False)`: create and register
  all blocks first, then populate them (`nb` = identity of the new block paired with the next source
  block, i.e. `zip(self.blocks, new_blocks)`);
* block cell: arguments (`insert_arg`, `value_mapper[arg] = new_arg`), then the ops. -/
def c1 : {k : Kind} → Nat → St → T k → T k × St
  | _, _, st, .nil => (.nil, st)
  | _, _, st, .op h rs nx =>
    let a := cloneHdr st h false
    let b := c1 0 a.2 rs
    let c := c1 0 b.2 nx
    (.op a.1 b.1 c.1, c.2)
  | _, _, st, .region bs nx =>
    let r := regBlocks st.bm st.next bs
    let b := c1 st.next { st with bm := r.1, next := r.2 } bs
    let c := c1 0 b.2 nx
    (.region b.1 c.1, c.2)
  | _, nb, st, .block h ops nx =>
    let a := cloneVals st.vm st.next h.args
    let b := c1 0 { st with vm := a.2.1, next := a.2.2 } ops
    let c := c1 (nb + 1) b.2 nx
    (.block { id := nb, args := a.1 } b.1 c.1, c.2)

/-- `walk()`: operations in pre-order (op, then its regions, then the following ops). -/
def walkIds : {k : Kind} → T k → List Nat
  | _, .nil => []
  | _, .op h rs nx => h.id :: (walkIds rs ++ walkIds nx)
  | _, .block _ ops nx => walkIds ops ++ walkIds nx
  | _, .region bs nx => walkIds bs ++ walkIds nx

/-- operand tuples of the operations in `walk()` order -/
def walkOperands : {k : Kind} → T k → List (List Nat)
  | _, .nil => []
  | _, .op h rs nx => h.operands :: (walkOperands rs ++ walkOperands nx)
  | _, .block _ ops nx => walkOperands ops ++ walkOperands nx
  | _, .region bs nx => walkOperands bs ++ walkOperands nx

/-- `for old, new in zip(olds, news): new.operands = tuple(vm.get(o, o) for o in old.operands)` as
the finite map "identity of `new` ↦ its new operand tuple" (a later pair overrides an earlier one,
like the sequential assignments do). -/
def mkAssign (vm : AL Nat Nat) : List (List Nat) → List Nat → AL Nat (List Nat) → AL Nat (List Nat)
  | o :: os, n :: ns, m => mkAssign vm os ns (AL.set m n (o.map (mapVal vm)))
  | _, _, m => m

/-- apply the assignments to a tree of the universe: every op whose identity is a key gets the
operand tuple stored for it -/
def applyOps (m : AL Nat (List Nat)) : {k : Kind} → T k → T k
  | _, .nil => .nil
  | _, .op h rs nx =>
    .op (match AL.get m h.id with | some o => { h with operands := o } | none => h)
      (applyOps m rs) (applyOps m nx)
  | _, .block h ops nx => .block h (applyOps m ops) (applyOps m nx)
  | _, .region bs nx => .region (applyOps m bs) (applyOps m nx)

/-- chain append -/
def append : {k : Kind} → T k → T k → T k
  | _, .nil, t => t
  | _, .op h rs nx, t => .op h rs (append nx t)
  | _, .block h ops nx, t => .block h ops (append nx t)
  | _, .region bs nx, t => .region bs (append nx t)

/-- `Region.insert_block(blocks, index)`: before the block at `index`, or appended when `index` is
the length; any other index inserts nothing (that is what the Python does). -/
def insertAt : {k : Kind} → Nat → T k → T k → T k
  | _, 0, nb, dst => append nb dst
  | _, _ + 1, _, .nil => .nil
  | _, i + 1, nb, .op h rs nx => .op h rs (insertAt i nb nx)
  | _, i + 1, nb, .block h ops nx => .block h ops (insertAt i nb nx)
  | _, i + 1, nb, .region bs nx => .region bs (insertAt i nb nx)

/-- result of a clone call: the universe after it -/
structure Res (k : Kind) where
  /-- the source tree after the call -/
  src : T k
  /-- the clone (`clone`, `clone_without_regions`) / the destination region (`clone_into`) -/
  out : T k
  /-- the blocks created by `clone_into`, after phase 2 (`.nil` for the op entry points) -/
  new : T .blocks
  st : St

/-- regions replaced by the same number of empty regions: `[Region() for _ in self.regions]` -/
def emptyRegions : T .regions → T .regions
  | .nil => .nil
  | .region _ nx => .region .nil (emptyRegions nx)

/-- `Operation.clone_without_regions(value_mapper, block_mapper, clone_operands=co)` of the first op
of the chain. -/
def cloneOpNoRegions (st : St) (o : T .ops) (co : Bool) : Res .ops :=
  match o with
  | .nil => { src := o, out := .nil, new := .nil, st := st }
  | .op h rs _ =>
    let a := cloneHdr st h co
    { src := o, out := .op a.1 (emptyRegions rs) .nil, new := .nil, st := a.2 }

/-- first cell of an op chain -/
def headOp : T .ops → T .ops
  | .nil => .nil
  | .op h rs _ => .op h rs .nil

/-- `Operation.clone(value_mapper, block_mapper, clone_operands=co)` of the first op of the chain:
phase 1, then `for old, new in zip(self.walk(), op.walk()): new.operands = …`. -/
def cloneOp (st : St) (o : T .ops) (co : Bool) : Res .ops :=
  let c := c1 0 st (headOp o)
  let m := if co then mkAssign c.2.vm (walkOperands (headOp o)) (walkIds c.1) [] else []
  { src := applyOps m o, out := applyOps m c.1, new := .nil, st := c.2 }

/-- blocks of the first region of a chain -/
def firstRegion : T .regions → T .blocks
  | .nil => .nil
  | .region bs _ => bs

/-- `Region.clone_into(dest, insert_index, value_mapper, block_mapper, clone_operands=co)` with the
repair "walk only the newly created blocks" (`fixed = true`).  With `fixed = false` phase 2 zips the
source walk with the walk of the *whole* destination, as the pinned code did; kept for the
counterexample theorem and for replaying the defect. -/
def cloneIntoG (fixed : Bool) (st : St) (src dst : T .blocks) (idx : Option Nat) (co : Bool) :
    Res .blocks :=
  let i := idx.getD (chainLen dst)
  let c := c1 0 st (.region src .nil)
  let nb := firstRegion c.1
  let dst1 := insertAt i nb dst
  let m := if co then
      mkAssign c.2.vm (walkOperands src) (if fixed then walkIds nb else walkIds dst1) []
    else []
  { src := applyOps m src, out := applyOps m dst1, new := applyOps m nb, st := c.2 }

def cloneInto := cloneIntoG true
def cloneIntoPinned := cloneIntoG false

/-- `Region.clone()`: `clone_into` a new empty region -/
def cloneRegion (st : St) (src : T .blocks) : Res .blocks := cloneInto st src .nil none true

/-! ## follow-up edits (by identity, applied to every tree of the universe) -/

def setNth : List Nat → Nat → Nat → List Nat
  | [], _, _ => []
  | _ :: r, 0, v => v :: r
  | a :: r, i + 1, v => a :: setNth r i v

/-- `op.operands[i] = v` for the op with identity `id` -/
def setOperand (id i v : Nat) : {k : Kind} → T k → T k
  | _, .nil => .nil
  | _, .op h rs nx =>
    .op (if h.id = id then { h with operands := setNth h.operands i v } else h)
      (setOperand id i v rs) (setOperand id i v nx)
  | _, .block h ops nx => .block h (setOperand id i v ops) (setOperand id i v nx)
  | _, .region bs nx => .region (setOperand id i v bs) (setOperand id i v nx)

/-- detach and erase the op with identity `id` (with everything nested in it) -/
def eraseOp (id : Nat) : {k : Kind} → T k → T k
  | _, .nil => .nil
  | _, .op h rs nx => if h.id = id then eraseOp id nx else .op h (eraseOp id rs) (eraseOp id nx)
  | _, .block h ops nx => .block h (eraseOp id ops) (eraseOp id nx)
  | _, .region bs nx => .region (eraseOp id bs) (eraseOp id nx)

/-- `block.insert_arg(ty, len(block.args))` for the block with identity `id`; `v` is the new value -/
def addBlockArg (id v ty : Nat) : {k : Kind} → T k → T k
  | _, .nil => .nil
  | _, .op h rs nx => .op h (addBlockArg id v ty rs) (addBlockArg id v ty nx)
  | _, .block h ops nx =>
    .block (if h.id = id then { h with args := h.args ++ [(v, ty)] } else h)
      (addBlockArg id v ty ops) (addBlockArg id v ty nx)
  | _, .region bs nx => .region (addBlockArg id v ty bs) (addBlockArg id v ty nx)

/-- `d[key] = val` on the dict object with identity `ref` (an `attributes` or a `properties` dict):
every op holding that very dict sees the change -/
def setDict (ref key val : Nat) : {k : Kind} → T k → T k
  | _, .nil => .nil
  | _, .op h rs nx =>
    let h1 := if h.aref = ref then { h with attrs := AL.set h.attrs key val } else h
    let h2 := if h1.pref = ref then { h1 with props := AL.set h1.props key val } else h1
    .op h2 (setDict ref key val rs) (setDict ref key val nx)
  | _, .block h ops nx => .block h (setDict ref key val ops) (setDict ref key val nx)
  | _, .region bs nx => .region (setDict ref key val bs) (setDict ref key val nx)

inductive Edit
  | setOperand (id i v : Nat)
  | eraseOp (id : Nat)
  | addBlockArg (id v ty : Nat)
  | setDict (ref key val : Nat)
  deriving DecidableEq, Repr

def Edit.apply (e : Edit) {k : Kind} (t : T k) : T k :=
  match e with
  | .setOperand id i v => Clone.setOperand id i v t
  | .eraseOp id => Clone.eraseOp id t
  | .addBlockArg id v ty => Clone.addBlockArg id v ty t
  | .setDict r key val => Clone.setDict r key val t

/-! ## observation: canonical text of a tree

Values and blocks defined in the printed trees are numbered in definition pre-order, everything else
is printed with its raw identity (`x<id>` value, `y<id>` block). Dict entries sorted by key. -/

def defVals : {k : Kind} → T k → List Nat
  | _, .nil => []
  | _, .op h rs nx => h.results.map Prod.fst ++ (defVals rs ++ defVals nx)
  | _, .block h ops nx => h.args.map Prod.fst ++ (defVals ops ++ defVals nx)
  | _, .region bs nx => defVals bs ++ defVals nx

def defBlocks : {k : Kind} → T k → List Nat
  | _, .nil => []
  | _, .op _ rs nx => defBlocks rs ++ defBlocks nx
  | _, .block h ops nx => h.id :: (defBlocks ops ++ defBlocks nx)
  | _, .region bs nx => defBlocks bs ++ defBlocks nx

/-- ops with their dict identities, in walk order -/
def walkHdrs : {k : Kind} → T k → List OpHdr
  | _, .nil => []
  | _, .op h rs nx => h :: (walkHdrs rs ++ walkHdrs nx)
  | _, .block _ ops nx => walkHdrs ops ++ walkHdrs nx
  | _, .region bs nx => walkHdrs bs ++ walkHdrs nx

def findIdx (l : List Nat) (x : Nat) : Option Nat :=
  match l with
  | [] => none
  | a :: r => if a = x then some 0 else (findIdx r x).map (· + 1)

/-- `base` = first identity that did not exist when the case was loaded: an object created later
that is not defined in the printed trees has no stable name and prints as `?` -/
def showRef (base : Nat) (pre ext : String) (defs : List Nat) (x : Nat) : String :=
  match findIdx defs x with
  | some i => pre ++ toString i
  | none => if x < base then ext ++ toString x else ext ++ "?"

def insertKV (p : Nat × Nat) : List (Nat × Nat) → List (Nat × Nat)
  | [] => [p]
  | q :: r => if p.1 ≤ q.1 then p :: q :: r else q :: insertKV p r

def sortKV (l : List (Nat × Nat)) : List (Nat × Nat) := l.foldr insertKV []

def showDict (l : List (Nat × Nat)) : String :=
  ",".intercalate ((sortKV l).map fun p => toString p.1 ++ "=" ++ toString p.2)

def showTyped (base : Nat) (dv : List Nat) (l : List (Nat × Nat)) : String :=
  " ".intercalate (l.map fun p => showRef base "v" "x" dv p.1 ++ ":" ++ toString p.2)

def showT (base : Nat) (dv db : List Nat) : {k : Kind} → T k → String
  | _, .nil => ""
  | _, .op h rs nx =>
    "(o" ++ toString h.name ++ " a{" ++ showDict h.attrs ++ "} p{" ++ showDict h.props ++ "} r["
      ++ showTyped base dv h.results ++ "] u[" ++ " ".intercalate (h.operands.map (showRef base "v" "x" dv))
      ++ "] s[" ++ " ".intercalate (h.succs.map (showRef base "b" "y" db)) ++ "]" ++ showT base dv db rs ++ ")"
      ++ showT base dv db nx
  | _, .block h ops nx =>
    "(" ++ showRef base "b" "y" db h.id ++ " [" ++ showTyped base dv h.args ++ "]" ++ showT base dv db ops ++ ")"
      ++ showT base dv db nx
  | _, .region bs nx => "(r" ++ showT base dv db bs ++ ")" ++ showT base dv db nx

/-- canonical text of an (op chain, block chain) pair, numbered jointly -/
def canon (base : Nat) (o : T .ops) (b : T .blocks) : String :=
  let dv := defVals o ++ defVals b
  let db := defBlocks o ++ defBlocks b
  showT base dv db o ++ "#" ++ showT base dv db b

/-- the mapper after the call, keys raw, values as they print relative to `(o, b)`; sorted by key -/
def showMap (base : Nat) (pre ext : String) (defs : List Nat) (m : AL Nat Nat) (keys : List Nat) : String :=
  ",".intercalate (keys.map fun k =>
    toString k ++ ">" ++ (match AL.get m k with | some v => showRef base pre ext defs v | none => "-"))

/-! ## line protocol -/

structure World where
  srcO : T .ops := .nil
  srcB : T .blocks := .nil
  outO : T .ops := .nil
  outB : T .blocks := .nil
  st : St := {}
  /-- keys whose mapper entries are reported -/
  vkeys : List Nat := []
  bkeys : List Nat := []
  /-- the caller passed its own mapper dicts, so their final content is observable -/
  showMaps : Bool := false
  /-- first identity not in use when the clone call was issued -/
  base : Nat := 0

def takeN : Nat → List Nat → Option (List Nat × List Nat)
  | 0, ts => some ([], ts)
  | _ + 1, [] => none
  | n + 1, t :: ts => (takeN n ts).map fun (a, r) => (t :: a, r)

def takePairs : Nat → List Nat → Option (List (Nat × Nat) × List Nat)
  | 0, ts => some ([], ts)
  | n + 1, a :: b :: ts => (takePairs n ts).map fun (l, r) => ((a, b) :: l, r)
  | _ + 1, _ => none

/-- counted lists: `n x₁ … xₙ` -/
def takeList (ts : List Nat) : Option (List Nat × List Nat) :=
  match ts with
  | [] => none
  | n :: ts => takeN n ts

def takePairList (ts : List Nat) : Option (List (Nat × Nat) × List Nat) :=
  match ts with
  | [] => none
  | n :: ts => takePairs n ts

/-- `parse fuel kind count tokens`: `count` cells of a chain.
op: `id name aref <attrs> pref <props> <results> <operands> <succs> nregions region*`;
region: `nblocks block*`; block: `id <args> nops op*`; `<…>` are counted lists. -/
def parse : Nat → (k : Kind) → Nat → List Nat → Option (T k × List Nat)
  | 0, _, _, _ => none
  | _ + 1, _, 0, ts => some (.nil, ts)
  | f + 1, .ops, c + 1, ts =>
    match ts with
    | id :: name :: aref :: ts =>
      (takePairList ts).bind fun (attrs, ts) =>
      match ts with
      | pref :: ts =>
        (takePairList ts).bind fun (props, ts) =>
        (takePairList ts).bind fun (results, ts) =>
        (takeList ts).bind fun (operands, ts) =>
        (takeList ts).bind fun (succs, ts) =>
        match ts with
        | nr :: ts =>
          (parse f .regions nr ts).bind fun (rs, ts) =>
          (parse f .ops c ts).bind fun (nx, ts) =>
          some (.op { id, name, aref, attrs, pref, props, results, operands, succs } rs nx, ts)
        | [] => none
      | [] => none
    | _ => none
  | f + 1, .regions, c + 1, ts =>
    match ts with
    | nb :: ts =>
      (parse f .blocks nb ts).bind fun (bs, ts) =>
      (parse f .regions c ts).bind fun (nx, ts) => some (.region bs nx, ts)
    | [] => none
  | f + 1, .blocks, c + 1, ts =>
    match ts with
    | id :: ts =>
      (takePairList ts).bind fun (args, ts) =>
      match ts with
      | no :: ts =>
        (parse f .ops no ts).bind fun (ops, ts) =>
        (parse f .blocks c ts).bind fun (nx, ts) => some (.block { id, args } ops nx, ts)
      | [] => none
    | [] => none

def natsOf (ws : List String) : Option (List Nat) := ws.mapM String.toNat?

def World.show (w : World) : String :=
  let dvO := defVals w.outO ++ defVals w.outB
  let dbO := defBlocks w.outO ++ defBlocks w.outB
  "S " ++ canon w.base w.srcO w.srcB ++ " | O " ++ canon w.base w.outO w.outB
    ++ (if w.showMaps then
          " | vm " ++ showMap w.base "v" "x" dvO w.st.vm w.vkeys ++ " | bm " ++ showMap w.base "b" "y" dbO w.st.bm w.bkeys
        else "")

/-- identities addressed positionally: side 0 = source trees, 1 = out trees -/
def World.opIds (w : World) (side : Nat) : List Nat :=
  if side = 0 then walkIds w.srcO ++ walkIds w.srcB else walkIds w.outO ++ walkIds w.outB
def World.hdrs (w : World) (side : Nat) : List OpHdr :=
  if side = 0 then walkHdrs w.srcO ++ walkHdrs w.srcB else walkHdrs w.outO ++ walkHdrs w.outB
def World.vals (w : World) (side : Nat) : List Nat :=
  if side = 0 then defVals w.srcO ++ defVals w.srcB else defVals w.outO ++ defVals w.outB
def World.blocks (w : World) (side : Nat) : List Nat :=
  if side = 0 then defBlocks w.srcO ++ defBlocks w.srcB else defBlocks w.outO ++ defBlocks w.outB

def World.edit (w : World) (e : Edit) : World :=
  { w with srcO := e.apply w.srcO, srcB := e.apply w.srcB, outO := e.apply w.outO, outB := e.apply w.outB }

/-- keys of interest for the mapper report: everything defined in the source plus caller keys -/
def dedup : List Nat → List Nat
  | [] => []
  | a :: r => if a ∈ r then dedup r else a :: dedup r

def sortNat (l : List Nat) : List Nat := (sortKV (l.map fun x => (x, 0))).map Prod.fst

def setKeys (w : World) (sm : Bool) (base : Nat) (vm bm : AL Nat Nat) : World :=
  { w with
    showMaps := sm
    base := base
    vkeys := sortNat (dedup (vm.map Prod.fst ++ defVals w.srcO ++ defVals w.srcB))
    bkeys := sortNat (dedup (bm.map Prod.fst ++ defBlocks w.srcO ++ defBlocks w.srcB)) }

def parseMaps (ts : List Nat) : Option (Nat × AL Nat Nat × AL Nat Nat) :=
  match ts with
  | next :: ts =>
    (takePairList ts).bind fun (vm, ts) =>
    (takePairList ts).bind fun (bm, ts) =>
    match ts with
    | [] => some (next, vm, bm)
    | _ => none
  | [] => none

/-- Python dict built by inserting the pairs in order -/
def alOf (l : List (Nat × Nat)) : AL Nat Nat := l.foldl (fun m p => AL.set m p.1 p.2) []

/--
* `reset`
* `srcop <tokens of one op>` / `srcreg <nblocks> <blocks…>` / `dst <nblocks> <blocks…>`
* `clone <co> <sm> <next> <vm pairs> <bm pairs>` / `clonenr <co> <sm> …` (clone_without_regions);
  `sm` = report the final mappers
* `into <fixed> <idx+1 | 0 for None> <co> <sm> <next> <vm> <bm>`
* `edit setop <side> <opIdx> <i> <vside> <n>` (vside 2 = raw identity)
* `edit erase <side> <opIdx>` / `edit addarg <side> <blockIdx> <ty>`
* `edit attr <side> <opIdx> <key> <val>` / `edit prop …`
Every state-changing line answers with the canonical text of the universe. -/
def lineStep (w : World) (line : String) : World × String :=
  match words line with
  | ["reset"] => ({}, "ok")
  | "srcop" :: ws =>
    (match (natsOf ws).bind fun ts => parse (ts.length + 2) .ops 1 ts with
     | some (t, []) => ({ w with srcO := t }, "ok")
     | _ => (w, "bad-op"))
  | "srcreg" :: ws =>
    (match (natsOf ws).bind fun ts => (match ts with
        | n :: ts => parse (ts.length + 2) .blocks n ts | [] => none) with
     | some (t, []) => ({ w with srcB := t }, "ok")
     | _ => (w, "bad-op"))
  | "dst" :: ws =>
    (match (natsOf ws).bind fun ts => (match ts with
        | n :: ts => parse (ts.length + 2) .blocks n ts | [] => none) with
     | some (t, []) => ({ w with outB := t }, "ok")
     | _ => (w, "bad-op"))
  | "clone" :: co :: sm :: ws =>
    (match (natsOf ws).bind parseMaps with
     | some (next, vm, bm) =>
       let r := cloneOp { vm := alOf vm, bm := alOf bm, next := next } w.srcO (co = "1")
       let w' := setKeys { w with srcO := r.src, outO := r.out, st := r.st } (sm = "1") next vm bm
       (w', w'.show)
     | none => (w, "bad-op"))
  | "clonenr" :: co :: sm :: ws =>
    (match (natsOf ws).bind parseMaps with
     | some (next, vm, bm) =>
       let r := cloneOpNoRegions { vm := alOf vm, bm := alOf bm, next := next } w.srcO (co = "1")
       let w' := setKeys { w with srcO := r.src, outO := r.out, st := r.st } (sm = "1") next vm bm
       (w', w'.show)
     | none => (w, "bad-op"))
  | "into" :: fixed :: idx :: co :: sm :: ws =>
    (match idx.toNat?, (natsOf ws).bind parseMaps with
     | some idx, some (next, vm, bm) =>
       let r := cloneIntoG (fixed = "1") { vm := alOf vm, bm := alOf bm, next := next } w.srcB w.outB
         (if idx = 0 then none else some (idx - 1)) (co = "1")
       let w' := setKeys { w with srcB := r.src, outB := r.out, st := r.st } (sm = "1") next vm bm
       (w', w'.show)
     | _, _ => (w, "bad-op"))
  | "edit" :: kind :: ws =>
    (match kind, natsOf ws with
     | "setop", some [side, opIdx, i, vside, n] =>
       (match (w.opIds side)[opIdx]?, (if vside = 2 then some n else (w.vals vside)[n]?) with
        | some id, some v => let w' := w.edit (.setOperand id i v); (w', w'.show)
        | _, _ => (w, "bad-op"))
     | "erase", some [side, opIdx] =>
       (match (w.opIds side)[opIdx]? with
        | some id => let w' := w.edit (.eraseOp id); (w', w'.show)
        | none => (w, "bad-op"))
     | "addarg", some [side, bIdx, ty] =>
       (match (w.blocks side)[bIdx]? with
        | some id =>
          let w' := { w.edit (.addBlockArg id w.st.next ty) with st := { w.st with next := w.st.next + 1 } }
          (w', w'.show)
        | none => (w, "bad-op"))
     | "attr", some [side, opIdx, key, val] =>
       (match (w.hdrs side)[opIdx]? with
        | some h => let w' := w.edit (.setDict h.aref key val); (w', w'.show)
        | none => (w, "bad-op"))
     | "prop", some [side, opIdx, key, val] =>
       (match (w.hdrs side)[opIdx]? with
        | some h => let w' := w.edit (.setDict h.pref key val); (w', w'.show)
        | none => (w, "bad-op"))
     | _, _ => (w, "bad-op"))
  | _ => (w, "bad-op")

end Xdsl.Clone
