import XdslModel.Prelude
/-!
C16 — `xdsl/transforms/lower_affine.py` at the level of the emitted operations.

`Loops.AExpr` only carries the *value* of an affine expression after lowering (one kind of variable).
This model mirrors what the pass does with the SSA operands of an `affine.apply` / `affine.load` /
`affine.store`:

* `affine_expr_ops(expr, dims, symbols)`  = `exprOps`: the list of emitted `arith` operations
  (`arith.constant`, `addi`, `muli`, `remsi`, `floordivsi`, `ceildivsi`) and the SSA value of the
  result; `dims[pos]` / `symbols[pos]` are Python list indexings (`none` = `IndexError`).
* `LowerAffineApply.match_and_rewrite`    = `applyLower`: `dims = operands[:num_dims]`,
  `symbols = operands[num_dims:]`, one result expression.
* `insert_affine_map_ops(map, dims, _)`   = `mapOps`: one `affine_expr_ops` per result, **no
  symbols** (the third parameter of the Python function is ignored; `[]` is passed on).

An emitted value is either operand `i` of the rewritten operation (`Val.arg i`) or the result of the
`j`-th emitted operation (`Val.tmp j`).  `runInstrs` executes a list of emitted operations on
unbounded integers (index wrap-around is not modelled, as in `Loops.AExpr.evalLowered`).
No Mathlib, no proofs here.
-/
namespace Xdsl.LowerAffine

inductive Kind where
  | add | mul | mod | floordiv | ceildiv
deriving DecidableEq, Repr

inductive Expr where
  | const (v : Int)
  | dim (p : Nat)
  | sym (p : Nat)
  | bin (k : Kind) (l r : Expr)
deriving Repr

/-- the operation of the affine dialect (`mod` = non-negative remainder, `floordiv`/`ceildiv`
rounding towards -∞ / +∞; meaningful for a positive right operand only) -/
def Kind.aff : Kind → Int → Int → Int
  | .add, a, b => a + b
  | .mul, a, b => a * b
  | .mod, a, b => Int.fmod a b
  | .floordiv, a, b => Int.fdiv a b
  | .ceildiv, a, b => -(Int.fdiv (-a) b)

/-- the emitted `arith` operation: addi, muli, **remsi** (truncating), floordivsi, ceildivsi -/
def Kind.arith : Kind → Int → Int → Int
  | .mod, a, b => Int.tmod a b
  | k, a, b => k.aff a b

def Kind.opName : Kind → String
  | .add => "addi" | .mul => "muli" | .mod => "remsi" | .floordiv => "floordivsi" | .ceildiv => "ceildivsi"

/-- value of the expression in the affine dialect; `d p` / `s q` = value of dimension `p` / symbol `q` -/
def Expr.eval (d s : Nat → Int) : Expr → Int
  | .const v => v
  | .dim p => d p
  | .sym q => s q
  | .bin k l r => k.aff (l.eval d s) (r.eval d s)

/-- the same tree read with the emitted `arith` operations -/
def Expr.evalLowered (d s : Nat → Int) : Expr → Int
  | .const v => v
  | .dim p => d p
  | .sym q => s q
  | .bin k l r => k.arith (l.evalLowered d s) (r.evalLowered d s)

/-- every `mod` has a non-negative left value at this point (where `remsi` is the affine `mod`) and
every `mod`/`floordiv`/`ceildiv` a positive right value (where the affine expression is defined) -/
def Expr.safe (d s : Nat → Int) : Expr → Bool
  | .const _ => true
  | .dim _ => true
  | .sym _ => true
  | .bin k l r => l.safe d s && r.safe d s
      && (k != .mod || decide (0 ≤ l.eval d s))
      && ((k == .add || k == .mul) || decide (0 < r.eval d s))

/-- every `mod`/`floordiv`/`ceildiv` has a positive right value: the affine expression is defined -/
def Expr.defined (d s : Nat → Int) : Expr → Bool
  | .bin k l r => l.defined d s && r.defined d s && ((k == .add || k == .mul) || decide (0 < r.eval d s))
  | _ => true

/-- every dimension / symbol position is in range of the map's `num_dims` / `num_symbols` -/
def Expr.wf (nd ns : Nat) : Expr → Bool
  | .const _ => true
  | .dim p => decide (p < nd)
  | .sym q => decide (q < ns)
  | .bin _ l r => l.wf nd ns && r.wf nd ns

/-! ## emitted operations -/

inductive Val where
  | arg (i : Nat)        -- operand `i` of the rewritten affine operation
  | tmp (j : Nat)        -- result of the `j`-th emitted operation
deriving DecidableEq, Repr

inductive Instr where
  | const (v : Int)
  | bin (k : Kind) (a b : Val)
deriving Repr

/-- `affine_expr_ops(expr, dims, symbols)`; `base` = number of operations emitted before (numbering
of the results only).  `none` = the Python list indexing raised `IndexError`. -/
def exprOps (dims syms : List Val) (base : Nat) : Expr → Option (List Instr × Val)
  | .const v => some ([.const v], .tmp base)
  | .dim p => dims[p]?.map fun v => ([], v)
  | .sym q => syms[q]?.map fun v => ([], v)
  | .bin k l r =>
    match exprOps dims syms base l with
    | none => none
    | some (lo, lv) =>
      match exprOps dims syms (base + lo.length) r with
      | none => none
      | some (ro, rv) => some (lo ++ ro ++ [.bin k lv rv], .tmp (base + lo.length + ro.length))

/-- the operands of the rewritten operation, in order -/
def operandVals (n : Nat) : List Val := (List.range n).map .arg

/-- `LowerAffineApply`: `dims = operands[: num_dims]`, `symbols = operands[num_dims :]` -/
def applyLower (nd : Nat) (operands : List Val) (e : Expr) : Option (List Instr × Val) :=
  exprOps (operands.take nd) (operands.drop nd) 0 e

/-- `insert_affine_map_ops(map, dims, _)`: every result expression in turn, dims = the index
operands, symbols = `[]` -/
def mapOps (dims : List Val) : Nat → List Expr → Option (List Instr × List Val)
  | _, [] => some ([], [])
  | base, e :: es =>
    match exprOps dims [] base e with
    | none => none
    | some (ops, v) =>
      match mapOps dims (base + ops.length) es with
      | none => none
      | some (ops', vs) => some (ops ++ ops', v :: vs)

/-! ## running emitted operations -/

def Val.get (args tmps : List Int) : Val → Option Int
  | .arg i => args[i]?
  | .tmp j => tmps[j]?

def Instr.run (args tmps : List Int) : Instr → Option Int
  | .const v => some v
  | .bin k a b =>
    match a.get args tmps, b.get args tmps with
    | some x, some y => some (k.arith x y)
    | _, _ => none

/-- execute in order; the result of each operation is appended to `tmps` -/
def runInstrs (args : List Int) : List Instr → List Int → Option (List Int)
  | [], tmps => some tmps
  | i :: is, tmps =>
    match i.run args tmps with
    | some v => runInstrs args is (tmps ++ [v])
    | none => none

/-- environment of the dimensions / symbols of an operation with operand values `args` -/
def dimEnv (args : List Int) : Nat → Int := fun p => args.getD p 0
def symEnv (nd : Nat) (args : List Int) : Nat → Int := fun q => args.getD (nd + q) 0

/-! ## line protocol

Expressions travel in prefix form, one token per word: `+ * mod floordiv ceildiv` (binary),
`d<N>`, `s<N>`, integer literal.
* `apply <nd> <ns> <expr…>`            → `ok <instr>;…;<instr> -> <val>` | `raise IndexError`
* `map <ndims> <expr…> | <expr…> | …`  → `ok <instrs> -> <val>,<val>,…`  | `raise IndexError`
* `value <nd> <ns> <x0,x1,…> <expr…>`  → `affine <v|undefined> lowered <v>` (operand values `x_i`)
-/

def parseExpr : Nat → List String → Option (Expr × List String)
  | 0, _ => none
  | _, [] => none
  | fuel + 1, t :: rest =>
    let kind : Option Kind :=
      if t = "+" then some .add else if t = "*" then some .mul else if t = "mod" then some .mod
      else if t = "floordiv" then some .floordiv else if t = "ceildiv" then some .ceildiv else none
    match kind with
    | some k =>
      match parseExpr fuel rest with
      | none => none
      | some (l, rest1) =>
        match parseExpr fuel rest1 with
        | none => none
        | some (r, rest2) => some (.bin k l r, rest2)
    | none =>
      if t.startsWith "d" then (t.drop 1).toString.toNat?.map fun p => (.dim p, rest)
      else if t.startsWith "s" then (t.drop 1).toString.toNat?.map fun p => (.sym p, rest)
      else t.toInt?.map fun v => (.const v, rest)

def parseWhole (ws : List String) : Option Expr :=
  match parseExpr (ws.length + 1) ws with
  | some (e, []) => some e
  | _ => none

def splitBar : List String → List (List String)
  | [] => [[]]
  | w :: ws =>
    match splitBar ws with
    | [] => [[w]]
    | g :: gs => if w = "|" then [] :: g :: gs else (w :: g) :: gs

def Val.show : Val → String
  | .arg i => s!"a{i}"
  | .tmp j => s!"t{j}"

def Instr.show : Instr → String
  | .const v => s!"const {v}"
  | .bin k a b => s!"{k.opName} {a.show} {b.show}"

def showOps (ins : List Instr) : String := ";".intercalate (ins.map Instr.show)

def lineStep (_ : Unit) (line : String) : Unit × String :=
  match words line with
  | "apply" :: a :: b :: ws =>
    match a.toNat?, b.toNat?, parseWhole ws with
    | some nd, some ns, some e =>
      ((), match applyLower nd (operandVals (nd + ns)) e with
        | some (ins, v) => s!"ok {showOps ins} -> {v.show}"
        | none => "raise IndexError")
    | _, _, _ => ((), "bad-op")
  | "map" :: a :: ws =>
    match a.toNat?, (splitBar ws).mapM parseWhole with
    | some n, some es =>
      ((), match mapOps (operandVals n) 0 es with
        | some (ins, vs) => s!"ok {showOps ins} -> {",".intercalate (vs.map Val.show)}"
        | none => "raise IndexError")
    | _, _ => ((), "bad-op")
  | "value" :: a :: b :: xs :: ws =>
    match a.toNat?, b.toNat?, (xs.splitOn ",").mapM String.toInt?, parseWhole ws with
    | some nd, some ns, some args, some e =>
      if args.length ≠ nd + ns || !e.wf nd ns then ((), "bad-op") else
      let aff := if e.defined (dimEnv args) (symEnv nd args) then toString (e.eval (dimEnv args) (symEnv nd args))
        else "undefined"
      let low := match applyLower nd (operandVals (nd + ns)) e with
        | some (ins, v) => match runInstrs args ins [] with
          | some tmps => match v.get args tmps with
            | some x => toString x
            | none => "stuck"
          | none => "stuck"
        | none => "raise IndexError"
      ((), s!"affine {aff} lowered {low}")
    | _, _, _, _ => ((), "bad-op")
  | _ => ((), "bad-op")

end Xdsl.LowerAffine
