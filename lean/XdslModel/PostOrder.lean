import XdslModel.Graph
/-!
Model of `PostOrderIterator` (`xdsl/ir/post_order.py`), as FIXED by
`fix: PostOrderIterator marks successors as seen while pushing them` (the pinned code tested all
successors against `seen` first and updated `seen` afterwards, so `cond_br ^b, ^b` pushed `b` twice).

`stack` is the Python list with its top (= last Python element) at the head; `seen` the Python set.
-/
namespace Xdsl.PostOrder
open Xdsl.Graph

structure St where
  stack : List (Nat × Bool)
  seen  : List Nat
deriving Repr

/-- `__init__(block)` -/
def init (b : Nat) : St := { stack := [(b, false)], seen := [b] }

/-- `for x in reversed(term.successors): if x not in seen: seen.add(x); stack.append((x, False))`
(called with the reversed successor list) -/
def pushSuccs : List Nat → St → St
  | [], s => s
  | x :: xs, s =>
    if s.seen.contains x then pushSuccs xs s
    else pushSuccs xs { stack := (x, false) :: s.stack, seen := x :: s.seen }

/-- One `stack.pop()` together with what follows it up to the next pop.  `none`: stack empty
(`StopIteration`).  Second component of the result: the block returned by `__next__`, if this pop
ends a `__next__` call. -/
def step (g : Graph) (s : St) : Option (St × Option Nat) :=
  match s.stack with
  | [] => none
  | (b, true) :: rest => some ({ s with stack := rest }, some b)
  | (b, false) :: rest =>
    some (pushSuccs (succ g b).reverse { stack := (b, true) :: rest, seen := s.seen }, none)

/-- `list(iterator)`: all yielded blocks in order; flag `true` iff exhausted within the fuel -/
def run (g : Graph) : Nat → St → List Nat → List Nat × Bool
  | 0, s, out => (out.reverse, s.stack.isEmpty)
  | fuel + 1, s, out =>
    match step g s with
    | none => (out.reverse, true)
    | some (s', some b) => run g fuel s' (b :: out)
    | some (s', none) => run g fuel s' out

/-- `list(PostOrderIterator(blocks[r]))` -/
def postOrder (g : Graph) (r : Nat) : List Nat × Bool := run g (2 * g.length + 1) (init r) []

/-! Line protocol: `po <succs of block 0> …` answers `po <yielded blocks>` (start = block 0). -/
def lineStep (s : Unit) (line : String) : Unit × String :=
  match words line with
  | ["reset"] => (s, "ok")
  | "po" :: ws =>
    match parseGraph ws with
    | some g =>
      if wf g && 0 < g.length then
        let r := postOrder g 0
        if r.2 then (s, "po " ++ " ".intercalate (r.1.map toString)) else (s, "not-converged")
      else (s, "bad-op")
    | none => (s, "bad-op")
  | _ => (s, "bad-op")

end Xdsl.PostOrder
