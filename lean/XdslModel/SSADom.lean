import XdslModel.Dominance
/-!
SSA dominance of the cross-block uses of one region (C17: validity of *generated* input modules).

xDSL's verifier does not check that a definition dominates its uses, so "the module verifies" does not
make a generated module a valid input.  The harness reduces the question to one line per multi-block
region: the region's CFG (as for C24) and the list of *obligations* `a>b` — "a value defined in block
`a` (a block argument or an operation result) is used by an operation in, or nested below an operation
in, block `b ≠ a` of the same region".  (Uses inside the defining block are ordered by position and are
checked where the module is walked.)  The line is accepted iff block `a` strictly dominates block `b`
according to `Dominance.dominance`, i.e. (C24 `dom_iff_paths_all`, restated for obligation lists in
`XdslProofs/C17SSA.lean`) iff every CFG path from the entry to `b` passes through `a`; an unreachable
`b` is dominated by every block (convention of MLIR/LLVM).
-/
namespace Xdsl.SSADom
open Xdsl.Graph Xdsl.Dominance

/-- `(a, b)`: a value defined in block `a` has a user in block `b` -/
abbrev Obl := Nat × Nat

def oblOk (d : Dom) (o : Obl) : Bool := strictlyDominates d o.1 o.2

/-- all obligations hold in the dominator table of `g` -/
def check (g : Graph) (obs : List Obl) : Bool := obs.all (oblOk (dominance g).1)

/-- position of the first obligation that fails -/
def firstBad (d : Dom) : List Obl → Nat → Option Nat
  | [], _ => none
  | o :: os, i => if oblOk d o then firstBad d os (i + 1) else some i

def parseObl (w : String) : Option Obl :=
  match w.splitOn ">" with
  | [a, b] => do let x ← a.toNat?; let y ← b.toNat?; pure (x, y)
  | _ => none

def verdict (g : Graph) (obs : List Obl) : String :=
  match firstBad (dominance g).1 obs 0 with
  | none => "ok"
  | some i => "fail " ++ toString i

/-! Line protocol: `ssa <succs of block 0> … | a>b a>b …` answers `ok`, `fail <index of the first
obligation that does not hold>`, `raise KeyError` (a successor outside the region, as `dom`), or
`bad-op` (malformed, or an obligation naming a block outside the region). -/
def lineStep (s : Unit) (line : String) : Unit × String :=
  match words line with
  | ["reset"] => (s, "ok")
  | "ssa" :: ws =>
    let gw := ws.takeWhile (· ≠ "|")
    let ow := (ws.dropWhile (· ≠ "|")).drop 1
    if !(ws.contains "|") then (s, "bad-op") else
    match parseGraph gw, ow.mapM parseObl with
    | some g, some obs =>
      if !(wf g) then (s, "raise KeyError")
      else if obs.all (fun o => o.1 < g.length && o.2 < g.length) then (s, verdict g obs)
      else (s, "bad-op")
    | _, _ => (s, "bad-op")
  | _ => (s, "bad-op")

end Xdsl.SSADom
