import XdslModel.Prelude
/-!
Model of the segment bookkeeping and of `OpDef.verify` in `xdsl/irdl/operations.py` (C10).

One *construct* (operands, results, regions or successors) of an IRDL operation definition is a list
of segment kinds `Seg` plus one `Opt`ion saying how a flat list is split when more than one segment
is variable.  The functions mirror, for the code **with the two `fix:` repairs of C10 applied**:

* `verifySizes`      — `verify_variadic_size` = `verify_variadic_attr_size` / `verify_variadic_same_size`
* `accessor`         — the accessor classes chosen by `irdl_op_arg_definition` and their `index`
* `build`            — `irdl_build_arg_list` + the option handling of `irdl_op_init`
* `AttrC/RangeC.verify`, `verifyOp` — constraint checking with one shared `ConstraintContext`,
  in the order of `OpDef.verify`.
* `fillDefaults`, `dictAccessor` — `IRDLOperation.__post_init__` (default values of non-optional
  properties/attributes are written at construction time only) and the four dictionary accessors.
* `RawSizes`, `readSize`, `view`, `verifyOpRaw`, `storeSizes`, `buildOp` — where the segment-size
  arrays live: every `AttrSized…Segments` option carries its own `as_property` flag, verification
  and accessors read `option.container(op)`, the constructor writes one entry per option.

Python integers: `//` and `%` are only used with a positive divisor, where Lean's `Int` `/`, `%`
(Euclidean) agree with Python's floor versions.  Python negative indexing and slice clamping are
`pyIndex`/`pySlice`.  NO Mathlib import, no proofs.
-/
namespace Xdsl.OpDef

/-- kind of one declared segment: `operand_def` / `opt_operand_def` / `var_operand_def` (same for
results, regions, successors).  In the code `OptionalDef` is a subclass of `VariadicDef`. -/
inductive Seg | single | optional | variadic
  deriving DecidableEq, Repr, Inhabited

/-- no option / `SameVariadic…Size` / `AttrSized…Segments` -/
inductive Opt | none | sameSize | attrSized
  deriving DecidableEq, Repr, Inhabited

/-- `isinstance(d, VariadicDef)` -/
def Seg.isVariadic : Seg → Bool
  | .single => false
  | _ => true

/-- `isinstance(d, OptionalDef)` -/
def Seg.isOptional : Seg → Bool
  | .optional => true
  | _ => false

/-- what is found under `operandSegmentSizes` (etc.) on the operation:
absent / not a `DenseArrayBase` / a dense array (`i32 = false`: other element type) -/
inductive SizeAttr
  | missing
  | notDense
  | dense (i32 : Bool) (vals : List Int)
  deriving DecidableEq, Repr, Inhabited

def numVariadic (defs : List Seg) : Nat := defs.countP Seg.isVariadic

/-- `irdl_op_arg_definition` raises `PyRDLOpDefinitionError` on a second variadic without option -/
def wfDef (defs : List Seg) (opt : Opt) : Bool :=
  match opt with
  | .none => decide (numVariadic defs ≤ 1)
  | _ => true

/-! ### verify_variadic_size -/

/-- one iteration of the `for l, (name, d) in zip(def_sizes, defs)` loop; the last conjunct is the
sign check added by the fix -/
def entryOk (d : Seg) (l : Int) : Bool :=
  !(d.isOptional && l != 0 && l != 1) && !(!d.isVariadic && l != 1) && !(decide (l < 0))

def entriesOk : List Seg → List Int → Bool
  | d :: ds, l :: ls => entryOk d l && entriesOk ds ls
  | _, _ => true

/-- `verify_variadic_attr_size` (fixed: sign of every entry and `sum == len(list)`) -/
def verifyAttrSize (defs : List Seg) (n : Nat) : SizeAttr → Bool
  | .dense true vals =>
    vals.length == defs.length && entriesOk defs vals && vals.sum == (n : Int)
  | _ => false

/-- `verify_variadic_same_size` -/
def verifySameSize (defs : List Seg) (n : Nat) : Bool :=
  let nd := defs.length
  let nv := numVariadic defs
  if nv = 0 then n == nd
  else if defs.any Seg.isOptional then n == nd || n == nd - nv
  else decide (nd - nv ≤ n) && (((n : Int) - (nd : Int)) % (nv : Int) == 0)

/-- `verify_variadic_size` -/
def verifySizes (defs : List Seg) (opt : Opt) (n : Nat) (attr : SizeAttr) : Bool :=
  match opt with
  | .attrSized => verifyAttrSize defs n attr
  | _ => verifySameSize defs n

/-! ### accessors -/

inductive AccErr | index | key | attribute
  deriving DecidableEq, Repr, Inhabited

/-- An accessor result as a list: single → `[x]`, optional → `[]`(None) / `[x]`, variadic → slice. -/
abbrev AccRes (α : Type) := Except AccErr (List α)

/-- `args[i]` with Python negative-index wrap; `IndexError` out of range -/
def pyIndex {α : Type} (xs : List α) (i : Int) : AccRes α :=
  let j : Int := if i < 0 then i + (xs.length : Int) else i
  if j < 0 then .error .index
  else match xs[j.toNat]? with
    | some x => .ok [x]
    | none => .error .index

/-- clamp of one slice bound (`slice.indices`) -/
def pyClamp (n : Nat) (i : Int) : Nat :=
  if i < 0 then (i + (n : Int)).toNat else min i.toNat n

/-- `args[a:b]` -/
def pySlice {α : Type} (xs : List α) (a b : Int) : List α :=
  let a' := pyClamp xs.length a
  let b' := pyClamp xs.length b
  (xs.drop a').take (b' - a')

/-- `SameVariadicAccessor` / `SameVariadicSingleAccessor` / `SameOptionalAccessor` for definition
number `i` (option `SameVariadic…Size`, at least one variadic) -/
def accSame {α : Type} (defs : List Seg) (xs : List α) (i : Nat) : AccRes α :=
  let nd : Int := defs.length
  let nv : Int := numVariadic defs
  let n : Int := xs.length
  let diff : Int := (n - nd) / nv
  let enc : Int := numVariadic (defs.take i)
  let start : Int := (i : Int) + enc * diff
  match defs[i]? with
  | some .optional => if xs.length = defs.length then pyIndex xs i else .ok []
  | some .variadic => .ok (pySlice xs start (start + 1 + diff))
  | some .single => pyIndex xs start
  | none => .error .attribute

/-- `SingleAttrAccessor` / `VariadicAttrAccessor` / `OptionalAttrAccessor` -/
def accAttr {α : Type} (defs : List Seg) (vals : List Int) (xs : List α) (i : Nat) : AccRes α :=
  let start : Int := (vals.take i).sum
  match defs[i]? with
  | some .optional =>
    (match vals[i]? with
     | none => .error .index
     | some v => if v ≠ 0 then pyIndex xs start else .ok [])
  | some .variadic =>
    (match vals[i]? with
     | none => .error .index
     | some v => .ok (pySlice xs start (start + v)))
  | some .single => pyIndex xs start
  | none => .error .attribute

/-- `BeforeVariadicSingleAccessor` / `UniqueVariadicAccessor` / `SameOptionalAccessor` /
`AfterVariadicSingleAccessor` (no option, at most one variadic) -/
def accDefault {α : Type} (defs : List Seg) (xs : List α) (i : Nat) : AccRes α :=
  let nd : Int := defs.length
  let n : Int := xs.length
  match defs[i]? with
  | some .single =>
    if numVariadic (defs.take i) = 0 then pyIndex xs i else pyIndex xs (-nd + (i : Int))
  | some .optional => if xs.length = defs.length then pyIndex xs i else .ok []
  | some .variadic => .ok (pySlice xs i ((i : Int) + n - nd + 1))
  | none => .error .attribute

/-- accessor number `i` of a construct as installed by `irdl_op_arg_definition`
(fixed: the same-size accessors are only used when there is a variadic to divide by) -/
def accessor {α : Type} (defs : List Seg) (opt : Opt) (attr : SizeAttr) (xs : List α) (i : Nat) :
    AccRes α :=
  match opt with
  | .sameSize => if numVariadic defs = 0 then accDefault defs xs i else accSame defs xs i
  | .attrSized =>
    (match attr with
     | .missing => .error .key
     | .notDense => .error .attribute
     | .dense _ vals => accAttr defs vals xs i)
  | .none => accDefault defs xs i

def accessors {α : Type} (defs : List Seg) (opt : Opt) (attr : SizeAttr) (xs : List α) :
    List (AccRes α) :=
  (List.range defs.length).map (accessor defs opt attr xs)

/-! ### builder -/

/-- one argument handed to the generated constructor: `None`, one value, a sequence -/
inductive BArg (α : Type) | none | one (x : α) | seq (xs : List α)
  deriving Repr, Inhabited

/-- one iteration of `irdl_build_arg_list`; `norm` = the argument went through
`irdl_build_operations_arg` / `irdl_build_regions_arg` first (operands, regions: `None ↦ []`) -/
def buildArg {α : Type} (norm : Bool) (d : Seg) : BArg α → Option (List α)
  | .none =>
    if norm then (if !d.isVariadic then Option.none else some [])
    else if d.isOptional then some [] else Option.none
  | .seq xs =>
    if !d.isVariadic && xs.length != 1 then Option.none
    else if d.isOptional && decide (xs.length > 1) then Option.none
    else some xs
  | .one x => some [x]

def buildSegs {α : Type} (norm : Bool) : List Seg → List (BArg α) → Option (List (List α))
  | [], [] => some []
  | d :: ds, a :: as =>
    (match buildArg norm d a, buildSegs norm ds as with
     | some s, some r => some (s :: r)
     | _, _ => Option.none)
  | _, _ => Option.none

/-- sizes of the variadic definitions (`variadic_sizes` in `irdl_op_init`) -/
def variadicSizes : List Seg → List Nat → List Nat
  | d :: ds, s :: ss => if d.isVariadic then s :: variadicSizes ds ss else variadicSizes ds ss
  | _, _ => []

/-- `irdl_op_init` for one construct: flat list and the segment-size attribute it stores -/
def build {α : Type} (norm : Bool) (defs : List Seg) (opt : Opt) (args : List (BArg α)) :
    Option (List α × SizeAttr) :=
  match buildSegs norm defs args with
  | Option.none => Option.none
  | some segs =>
    let sizes := segs.map List.length
    match opt with
    | .attrSized => some (segs.flatten, .dense true (sizes.map Int.ofNat))
    | .sameSize =>
      let vs := variadicSizes defs sizes
      if vs.all (fun s => s == vs.headD 0) then some (segs.flatten, .missing) else Option.none
    | .none => some (segs.flatten, .missing)

/-! ### constraints with one shared context -/

/-- variable-free attribute constraint over a universe of attributes numbered by `Nat`:
`AnyAttr`, `EqAttrConstraint`, a finite union (`AnyOf` of equalities / `BaseAttr` of a class) -/
inductive BaseC | any | eq (t : Nat) | oneOf (ts : List Nat)
  deriving DecidableEq, Repr, Inhabited

def BaseC.accepts : BaseC → Nat → Bool
  | .any, _ => true
  | .eq t, a => a == t
  | .oneOf ts, a => ts.contains a

/-- attribute constraint: plain or `VarConstraint(name, base)` -/
inductive AttrC | plain (b : BaseC) | var (v : Nat) (b : BaseC)
  deriving DecidableEq, Repr, Inhabited

/-- `ConstraintContext`: attribute variables and range variables -/
structure Ctx where
  vars : AL Nat Nat := []
  rvars : AL Nat (List Nat) := []
  deriving Repr, Inhabited

/-- `AttrConstraint.verify`; `none` = `VerifyException` -/
def AttrC.verify : AttrC → Nat → Ctx → Option Ctx
  | .plain b, a, ctx => if b.accepts a then some ctx else Option.none
  | .var v b, a, ctx =>
    match AL.get ctx.vars v with
    | some a' => if a = a' then some ctx else Option.none
    | Option.none =>
      if b.accepts a then some { ctx with vars := AL.set ctx.vars v a } else Option.none

def verifyEach (c : AttrC) : List Nat → Ctx → Option Ctx
  | [], ctx => some ctx
  | a :: as, ctx =>
    match c.verify a ctx with
    | some ctx' => verifyEach c as ctx'
    | Option.none => Option.none

/-- `SingleOf(c)` / `RangeOf(c)` / `RangeVarConstraint(name, RangeOf(base))` -/
inductive RangeC | single (c : AttrC) | rangeOf (c : AttrC) | rangeVar (v : Nat) (b : BaseC)
  deriving DecidableEq, Repr, Inhabited

def RangeC.verify : RangeC → List Nat → Ctx → Option Ctx
  | .single c, [a], ctx => c.verify a ctx
  | .single _, _, _ => Option.none
  | .rangeOf c, as, ctx => verifyEach c as ctx
  | .rangeVar v b, as, ctx =>
    match AL.get ctx.rvars v with
    | some as' => if as = as' then some ctx else Option.none
    | Option.none =>
      if as.all b.accepts then some { ctx with rvars := AL.set ctx.rvars v as } else Option.none

/-! ### OpDef.verify -/

structure SegDef where
  kind : Seg
  constr : RangeC := .rangeOf (.plain .any)
  singleBlock : Bool := false
  deriving Repr, Inhabited

structure ConstructDef where
  opt : Opt := .none
  segs : List SegDef := []
  /-- `as_property` of the construct's `AttrSized…Segments` option (only read when `opt = attrSized`) -/
  asProp : Bool := false
  deriving Repr, Inhabited

def ConstructDef.kinds (cd : ConstructDef) : List Seg := cd.segs.map (·.kind)

structure AttrDef where
  name : Nat
  optional : Bool
  constr : AttrC
  /-- `default_value` of `prop_def` / `attr_def` / `opt_prop_def` / `opt_attr_def` -/
  default : Option Nat := Option.none
  deriving Repr, Inhabited

structure Def where
  operands : ConstructDef := {}
  results : ConstructDef := {}
  regions : ConstructDef := {}
  successors : ConstructDef := {}
  props : List AttrDef := []
  attrs : List AttrDef := []
  deriving Repr, Inhabited

/-- a region of the instance: number of blocks and the entry block's argument types -/
structure RegionInst where
  blocks : Nat
  entryArgs : List Nat
  deriving Repr, Inhabited

structure Inst where
  operands : List Nat := []
  results : List Nat := []
  regions : List RegionInst := []
  successors : Nat := 0
  operandAttr : SizeAttr := .missing
  resultAttr : SizeAttr := .missing
  regionAttr : SizeAttr := .missing
  succAttr : SizeAttr := .missing
  props : AL Nat Nat := []
  attrs : AL Nat Nat := []
  deriving Repr, Inhabited

/-- outcome classes of `op.verify()` -/
inductive VErr | verify | py (e : AccErr)
  deriving DecidableEq, Repr, Inhabited

/-- the `for arg_name, arg_def in defs` loop of `irdl_op_verify_arg_list` -/
def verifyArgsLoop (kinds : List Seg) (opt : Opt) (attr : SizeAttr) (tys : List Nat) :
    List SegDef → Nat → Ctx → Except VErr Ctx
  | [], _, ctx => .ok ctx
  | sd :: rest, i, ctx =>
    match accessor kinds opt attr tys i with
    | .error e => .error (.py e)
    | .ok seg =>
      match sd.constr.verify seg ctx with
      | Option.none => .error .verify
      | some ctx' => verifyArgsLoop kinds opt attr tys rest (i + 1) ctx'

/-- `irdl_op_verify_arg_list` -/
def verifyArgList (cd : ConstructDef) (tys : List Nat) (attr : SizeAttr) (ctx : Ctx) :
    Except VErr Ctx :=
  if !verifySizes cd.kinds cd.opt tys.length attr then .error .verify
  else verifyArgsLoop cd.kinds cd.opt attr tys cd.segs 0 ctx

/-- entry-argument loop of one region definition -/
def verifyEntryArgs (c : RangeC) : List RegionInst → Ctx → Option Ctx
  | [], ctx => some ctx
  | r :: rs, ctx =>
    if r.blocks = 0 then verifyEntryArgs c rs ctx
    else match c.verify r.entryArgs ctx with
      | some ctx' => verifyEntryArgs c rs ctx'
      | Option.none => Option.none

def verifyRegionsLoop (kinds : List Seg) (opt : Opt) (attr : SizeAttr) (rs : List RegionInst) :
    List SegDef → Nat → Ctx → Except VErr Ctx
  | [], _, ctx => .ok ctx
  | sd :: rest, i, ctx =>
    match accessor kinds opt attr rs i with
    | .error e => .error (.py e)
    | .ok seg =>
      if sd.singleBlock && seg.any (fun r => r.blocks != 1) then .error .verify
      else match verifyEntryArgs sd.constr seg ctx with
        | Option.none => .error .verify
        | some ctx' => verifyRegionsLoop kinds opt attr rs rest (i + 1) ctx'

/-- `irdl_op_verify_regions` -/
def verifyRegions (cd : ConstructDef) (rs : List RegionInst) (attr : SizeAttr) (ctx : Ctx) :
    Except VErr Ctx :=
  if !verifySizes cd.kinds cd.opt rs.length attr then .error .verify
  else verifyRegionsLoop cd.kinds cd.opt attr rs cd.segs 0 ctx

/-- the property loop / attribute loop of `OpDef.verify` -/
def verifyDict (defs : List AttrDef) (m : AL Nat Nat) : Ctx → Option Ctx :=
  fun ctx => defs.foldlM (init := ctx) fun ctx d =>
    match AL.get m d.name with
    | Option.none => if d.optional then some ctx else Option.none
    | some a => d.constr.verify a ctx

/-- `OpDef.verify` (traits and custom `verify_` are not part of the property) -/
def verifyOp (d : Def) (o : Inst) : Except VErr Unit := do
  let ctx ← verifyArgList d.operands o.operands o.operandAttr {}
  let ctx ← verifyArgList d.results o.results o.resultAttr ctx
  let ctx ← verifyRegions d.regions o.regions o.regionAttr ctx
  if !verifySizes d.successors.kinds d.successors.opt o.successors o.succAttr then
    throw .verify
  let ctx ← match verifyDict d.props o.props ctx with
    | some c => pure c
    | Option.none => throw VErr.verify
  if o.props.any (fun kv => !(d.props.any (fun pd => pd.name == kv.1))) then throw .verify
  match verifyDict d.attrs o.attrs ctx with
  | some _ => pure ()
  | Option.none => throw .verify

/-! ### default values and the dictionary accessors -/

/-- one iteration of a `__post_init__` loop: a non-optional definition that carries a default and
is absent from the dictionary gets its default -/
def fillStep (m : AL Nat Nat) (d : AttrDef) : AL Nat Nat :=
  match AL.get m d.name, d.optional, d.default with
  | Option.none, false, some v => AL.set m d.name v
  | _, _, _ => m

/-- one of the two loops of `IRDLOperation.__post_init__`.  This runs when an operation object is
constructed (`Operation.__init__`, hence also `Operation.create` and the generated constructor) and
never again: `OpDef.verify` (`verifyDict`) does not look at defaults. -/
def fillDefaults (defs : List AttrDef) (m : AL Nat Nat) : AL Nat Nat :=
  defs.foldl fillStep m

/-- `PropertyAccessor` / `AttributeAccessor.__get__` (`d[name]`: `KeyError` when absent) and
`OptionalPropertyAccessor` / `OptionalAttributeAccessor.__get__` (`d.get(name, default)`) -/
def dictAccessor (d : AttrDef) (m : AL Nat Nat) : Except AccErr (Option Nat) :=
  match AL.get m d.name with
  | some a => .ok (some a)
  | Option.none => if d.optional then .ok d.default else .error .key

/-- `__post_init__` on a whole instance -/
def construct (d : Def) (o : Inst) : Inst :=
  { o with props := fillDefaults d.props o.props, attrs := fillDefaults d.attrs o.attrs }

/-! ### where the segment-size arrays are stored -/

/-- the four constructs = the four entry names `operandSegmentSizes`, `resultSegmentSizes`,
`regionSegmentSizes`, `successorSegmentSizes` -/
inductive Construct | operand | result | region | successor
  deriving DecidableEq, Repr, Inhabited

def Def.get (d : Def) : Construct → ConstructDef
  | .operand => d.operands
  | .result => d.results
  | .region => d.regions
  | .successor => d.successors

/-- the segment-size entries of `op.properties` and of `op.attributes` (the numbered properties and
attributes of `Inst.props` / `Inst.attrs` are the remaining keys of the same two dictionaries) -/
structure RawSizes where
  props : AL Construct SizeAttr := []
  attrs : AL Construct SizeAttr := []
  deriving Repr, Inhabited

/-- `option.container(op).get(option.attribute_name)` for the construct's `AttrSized…Segments`
option; a construct without that option never looks -/
def readSize (cd : ConstructDef) (c : Construct) (raw : RawSizes) : SizeAttr :=
  if cd.opt = .attrSized then
    match AL.get (if cd.asProp then raw.props else raw.attrs) c with
    | some a => a
    | Option.none => .missing
  else .missing

/-- the instance as verification and the accessors see it: each size attribute is looked up in
the container its own option names -/
def view (d : Def) (raw : RawSizes) (o : Inst) : Inst :=
  { o with
    operandAttr := readSize d.operands .operand raw
    resultAttr := readSize d.results .result raw
    regionAttr := readSize d.regions .region raw
    succAttr := readSize d.successors .successor raw }

/-- `OpDef.from_pyrdl` adds a `PropertyDef` named after the size entry exactly for the options with
`as_property=True` -/
def declaresSizeProp (d : Def) (c : Construct) : Bool :=
  (d.get c).opt == .attrSized && (d.get c).asProp

/-- the `for prop_name in op.properties.keys()` loop of `OpDef.verify`, on the size entries -/
def undefinedSizeProp (d : Def) (raw : RawSizes) : Bool :=
  raw.props.any fun kv => !declaresSizeProp d kv.1

/-- `OpDef.verify` on an operation whose size entries are stored in `raw`.  (A `VerifyException`
from the undefined-property loop and one from a later loop are the same outcome class; Python
errors can only come from the accessor calls of the first three steps.) -/
def verifyOpRaw (d : Def) (raw : RawSizes) (o : Inst) : Except VErr Unit :=
  match verifyOp d (view d raw o) with
  | .error e => .error e
  | .ok _ => if undefinedSizeProp d raw then .error .verify else .ok ()

/-- one iteration of the option loop of `irdl_op_init`: an `AttrSized…Segments` option writes its
size array into the dictionary named by ITS OWN `as_property` flag -/
def storeStep (d : Def) (sizes : Construct → SizeAttr) (raw : RawSizes) (c : Construct) : RawSizes :=
  if (d.get c).opt = .attrSized then
    if (d.get c).asProp then { raw with props := AL.set raw.props c (sizes c) }
    else { raw with attrs := AL.set raw.attrs c (sizes c) }
  else raw

/-- the option loop of `irdl_op_init`: `order` lists the constructs in the order in which their
options appear in `irdl_options` -/
def storeSizes (d : Def) (sizes : Construct → SizeAttr) (order : List Construct) (raw : RawSizes) :
    RawSizes :=
  order.foldl (storeStep d sizes) raw

/-- arguments of the generated constructor -/
structure BuildArgs where
  operands : List (BArg Nat) := []
  results : List (BArg Nat) := []
  regions : List (BArg RegionInst) := []
  successors : List (BArg Unit) := []
  deriving Repr, Inhabited

/-- `irdl_op_init` + `Operation.__init__` + `__post_init__` on a whole definition -/
def buildOp (d : Def) (order : List Construct) (a : BuildArgs) (props attrs : AL Nat Nat) :
    Option (Inst × RawSizes) :=
  match build true d.operands.kinds d.operands.opt a.operands,
        build false d.results.kinds d.results.opt a.results,
        build true d.regions.kinds d.regions.opt a.regions,
        build false d.successors.kinds d.successors.opt a.successors with
  | some (xo, ao), some (xr, ar), some (xg, ag), some (xs, as) =>
    let sizes : Construct → SizeAttr := fun c =>
      match c with
      | .operand => ao
      | .result => ar
      | .region => ag
      | .successor => as
    let raw := storeSizes d sizes order {}
    let o : Inst :=
      { operands := xo, results := xr, regions := xg, successors := xs.length
        props := fillDefaults d.props props, attrs := fillDefaults d.attrs attrs }
    some (view d raw o, raw)
  | _, _, _, _ => Option.none

/-! ### line protocol -/

def parseSegs (s : String) : Option (List Seg) :=
  if s = "-" then some [] else
  s.toList.mapM fun c =>
    if c = 's' then some Seg.single else if c = 'o' then some Seg.optional
    else if c = 'v' then some Seg.variadic else Option.none

def parseOpt : String → Option Opt
  | "none" => some .none
  | "same" => some .sameSize
  | "attr" => some .attrSized
  | _ => Option.none

def parseInts (s : String) : Option (List Int) :=
  if s = "" then some [] else (s.splitOn ",").mapM String.toInt?

def parseNats (s : String) : Option (List Nat) :=
  if s = "" ∨ s = "-" then some [] else (s.splitOn ",").mapM String.toNat?

/-- `missing` | `notdense` | `i32:1,0,2` | `i64:…` -/
def parseSizeAttr (s : String) : Option SizeAttr :=
  match s.splitOn ":" with
  | ["missing"] => some .missing
  | ["notdense"] => some .notDense
  | ["i32", l] => (parseInts l).map (.dense true)
  | ["i64", l] => (parseInts l).map (.dense false)
  | _ => Option.none

def showErr : AccErr → String
  | .index => "IndexError"
  | .key => "KeyError"
  | .attribute => "AttributeError"

def showSeg (d : Seg) (r : AccRes Nat) : String :=
  match r with
  | .error e => showErr e
  | .ok l =>
    match d, l with
    | .variadic, l => "[" ++ ",".intercalate (l.map toString) ++ "]"
    | _, [] => "none"
    | _, [x] => toString x
    | _, l => "?" ++ ",".intercalate (l.map toString)

def showAccessors (defs : List Seg) (rs : List (AccRes Nat)) : String :=
  if defs.isEmpty then "-" else "|".intercalate ((defs.zip rs).map fun (d, r) => showSeg d r)

def showSizeAttr : SizeAttr → String
  | .missing => "missing"
  | .notDense => "notdense"
  | .dense b l => (if b then "i32:" else "i64:") ++ ",".intercalate (l.map toString)

/-- build arguments `N` | `1` | `L<k>`, values are numbered consecutively from 0 -/
def parseBArgs (toks : List String) : Option (List (BArg Nat)) :=
  let rec go : List String → Nat → Option (List (BArg Nat))
    | [], _ => some []
    | t :: ts, next =>
      if t = "N" then (go ts next).map (BArg.none :: ·)
      else if t = "1" then (go ts (next + 1)).map (BArg.one next :: ·)
      else match t.toList with
        | 'L' :: r =>
          (match (String.ofList r).toNat? with
           | some k => (go ts (next + k)).map (BArg.seq ((List.range k).map (· + next)) :: ·)
           | Option.none => Option.none)
        | _ => Option.none
  go toks 0

def parseBase (s : String) : Option BaseC :=
  match s.splitOn "." with
  | ["any"] => some .any
  | ["eq", t] => t.toNat?.map .eq
  | "of" :: ts => (ts.mapM String.toNat?).map .oneOf
  | _ => Option.none

def parseVarName (pre : Char) (s : String) : Option Nat :=
  match s.toList with
  | c :: r => if c = pre then (String.ofList r).toNat? else Option.none
  | [] => Option.none

/-- `p:<base>` | `v<k>:<base>` given as the token list after splitting on `:` -/
def parseAttrC : List String → Option AttrC
  | ["p", b] => (parseBase b).map .plain
  | [v, b] =>
    (match parseVarName 'v' v, parseBase b with
     | some k, some b => some (.var k b)
     | _, _ => Option.none)
  | _ => Option.none

/-- `S:<attrc>` | `R:<attrc>` | `W<k>:<base>` -/
def parseRangeC (s : String) : Option RangeC :=
  match s.splitOn ":" with
  | "S" :: r => (parseAttrC r).map .single
  | "R" :: r => (parseAttrC r).map .rangeOf
  | [w, b] =>
    (match parseVarName 'W' w, parseBase b with
     | some k, some b => some (.rangeVar k b)
     | _, _ => Option.none)
  | _ => Option.none

def parseSeg1 : String → Option Seg
  | "s" => some .single
  | "o" => some .optional
  | "v" => some .variadic
  | _ => Option.none

structure St where
  d : Def := {}
  o : Inst := {}
  /-- segment-size entries of the two dictionaries of the current instance -/
  raw : RawSizes := {}
  /-- constructor argument shapes per construct (`bshape` lines) -/
  shapes : AL Construct (List String) := []
  deriving Inhabited

def parseConstruct : String → Option Construct
  | "operand" => some .operand
  | "result" => some .result
  | "region" => some .region
  | "successor" => some .successor
  | _ => Option.none

def showConstruct : Construct → String
  | .operand => "operand"
  | .result => "result"
  | .region => "region"
  | .successor => "successor"

def allConstructs : List Construct := [.operand, .result, .region, .successor]

def St.getC (s : St) : String → Option ConstructDef
  | "operand" => some s.d.operands
  | "result" => some s.d.results
  | "region" => some s.d.regions
  | "successor" => some s.d.successors
  | _ => Option.none

def St.setC (s : St) (c : String) (cd : ConstructDef) : St :=
  match c with
  | "operand" => { s with d := { s.d with operands := cd } }
  | "result" => { s with d := { s.d with results := cd } }
  | "region" => { s with d := { s.d with regions := cd } }
  | "successor" => { s with d := { s.d with successors := cd } }
  | _ => s

/-- write a size entry into `op.properties` (`toProp`) or `op.attributes` -/
def St.setRaw (s : St) (c : Construct) (toProp : Bool) (a : SizeAttr) : St :=
  if toProp then { s with raw := { s.raw with props := AL.set s.raw.props c a } }
  else { s with raw := { s.raw with attrs := AL.set s.raw.attrs c a } }

def St.delRaw (s : St) (c : Construct) (fromProp : Bool) : St :=
  if fromProp then { s with raw := { s.raw with props := AL.del s.raw.props c } }
  else { s with raw := { s.raw with attrs := AL.del s.raw.attrs c } }

/-- `sattr`: the entry goes where the definition says it lives -/
def St.setAttr (s : St) (c : String) (a : SizeAttr) : Option St :=
  match parseConstruct c with
  | some c => some (s.setRaw c (declaresSizeProp s.d c) a)
  | Option.none => Option.none

def showDict (m : AL Nat Nat) : String :=
  let bound := m.foldl (fun b kv => max b (kv.1 + 1)) 0
  let ents := (List.range bound).filterMap fun k => (AL.get m k).map fun v => s!"{k}={v}"
  if ents.isEmpty then "-" else ",".intercalate ents

def showDictAcc (defs : List AttrDef) (m : AL Nat Nat) : String :=
  if defs.isEmpty then "-" else
  "|".intercalate (defs.map fun d =>
    match dictAccessor d m with
    | .ok (some a) => toString a
    | .ok Option.none => "none"
    | .error e => showErr e)

def showRaw (raw : RawSizes) : String :=
  let ps := allConstructs.filterMap fun c => (AL.get raw.props c).map fun a => s!"p.{showConstruct c}={showSizeAttr a}"
  let as := allConstructs.filterMap fun c => (AL.get raw.attrs c).map fun a => s!"a.{showConstruct c}={showSizeAttr a}"
  if (ps ++ as).isEmpty then "-" else " ".intercalate (ps ++ as)

/-- constructor arguments from shapes over positions and the flat value list -/
def BArg.fromPos {α : Type} (vals : List α) : BArg Nat → Option (BArg α)
  | .none => some .none
  | .one i => (vals[i]?).map .one
  | .seq is => (is.mapM fun i => vals[i]?).map .seq

def BArg.size {α : Type} : BArg α → Nat
  | .none => 0
  | .one _ => 1
  | .seq xs => xs.length

/-- the arguments of one construct: its `bshape` tokens applied to the flat list `vals`; the shapes
must use up exactly the list -/
def St.bargs {α : Type} (s : St) (c : Construct) (vals : List α) : Option (List (BArg α)) :=
  match parseBArgs ((AL.get s.shapes c).getD []) with
  | Option.none => Option.none
  | some ps =>
    if (ps.map BArg.size).sum != vals.length then Option.none
    else ps.mapM (BArg.fromPos vals)

def showVerify : Except VErr Unit → String
  | .ok _ => "ok"
  | .error .verify => "raise VerifyException"
  | .error (.py e) => "raise " ++ showErr e

/-- accessor results of one construct of the current instance, values shown as positions -/
def St.access (s0 : St) (c : String) : Option String :=
  let s : St := { s0 with o := view s0.d s0.raw s0.o }
  match c with
  | "operand" => some (showAccessors s.d.operands.kinds
      (accessors s.d.operands.kinds s.d.operands.opt s.o.operandAttr (List.range s.o.operands.length)))
  | "result" => some (showAccessors s.d.results.kinds
      (accessors s.d.results.kinds s.d.results.opt s.o.resultAttr (List.range s.o.results.length)))
  | "region" => some (showAccessors s.d.regions.kinds
      (accessors s.d.regions.kinds s.d.regions.opt s.o.regionAttr (List.range s.o.regions.length)))
  | "successor" => some (showAccessors s.d.successors.kinds
      (accessors s.d.successors.kinds s.d.successors.opt s.o.succAttr (List.range s.o.successors)))
  | _ => Option.none

def lineStep (s : St) (line : String) : St × String :=
  let bad : St × String := (s, "bad-op")
  match words line with
  | ["reset"] => ({}, "ok")
  -- stateless one-liners -------------------------------------------------------------------
  | ["wf", opt, segs] =>
    (match parseOpt opt, parseSegs segs with
     | some opt, some defs => (s, if wfDef defs opt then "ok" else "err")
     | _, _ => bad)
  | ["sizes", opt, segs, n, attr] =>
    (match parseOpt opt, parseSegs segs, n.toNat?, parseSizeAttr attr with
     | some opt, some defs, some n, some attr =>
       (s, if verifySizes defs opt n attr then "ok" else "err")
     | _, _, _, _ => bad)
  | ["access", opt, segs, n, attr] =>
    (match parseOpt opt, parseSegs segs, n.toNat?, parseSizeAttr attr with
     | some opt, some defs, some n, some attr =>
       (s, showAccessors defs (accessors defs opt attr (List.range n)))
     | _, _, _, _ => bad)
  | "build" :: norm :: opt :: segs :: args =>
    (match parseOpt opt, parseSegs segs, parseBArgs args with
     | some opt, some defs, some args =>
       (match build (norm == "1") defs opt args with
        | Option.none => (s, "err")
        | some (xs, attr) =>
          (s, s!"ok {xs.length} {showSizeAttr attr} {if verifySizes defs opt xs.length attr then "ok" else "err"} {showAccessors defs (accessors defs opt attr xs)}"))
     | _, _, _ => bad)
  -- definition ---------------------------------------------------------------------------------
  | ["opt", c, opt] =>
    (match s.getC c, parseOpt opt with
     | some cd, some opt => (s.setC c { cd with opt := opt }, "ok")
     | _, _ => bad)
  | ["seg", c, k, rc] =>
    (match s.getC c, parseSeg1 k, parseRangeC rc with
     | some cd, some k, some rc => (s.setC c { cd with segs := cd.segs ++ [{ kind := k, constr := rc }] }, "ok")
     | _, _, _ => bad)
  | ["seg", c, k, rc, "sb"] =>
    (match s.getC c, parseSeg1 k, parseRangeC rc with
     | some cd, some k, some rc =>
       (s.setC c { cd with segs := cd.segs ++ [{ kind := k, constr := rc, singleBlock := true }] }, "ok")
     | _, _, _ => bad)
  | ["store", c, w] =>
    (match s.getC c with
     | some cd => if w = "prop" ∨ w = "attr" then (s.setC c { cd with asProp := w == "prop" }, "ok") else bad
     | Option.none => bad)
  | ["pdef", name, req, c] =>
    (match name.toNat?, parseAttrC (c.splitOn ":") with
     | some name, some c =>
       ({ s with d := { s.d with props := s.d.props ++ [{ name := name, optional := req == "opt", constr := c }] } }, "ok")
     | _, _ => bad)
  | ["adef", name, req, c] =>
    (match name.toNat?, parseAttrC (c.splitOn ":") with
     | some name, some c =>
       ({ s with d := { s.d with attrs := s.d.attrs ++ [{ name := name, optional := req == "opt", constr := c }] } }, "ok")
     | _, _ => bad)
  | ["pdef", name, req, c, dflt] =>
    (match name.toNat?, parseAttrC (c.splitOn ":"), dflt.toNat? with
     | some name, some c, some v =>
       ({ s with d := { s.d with props := s.d.props ++ [{ name := name, optional := req == "opt", constr := c, default := some v }] } }, "ok")
     | _, _, _ => bad)
  | ["adef", name, req, c, dflt] =>
    (match name.toNat?, parseAttrC (c.splitOn ":"), dflt.toNat? with
     | some name, some c, some v =>
       ({ s with d := { s.d with attrs := s.d.attrs ++ [{ name := name, optional := req == "opt", constr := c, default := some v }] } }, "ok")
     | _, _, _ => bad)
  -- instance -----------------------------------------------------------------------------------
  | ["vals", "operand", tys] =>
    (match parseNats tys with
     | some tys => ({ s with o := { s.o with operands := tys } }, "ok")
     | Option.none => bad)
  | ["vals", "result", tys] =>
    (match parseNats tys with
     | some tys => ({ s with o := { s.o with results := tys } }, "ok")
     | Option.none => bad)
  | ["nsucc", n] =>
    (match n.toNat? with
     | some n => ({ s with o := { s.o with successors := n } }, "ok")
     | Option.none => bad)
  | ["region", blocks, args] =>
    (match blocks.toNat?, parseNats args with
     | some b, some args =>
       ({ s with o := { s.o with regions := s.o.regions ++ [{ blocks := b, entryArgs := args }] } }, "ok")
     | _, _ => bad)
  | ["sattr", c, a] =>
    (match parseSizeAttr a with
     | some a => (match s.setAttr c a with | some s' => (s', "ok") | Option.none => bad)
     | Option.none => bad)
  | ["prop", name, t] =>
    (match name.toNat?, t.toNat? with
     | some name, some t => ({ s with o := { s.o with props := s.o.props ++ [(name, t)] } }, "ok")
     | _, _ => bad)
  | ["attr", name, t] =>
    (match name.toNat?, t.toNat? with
     | some name, some t => ({ s with o := { s.o with attrs := s.o.attrs ++ [(name, t)] } }, "ok")
     | _, _ => bad)
  | ["rsattr", c, w, a] =>
    (match parseConstruct c, parseSizeAttr a with
     | some c, some a => if w = "prop" ∨ w = "attr" then (s.setRaw c (w == "prop") a, "ok") else bad
     | _, _ => bad)
  -- history: construction, deletions -------------------------------------------------------------
  | ["init"] => ({ s with o := construct s.d s.o }, "ok")
  | ["del", "prop", name] =>
    (match name.toNat? with
     | some name => ({ s with o := { s.o with props := AL.del s.o.props name } }, "ok")
     | Option.none => bad)
  | ["del", "attr", name] =>
    (match name.toNat? with
     | some name => ({ s with o := { s.o with attrs := AL.del s.o.attrs name } }, "ok")
     | Option.none => bad)
  | ["rdel", c, w] =>
    (match parseConstruct c with
     | some c => if w = "prop" ∨ w = "attr" then (s.delRaw c (w == "prop"), "ok") else bad
     | Option.none => bad)
  | "bshape" :: c :: toks =>
    (match parseConstruct c with
     | some c => ({ s with shapes := AL.set s.shapes c toks }, "ok")
     | Option.none => bad)
  | "buildop" :: order =>
    (match order.mapM parseConstruct,
           s.bargs .operand s.o.operands, s.bargs .result s.o.results,
           s.bargs .region s.o.regions, s.bargs .successor (List.replicate s.o.successors ()) with
     | some order, some ao, some ar, some ag, some as =>
       (match buildOp s.d order { operands := ao, results := ar, regions := ag, successors := as }
                s.o.props s.o.attrs with
        | some (o, raw) => ({ s with o := o, raw := raw }, "ok")
        | Option.none => (s, "err"))
     | _, _, _, _, _ => bad)
  -- observations -------------------------------------------------------------------------------
  | ["verify"] => (s, showVerify (verifyOpRaw s.d s.raw s.o))
  | ["dict", "props"] => (s, showDict s.o.props)
  | ["dict", "attrs"] => (s, showDict s.o.attrs)
  | ["dacc", "props"] => (s, showDictAcc s.d.props s.o.props)
  | ["dacc", "attrs"] => (s, showDictAcc s.d.attrs s.o.attrs)
  | ["rsizes"] => (s, showRaw s.raw)
  | ["acc", c] => (match s.access c with | some r => (s, r) | Option.none => bad)
  | _ => bad

end Xdsl.OpDef
