import XdslModel.RegAlloc
/-!
C19 — the STRUCTURED-LOOP part of the backward block-naive allocator of `xdsl/backend`.

* `LT`: a block as a chain of operations; an operation is either a plain register-allocatable
  instruction (`Op` of `XdslModel/RegMachine.lean`) or a loop with one body block:
  `riscv_scf.for` / `riscv_scf.rof` (`ForRofOperation`) and `riscv_snitch.frep_outer` / `frep_inner`
  (`FRepOperation`; no induction variable, the repetition count is read once before the loop).
* `liveIns`: `xdsl/backend/register_allocator.py::_live_ins_per_block` — an ORDERED set, the order
  decides which register a live-in receives.
* `allocT`: `BlockNaiveAllocator.allocate_block` over that chain (last operation first) with
  `ForRofOperation.allocate_registers` / `FRepOperation.allocate_registers`:
  live-ins first (`allocate_value`), every (block argument, iter_arg, yield operand, result) given one
  register by `allocate_values_same_reg`, induction variable, `ub`, `step`, (frep: `max_rep`),
  `reserve_registers(iter_args.types)` around the body, then `free_value(induction variable)` and
  `allocate_value(lb)`.  The stack is the full `RegisterStack` (`RStack` semantics of
  `XdslModel/RegAlloc.lean`: reservation counts, `push` ignores reserved registers, `pop` asserts that
  its result is not reserved); every stack call is logged (`LSt.log`) so that the proofs can speak
  about what was handed out.
* `new_type_for_value` of the RISC-V allocator asks `get_constant_value` at the moment of the
  allocation; that function looks at the CURRENT type of operation results (`value.type == zero`) and
  through `riscv.mv` — `isZeroNow`.
* `checkT` / `validateL`: the interference validator for blocks with loops (liveness through loops,
  ties of the loop-carried groups, what the loop lowering overwrites); on loop-free chains it is
  `RegAlloc.validate` (`XdslProofs.C19Loop.validateL_flat`).
* `canon` / `Disciplined`: the in/out discipline as a decidable predicate — the most permissive
  assignment (every value its own register except that tied values share one and pre-assigned values
  keep theirs) passes the validator.
* `runT` / `runR`: SSA execution and register-machine execution of a block with loops (the loop as
  `convert-riscv-scf-to-riscv-cf` lowers it), fuel-indexed.
-/
namespace Xdsl.RegAllocLoop
open Xdsl.RegMachine Xdsl.RegAlloc

/-- one loop operation (without its body) -/
structure Loop where
  /-- `lb`: read once before the loop (`mv iv, lb`) -/
  lb : Option ValId := none
  /-- `ub`: read by the loop test of every iteration -/
  ub : Option ValId := none
  /-- dynamic step (`step_val`), read by the increment of every iteration -/
  step : Option ValId := none
  /-- induction variable = first block argument (`none` for frep) -/
  iv : Option ValId := none
  /-- `frep`: `max_rep`, read once before the loop -/
  rep : Option ValId := none
  /-- static step -/
  imm : Int := 0
  inits : List ValId := []
  bargs : List ValId := []
  yields : List ValId := []
  res : List ValId := []
deriving Repr, DecidableEq

/-- a block: its operations in program order (one non-nested inductive: cons cells) -/
inductive LT
  | nil
  | op (o : Op) (next : LT)
  | loop (h : Loop) (body : LT) (next : LT)
deriving Repr

def LT.ofOps : List Op → LT
  | [] => .nil
  | o :: os => .op o (LT.ofOps os)

def optL : Option ValId → List ValId
  | none => []
  | some v => [v]

/-- the four values of every loop-carried group, positionally
(`zip(block_args[1:], iter_args, yield_op.operands, results)`) -/
def groups : List ValId → List ValId → List ValId → List ValId → List (List ValId)
  | b :: bs, i :: is, y :: ys, r :: rs => [b, i, y, r] :: groups bs is ys rs
  | _, _, _, _ => []

def Loop.groups (h : Loop) : List (List ValId) := RegAllocLoop.groups h.bargs h.inits h.yields h.res

/-- operands of the loop operation, in operand order -/
def Loop.operands (h : Loop) : List ValId :=
  optL h.lb ++ optL h.ub ++ optL h.step ++ optL h.rep ++ h.inits

/-- block arguments of the body -/
def Loop.bound (h : Loop) : List ValId := optL h.iv ++ h.bargs

/-! ## `live_ins_per_block` -/

/-- `OrderedSet.update` -/
def ounion (a b : List ValId) : List ValId :=
  b.foldl (fun acc x => if acc.contains x then acc else acc ++ [x]) a

/-- `OrderedSet.difference_update` -/
def odiff (a b : List ValId) : List ValId := a.filter fun x => !b.contains x

/-- the loop of `_live_ins_per_block` over the operations of a block, last operation first; `acc` is
the set after the operations that follow (the terminator first) -/
def liveAcc : LT → List ValId → List ValId
  | .nil, acc => acc
  | .op o next, acc => ounion (odiff (liveAcc next acc) o.defs) o.reads
  | .loop h body next, acc =>
    ounion (ounion (odiff (liveAcc next acc) h.res) h.operands)
      (odiff (liveAcc body (ounion [] h.yields)) h.bound)

/-- `live_ins_per_block[body block of the loop]` -/
def liveIns (h : Loop) (body : LT) : List ValId :=
  odiff (liveAcc body (ounion [] h.yields)) h.bound

/-! ## The allocator -/

inductive LErr
  | outOfRegisters | diagnostic | assertion | valueError
deriving Repr, DecidableEq

/-- what `get_constant_value` needs to know about the function: results of `li 0` / `get_register
zero` (`zk = 1`), `mv` results with their source (`zk = 2`), and which values are operation results -/
structure ZInfo where
  zk1 : List ValId := []
  mvs : AL ValId ValId := []
  opres : List ValId := []
deriving Repr

def zinfoOp (zi : ZInfo) (o : Op) : ZInfo :=
  { zk1 := if o.zk = 1 then zi.zk1 ++ o.defs else zi.zk1,
    mvs := if o.zk = 2 then zi.mvs ++ (o.defs.zip o.reads) else zi.mvs,
    opres := zi.opres ++ o.defs }

def zinfo : LT → ZInfo → ZInfo
  | .nil, zi => zi
  | .op o next, zi => zinfo next (zinfoOp zi o)
  | .loop h body next, zi => zinfo next (zinfo body { zi with opres := zi.opres ++ h.res })

/-- `get_constant_value(v)` is the constant 0, asked in allocator state `asg` -/
def isZeroNow (zi : ZInfo) (asg : AL ValId Reg) : Nat → ValId → Bool
  | 0, _ => false
  | n + 1, v =>
    zi.opres.contains v &&
      (AL.get asg v == some 0 || zi.zk1.contains v ||
        match AL.get zi.mvs v with
        | some x => isZeroNow zi asg n x
        | none => false)

structure LSt where
  st : St
  /-- `RegisterStack.reserved_registers` -/
  reserved : AL Reg Nat := []
  /-- every `RegisterStack` call so far with its result, newest first -/
  log : List (SOp × SOut) := []
deriving Repr

/-- the `RegisterStack` inside the allocator state -/
def LSt.stack (s : LSt) : RStack :=
  { allocatable := s.st.allocatable, nextInf := s.st.nextInf, reserved := s.reserved, avail := s.st.avail }

def LSt.isReserved (s : LSt) (r : Reg) : Bool := (AL.get s.reserved r).isSome

/-- `RegisterStack.push` -/
def pushR (c : Cfg) (s : LSt) (r : Reg) : LSt :=
  if s.isReserved r then { s with log := (.push r, .unit) :: s.log }
  else { s with st := push c s.st r, log := (.push r, .unit) :: s.log }

/-- `RegisterStack.pop` (with its final `assert`) -/
def popR (c : Cfg) (s : LSt) : Except LErr (Reg × LSt) :=
  match pop c s.st with
  | .error _ => .error .outOfRegisters
  | .ok (r, st') =>
    if s.isReserved r then .error .assertion
    else .ok (r, { s with st := st', log := (.pop, .reg r) :: s.log })

def reserveR (s : LSt) (r : Reg) : LSt :=
  { s with reserved := AL.set s.reserved r ((AL.get s.reserved r).getD 0 + 1),
           log := (.reserve r, .unit) :: s.log }

def unreserveR (s : LSt) (r : Reg) : Except LErr LSt :=
  match AL.get s.reserved r with
  | none => .error .valueError
  | some n =>
    .ok { s with reserved := if n - 1 = 0 then AL.del s.reserved r else AL.set s.reserved r (n - 1),
                 log := (.unreserve r, .unit) :: s.log }

def setReg (s : LSt) (v : ValId) (r : Reg) : LSt :=
  { s with st := { s.st with asg := AL.set s.st.asg v r } }

structure Ctx where
  c : Cfg
  zi : ZInfo
deriving Repr

/-- `allocate_value` with `RegisterAllocatorLivenessBlockNaive.new_type_for_value` -/
def allocValueR (x : Ctx) (s : LSt) (v : ValId) : Except LErr LSt :=
  if (AL.get s.st.asg v).isSome then .ok s
  else if x.c.z && isZeroNow x.zi s.st.asg (x.zi.mvs.length + 1) v then .ok (setReg s v 0)
  else
    match popR x.c s with
    | .error e => .error e
    | .ok (r, s') => .ok (setReg s' v r)

def dedup : List Nat → List Nat
  | [] => []
  | a :: r => if (dedup r).contains a then dedup r else a :: dedup r

/-- `allocate_values_same_reg` -/
def sameRegN (x : Ctx) (s : LSt) (vals : List ValId) : Except LErr LSt :=
  match dedup (vals.filterMap (AL.get s.st.asg)) with
  | [] =>
    if vals = [] then .ok s
    else
      match popR x.c s with
      | .error e => .error e
      | .ok (r, s') => .ok (vals.foldl (fun t v => setReg t v r) s')
  | [r] => .ok (vals.foldl (fun t v => if (AL.get t.st.asg v).isSome then t else setReg t v r) s)
  | _ => .error .diagnostic

def foldL {α β : Type} (f : β → α → Except LErr β) : β → List α → Except LErr β
  | s, [] => .ok s
  | s, a :: as =>
    match f s a with
    | .error e => .error e
    | .ok s' => foldL f s' as

/-- `free_value` -/
def freeValueR (c : Cfg) (s : LSt) (v : ValId) : LSt :=
  match AL.get s.st.asg v with
  | some r => pushR c s r
  | none => s

/-- `HasRegisterConstraints.allocate_registers` -/
def allocOpR (x : Ctx) (s : LSt) (o : Op) : Except LErr LSt :=
  match foldL (fun s p => sameRegN x s [p.1, p.2]) s o.ios with
  | .error e => .error e
  | .ok s1 =>
    match foldL (allocValueR x) s1 o.outs with
    | .error e => .error e
    | .ok s2 => foldL (allocValueR x) (o.outs.reverse.foldl (freeValueR x.c) s2) o.ins

/-- the registers of `self.iter_args.types`, read after the groups have been allocated -/
def regsOf (s : LSt) (vs : List ValId) : List Reg := vs.filterMap (AL.get s.st.asg)

/-- `BlockNaiveAllocator.allocate_block` (the terminator of a loop body, `yield`, is no
register-allocatable operation), `ForRofOperation.allocate_registers`, `FRepOperation.allocate_registers` -/
def allocT (x : Ctx) : LSt → LT → Except LErr LSt
  | s, .nil => .ok s
  | s, .op o next =>
    match allocT x s next with
    | .error e => .error e
    | .ok s1 => allocOpR x s1 o
  | s, .loop h body next =>
    match allocT x s next with
    | .error e => .error e
    | .ok s1 =>
    -- values used inside the body but defined outside
    match foldL (allocValueR x) s1 (liveIns h body) with
    | .error e => .error e
    | .ok s2 =>
    -- loop-carried groups
    match foldL (sameRegN x) s2 h.groups with
    | .error e => .error e
    | .ok s3 =>
    -- induction variable, ub, step (frep: max_rep)
    match foldL (allocValueR x) s3 (optL h.iv ++ optL h.ub ++ optL h.step ++ optL h.rep) with
    | .error e => .error e
    | .ok s4 =>
    let regs := regsOf s4 h.inits
    match allocT x (regs.foldl reserveR s4) body with
    | .error e => .error e
    | .ok s5 =>
    match foldL unreserveR s5 regs with
    | .error e => .error e
    | .ok s6 =>
      foldL (allocValueR x) ((optL h.iv).foldl (freeValueR x.c) s6) (optL h.lb)

/-! ### `allocate_func` -/

/-- values of the operations of a block, as far as `all_used_registers` looks at them: operands and
results of every register-allocatable operation and the block arguments of its regions (the operands
of `yield`, no register-allocatable operation, are not among them) -/
def valsT : LT → List ValId
  | .nil => []
  | .op o next => o.reads ++ o.defs ++ valsT next
  | .loop h body next => h.operands ++ h.res ++ h.bound ++ valsT body ++ valsT next

structure LProg where
  args : List ValId := []
  body : LT := .nil
  rets : List ValId := []
deriving Repr

def usedPreT (pre : AL ValId Reg) (p : LProg) : List Reg :=
  (valsT p.body ++ p.rets).filterMap (AL.get pre)

/-- `RegisterStack.get(pool)`, then `exclude_register` of every pre-assigned register in use and of
every register that an operation declares as excluded -/
def initL (pool excl : List Reg) (pre : AL ValId Reg) (p : LProg) : LSt :=
  let used := usedPreT pre p
  let stack := pool.foldl (fun st r => r :: st.filter (· != r)) []
  let keep := fun r => !used.contains r && !excl.contains r
  { st := { asg := pre, avail := stack.filter keep, allocatable := pool.filter keep, nextInf := 0 } }

def ctxOf (c : Cfg) (p : LProg) : Ctx := { c := c, zi := zinfo p.body {} }

/-- `allocate_func`: the terminator (`riscv_func.return`, its operands are `ins`), then the block -/
def allocFunc (c : Cfg) (pool excl : List Reg) (pre : AL ValId Reg) (p : LProg) : Except LErr LSt :=
  match foldL (allocValueR (ctxOf c p)) (initL pool excl pre p) p.rets with
  | .error e => .error e
  | .ok s => allocT (ctxOf c p) s p.body

/-! ## The validator for blocks with loops -/

/-- set union, order irrelevant -/
def uni (a b : List ValId) : List ValId := a ++ b.filter fun x => !a.contains x

/-- no two different values of `L` share a register (values in the hard-wired zero register do not
interfere) -/
def pwB (z : Bool) (a : ValId → Reg) (L : List ValId) : Bool :=
  L.all fun v => L.all fun w => v == w || a v != a w || (z && a v == 0)

/-- writing the register of `d` does not hit a value of `L` -/
def defFree (a : ValId → Reg) (d : ValId) (L : List ValId) : Bool :=
  L.all fun w => w == d || a w != a d

def tiedB (a : ValId → Reg) : List ValId → Bool
  | [] => true
  | v :: vs => vs.all fun w => a w == a v

/-- the shape of a loop operation: `lb`, `ub` and the induction variable come together (`for`),
a dynamic step needs an induction variable, a repetition count (`frep`) excludes one; as many block
arguments, yielded values and results as iter_args -/
def shapeOk (h : Loop) : Bool :=
  (h.iv.isSome == h.lb.isSome) && (h.iv.isSome == h.ub.isSome) && (!h.step.isSome || h.iv.isSome)
  && (!h.rep.isSome || !h.iv.isSome)
  && h.bargs.length == h.inits.length && h.yields.length == h.inits.length && h.res.length == h.inits.length

/-- What must hold at one loop.  `L'`: live after the loop; `through`: live throughout the loop;
`bodyOut` / `bodyIn`: live at the end / at the start of the body; `atEntry`: live whenever the body is
entered. -/
def loopOk (z : Bool) (a : ValId → Reg) (Z : List ValId) (h : Loop)
    (L' through bodyOut bodyIn atEntry : List ValId) : Bool :=
  shapeOk h
  -- the values that the loop binds are new
  && decide (h.bound ++ h.res).Nodup
  && (h.bound ++ h.res).all (fun v => !Z.contains v && !through.contains v)
  -- loop-carried groups: one register (the lowering moves nothing)
  && h.groups.all (tiedB a)
  -- loop-bound values are never the constant 0 as far as this validator knows
  && (!z || (h.bound ++ h.res).all fun v => a v != 0)
  -- what the loop exit defines
  && h.res.all (fun d => defFree a d (L'.filter fun w => !h.res.contains w))
  && pwB z a L'
  -- end of the body: the increment reads and writes iv, the yielded values sit in the registers of
  -- the block arguments
  && pwB z a bodyOut
  && (optL h.iv).all (fun d => h.yields.all fun y => a y != a d)
  -- whatever is needed when an iteration starts is still there after the previous one
  && bodyIn.all (fun v => h.bound.contains v || through.contains v)
  && pwB z a atEntry
  -- `mv iv, lb`
  && (optL h.iv).all (fun d => ((atEntry.filter fun w => !h.bound.contains w) ++ h.inits).all fun w => a w != a d)

/-- live throughout the loop: what is live after it (except its results), the live-ins of the body,
`ub` and the dynamic step -/
def throughOf (h : Loop) (body : LT) (L' : List ValId) : List ValId :=
  uni (uni (L'.filter fun w => !h.res.contains w) (liveIns h body)) (optL h.ub ++ optL h.step)

/-- live at the end of the body -/
def bodyOutOf (h : Loop) (through : List ValId) : List ValId := uni (uni through (optL h.iv)) h.yields

/-- live whenever the body is entered -/
def atEntryOf (h : Loop) (bodyIn through : List ValId) : List ValId := uni (uni bodyIn through) (optL h.iv)

/-- live before the loop operation -/
def beforeOf (h : Loop) (atEntry : List ValId) : List ValId :=
  uni (uni (atEntry.filter fun w => !h.bound.contains w) (optL h.lb ++ optL h.rep)) h.inits

/-- Zero-knowledge `Z` flows forwards (argument), liveness backwards (result), as in
`RegAlloc.checkOps`. -/
def checkT (z : Bool) (a : ValId → Reg) : List ValId → LT → List ValId → Option (List ValId)
  | _, .nil, L => some L
  | Z, .op o next, L =>
    match checkT z a (Z ++ newZero true Z o) next L with
    | none => none
    | some L' => if opOk z a Z (Z ++ newZero true Z o) o L' then some (liveIn o L') else none
  | Z, .loop h body next, L =>
    match checkT z a Z next L with
    | none => none
    | some L' =>
      match checkT z a Z body (bodyOutOf h (throughOf h body L')) with
      | none => none
      | some bodyIn =>
        if loopOk z a Z h L' (throughOf h body L') (bodyOutOf h (throughOf h body L')) bodyIn
            (atEntryOf h bodyIn (throughOf h body L')) then
          some (beforeOf h (atEntryOf h bodyIn (throughOf h body L')))
        else none

/-- the liveness part of `checkT` alone: live before the block when `L` is live after it -/
def liveT : LT → List ValId → List ValId
  | .nil, L => L
  | .op o next, L => liveIn o (liveT next L)
  | .loop h body next, L =>
    beforeOf h (atEntryOf h (liveT body (bodyOutOf h (throughOf h body (liveT next L))))
      (throughOf h body (liveT next L)))

def validateL (z : Bool) (a : ValId → Reg) (p : LProg) : Bool :=
  match checkT z a [] p.body p.rets with
  | none => false
  | some L0 =>
    L0.all (fun v => p.args.contains v)
    && decide (p.args.map a).Nodup
    && (!z || p.args.all fun v => a v != 0)

/-! ## The in/out discipline -/

/-- pairs of values that the instruction set / the loop lowering ties to one register -/
def tiesT : LT → List (ValId × ValId)
  | .nil => []
  | .op o next => o.ios ++ tiesT next
  | .loop h body next =>
    (h.groups.flatMap fun g => match g with
      | [b, i, y, r] => [(i, b), (i, y), (i, r)]
      | _ => []) ++ tiesT body ++ tiesT next

def allValsT : LT → List ValId
  | .nil => []
  | .op o next => o.reads ++ o.defs ++ allValsT next
  | .loop h body next => h.operands ++ h.res ++ h.bound ++ h.yields ++ allValsT body ++ allValsT next

def LProg.values (p : LProg) : List ValId := p.args ++ allValsT p.body ++ p.rets

/-- union-find by relabelling: `rep` maps every value to the representative of its class -/
def mergeTie (rep : AL ValId ValId) (t : ValId × ValId) : AL ValId ValId :=
  let ra := (AL.get rep t.1).getD t.1
  let rb := (AL.get rep t.2).getD t.2
  if ra = rb then rep else rep.map fun kv => if kv.2 = ra then (kv.1, rb) else kv

def classes (p : LProg) : AL ValId ValId :=
  (tiesT p.body).foldl mergeTie (p.values.map fun v => (v, v))

/-- registers ≥ `virtBase` are the virtual registers of the canonical assignment -/
def virtBase : Nat := 1000000

/-- The most permissive assignment: a pre-assigned value keeps its register; a class of tied values
with a pre-assigned member sits in that member's register; every other class has a register of its
own. -/
def canon (pre : AL ValId Reg) (p : LProg) : ValId → Reg :=
  let cl := classes p
  fun v =>
    match AL.get pre v with
    | some r => r
    | none =>
      let c := (AL.get cl v).getD v
      match cl.findSome? fun kv => if kv.2 = c then AL.get pre kv.1 else none with
      | some r => r
      | none => virtBase + c

/-- **The in/out discipline**: ties and pre-assignment are consistent with liveness. -/
def Disciplined (z : Bool) (pre : AL ValId Reg) (p : LProg) : Bool := validateL z (canon pre p) p

/-! ## The side conditions of the allocator theorem, as executable checks

`XdslProofs.C19Loop.alloc_loops_no_interference_partial` is stated for inputs that pass `thmHyps`
(`XdslProofs/Lemmas/RegAllocLoopMain.lean::WfT` is the logical reading of `wfB`). -/

/-- values that a block defines: results of its operations, block arguments and results of its loops -/
def defsT : LT → List ValId
  | .nil => []
  | .op o next => o.defs ++ defsT next
  | .loop h body next => h.bound ++ h.res ++ defsT body ++ defsT next

/-- header values of a loop operation -/
def Loop.hdr (h : Loop) : List ValId := h.operands ++ h.res ++ h.bound ++ h.yields

def notIn (l : List ValId) (v : ValId) : Bool := !l.contains v

/-- SSA form and scoping, only `riscv_scf.for` loops, no in/out instruction; loop-carried values are
local to their loop (a yielded value is not live throughout the loop, no value is yielded twice, bounds
are not loop-carried, results are new) and none of them is a zero constant -/
def wfB (U Zc : List ValId) : LT → List ValId → Bool
  | .nil, _ => true
  | .op o next, L =>
    o.ios.isEmpty && o.reads.all (notIn o.defs)
    && (o.reads ++ o.defs).all (fun v => notIn (defsT next) v && U.contains v) && wfB U Zc next L
  | .loop h body next, L =>
    h.rep.isNone
    && (h.hdr ++ allValsT body).all (fun v => notIn (defsT next) v && U.contains v)
    && h.yields.all (notIn (throughOf h body (liveT next L))) && decide h.yields.Nodup
    && h.res.all (fun r => notIn h.yields r && notIn h.inits r && notIn (allValsT body) r)
    && (h.bound ++ h.inits ++ h.yields ++ h.res).all (notIn Zc)
    && h.operands.all (fun v => notIn h.bound v && notIn h.res v && notIn (defsT body) v)
    && (optL h.ub ++ optL h.step ++ optL h.lb).all (fun v => notIn h.inits v && notIn h.yields v)
    && h.bound.all (notIn (defsT body))
    && (optL h.iv).all (notIn h.yields)
    && (throughOf h body (liveT next L)).all (notIn (defsT body))
    && wfB U Zc body (bodyOutOf h (throughOf h body (liveT next L))) && wfB U Zc next L

/-- the zero constants that `get_constant_value` can find without looking at the allocation state -/
def zcOf (zi : ZInfo) : List ValId :=
  zi.opres.filter fun v => isZeroNow zi [] (zi.mvs.length + 1) v

def zclosedB (zi : ZInfo) (Zc : List ValId) : Bool :=
  zi.opres.all fun v =>
    (!zi.zk1.contains v || Zc.contains v)
    && match AL.get zi.mvs v with
       | some x => !Zc.contains x || Zc.contains v
       | none => true

/-- the validator knows the zero constants where they are defined -/
def zcOkB (Zc : List ValId) : List ValId → LT → Bool
  | _, .nil => true
  | Z, .op o next =>
    o.defs.all (fun d => !Zc.contains d || (Z ++ newZero true Z o).contains d)
    && zcOkB Zc (Z ++ newZero true Z o) next
  | Z, .loop _ body next => zcOkB Zc Z body && zcOkB Zc Z next

/-- everything the allocator theorem assumes about the input besides the in/out discipline -/
def thmHyps (c : Cfg) (pool : List Reg) (pre : AL ValId Reg) (p : LProg) : Bool :=
  let zi := zinfo p.body {}
  let Zc := zcOf zi
  pool.all (fun r => decide (r < c.infBase) && (!c.z || r != 0))
  && pre.all (fun kv => decide (kv.2 < c.infBase))
  && (!c.z || decide (0 < c.infBase))
  && p.args.all (fun v => (AL.get pre v).isSome)
  && wfB (valsT p.body ++ p.rets) Zc p.body p.rets
  && zclosedB zi Zc && zcOkB Zc [] p.body
  && (!c.z || zi.opres.all fun w => AL.get pre w != some 0 || Zc.contains w)

/-! ## Execution of blocks with loops -/

structure LSem where
  f : Sem
  /-- the loop test `blt` -/
  lt : Word → Word → Bool
  /-- the increment `add` / `addi` -/
  add : Word → Word → Word
  /-- the number of repetitions that `frep` makes of a count -/
  cnt : Word → Nat

/-- simultaneous assignment `ds := xs` -/
def bindVals (ds : List ValId) (xs : List Word) (e : ValId → Word) : ValId → Word :=
  writeVals (fun i => xs.getD i 0) 0 ds e

inductive Mode
  | start
  /-- at the loop test, `k` repetitions left (frep) -/
  | head (k : Nat)

/-- the number of repetitions of a `frep` loop (read once), given how values are read -/
def Loop.count (h : Loop) (m : LSem) (rd : ValId → Word) : Nat :=
  match h.rep with
  | some r => m.cnt (rd r)
  | none => 0

/-- the loop test: `blt iv, ub` for a `for` loop, "repetitions left" for `frep` -/
def Loop.goes (h : Loop) (m : LSem) (rd : ValId → Word) (k : Nat) : Bool :=
  match h.iv, h.ub with
  | some iv, some ub => m.lt (rd iv) (rd ub)
  | _, _ => decide (0 < k)

/-- the step: dynamic (`step_val`) or static -/
def Loop.stepVal (h : Loop) (rd : ValId → Word) : Word :=
  match h.step with
  | some s => rd s
  | none => h.imm

/-- SSA execution.  `none`: out of fuel. -/
def runT (m : LSem) : Nat → Mode → (ValId → Word) → LT → Option (ValId → Word)
  | 0, _, _, _ => none
  | _ + 1, _, env, .nil => some env
  | n + 1, _, env, .op o next => runT m n .start (stepSSA m.f env o) next
  | n + 1, .start, env, .loop h body next =>
    -- iv := lb; block arguments := inits; frep: the count is read once
    runT m n (.head (h.count m env))
      (bindVals (optL h.iv ++ h.bargs) ((optL h.lb ++ h.inits).map env) env) (.loop h body next)
  | n + 1, .head k, env, .loop h body next =>
    if h.goes m env k then
      match runT m n .start env body with
      | none => none
      | some env2 =>
        -- iv := iv + step; block arguments := yielded values
        runT m n (.head (k - 1))
          (bindVals (optL h.iv ++ h.bargs)
            (((optL h.iv).map fun iv => m.add (env2 iv) (h.stepVal env2)) ++ h.yields.map env2) env2)
          (.loop h body next)
    else
      -- results := block arguments
      runT m n .start (bindVals h.res (h.bargs.map env) env) next

/-- `mv iv, lb` -/
def Loop.enterR (h : Loop) (z : Bool) (a : ValId → Reg) (rf : Reg → Word) : Reg → Word :=
  match h.iv, h.lb with
  | some iv, some lb => writeReg z rf (a iv) (readReg z rf (a lb))
  | _, _ => rf

/-- `add iv, iv, step` / `addi iv, iv, imm` -/
def Loop.advanceR (h : Loop) (z : Bool) (a : ValId → Reg) (m : LSem) (rf : Reg → Word) : Reg → Word :=
  match h.iv with
  | some iv =>
    writeReg z rf (a iv) (m.add (readReg z rf (a iv)) (h.stepVal fun v => readReg z rf (a v)))
  | none => rf

/-- Register machine: `mv iv, lb`; test; body; `iv += step`; test; block arguments, yielded values
and results are carried by register identity (no instruction). -/
def runR (z : Bool) (a : ValId → Reg) (m : LSem) : Nat → Mode → (Reg → Word) → LT → Option (Reg → Word)
  | 0, _, _, _ => none
  | _ + 1, _, rf, .nil => some rf
  | n + 1, _, rf, .op o next => runR z a m n .start (stepRegs z a m.f rf o) next
  | n + 1, .start, rf, .loop h body next =>
    runR z a m n (.head (h.count m fun v => readReg z rf (a v))) (h.enterR z a rf) (.loop h body next)
  | n + 1, .head k, rf, .loop h body next =>
    if h.goes m (fun v => readReg z rf (a v)) k then
      match runR z a m n .start rf body with
      | none => none
      | some rf2 => runR z a m n (.head (k - 1)) (h.advanceR z a m rf2) (.loop h body next)
    else runR z a m n .start rf next

def execT (m : LSem) (fuel : Nat) (p : LProg) (inputs : List Word) : Option (List Word) :=
  (runT m fuel .start (initEnv p.args inputs) p.body).map fun env => p.rets.map env

def execR (z : Bool) (a : ValId → Reg) (m : LSem) (fuel : Nat) (p : LProg) (inputs : List Word)
    (rf0 : Reg → Word) : Option (List Word) :=
  (runR z a m fuel .start (initRegs z a p.args inputs rf0) p.body).map fun rf =>
    p.rets.map fun v => readReg z rf (a v)

/-! ## Line protocol (driver model `regalloc_loop`)

`lalloc    <prog> ; pre v r .. ; pool r .. ; opt z inf infbase [; excl r ..]`
`lvalidate <prog> ; pre .. ; pool .. ; opt .. ; asg v r .. [; excl r ..]`
`ldisc     <prog> ; pre .. ; opt ..`
`livein    <prog>`                                  (the live-in list of every loop, in walk order)
`<prog>` = `args a .. ; <item> ; .. ; ret v ..`, `<item>` = `op ..` (as for `regalloc`) |
`for lb v? ub v? st v? iv v? rep v? imm n in v.. ba v.. yi v.. re v..` `;` items of the body `;` `end` -/

/-- split the words after `for` into keyword groups: a keyword followed by its numbers -/
def kwGroups (ws : List String) : List (String × List String) :=
  (ws.foldl (fun acc w =>
    if w.toInt?.isSome then
      match acc with
      | (k, vs) :: r => (k, vs ++ [w]) :: r
      | [] => [("", [w])]
    else (w, []) :: acc) []).reverse

def kwNats (g : List (String × List String)) (k : String) : Option (List Nat) :=
  match g.find? (·.1 = k) with
  | none => some []
  | some (_, vs) => nats vs

def optOf : List Nat → Option (Option Nat)
  | [] => some none
  | [v] => some (some v)
  | _ => none

def parseLoop (ws : List String) : Option Loop := do
  let g := kwGroups ws
  let lb ← (kwNats g "lb").bind optOf
  let ub ← (kwNats g "ub").bind optOf
  let st ← (kwNats g "st").bind optOf
  let iv ← (kwNats g "iv").bind optOf
  let rep ← (kwNats g "rep").bind optOf
  let imm ← match g.find? (·.1 = "imm") with
    | some (_, [i]) => i.toInt?
    | none => some 0
    | _ => none
  let inits ← kwNats g "in"
  let bargs ← kwNats g "ba"
  let yields ← kwNats g "yi"
  let res ← kwNats g "re"
  pure { lb := lb, ub := ub, step := st, iv := iv, rep := rep, imm := imm, inits := inits,
         bargs := bargs, yields := yields, res := res }

/-- items of one block up to its `end` (or the end of the input); returns the rest -/
def parseItems : Nat → List (List String) → Option (LT × List (List String))
  | 0, _ => none
  | _ + 1, [] => some (.nil, [])
  | n + 1, sec :: rest =>
    match sec with
    | ["end"] => some (.nil, rest)
    | "op" :: r =>
      match parseOp r, parseItems n rest with
      | some o, some (t, rest') => some (.op o t, rest')
      | _, _ => none
    | "for" :: r =>
      match parseLoop r, parseItems n rest with
      | some h, some (body, rest1) =>
        match parseItems n rest1 with
        | some (t, rest2) => some (.loop h body t, rest2)
        | none => none
      | _, _ => none
    | _ => none

structure LQuery where
  prog : LProg := {}
  pre : AL ValId Reg := []
  pool : List Reg := []
  cfg : Cfg := { z := false, allowInf := false, infBase := 1000 }
  asg : AL ValId Reg := []
  excl : List Reg := []

def isItem (sec : List String) : Bool :=
  match sec with
  | "op" :: _ => true
  | "for" :: _ => true
  | ["end"] => true
  | _ => false

def parseOther (q : LQuery) (ws : List String) : Option LQuery :=
  match ws with
  | "args" :: r => (nats r).map fun a => { q with prog := { q.prog with args := a } }
  | "ret" :: r => (nats r).map fun a => { q with prog := { q.prog with rets := a } }
  | "pre" :: r => ((nats r).bind pairs).map fun a => { q with pre := a }
  | "pool" :: r => (nats r).map fun a => { q with pool := a }
  | ["opt", z, inf, base] => do
    let z ← z.toNat?
    let inf ← inf.toNat?
    let base ← base.toNat?
    pure { q with cfg := { z := z != 0, allowInf := inf != 0, infBase := base } }
  | "asg" :: r => ((nats r).bind pairs).map fun a => { q with asg := a }
  | "excl" :: r => (nats r).map fun a => { q with excl := a }
  | _ => none

def parseLQuery (ws : List String) : Option LQuery :=
  let secs := splitOn ";" ws
  let items := secs.filter isItem
  let others := secs.filter fun s => !isItem s
  match parseItems (items.length + 2) items with
  | some (t, []) => (others.foldlM parseOther {}).map fun q => { q with prog := { q.prog with body := t } }
  | _ => none

def showLErr : LErr → String
  | .outOfRegisters => "raise OutOfRegisters"
  | .diagnostic => "raise DiagnosticException"
  | .assertion => "raise AssertionError"
  | .valueError => "raise ValueError"

def liveInsAll : LT → List (List ValId)
  | .nil => []
  | .op _ next => liveInsAll next
  | .loop h body next => liveIns h body :: (liveInsAll body ++ liveInsAll next)

def lineStep (s : Unit) (line : String) : Unit × String :=
  match words line with
  | "lalloc" :: r =>
    match parseLQuery r with
    | none => (s, "bad-op")
    | some q =>
      match allocFunc q.cfg q.pool q.excl q.pre q.prog with
      | .ok t => (s, "alloc " ++ showAsg t.st.asg)
      | .error e => (s, showLErr e)
  | "lvalidate" :: r =>
    match parseLQuery r with
    | none => (s, "bad-op")
    | some q =>
      if !(q.prog.values.all fun v => (AL.get q.asg v).isSome) then (s, "invalid unassigned-value")
      else if !respectsPre q.pre q.asg then (s, "invalid pre-assigned-register-changed")
      else if !exclOk q.excl q.pre q.asg then (s, "invalid reserved-register-handed-out")
      else if validateL q.cfg.z (allocOf q.asg) q.prog then (s, "valid")
      else (s, "invalid interference")
  | "ldisc" :: r =>
    match parseLQuery r with
    | none => (s, "bad-op")
    | some q => (s, if Disciplined q.cfg.z q.pre q.prog then "disciplined" else "undisciplined")
  | "lthm" :: r =>
    -- the hypotheses of the allocator theorem, the discipline, and what the theorem promises
    match parseLQuery r with
    | none => (s, "bad-op")
    | some q =>
      let hyp := thmHyps q.cfg q.pool q.pre q.prog
      let disc := Disciplined q.cfg.z q.pre q.prog
      let res := match allocFunc q.cfg q.pool q.excl q.pre q.prog with
        | .ok t => if validateL q.cfg.z (allocOf t.st.asg) q.prog then "valid" else "INVALID"
        | .error _ => "failed"
      (s, s!"thm hyps={if hyp then 1 else 0} disc={if disc then 1 else 0} alloc={res}")
  | "livein" :: r =>
    match parseLQuery r with
    | none => (s, "bad-op")
    | some q =>
      (s, "livein " ++ " | ".intercalate ((liveInsAll q.prog.body).map fun l => " ".intercalate (l.map toString)))
  | _ => (s, "bad-op")

end Xdsl.RegAllocLoop
