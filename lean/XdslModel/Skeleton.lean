import XdslModel.Names
/-!
Token-level skeleton of the *generic* operation form (C04).

* `Tree V B L` — IR trees: one non-nested inductive whose constructors are list cells
  (`op hdr regions next | region blocks next | block label args ops next | nil`).
  `IR = Tree Nat Nat Nat` refers to SSA values and blocks by identity (natural numbers),
  `NTree = Tree Str Str (Option Str)` by the names of the text (an entry block whose label is not
  printed has label `none`).  Attributes and types are opaque balanced token groups (`Opq`);
  `fn` says that the group starts with `(` (a function type), which is all the generic syntax
  looks at.  Attribute keys are opaque too; `bare` says whether the key is printed as a bare
  identifier or as a string literal.
* `pr : NTree → List Tok` — `Printer.print_op` (generic branch), `print_op_with_default_format`,
  `print_operands`, `print_successors`, `_print_op_properties`, `print_regions`, `print_region`,
  `print_block`, `print_block_argument`, `print_op_attributes`, `print_function_type`
  (`xdsl/printer.py`), without whitespace.  `nameT nv nb : IR → NTree` puts in the names a
  name assignment gives (the assignment itself is `XdslModel/Names.lean`) and decides as
  `print_region` does whether the label of an entry block is printed.
  `printSk nv nb ir = pr (nameT nv nb false ir)`.
* `paOps/paRegions/paBlocks : List Tok → Option (NTree × List Tok)` — the grammar the parser
  accepts: `Parser.parse_optional_operation`, `parse_operation` (generic branch),
  `_parse_op_result_list`, `_parse_generic_operation`, `parse_op_args_list`,
  `parse_optional_successors`, `parse_optional_properties_dict`, `parse_region_list`,
  `parse_optional_region`, `_parse_block`, `_parse_optional_block_arg_list`, `_parse_block_body`,
  `parse_optional_attr_dict`, `parse_function_type` (`xdsl/parser/core.py`,
  `xdsl/parser/attribute_parser.py`), including the duplicate-key errors and the "properties
  retro-compatibility" move of inherent attributes out of the attribute dictionary (`defs` gives
  the property names of an operation definition).
* `res : PS → NTree → Option (PS × IR)` — the symbol tables of the parser, in the order in which
  the parser acts on them: `ssa_values` (copied at region entry, restored at region exit),
  `forward_ssa_references` (global), `blocks` / `forward_block_references` (fresh per region,
  "region ends with missing block declarations"), `parse_optional_successor`,
  `resolve_operands` (after the regions of the operation), `_register_ssa_definition` (results
  after the operation is built, block arguments in `_parse_optional_block_arg_list`), the
  result-count check of `parse_operation`, "values used but not defined" at the end of
  `parse_module`.
  `parseSk defs toks = paOps … toks >>= res`.  The real parser interleaves the two; the symbol
  tables never influence which tokens are consumed, they only make the parse fail, so the
  composition is the same partial function.

Representation of object identity in `res`: a fresh number per created `Block` / `SSAValue`.
A `ForwardDeclaredValue` and the definition that later replaces it are ONE node of the result
(`replace_all_uses_with` + dropping the placeholder = the definition takes the placeholder's
number; the type check between the two is kept).

Not modelled (the generic printer never emits them): result tuples `%x:3` / `%x#1`, locations,
custom-format operations (a bare identifier at operation position makes `paOps` fail), the
implicit `builtin.module` wrapper of `parse_module` (the top level is an operation list).

`walk nv nb` is the specification side: the same scoping discipline on the IR itself (values and
blocks keyed by identity), which in addition demands that identities are fresh when first met
and that no two live values / blocks of a region share a name.  It is the hypothesis of the
round-trip theorem (`XdslProofs/C04Skeleton.lean`) and is evaluated on every module the harness
serialises.
-/
namespace Xdsl.Skeleton

abbrev Str := Names.Str

/-- an opaque balanced token group (attribute or type); `fn`: it starts with `(` -/
structure Opq where
  id : Nat
  fn : Bool
deriving DecidableEq, Repr

/-- an attribute / property name; `bare`: printed as identifier, else as string literal -/
structure Key where
  id : Nat
  bare : Bool
deriving DecidableEq, Repr

/-- `name` or `name = attr` (`UnitAttr` is printed as the name alone) -/
abbrev Entry := Key × Option Opq

inductive Tok where
  | pct (n : Str)
  | caret (n : Str)
  | str (k : Nat)
  | bare (k : Nat)
  | opq (a : Opq)
  | lparen | rparen | lbrace | rbrace | lsq | rsq | lt | gt | comma | eq | colon | arrow
deriving DecidableEq, Repr

structure Hdr (V B : Type) where
  results : List V
  name : Nat
  operands : List V
  succs : List B
  props : List Entry
  attrs : List Entry
  inTys : List Opq
  outTys : List Opq
deriving Repr

inductive Tree (V B L : Type) where
  | nil
  | op (h : Hdr V B) (regions next : Tree V B L)
  | region (blocks next : Tree V B L)
  | block (lab : L) (args : List (V × Opq)) (ops next : Tree V B L)
deriving Repr

abbrev IR := Tree Nat Nat Nat
abbrev NTree := Tree Str Str (Option Str)

def Tree.isNil {V B L : Type} : Tree V B L → Bool
  | .nil => true
  | _ => false

/-! ### printing -/

def keyTok (k : Key) : Tok := if k.bare then .bare k.id else .str k.id

/-- `print_list(xs, print_ssa_value)` -/
def prVals : List Str → List Tok
  | [] => []
  | [a] => [.pct a]
  | a :: b :: r => .pct a :: .comma :: prVals (b :: r)

/-- `print_list(xs, print_block_name)` -/
def prCarets : List Str → List Tok
  | [] => []
  | [a] => [.caret a]
  | a :: b :: r => .caret a :: .comma :: prCarets (b :: r)

/-- `print_list(xs, print_attribute)` -/
def prTys : List Opq → List Tok
  | [] => []
  | [a] => [.opq a]
  | a :: b :: r => .opq a :: .comma :: prTys (b :: r)

/-- `_print_attr_string` -/
def prEntry : Entry → List Tok
  | (k, none) => [keyTok k]
  | (k, some a) => [keyTok k, .eq, .opq a]

/-- `print_list(attr_dict.items(), _print_attr_string)` -/
def prEntries : List Entry → List Tok
  | [] => []
  | [e] => prEntry e
  | e :: f :: r => prEntry e ++ .comma :: prEntries (f :: r)

/-- `print_list(block.args, print_block_argument)` -/
def prArgs : List (Str × Opq) → List Tok
  | [] => []
  | [(a, t)] => [.pct a, .colon, .opq t]
  | (a, t) :: b :: r => .pct a :: .colon :: .opq t :: .comma :: prArgs (b :: r)

/-- the result part of `print_function_type` -/
def prOuts : List Opq → List Tok
  | [] => [.lparen, .rparen]
  | [t] => if t.fn then [.lparen, .opq t, .rparen] else [.opq t]
  | ts => .lparen :: prTys ts ++ [.rparen]

/-- `_print_results`, the quoted name, `print_operands`, `print_successors`,
`_print_op_properties` -/
def prHead (h : Hdr Str Str) : List Tok :=
  (if h.results.isEmpty then [] else prVals h.results ++ [.eq]) ++
  .str h.name :: .lparen :: prVals h.operands ++ .rparen ::
  ((if h.succs.isEmpty then [] else .lsq :: prCarets h.succs ++ [.rsq]) ++
   (if h.props.isEmpty then [] else .lt :: .lbrace :: prEntries h.props ++ [.rbrace, .gt]))

/-- `print_op_attributes`, ` : `, `print_operation_type` -/
def prTail (h : Hdr Str Str) : List Tok :=
  (if h.attrs.isEmpty then [] else .lbrace :: prEntries h.attrs ++ [.rbrace]) ++
  .colon :: .lparen :: prTys h.inTys ++ .rparen :: .arrow :: prOuts h.outTys

/-- the label line of `print_block` -/
def prLabel : Option Str → List (Str × Opq) → List Tok
  | none, _ => []
  | some n, [] => [.caret n, .colon]
  | some n, args => .caret n :: .lparen :: prArgs args ++ [.rparen, .colon]

/-- an operation list / the regions of an operation (from the first `{` to the closing `)`) /
the blocks of a region -/
def pr : NTree → List Tok
  | .nil => []
  | .op h rs nx =>
    prHead h ++ (match rs with | .nil => [] | _ => .lparen :: pr rs) ++ prTail h ++ pr nx
  | .region bs nx =>
    .lbrace :: pr bs ++ .rbrace :: (match nx with | .nil => [.rparen] | _ => .comma :: pr nx)
  | .block lab args ops nx => prLabel lab args ++ pr ops ++ pr nx

/-! ### from identities to names -/

def Hdr.map {V B V' B' : Type} (f : V → V') (g : B → B') (h : Hdr V B) : Hdr V' B' :=
  { results := h.results.map f, name := h.name, operands := h.operands.map f,
    succs := h.succs.map g, props := h.props, attrs := h.attrs, inTys := h.inTys,
    outTys := h.outTys }

/-- every successor reference in a tree -/
def succRefs {V B L : Type} : Tree V B L → List B
  | .nil => []
  | .op h rs nx => h.succs ++ (succRefs rs ++ succRefs nx)
  | .region bs nx => succRefs bs ++ succRefs nx
  | .block _ _ ops nx => succRefs ops ++ succRefs nx

/-- `print_region`: `(bool(entry_block.args) or entry_block.first_use is not None) or
not entry_block.ops` for the entry block `block b args ops nx` (`nx`: the other blocks) -/
def entryLabelled (b : Nat) (args : List (Nat × Opq)) (ops nx : IR) : Bool :=
  !args.isEmpty || (succRefs ops ++ succRefs nx).contains b || ops.isNil

def mapArgs {V V' : Type} (f : V → V') (args : List (V × Opq)) : List (V' × Opq) :=
  args.map fun a => (f a.1, a.2)

/-- `entry`: the cell is the first block of its region -/
def nameT (nv nb : Nat → Str) : Bool → IR → NTree
  | _, .nil => .nil
  | _, .op h rs nx => .op (h.map nv nb) (nameT nv nb false rs) (nameT nv nb false nx)
  | _, .region bs nx => .region (nameT nv nb true bs) (nameT nv nb false nx)
  | e, .block b args ops nx =>
    .block (if e && !entryLabelled b args ops nx then none else some (nb b))
      (mapArgs nv args) (nameT nv nb false ops) (nameT nv nb false nx)

def printSk (nv nb : Nat → Str) (ir : IR) : List Tok := pr (nameT nv nb false ir)

/-! ### the grammar -/

def asKey : Tok → Option Key
  | .str k => some ⟨k, false⟩
  | .bare k => some ⟨k, true⟩
  | _ => none

/-- `%a (, %b)*` -/
def paVals : List Tok → Option (List Str × List Tok)
  | .pct a :: .comma :: r =>
    (match paVals r with
     | some (l, r') => some (a :: l, r')
     | none => none)
  | .pct a :: r => some ([a], r)
  | _ => none

/-- `^a (, ^b)*` -/
def paCarets : List Tok → Option (List Str × List Tok)
  | .caret a :: .comma :: r =>
    (match paCarets r with
     | some (l, r') => some (a :: l, r')
     | none => none)
  | .caret a :: r => some ([a], r)
  | _ => none

/-- `t (, t)*` -/
def paTys : List Tok → Option (List Opq × List Tok)
  | .opq a :: .comma :: r =>
    (match paTys r with
     | some (l, r') => some (a :: l, r')
     | none => none)
  | .opq a :: r => some ([a], r)
  | _ => none

/-- `_parse_attribute_entry (, _parse_attribute_entry)*` -/
def paEntries : List Tok → Option (List Entry × List Tok)
  | [] => none
  | t :: r =>
    match asKey t with
    | none => none
    | some k =>
      match r with
      | .eq :: .opq a :: .comma :: r' =>
        (match paEntries r' with
         | some (l, r'') => some ((k, some a) :: l, r'')
         | none => none)
      | .eq :: .opq a :: r' => some ([(k, some a)], r')
      | .eq :: _ => none
      | .comma :: r' =>
        (match paEntries r' with
         | some (l, r'') => some ((k, none) :: l, r'')
         | none => none)
      | r' => some ([(k, none)], r')

/-- `%a : t (, %b : t)*` -/
def paArgs : List Tok → Option (List (Str × Opq) × List Tok)
  | .pct a :: .colon :: .opq t :: .comma :: r =>
    (match paArgs r with
     | some (l, r') => some ((a, t) :: l, r')
     | none => none)
  | .pct a :: .colon :: .opq t :: r => some ([(a, t)], r)
  | _ => none

/-- `parse_comma_separated_list(delimiter, …)` after the opening delimiter: the closing delimiter
at once (empty list) or a non-empty list followed by it -/
def closed {α : Type} (close : Tok) (p : List Tok → Option (List α × List Tok)) :
    List Tok → Option (List α × List Tok)
  | [] => none
  | t :: r =>
    if t = close then some ([], r) else
    match p (t :: r) with
    | some (l, t' :: r') => if t' = close then some (l, r') else none
    | _ => none

def expect (t : Tok) : List Tok → Option (List Tok)
  | t' :: r => if t' = t then some r else none
  | [] => none

/-- `_find_duplicated_key(...) is not None` -/
def dupKey : List Entry → Bool
  | [] => false
  | e :: r => r.any (fun f => f.1.id = e.1.id) || dupKey r

def hasKey (l : List Entry) (k : Nat) : Bool := l.any (fun e => e.1.id = k)

/-- one step of the retro-compatibility loop of `_parse_generic_operation` -/
def retroStep (pa : List Entry × List Entry) (k : Nat) : List Entry × List Entry :=
  if hasKey pa.2 k && !hasKey pa.1 k then
    (pa.1 ++ pa.2.filter (fun e => e.1.id = k), pa.2.filter (fun e => e.1.id ≠ k))
  else pa

/-- `for property_name in op_def.properties.keys(): …` -/
def retro (names : List Nat) (props attrs : List Entry) : List Entry × List Entry :=
  names.foldl retroStep (props, attrs)

/-- what is read before the region list -/
structure Head where
  results : List Str
  name : Nat
  operands : List Str
  succs : List Str
  props : List Entry
deriving Repr

/-- `_parse_op_result_list` -/
def paResults (toks : List Tok) : Option (List Str × List Tok) :=
  match toks with
  | .pct _ :: _ =>
    (match paVals toks with
     | some (l, r) => (expect .eq r).map fun r' => (l, r')
     | none => none)
  | _ => some ([], toks)

/-- `parse_optional_successors` -/
def paSuccs (toks : List Tok) : Option (List Str × List Tok) :=
  match toks with
  | .lsq :: r => closed .rsq paCarets r
  | _ => some ([], toks)

/-- `parse_optional_properties_dict` -/
def paProps (toks : List Tok) : Option (List Entry × List Tok) :=
  match toks with
  | .lt :: .lbrace :: r =>
    (match closed .rbrace paEntries r with
     | some (l, .gt :: r') => if dupKey l then none else some (l, r')
     | _ => none)
  | .lt :: _ => none
  | _ => some ([], toks)

/-- `parse_optional_attr_dict` -/
def paAttrs (toks : List Tok) : Option (List Entry × List Tok) :=
  match toks with
  | .lbrace :: r =>
    (match closed .rbrace paEntries r with
     | some (l, r') => if dupKey l then none else some (l, r')
     | none => none)
  | _ => some ([], toks)

/-- `_parse_op_result_list`, the operation name, `parse_op_args_list`,
`parse_optional_successors`, `parse_optional_properties_dict` -/
def paHead (toks : List Tok) : Option (Head × List Tok) :=
  match paResults toks with
  | some (results, .str name :: .lparen :: r) =>
    (match closed .rparen paVals r with
     | none => none
     | some (operands, r1) =>
       match paSuccs r1 with
       | none => none
       | some (succs, r2) =>
         match paProps r2 with
         | none => none
         | some (props, r3) => some (⟨results, name, operands, succs, props⟩, r3))
  | _ => none

/-- `parse_function_type` after the `:` — the inputs and the outputs -/
def paFnType : List Tok → Option ((List Opq × List Opq) × List Tok)
  | .lparen :: r =>
    (match closed .rparen paTys r with
     | some (ins, .arrow :: .lparen :: r') =>
       (match closed .rparen paTys r' with
        | some (outs, r'') => some ((ins, outs), r'')
        | none => none)
     | some (ins, .arrow :: .opq t :: r') => if t.fn then none else some ((ins, [t]), r')
     | _ => none)
  | _ => none

/-- `parse_optional_attr_dict`, `:`, `parse_function_type` -/
def paTail (toks : List Tok) : Option ((List Entry × List Opq × List Opq) × List Tok) :=
  match paAttrs toks with
  | some (attrs, .colon :: r) =>
    (match paFnType r with
     | some ((ins, outs), r') => some ((attrs, ins, outs), r')
     | none => none)
  | _ => none

def mkHdr (defs : Nat → List Nat) (hd : Head) (tl : List Entry × List Opq × List Opq) :
    Hdr Str Str :=
  let pa := retro (defs hd.name) hd.props tl.1
  { results := hd.results, name := hd.name, operands := hd.operands, succs := hd.succs,
    props := pa.1, attrs := pa.2, inTys := tl.2.1, outTys := tl.2.2 }

/-- `_parse_optional_block_arg_list` and the `:` of `_parse_block` -/
def paLabelRest : List Tok → Option (List (Str × Opq) × List Tok)
  | .lparen :: r =>
    (match closed .rparen paArgs r with
     | some (args, r') => (expect .colon r').map fun r'' => (args, r'')
     | none => none)
  | r => (expect .colon r).map fun r' => ([], r')

/-- `parse_optional_operation`: does an operation start here?  (`none`: a bare identifier, i.e. a
custom-format operation, which the skeleton does not read) -/
def opStart : List Tok → Option Bool
  | .pct _ :: _ => some true
  | .str _ :: _ => some true
  | .bare _ :: _ => none
  | _ => some false

/-- `parse_region_list`: `inl r` = a non-empty region list whose first region starts at `r`,
`inr r` = no regions (no list, or `()`), go on at `r` -/
def regStart : List Tok → List Tok ⊕ List Tok
  | .lparen :: .rparen :: r => .inr r
  | .lparen :: r => .inl r
  | r => .inr r

/-- how a region starts (`parse_optional_region`) -/
inductive RStart where
  | empty (r : List Tok)
  | labelled (r : List Tok)
  | unlabelled (r : List Tok)
  | bad

def regionStart : List Tok → RStart
  | .lbrace :: .rbrace :: r => .empty r
  | .lbrace :: .caret n :: r => .labelled (.caret n :: r)
  | .lbrace :: r => .unlabelled r
  | _ => .bad

/-- the blocks of a region up to and including the `}` (`pOps`, `pBlocks`: the readers for an
operation list and for labelled blocks): an unlabelled entry block is read when the region starts
with neither a label nor `}` -/
def regionBody (pOps pBlocks : List Tok → Option (NTree × List Tok)) (toks : List Tok) :
    Option (NTree × List Tok) :=
  match regionStart toks with
  | .empty r => some (.nil, r)
  | .labelled r => pBlocks r
  | .unlabelled r =>
    (match pOps r with
     | none => none
     | some (ops, r1) =>
       match pBlocks r1 with
       | none => none
       | some (nx, r2) => some (.block none [] ops nx, r2))
  | .bad => none

mutual
/-- `_parse_block_body`: `while (op := parse_optional_operation()) is not None` -/
def paOps (defs : Nat → List Nat) : Nat → List Tok → Option (NTree × List Tok)
  | 0, _ => none
  | f + 1, toks =>
    match opStart toks with
    | none => none
    | some false => some (.nil, toks)
    | some true =>
      match paHead toks with
      | none => none
      | some (hd, r1) =>
        let regPart : Option (NTree × List Tok) :=
          match regStart r1 with
          | .inl r' => paRegions defs f r'
          | .inr r' => some (.nil, r')
        match regPart with
        | none => none
        | some (rs, r2) =>
          match paTail r2 with
          | none => none
          | some (tl, r3) =>
            match paOps defs f r3 with
            | none => none
            | some (nx, r4) => some (.op (mkHdr defs hd tl) rs nx, r4)
/-- `parse_region (, parse_region)* )` -/
def paRegions (defs : Nat → List Nat) : Nat → List Tok → Option (NTree × List Tok)
  | 0, _ => none
  | f + 1, toks =>
    match regionBody (paOps defs f) (paBlocks defs f) toks with
    | some (bs, .comma :: r) =>
      (match paRegions defs f r with
       | some (nx, r') => some (.region bs nx, r')
       | none => none)
    | some (bs, .rparen :: r) => some (.region bs .nil, r)
    | _ => none
/-- `while self.parse_optional_punctuation("}") is None: _parse_block()` -/
def paBlocks (defs : Nat → List Nat) : Nat → List Tok → Option (NTree × List Tok)
  | 0, _ => none
  | f + 1, toks =>
    match toks with
    | .rbrace :: r => some (.nil, r)
    | .caret n :: r =>
      (match paLabelRest r with
       | none => none
       | some (args, r1) =>
         match paOps defs f r1 with
         | none => none
         | some (ops, r2) =>
           match paBlocks defs f r2 with
           | none => none
           | some (nx, r3) => some (.block (some n) args ops nx, r3))
    | _ => none
end

/-- the whole input as an operation list -/
def parseT (defs : Nat → List Nat) (toks : List Tok) : Option NTree :=
  match paOps defs (toks.length + 1) toks with
  | some (t, []) => some t
  | _ => none

/-! ### the symbol tables -/

/-- value tables: `scope` = `ssa_values`, `pend` = `forward_ssa_references`; an entry is
(identity of the value, its type) -/
structure VT (K : Type) where
  scope : AL K (Nat × Opq) := []
  pend : AL K (Nat × Opq) := []
  next : Nat := 0
deriving Repr

/-- block tables of the current region: `bdef` = entries of `blocks` with a definition,
`bpend` = entries referenced only (`forward_block_references`) -/
structure BT (K : Type) where
  bdef : AL K Nat := []
  bpend : AL K Nat := []
  next : Nat := 0
deriving Repr

section tables
variable {K : Type} [DecidableEq K]

/-- `resolve_operand`: the value and its type.  A pending forward reference is returned as it is —
its type is the one of its first use, the type written at this use is not compared (a mismatch
with the definition is found when the definition is registered). -/
def VT.use (t : VT K) (k : K) (ty : Opq) : Option (VT K × Nat × Opq) :=
  match AL.get t.pend k with
  | some (p, ty') => some (t, p, ty')
  | none =>
    match AL.get t.scope k with
    | none => some ({ t with pend := (k, (t.next, ty)) :: t.pend, next := t.next + 1 }, t.next, ty)
    | some (p, ty') => if ty' = ty then some (t, p, ty) else none

/-- `_register_ssa_definition` for one value of type `ty` -/
def VT.define (t : VT K) (k : K) (ty : Opq) : Option (VT K × Nat) :=
  match AL.get t.scope k with
  | some _ => none
  | none =>
    match AL.get t.pend k with
    | some (p, ty') =>
      if ty' = ty then some ({ t with scope := (k, (p, ty)) :: t.scope, pend := AL.del t.pend k }, p)
      else none
    | none => some ({ t with scope := (k, (t.next, ty)) :: t.scope, next := t.next + 1 }, t.next)

/-- `parse_optional_successor` -/
def BT.ref (t : BT K) (k : K) : BT K × Nat :=
  match AL.get t.bdef k with
  | some p => (t, p)
  | none =>
    match AL.get t.bpend k with
    | some p => (t, p)
    | none => ({ t with bpend := (k, t.next) :: t.bpend, next := t.next + 1 }, t.next)

/-- the label of `_parse_block` -/
def BT.define (t : BT K) (k : K) : Option (BT K × Nat) :=
  match AL.get t.bdef k with
  | some _ => none
  | none =>
    match AL.get t.bpend k with
    | some p => some ({ t with bdef := (k, p) :: t.bdef, bpend := AL.del t.bpend k }, p)
    | none => some ({ t with bdef := (k, t.next) :: t.bdef, next := t.next + 1 }, t.next)

/-- `resolve_operands`: the values and their types (`op.operand_types`) -/
def useAll (t : VT K) : List K → List Opq → Option (VT K × List Nat × List Opq)
  | k :: ks, ty :: tys =>
    (match t.use k ty with
     | none => none
     | some (t1, p, ty1) =>
       match useAll t1 ks tys with
       | none => none
       | some (t2, ps, tys2) => some (t2, p :: ps, ty1 :: tys2))
  | [], [] => some (t, [], [])
  | _, _ => none

def defineAll (t : VT K) : List K → List Opq → Option (VT K × List Nat)
  | k :: ks, ty :: tys =>
    (match t.define k ty with
     | none => none
     | some (t1, p) =>
       match defineAll t1 ks tys with
       | none => none
       | some (t2, ps) => some (t2, p :: ps))
  | [], [] => some (t, [])
  | _, _ => none

def defineArgs (t : VT K) : List (K × Opq) → Option (VT K × List (Nat × Opq))
  | [] => some (t, [])
  | (k, ty) :: r =>
    match t.define k ty with
    | none => none
    | some (t1, p) =>
      match defineArgs t1 r with
      | none => none
      | some (t2, ps) => some (t2, (p, ty) :: ps)

def refAll (t : BT K) : List K → BT K × List Nat
  | [] => (t, [])
  | k :: ks =>
    let r := t.ref k
    let r2 := refAll r.1 ks
    (r2.1, r.2 :: r2.2)

/-- results nobody names (`"op"() : () -> i32`): fresh values -/
def freshVals (t : VT K) : List Opq → VT K × List Nat
  | [] => (t, [])
  | _ :: tys =>
    let r := freshVals { t with next := t.next + 1 } tys
    (r.1, t.next :: r.2)

/-- `parse_operation` after the operation is built: the result-count check and the
registration of the results -/
def bindResults (t : VT K) (names : List K) (tys : List Opq) : Option (VT K × List Nat) :=
  match names with
  | [] => some (freshVals t tys)
  | _ => defineAll t names tys

end tables

structure PS where
  v : VT Str := {}
  b : BT Str := {}
deriving Repr

/-- the parser's symbol-table actions over a parsed tree, in the parser's order -/
def res : PS → NTree → Option (PS × IR)
  | st, .nil => some (st, .nil)
  | st, .op h rs nx =>
    let sb := refAll st.b h.succs
    match res { st with b := sb.1 } rs with
    | none => none
    | some (st1, rs') =>
      match useAll st1.v h.operands h.inTys with
      | none => none
      | some (v2, opnds, opTys) =>
        match bindResults v2 h.results h.outTys with
        | none => none
        | some (v3, results) =>
          match res { st1 with v := v3 } nx with
          | none => none
          | some (st2, nx') =>
            some (st2, .op { results := results, name := h.name, operands := opnds, succs := sb.2,
                             props := h.props, attrs := h.attrs, inTys := opTys,
                             outTys := h.outTys } rs' nx')
  | st, .region bs nx =>
    match res { st with b := { bdef := [], bpend := [], next := st.b.next } } bs with
    | none => none
    | some (st1, bs') =>
      if st1.b.bpend.isEmpty then
        match res { v := { st1.v with scope := st.v.scope },
                    b := { bdef := st.b.bdef, bpend := st.b.bpend, next := st1.b.next } } nx with
        | none => none
        | some (st2, nx') => some (st2, .region bs' nx')
      else none
  | st, .block lab args ops nx =>
    let labPart : Option (BT Str × Nat) :=
      match lab with
      | none => some ({ st.b with next := st.b.next + 1 }, st.b.next)
      | some n => st.b.define n
    match labPart with
    | none => none
    | some (b1, id) =>
      match defineArgs st.v args with
      | none => none
      | some (v1, args') =>
        match res { v := v1, b := b1 } ops with
        | none => none
        | some (st1, ops') =>
          match res st1 nx with
          | none => none
          | some (st2, nx') => some (st2, .block id args' ops' nx')

/-- `Parser(ctx, text).parse_module()` on a token stream, as far as the skeleton goes -/
def parseSk (defs : Nat → List Nat) (toks : List Tok) : Option IR :=
  match parseT defs toks with
  | none => none
  | some t =>
    match res {} t with
    | some (st, ir) => if st.v.pend.isEmpty then some ir else none
    | none => none

/-! ### the specification side: scoping of the IR itself -/

inductive Mode where
  | ops | regions | blocks
deriving DecidableEq, Repr

/-- what the dictionaries of an operation must satisfy to be Python dicts that survive the
retro-compatibility move: no key twice, no inherent attribute (property name of the definition)
only in the attribute dictionary -/
def hdrOK {V B : Type} (defs : Nat → List Nat) (h : Hdr V B) : Bool :=
  !dupKey h.props && !dupKey h.attrs &&
  (defs h.name).all fun k => !hasKey h.attrs k || hasKey h.props k

/-- the cells are of the right sort: operation lists contain operations whose region lists contain
regions whose block lists contain blocks -/
def shape {V B L : Type} (defs : Nat → List Nat) : Mode → Tree V B L → Bool
  | _, .nil => true
  | .ops, .op h rs nx => hdrOK defs h && shape defs .regions rs && shape defs .ops nx
  | .regions, .region bs nx => shape defs .blocks bs && shape defs .regions nx
  | .blocks, .block _ _ ops nx => shape defs .ops ops && shape defs .blocks nx
  | _, _ => false

/-- which labels a text can omit: only the one of an entry block without arguments that has
operations (`entry`: the cell is the first block of its region) -/
def labelsOK : Bool → NTree → Bool
  | _, .nil => true
  | _, .op _ rs nx => labelsOK false rs && labelsOK false nx
  | _, .region bs nx => labelsOK true bs && labelsOK false nx
  | e, .block lab args ops nx =>
    (match lab with
     | some _ => true
     | none => e && args.isEmpty && !ops.isNil) && labelsOK false ops && labelsOK false nx

/-- specification state: the tables keyed by identity, plus the record of every identity met
(`log`/`blog`: identity in the IR ↦ identity in the parser's result) -/
structure GS where
  v : VT Nat := {}
  b : BT Nat := {}
  log : AL Nat Nat := []
  blog : AL Nat Nat := []
deriving Repr

section spec
variable {N : Type} [DecidableEq N]

/-- no live value other than `v` is printed with the name of `v` -/
def liveOK (nv : Nat → N) (t : VT Nat) (v : Nat) : Bool :=
  (t.scope ++ t.pend).all fun e => e.1 = v || nv e.1 ≠ nv v

/-- no block of the current region other than `b` is printed with the label of `b` -/
def bliveOK (nb : Nat → N) (t : BT Nat) (b : Nat) : Bool :=
  (t.bdef ++ t.bpend).all fun e => e.1 = b || nb e.1 ≠ nb b

def VT.known (t : VT Nat) (v : Nat) : Bool :=
  (AL.get t.pend v).isSome || (AL.get t.scope v).isSome

def BT.known (t : BT Nat) (b : Nat) : Bool :=
  (AL.get t.bdef b).isSome || (AL.get t.bpend b).isSome

/-- a use of value `v` at type `ty`: visible, or pending (then used at the same type before), or
met for the first time -/
def wUse (nv : Nat → N) (gs : GS) (v : Nat) (ty : Opq) : Option (GS × Nat) :=
  if !liveOK nv gs.v v then none
  else if !gs.v.known v && (AL.get gs.log v).isSome then none
  else
    match gs.v.use v ty with
    | none => none
    | some (t, p, ty') =>
      if ty' = ty then
        some ({ gs with v := t, log := if gs.v.known v then gs.log else (v, p) :: gs.log }, p)
      else none

/-- the definition of value `v` -/
def wDef (nv : Nat → N) (gs : GS) (v : Nat) (ty : Opq) : Option (GS × Nat) :=
  if !liveOK nv gs.v v then none
  else if !gs.v.known v && (AL.get gs.log v).isSome then none
  else
    match gs.v.define v ty with
    | none => none
    | some (t, p) =>
      some ({ gs with v := t, log := if gs.v.known v then gs.log else (v, p) :: gs.log }, p)

def wRef (nb : Nat → N) (gs : GS) (b : Nat) : Option (GS × Nat) :=
  if !bliveOK nb gs.b b then none
  else if !gs.b.known b && (AL.get gs.blog b).isSome then none
  else
    let r := gs.b.ref b
    some ({ gs with b := r.1, blog := if gs.b.known b then gs.blog else (b, r.2) :: gs.blog }, r.2)

def wBDef (nb : Nat → N) (gs : GS) (b : Nat) : Option (GS × Nat) :=
  if !bliveOK nb gs.b b then none
  else if !gs.b.known b && (AL.get gs.blog b).isSome then none
  else
    match gs.b.define b with
    | none => none
    | some (t, p) =>
      some ({ gs with b := t, blog := if gs.b.known b then gs.blog else (b, p) :: gs.blog }, p)

def wUseAll (nv : Nat → N) (gs : GS) : List Nat → List Opq → Option (GS × List Nat)
  | v :: vs, ty :: tys =>
    (match wUse nv gs v ty with
     | none => none
     | some (g1, p) =>
       match wUseAll nv g1 vs tys with
       | none => none
       | some (g2, ps) => some (g2, p :: ps))
  | [], [] => some (gs, [])
  | _, _ => none

def wDefAll (nv : Nat → N) (gs : GS) : List Nat → List Opq → Option (GS × List Nat)
  | v :: vs, ty :: tys =>
    (match wDef nv gs v ty with
     | none => none
     | some (g1, p) =>
       match wDefAll nv g1 vs tys with
       | none => none
       | some (g2, ps) => some (g2, p :: ps))
  | [], [] => some (gs, [])
  | _, _ => none

def wDefArgs (nv : Nat → N) (gs : GS) : List (Nat × Opq) → Option (GS × List (Nat × Opq))
  | [] => some (gs, [])
  | (v, ty) :: r =>
    match wDef nv gs v ty with
    | none => none
    | some (g1, p) =>
      match wDefArgs nv g1 r with
      | none => none
      | some (g2, ps) => some (g2, (p, ty) :: ps)

def wRefAll (nb : Nat → N) (gs : GS) : List Nat → Option (GS × List Nat)
  | [] => some (gs, [])
  | b :: bs =>
    match wRef nb gs b with
    | none => none
    | some (g1, p) =>
      match wRefAll nb g1 bs with
      | none => none
      | some (g2, ps) => some (g2, p :: ps)

/-- The scoping discipline of the textual form, on the IR: every use refers to a value that is
visible (defined before, in this or an enclosing region), pending, or new (then it must get
defined later: `pend` is empty at the end); every definition is new or pending with the same
type; blocks likewise per region; an operation has as many results as result types and as many
operands as operand types; and (`liveOK`/`bliveOK`) the names are distinct among the values
and blocks that are live together.  The second component is the same tree over the identities
of `log`/`blog`. -/
def walk (nv nb : Nat → N) : Bool → GS → IR → Option (GS × IR)
  | _, gs, .nil => some (gs, .nil)
  | _, gs, .op h rs nx =>
    match wRefAll nb gs h.succs with
    | none => none
    | some (g0, succs) =>
      match walk nv nb false g0 rs with
      | none => none
      | some (g1, rs') =>
        match wUseAll nv g1 h.operands h.inTys with
        | none => none
        | some (g2, opnds) =>
          match wDefAll nv g2 h.results h.outTys with
          | none => none
          | some (g3, results) =>
            match walk nv nb false g3 nx with
            | none => none
            | some (g4, nx') =>
              some (g4, .op { results := results, name := h.name, operands := opnds,
                              succs := succs, props := h.props, attrs := h.attrs,
                              inTys := h.inTys, outTys := h.outTys } rs' nx')
  | _, gs, .region bs nx =>
    match walk nv nb true { gs with b := { bdef := [], bpend := [], next := gs.b.next } } bs with
    | none => none
    | some (g1, bs') =>
      if g1.b.bpend.isEmpty then
        match walk nv nb false
            { g1 with v := { g1.v with scope := gs.v.scope },
                      b := { bdef := gs.b.bdef, bpend := gs.b.bpend, next := g1.b.next } } nx with
        | none => none
        | some (g2, nx') => some (g2, .region bs' nx')
      else none
  | e, gs, .block b args ops nx =>
    let labPart : Option (GS × Nat) :=
      if e && !entryLabelled b args ops nx then
        (if (AL.get gs.blog b).isSome then none
         else some ({ gs with b := { gs.b with next := gs.b.next + 1 },
                              blog := (b, gs.b.next) :: gs.blog }, gs.b.next))
      else wBDef nb gs b
    match labPart with
    | none => none
    | some (g0, id) =>
      match wDefArgs nv g0 args with
      | none => none
      | some (g1, args') =>
        match walk nv nb false g1 ops with
        | none => none
        | some (g2, ops') =>
          match walk nv nb false g2 nx with
          | none => none
          | some (g3, nx') => some (g3, .block id args' ops' nx')

/-- the hypothesis of the round trip, as a check -/
def admissible (defs : Nat → List Nat) (nv nb : Nat → N) (ir : IR) : Bool :=
  shape defs .ops ir &&
  match walk nv nb false {} ir with
  | some (gs, _) => gs.v.pend.isEmpty
  | none => false

end spec

/-! ### renaming of identities, isomorphism check -/

def mapT (f g : Nat → Nat) : IR → IR
  | .nil => .nil
  | .op h rs nx => .op (h.map f g) (mapT f g rs) (mapT f g nx)
  | .region bs nx => .region (mapT f g bs) (mapT f g nx)
  | .block b args ops nx => .block (g b) (mapArgs f args) (mapT f g ops) (mapT f g nx)

/-- total renaming read off a record: recorded identities go where the record says (below
`next`), all others above `next` -/
def tot (m : AL Nat Nat) (next : Nat) (x : Nat) : Nat :=
  match AL.get m x with
  | some p => p
  | none => next + x

def GS.vmap (gs : GS) : Nat → Nat := tot gs.log gs.v.next
def GS.bmap (gs : GS) : Nat → Nat := tot gs.blog gs.b.next

def eqHdr (a b : Hdr Nat Nat) : Bool :=
  a.results = b.results && a.name = b.name && a.operands = b.operands && a.succs = b.succs &&
  a.props = b.props && a.attrs = b.attrs && a.inTys = b.inTys && a.outTys = b.outTys

def eqT : IR → IR → Bool
  | .nil, .nil => true
  | .op h rs nx, .op h' rs' nx' => eqHdr h h' && eqT rs rs' && eqT nx nx'
  | .region bs nx, .region bs' nx' => eqT bs bs' && eqT nx nx'
  | .block b a o nx, .block b' a' o' nx' => b = b' && a = a' && eqT o o' && eqT nx nx'
  | _, _ => false

/-! ### line protocol

`sk V n (id name)… B n (id name)… D n (opname k (key)…)… T <ops>` — an IR with its name
assignment and the property names of the operation definitions; answer
`adm <b> rt <b> toks <token>…` (`adm`: `admissible`; `rt`: `parseSk (printSk ir)` is `ir` up to
the renaming recorded by `walk`).
`parse D n (…)… K <token>…` — answer `tree <ops>` or `none`.
Trees in prefix form, every field a natural number:
`<ops> = nOps op…`, `op = O name nRes id… nOpnd id… nSucc b… nProps e… nAttrs e… nIn t… nOut t…
nRegions region…`, `e = keyId bare hasValue opqId fn`, `t = opqId fn`,
`region = R nBlocks block…`, `block = B id nArgs (id opqId fn)… <ops>`.
Tokens: `%name ^name S<k> I<k> A<id> F<id>` (`F`: opaque group starting with `(`) and
`( ) { } [ ] < > , = : ->`. -/

def natOf (s : String) : Option Nat := s.toNat?

def takeN {α : Type} (one : List String → Option (α × List String)) :
    Nat → List String → Option (List α × List String)
  | 0, ts => some ([], ts)
  | n + 1, ts =>
    match one ts with
    | none => none
    | some (x, r) =>
      match takeN one n r with
      | none => none
      | some (xs, r') => some (x :: xs, r')

def counted {α : Type} (one : List String → Option (α × List String)) :
    List String → Option (List α × List String)
  | t :: ts => (match natOf t with | some n => takeN one n ts | none => none)
  | [] => none

def rdNat : List String → Option (Nat × List String)
  | t :: ts => (natOf t).map fun n => (n, ts)
  | [] => none

def rdOpq : List String → Option (Opq × List String)
  | a :: b :: ts => (match natOf a, natOf b with
    | some i, some f => some (⟨i, f != 0⟩, ts)
    | _, _ => none)
  | _ => none

def rdEntry : List String → Option (Entry × List String)
  | k :: b :: h :: a :: f :: ts =>
    (match natOf k, natOf b, natOf h, natOf a, natOf f with
     | some k, some b, some h, some a, some f =>
       some ((⟨k, b != 0⟩, if h != 0 then some ⟨a, f != 0⟩ else none), ts)
     | _, _, _, _, _ => none)
  | _ => none

def rdArg : List String → Option ((Nat × Opq) × List String)
  | v :: ts => (match natOf v, rdOpq ts with
    | some v, some (t, r) => some ((v, t), r)
    | _, _ => none)
  | [] => none

def rdNamed : List String → Option ((Nat × Str) × List String)
  | i :: n :: ts => (natOf i).map fun i => ((i, n.toList), ts)
  | _ => none

def rdDef : List String → Option ((Nat × List Nat) × List String)
  | o :: ts => (match natOf o, counted rdNat ts with
    | some o, some (ks, r) => some ((o, ks), r)
    | _, _ => none)
  | [] => none

mutual
def rdOps : Nat → Nat → List String → Option (IR × List String)
  | 0, _, _ => none
  | _ + 1, 0, ts => some (.nil, ts)
  | fuel + 1, n + 1, "O" :: ts =>
    match rdNat ts with
    | none => none
    | some (name, ts) =>
      match counted rdNat ts with
      | none => none
      | some (results, ts) =>
        match counted rdNat ts with
        | none => none
        | some (operands, ts) =>
          match counted rdNat ts with
          | none => none
          | some (succs, ts) =>
            match counted rdEntry ts with
            | none => none
            | some (props, ts) =>
              match counted rdEntry ts with
              | none => none
              | some (attrs, ts) =>
                match counted rdOpq ts with
                | none => none
                | some (ins, ts) =>
                  match counted rdOpq ts with
                  | none => none
                  | some (outs, ts) =>
                    match ts with
                    | [] => none
                    | c :: ts =>
                      match natOf c with
                      | none => none
                      | some nr =>
                        match rdRegions fuel nr ts with
                        | none => none
                        | some (rs, ts) =>
                          match rdOps fuel n ts with
                          | none => none
                          | some (nx, ts) =>
                            some (.op ⟨results, name, operands, succs, props, attrs, ins, outs⟩ rs nx, ts)
  | _ + 1, _ + 1, _ => none
def rdRegions : Nat → Nat → List String → Option (IR × List String)
  | 0, _, _ => none
  | _ + 1, 0, ts => some (.nil, ts)
  | fuel + 1, n + 1, "R" :: c :: ts =>
    match natOf c with
    | none => none
    | some nb =>
      match rdBlocks fuel nb ts with
      | none => none
      | some (bs, ts) =>
        match rdRegions fuel n ts with
        | none => none
        | some (nx, ts) => some (.region bs nx, ts)
  | _ + 1, _ + 1, _ => none
def rdBlocks : Nat → Nat → List String → Option (IR × List String)
  | 0, _, _ => none
  | _ + 1, 0, ts => some (.nil, ts)
  | fuel + 1, n + 1, "B" :: i :: ts =>
    match natOf i, counted rdArg ts with
    | some i, some (args, c :: ts) =>
      (match natOf c with
       | none => none
       | some no =>
         match rdOps fuel no ts with
         | none => none
         | some (ops, ts) =>
           match rdBlocks fuel n ts with
           | none => none
           | some (nx, ts) => some (.block i args ops nx, ts))
    | _, _ => none
  | _ + 1, _ + 1, _ => none
end

def rdTop (ts : List String) : Option IR :=
  match ts with
  | c :: r =>
    (match natOf c with
     | some n => (match rdOps (ts.length + 2) n r with
       | some (t, []) => some t
       | _ => none)
     | none => none)
  | [] => none

def len : IR → Nat
  | .nil => 0
  | .op _ _ nx => len nx + 1
  | .region _ nx => len nx + 1
  | .block _ _ _ nx => len nx + 1

def shOpq (a : Opq) : List String := [toString a.id, if a.fn then "1" else "0"]

def shEntry (e : Entry) : List String :=
  [toString e.1.id, if e.1.bare then "1" else "0"] ++
  (match e.2 with
   | some a => "1" :: shOpq a
   | none => ["0", "0", "0"])

def shNats (l : List Nat) : List String := toString l.length :: l.map toString

/-- cells only (no leading count) -/
def shT : IR → List String
  | .nil => []
  | .op h rs nx =>
    "O" :: toString h.name :: shNats h.results ++ shNats h.operands ++ shNats h.succs ++
      (toString h.props.length :: h.props.flatMap shEntry) ++
      (toString h.attrs.length :: h.attrs.flatMap shEntry) ++
      (toString h.inTys.length :: h.inTys.flatMap shOpq) ++
      (toString h.outTys.length :: h.outTys.flatMap shOpq) ++
      (toString (len rs) :: shT rs) ++ shT nx
  | .region bs nx => "R" :: toString (len bs) :: shT bs ++ shT nx
  | .block b args ops nx =>
    "B" :: toString b :: toString args.length ::
      args.flatMap (fun a => toString a.1 :: shOpq a.2) ++ (toString (len ops) :: shT ops) ++ shT nx

def shTok : Tok → String
  | .pct n => "%" ++ String.ofList n
  | .caret n => "^" ++ String.ofList n
  | .str k => "S" ++ toString k
  | .bare k => "I" ++ toString k
  | .opq a => (if a.fn then "F" else "A") ++ toString a.id
  | .lparen => "(" | .rparen => ")" | .lbrace => "{" | .rbrace => "}" | .lsq => "[" | .rsq => "]"
  | .lt => "<" | .gt => ">" | .comma => "," | .eq => "=" | .colon => ":" | .arrow => "->"

def rdTok (s : String) : Option Tok :=
  match s with
  | "(" => some .lparen | ")" => some .rparen | "{" => some .lbrace | "}" => some .rbrace
  | "[" => some .lsq | "]" => some .rsq | "<" => some .lt | ">" => some .gt | "," => some .comma
  | "=" => some .eq | ":" => some .colon | "->" => some .arrow
  | _ =>
    match s.toList with
    | '%' :: n => some (.pct n)
    | '^' :: n => some (.caret n)
    | 'S' :: n => (natOf (String.ofList n)).map .str
    | 'I' :: n => (natOf (String.ofList n)).map .bare
    | 'A' :: n => (natOf (String.ofList n)).map fun i => .opq ⟨i, false⟩
    | 'F' :: n => (natOf (String.ofList n)).map fun i => .opq ⟨i, true⟩
    | _ => none

def nameOf (tab : AL Nat Str) (sigil : Char) (i : Nat) : Str :=
  match AL.get tab i with
  | some n => n
  | none => sigil :: Names.natDigits i

def defsOf (tab : AL Nat (List Nat)) (o : Nat) : List Nat := (AL.get tab o).getD []

def lineStep (s : Unit) (line : String) : Unit × String :=
  match words line with
  | ["reset"] => (s, "ok")
  | "sk" :: "V" :: ts =>
    (match counted rdNamed ts with
     | some (vt, "B" :: ts) =>
       (match counted rdNamed ts with
        | some (bt, "D" :: ts) =>
          (match counted rdDef ts with
           | some (dt, "T" :: ts) =>
             (match rdTop ts with
              | some ir =>
                let nv := nameOf vt '?'
                let nb := nameOf bt '?'
                let defs := defsOf dt
                let toks := printSk nv nb ir
                let rt : Bool :=
                  match parseSk defs toks, walk nv nb false {} ir with
                  | some ir', some (gs, ir'') =>
                    eqT ir' ir'' && eqT ir' (mapT gs.vmap gs.bmap ir)
                  | _, _ => false
                (s, " ".intercalate
                  ("adm" :: showBool (admissible defs nv nb ir) :: "rt" :: showBool rt :: "toks" ::
                    toks.map shTok))
              | none => (s, "bad-op"))
           | _ => (s, "bad-op"))
        | _ => (s, "bad-op"))
     | _ => (s, "bad-op"))
  | "parse" :: "D" :: ts =>
    (match counted rdDef ts with
     | some (dt, "K" :: ts) =>
       (match ts.mapM rdTok with
        | some toks =>
          (match parseSk (defsOf dt) toks with
           | some ir => (s, " ".intercalate ("tree" :: toString (len ir) :: shT ir))
           | none => (s, "none"))
        | none => (s, "bad-op"))
     | _ => (s, "bad-op"))
  | _ => (s, "bad-op")

end Xdsl.Skeleton
