import XdslModel.DLL
/-!
# Pointer-level model of the xDSL IR store and its mutation API (C01)

Objects are natural numbers (separate id spaces for operations, blocks, regions, values, uses).
Three instances of `DLL.L` hold the intrusive lists: `opL` (operations in blocks), `blockL`
(blocks in regions), `vuseL`/`buseL` (uses of values / of blocks).  Every public mutator of
`xdsl/ir/core.py`, `xdsl/rewriter.py` and the `PatternRewriter` wrappers of
`xdsl/pattern_rewriter.py` is a function `IRStore → … → Except Err IRStore` whose guards raise the
same exception class in the same order as the Python, and whose pointer writes are the `DLL`
primitives named after the Python statements they stand for.  Composite methods are compositions
of the primitive ones exactly as in the Python.

The model is of the tree with `fix: negative index …` applied (`OpOperands.__setitem__`,
`OpSuccessors.__setitem__`, `Operation.detach_region` normalise a negative index).

Deviations, all unobservable: `Use` objects get ids from a counter; erased objects are flagged
`dead` and their link fields are reset (Python leaves stale pointers inside erased subtrees: an
erased operation keeps its `regions` tuple although `Region.drop_all_references` nulls the regions'
`parent`; the model empties the tuple, so that "listed in `regions` ↔ points back" also holds for
erased operations);
`name_hint`s, types, attributes, locations are not modelled; an `ErasedSSAValue` is created only
when the erased value still has uses and is given the id `E_BASE + id of the erased value`.

No proofs here; see `XdslProofs/C01.lean`.
-/
namespace Xdsl.IR
open Xdsl.DLL

def E_BASE : Nat := 1000000

inductive Err
  | value | assertion | index | badref
deriving DecidableEq, Repr

def Err.toString : Err → String
  | .value => "raise ValueError"
  | .assertion => "raise AssertionError"
  | .index => "raise IndexError"
  | .badref => "badref"

structure OpData where
  operands : List Nat := []
  operandUses : List Nat := []
  results : List Nat := []
  successors : List Nat := []
  successorUses : List Nat := []
  regions : List Nat := []
deriving Inhabited, Repr

structure BlockData where
  args : List Nat := []
deriving Inhabited, Repr

structure RegionData where
  parent : Option Nat := none
deriving Inhabited, Repr

inductive VKind
  | result | arg | erased
deriving DecidableEq, Repr, Inhabited

/-- `owner`: the defining operation (`result`), block (`arg`) or the erased value (`erased`). -/
structure ValData where
  kind : VKind := .result
  owner : Nat := 0
  index : Nat := 0
deriving Inhabited, Repr

structure IRStore where
  ops : AL Nat OpData := []
  blocks : AL Nat BlockData := []
  regions : AL Nat RegionData := []
  vals : AL Nat ValData := []
  /-- `Use._operation`, `Use._index` -/
  uses : AL Nat (Nat × Nat) := []
  nextUse : Nat := 0
  opL : L := {}
  blockL : L := {}
  vuseL : L := {}
  buseL : L := {}
  deadO : List Nat := []
  deadB : List Nat := []
  deadR : List Nat := []
  deadV : List Nat := []
deriving Inhabited

abbrev R := Except Err IRStore

inductive Ref
  | op (n : Nat) | block (n : Nat) | region (n : Nat)
deriving DecidableEq, Repr

/-- `InsertPoint.before/after/at_start/at_end` -/
inductive IP
  | before (o : Nat) | after (o : Nat) | start (b : Nat) | end_ (b : Nat)
deriving Repr

/-- `BlockInsertPoint.before/after/at_start/at_end` -/
inductive BIP
  | before (b : Nat) | after (b : Nat) | start (r : Nat) | end_ (r : Nat)
deriving Repr

namespace IRStore

/-! ## accessors -/
def op! (s : IRStore) (o : Nat) : OpData := (AL.get s.ops o).getD {}
def block! (s : IRStore) (b : Nat) : BlockData := (AL.get s.blocks b).getD {}
def region! (s : IRStore) (r : Nat) : RegionData := (AL.get s.regions r).getD {}
def val! (s : IRStore) (v : Nat) : ValData := (AL.get s.vals v).getD {}
def use! (s : IRStore) (u : Nat) : Nat × Nat := (AL.get s.uses u).getD (0, 0)
def setOp (s : IRStore) (o : Nat) (d : OpData) : IRStore := { s with ops := AL.set s.ops o d }
def setBlock (s : IRStore) (b : Nat) (d : BlockData) : IRStore := { s with blocks := AL.set s.blocks b d }
def setRegion (s : IRStore) (r : Nat) (d : RegionData) : IRStore := { s with regions := AL.set s.regions r d }
def setVal (s : IRStore) (v : Nat) (d : ValData) : IRStore := { s with vals := AL.set s.vals v d }

def opParent (s : IRStore) (o : Nat) : Option Nat := (s.opL.nd o).parent
def blockParent (s : IRStore) (b : Nat) : Option Nat := (s.blockL.nd b).parent
def regionParent (s : IRStore) (r : Nat) : Option Nat := (s.region! r).parent

def liveO (s : IRStore) (k : Nat) : Bool := (AL.get s.ops k).isSome && !s.deadO.contains k
def liveB (s : IRStore) (k : Nat) : Bool := (AL.get s.blocks k).isSome && !s.deadB.contains k
def liveR (s : IRStore) (k : Nat) : Bool := (AL.get s.regions k).isSome && !s.deadR.contains k
def liveV (s : IRStore) (k : Nat) : Bool := (AL.get s.vals k).isSome && !s.deadV.contains k
def freshO (s : IRStore) (k : Nat) : Bool := k < E_BASE && (AL.get s.ops k).isNone
def freshB (s : IRStore) (k : Nat) : Bool := k < E_BASE && (AL.get s.blocks k).isNone
def freshR (s : IRStore) (k : Nat) : Bool := k < E_BASE && (AL.get s.regions k).isNone
def freshV (s : IRStore) (k : Nat) : Bool := k < E_BASE && (AL.get s.vals k).isNone
def freshVs (s : IRStore) (ks : List Nat) : Bool := ks.all s.freshV && ks.Nodup

def opsOf (s : IRStore) (b : Nat) : List Nat := s.opL.toList b
def blocksOf (s : IRStore) (r : Nat) : List Nat := s.blockL.toList r

def size (s : IRStore) : Nat := s.ops.length + s.blocks.length + s.regions.length + 1

/-! ## `_IRNode.is_ancestor` -/
def parentRef (s : IRStore) : Ref → Option Ref
  | .op o => (s.opParent o).map .block
  | .block b => (s.blockParent b).map .region
  | .region r => (s.regionParent r).map .op

/-- `a.is_ancestor(x)`: walk up from `x`. -/
def isAncestorFrom (s : IRStore) (a : Ref) : Nat → Option Ref → Bool
  | 0, _ => false
  | _, none => false
  | fuel + 1, some x => x == a || isAncestorFrom s a fuel (s.parentRef x)

def isAncestor (s : IRStore) (a x : Ref) : Bool := s.isAncestorFrom a (3 * s.size) (some x)

/-! ## use lists (`IRWithUses.add_use/remove_use`) -/
def addUseV (s : IRStore) (v u : Nat) : IRStore := { s with vuseL := s.vuseL.pushFront v u }
def removeUseV (s : IRStore) (v u : Nat) : IRStore := { s with vuseL := s.vuseL.remove v u }
def addUseB (s : IRStore) (b u : Nat) : IRStore := { s with buseL := s.buseL.pushFront b u }
def removeUseB (s : IRStore) (b u : Nat) : IRStore := { s with buseL := s.buseL.remove b u }

/-- `tuple(Use(self, idx) for idx in range(n))` -/
def mkUses (s : IRStore) (o n : Nat) : IRStore × List Nat :=
  let ids := (List.range n).map (· + s.nextUse)
  let uses := (List.range n).foldl (fun m i => AL.set m (s.nextUse + i) (o, i)) s.uses
  ({ s with uses := uses, nextUse := s.nextUse + n }, ids)

/-- `Operation.operands` setter -/
def setOperands (s : IRStore) (o : Nat) (new : List Nat) : IRStore :=
  let d := s.op! o
  let (s, us) := s.mkUses o new.length
  let s := (d.operands.zip d.operandUses).foldl (fun s p => s.removeUseV p.1 p.2) s
  let s := (new.zip us).foldl (fun s p => s.addUseV p.1 p.2) s
  s.setOp o { s.op! o with operands := new, operandUses := us }

/-- `Operation.successors` setter -/
def setSuccessors (s : IRStore) (o : Nat) (new : List Nat) : IRStore :=
  let d := s.op! o
  let (s, us) := s.mkUses o new.length
  let s := (d.successors.zip d.successorUses).foldl (fun s p => s.removeUseB p.1 p.2) s
  let s := (new.zip us).foldl (fun s p => s.addUseB p.1 p.2) s
  s.setOp o { s.op! o with successors := new, successorUses := us }

/-- Python sequence index: `-n ≤ i < n`, negative counted from the end. -/
def normIdx (n : Nat) (i : Int) : Option Nat :=
  if 0 ≤ i then (if i.toNat < n then some i.toNat else none)
  else if (-i).toNat ≤ n then some (n - (-i).toNat) else none

/-- `OpOperands.__setitem__` (with the negative index normalised) -/
def setOperand (s : IRStore) (o : Nat) (i : Int) (v : Nat) : R :=
  let d := s.op! o
  match normIdx d.operands.length i with
  | none => .error .index
  | some k =>
    let old := d.operands.getD k 0
    let u := d.operandUses.getD k 0
    let s := s.removeUseV old u
    let s := s.addUseV v u
    .ok (s.setOp o { d with operands := d.operands.set k v })

/-- `OpSuccessors.__setitem__` (with the negative index normalised) -/
def setSuccessor (s : IRStore) (o : Nat) (i : Int) (b : Nat) : R :=
  let d := s.op! o
  match normIdx d.successors.length i with
  | none => .error .index
  | some k =>
    let old := d.successors.getD k 0
    let u := d.successorUses.getD k 0
    let s := s.removeUseB old u
    let s := s.addUseB b u
    .ok (s.setOp o { d with successors := d.successors.set k b })

/-- `SSAValue.replace_uses_with_if` over a snapshot of the use list; `replace_all_uses_with` is
`keep = fun _ => true` after the `value is self` test. -/
def replaceUsesIf (s : IRStore) (v w : Nat) (keep : Nat → Bool) : R :=
  (s.vuseL.toList v).foldlM (fun s u =>
    let (o, i) := s.use! u
    if keep i then s.setOperand o (Int.ofNat i) w else .ok s) s

def replaceAllUsesWith (s : IRStore) (v w : Nat) : R :=
  if v = w then .ok s else s.replaceUsesIf v w (fun _ => true)

def modePred (mode : Nat) (i : Nat) : Bool :=
  match mode with
  | 0 => true
  | 1 => false
  | 2 => i % 2 == 0
  | _ => i % 2 == 1

/-- `SSAValue.erase`; the `ErasedSSAValue` only materialises when it receives uses. -/
def valueErase (s : IRStore) (v : Nat) (safe : Bool) : R :=
  if safe && (s.vuseL.en v).first.isSome then .error .value
  else if (s.vuseL.en v).first.isNone then .ok s
  else
    let e := E_BASE + v
    let s := if (AL.get s.vals e).isSome then s else s.setVal e { kind := .erased, owner := v, index := 0 }
    s.replaceAllUsesWith v e

/-! ## erasure: `drop_all_references` over a whole subtree -/
def children (s : IRStore) : Ref → List Ref
  | .op o => (s.op! o).regions.map .region
  | .region r => (s.blocksOf r).map .block
  | .block b => (s.opsOf b).map .op

def subtree (s : IRStore) : Nat → List Ref → List Ref → List Ref
  | 0, _, acc => acc
  | _, [], acc => acc
  | fuel + 1, x :: todo, acc => subtree s fuel (s.children x ++ todo) (x :: acc)

def subtreeOf (s : IRStore) (root : Ref) : List Ref := s.subtree (3 * s.size) [root] []

/-- `drop_all_references` of one object plus the bookkeeping of its death. -/
def dropOne (s : IRStore) : Ref → IRStore
  | .op o =>
    let d := s.op! o
    let s := (d.operands.zip d.operandUses).foldl (fun s p => s.removeUseV p.1 p.2) s
    let s := (d.successors.zip d.successorUses).foldl (fun s p => s.removeUseB p.1 p.2) s
    let s := s.setOp o { d with operands := [], operandUses := [], successors := [], successorUses := [],
                                regions := [] }
    { s with opL := s.opL.setNd o {}, deadO := o :: s.deadO, deadV := d.results ++ s.deadV }
  | .block b =>
    { s with opL := s.opL.setEn b {}, blockL := s.blockL.setNd b {}, deadB := b :: s.deadB,
             deadV := (s.block! b).args ++ s.deadV }
  | .region r =>
    let s := s.setRegion r { parent := none }
    { s with blockL := s.blockL.setEn r {}, deadR := r :: s.deadR }

def dropTree (s : IRStore) (root : Ref) : IRStore := (s.subtreeOf root).foldl dropOne s

def eraseResults (s : IRStore) (o : Nat) (safe : Bool) : R :=
  (s.op! o).results.foldlM (fun s v => s.valueErase v safe) s

/-- `Operation.erase` -/
def opErase (s : IRStore) (o : Nat) (safe : Bool) : R :=
  if (s.opParent o).isSome then .error .assertion
  else
    let results := (s.op! o).results
    let s := s.dropTree (.op o)
    results.foldlM (fun s v => s.valueErase v safe) s

/-- `Operation.drop_all_references` (on a detached operation) -/
def dropAllReferences (s : IRStore) (o : Nat) : R := .ok (s.dropTree (.op o))

/-- `Block.erase` -/
def blockErase (s : IRStore) (b : Nat) (safe : Bool) : R :=
  if (s.blockParent b).isSome then .error .assertion
  else
    let tops := (s.opsOf b).map (fun o => (s.op! o).results)
    let s := s.dropTree (.block b)
    tops.foldlM (fun s rs => rs.foldlM (fun s v => s.valueErase v safe) s) s

/-- `Region.erase` -/
def regionErase (s : IRStore) (r : Nat) : R :=
  if (s.regionParent r).isSome then .error .assertion else .ok (s.dropTree (.region r))

/-! ## Block -/
/-- guards of `Block._attach_op` -/
def checkAttachOp (s : IRStore) (b o : Nat) : Except Err Unit :=
  if (s.opParent o).isSome then .error .value
  else if s.isAncestor (.op o) (.block b) then .error .value
  else .ok ()

def insertOpAfter (s : IRStore) (b new ex : Nat) : R := do
  if s.opParent ex ≠ some b then throw .value
  s.checkAttachOp b new
  pure { s with opL := s.opL.insertAfter b ex new }

def insertOpBefore (s : IRStore) (b new ex : Nat) : R := do
  if s.opParent ex ≠ some b then throw .value
  s.checkAttachOp b new
  pure { s with opL := s.opL.insertBefore b ex new }

def addOp (s : IRStore) (b o : Nat) : R :=
  match (s.opL.en b).last with
  | none => do
    s.checkAttachOp b o
    pure { s with opL := s.opL.pushBack b o }
  | some l => s.insertOpAfter b o l

def addOps (s : IRStore) (b : Nat) (ops : List Nat) : R := ops.foldlM (fun s o => s.addOp b o) s

def insertOpsBefore (s : IRStore) (b : Nat) (ops : List Nat) (ex : Nat) : R :=
  ops.foldlM (fun s o => s.insertOpBefore b o ex) s

def insertOpsAfter (s : IRStore) (b : Nat) (ops : List Nat) (ex : Nat) : R := do
  let (s, _) ← ops.foldlM (fun (p : IRStore × Nat) o => do
    let s ← p.1.insertOpAfter b o p.2
    pure (s, o)) (s, ex)
  pure s

def detachOp (s : IRStore) (b o : Nat) : R :=
  if s.opParent o ≠ some b then .error .value
  else .ok { s with opL := s.opL.remove b o }

def eraseOp (s : IRStore) (b o : Nat) (safe : Bool) : R := do
  let s ← s.detachOp b o
  s.opErase o safe

/-- `Block(arg_types=…)` without operations -/
def mkBlock (s : IRStore) (b : Nat) (args : List Nat) : IRStore :=
  let s := s.setBlock b { args := args }
  (args.zipIdx).foldl (fun s p => s.setVal p.1 { kind := .arg, owner := b, index := p.2 }) s

def splitBefore (s : IRStore) (b o nb : Nat) (args : List Nat) : R := do
  if s.opParent o ≠ some b then throw .value
  match s.blockParent b with
  | none => throw .value
  | some r =>
    let s := s.mkBlock nb args
    -- `parent.insert_block(b, a_index + 1)`: right after `self`
    let s := { s with blockL := s.blockL.insertAfter r b nb }
    pure { s with opL := s.opL.splitBefore b o nb }

def shiftArgs (s : IRStore) (args : List Nat) (up : Bool) : IRStore :=
  args.foldl (fun s a =>
    let d := s.val! a
    s.setVal a { d with index := if up then d.index + 1 else d.index - 1 }) s

def insertArg (s : IRStore) (b : Nat) (idx : Int) (nv : Nat) : R :=
  let args := (s.block! b).args
  if idx < 0 || idx.toNat > args.length then .error .value
  else
    let k := idx.toNat
    let s := s.shiftArgs (args.drop k) true
    let s := s.setVal nv { kind := .arg, owner := b, index := k }
    .ok (s.setBlock b { args := args.take k ++ nv :: args.drop k })

def eraseArg (s : IRStore) (b v : Nat) (safe : Bool) : R :=
  let d := s.val! v
  if d.owner ≠ b then .error .value
  else
    let args := (s.block! b).args
    let s := s.shiftArgs (args.drop (d.index + 1)) false
    let s := s.setBlock b { args := args.take d.index ++ args.drop (d.index + 1) }
    do let s ← s.valueErase v safe
       pure { s with deadV := v :: s.deadV }

/-! ## Region -/
/-- guards of `Region._attach_block` -/
def checkAttachBlock (s : IRStore) (r b : Nat) : Except Err Unit :=
  if (s.blockParent b).isSome then .error .value
  else if s.isAncestor (.block b) (.region r) then .error .value
  else .ok ()

def addBlock (s : IRStore) (r : Nat) (bs : List Nat) : R :=
  bs.foldlM (fun s b => do
    s.checkAttachBlock r b
    pure { s with blockL := s.blockL.pushBack r b }) s

def insertBlockBefore (s : IRStore) (r : Nat) (bs : List Nat) (t : Nat) : R := do
  if s.blockParent t ≠ some r then throw .value
  bs.foldlM (fun s b => do
    s.checkAttachBlock r b
    pure { s with blockL := s.blockL.insertBefore r t b }) s

def insertBlockAfter (s : IRStore) (r : Nat) (bs : List Nat) (t : Nat) : R :=
  match (s.blockL.nd t).next with
  | none => s.addBlock r bs
  | some nx => s.insertBlockBefore r bs nx

def insertBlock (s : IRStore) (r : Nat) (bs : List Nat) (idx : Int) : R :=
  let cur := s.blocksOf r
  if idx < 0 then .ok s
  else if idx.toNat < cur.length then s.insertBlockBefore r bs (cur.getD idx.toNat 0)
  else if idx.toNat = cur.length then s.addBlock r bs
  else .ok s

def detachBlock (s : IRStore) (r b : Nat) : R :=
  if s.blockParent b ≠ some r then .error .value
  else .ok { s with blockL := s.blockL.remove r b }

/-- `RegionBlocks.__getitem__` -/
def blockAt (s : IRStore) (r : Nat) (idx : Int) : Except Err Nat :=
  let cur := s.blocksOf r
  match normIdx cur.length idx with
  | none => .error .index
  | some k => .ok (cur.getD k 0)

def detachBlockIdx (s : IRStore) (r : Nat) (idx : Int) : R := do
  let b ← s.blockAt r idx
  pure { s with blockL := s.blockL.remove r b }

def eraseBlock (s : IRStore) (r b : Nat) (safe : Bool) : R := do
  let s ← s.detachBlock r b
  s.blockErase b safe

def eraseBlockIdx (s : IRStore) (r : Nat) (idx : Int) (safe : Bool) : R := do
  let b ← s.blockAt r idx
  let s : IRStore := { s with blockL := s.blockL.remove r b }
  s.blockErase b safe

def moveBlocks (s : IRStore) (r dst : Nat) : R :=
  if r = dst then .error .value
  else .ok { s with blockL := s.blockL.spliceAllBack r dst }

def moveBlocksBefore (s : IRStore) (r t : Nat) : R :=
  match s.blockParent t with
  | none => .error .value
  | some dst =>
    if dst = r then .error .value
    else .ok { s with blockL := s.blockL.spliceAllBefore r dst t }

/-! ## Operation -/
def opDetach (s : IRStore) (o : Nat) : R :=
  match s.opParent o with
  | none => .error .value
  | some b => s.detachOp b o

def addRegion (s : IRStore) (o r : Nat) : R :=
  if (s.regionParent r).isSome then .error .value
  else
    let d := s.op! o
    .ok ((s.setOp o { d with regions := d.regions ++ [r] }).setRegion r { parent := some o })

def detachRegion (s : IRStore) (o r : Nat) : R :=
  if s.regionParent r ≠ some o then .error .value
  else
    let d := s.op! o
    let k := d.regions.idxOf r
    .ok ((s.setRegion r { parent := none }).setOp o { d with regions := d.regions.take k ++ d.regions.drop (k + 1) })

def detachRegionIdx (s : IRStore) (o : Nat) (idx : Int) : R :=
  let d := s.op! o
  match normIdx d.regions.length idx with
  | none => .error .index
  | some k =>
    let r := d.regions.getD k 0
    .ok ((s.setRegion r { parent := none }).setOp o { d with regions := d.regions.take k ++ d.regions.drop (k + 1) })

/-- `Operation.create` of a `test.op`-like operation -/
def newOp (s : IRStore) (k : Nat) (res operands succs regions : List Nat) : R := do
  let s := s.setOp k {}
  let s : IRStore := { s with opL := s.opL.setNd k {} }
  let s := s.setOperands k operands
  let s := s.setOp k { s.op! k with results := res }
  let s := (res.zipIdx).foldl (fun s p => s.setVal p.1 { kind := .result, owner := k, index := p.2 }) s
  let s := s.setSuccessors k succs
  regions.foldlM (fun s r => s.addRegion k r) s

def newBlock (s : IRStore) (b : Nat) (args ops : List Nat) : R := (s.mkBlock b args).addOps b ops

def newRegion (s : IRStore) (r : Nat) (bs : List Nat) : R := (s.setRegion r {}).addBlock r bs

/-! ## Rewriter -/
def resolveIP (s : IRStore) : IP → Except Err (Nat × Option Nat)
  | .before o => match s.opParent o with
    | none => .error .value
    | some b => .ok (b, some o)
  | .after o => match s.opParent o with
    | none => .error .value
    | some b => .ok (b, (s.opL.nd o).next)
  | .start b => .ok (b, (s.opL.en b).first)
  | .end_ b => .ok (b, none)

def resolveBIP (s : IRStore) : BIP → Except Err (Nat × Option Nat)
  | .before b => match s.blockParent b with
    | none => .error .value
    | some r => .ok (r, some b)
  | .after b => match s.blockParent b with
    | none => .error .value
    | some r => .ok (r, (s.blockL.nd b).next)
  | .start r => .ok (r, (s.blockL.en r).first)
  | .end_ r => .ok (r, none)

def rwEraseOp (s : IRStore) (o : Nat) (safe : Bool) : R :=
  match s.opParent o with
  | some b => s.eraseOp b o safe
  | none => s.opErase o safe

def replaceResults (s : IRStore) (olds : List Nat) (news : List (Option Nat)) (safe : Bool) : R :=
  (olds.zip news).foldlM (fun s p =>
    match p.2 with
    | none => s.valueErase p.1 safe
    | some w => s.replaceAllUsesWith p.1 w) s

def defaultResults (s : IRStore) (newOps : List Nat) : List (Option Nat) :=
  match newOps.getLast? with
  | none => []
  | some l => (s.op! l).results.map some

def rwReplaceOp (s : IRStore) (o : Nat) (newOps : List Nat) (newResults : Option (List (Option Nat)))
    (safe : Bool) : R :=
  match s.opParent o with
  | none => .error .value
  | some b => do
    let news := newResults.getD (s.defaultResults newOps)
    let olds := (s.op! o).results
    if olds.length ≠ news.length then throw .value
    let s ← s.replaceResults olds news safe
    let s ← s.insertOpsAfter b newOps o
    s.eraseOp b o safe

def replaceValueWithNewType (s : IRStore) (v nv : Nat) : R :=
  let d := s.val! v
  match d.kind with
  | .erased => .error .value
  | .result =>
    let od := s.op! d.owner
    let s := s.setVal nv { kind := .result, owner := d.owner, index := d.index }
    let s := s.setOp d.owner { od with results := od.results.set d.index nv }
    do let s ← s.replaceAllUsesWith v nv
       pure { s with deadV := v :: s.deadV }
  | .arg =>
    let bd := s.block! d.owner
    let s := s.setVal nv { kind := .arg, owner := d.owner, index := d.index }
    let s := s.setBlock d.owner { args := bd.args.set d.index nv }
    do let s ← s.replaceAllUsesWith v nv
       pure { s with deadV := v :: s.deadV }

def insertOpsAt (s : IRStore) (ops : List Nat) (p : Nat × Option Nat) : R :=
  match p.2 with
  | some ib => s.insertOpsBefore p.1 ops ib
  | none => s.addOps p.1 ops

def insertBlocksAt (s : IRStore) (bs : List Nat) (p : Nat × Option Nat) : R :=
  match p.2 with
  | some ib => s.insertBlockBefore p.1 bs ib
  | none => s.addBlock p.1 bs

def rwInlineBlock (s : IRStore) (src : Nat) (ip : IP) (argVals : List Nat) : R := do
  let p ← s.resolveIP ip
  let args := (s.block! src).args
  if !argVals.isEmpty && argVals.length ≠ args.length then throw .assertion
  let s ← (args.zip argVals).foldlM (fun s q => s.replaceAllUsesWith q.1 q.2) s
  let ops := s.opsOf src
  let s ← ops.foldlM (fun s o => s.opDetach o) s
  let s ← s.insertOpsAt ops p
  let s ← match s.blockParent src with
    | some r => s.detachBlock r src
    | none => pure s
  s.blockErase src true

def rwInsertBlock (s : IRStore) (bs : List Nat) (bip : BIP) : R := do
  let p ← s.resolveBIP bip
  s.insertBlocksAt bs p

def rwInsertOp (s : IRStore) (ops : List Nat) (ip : IP) : R := do
  let p ← s.resolveIP ip
  s.insertOpsAt ops p

def rwMoveRegionContents (s : IRStore) (r nr : Nat) : R := (s.setRegion nr {}).moveBlocks r nr

def rwInlineRegion (s : IRStore) (r : Nat) (bip : BIP) : R := do
  let p ← s.resolveBIP bip
  match p.2 with
  | some ib => s.moveBlocksBefore r ib
  | none => s.moveBlocks r p.1

/-! ## PatternRewriter -/
/-- `PatternRewriter(cur)`: `InsertPoint.before(cur)` -/
def checkCur (s : IRStore) (cur : Nat) : Except Err Unit :=
  if (s.opParent cur).isNone then .error .value else .ok ()

def prInsert (s : IRStore) (cur : Nat) (ops : List Nat) (ip : Option IP) : R := do
  s.checkCur cur
  let p ← match ip with
    | some ip => s.resolveIP ip
    | none => s.resolveIP (.before cur)
  if ops.isEmpty then pure s else s.insertOpsAt ops p

def prReplaceAllUsesWith (s : IRStore) (v : Nat) (w : Option Nat) (safe : Bool) : R :=
  match w with
  | none => do
    let s ← s.valueErase v safe
    pure { s with deadV := v :: s.deadV }
  | some w => s.replaceAllUsesWith v w

def prReplace (s : IRStore) (o : Nat) (newOps : List Nat) (newResults : Option (List (Option Nat)))
    (safe : Bool) : R := do
  let p ← s.resolveIP (.before o)
  let s ← if newOps.isEmpty then pure s else s.insertOpsAt newOps p
  let news := newResults.getD (s.defaultResults newOps)
  let olds := (s.op! o).results
  if olds.length ≠ news.length then throw .value
  let s ← (olds.zip news).foldlM (fun s q =>
    if q.2 = some q.1 then pure s
    else match q.2 with
      | none => s.valueErase q.1 safe
      | some w => s.replaceAllUsesWith q.1 w) s
  s.rwEraseOp o safe

def prEraseBlockArgument (s : IRStore) (v : Nat) (safe : Bool) : R := do
  let s ← s.valueErase v safe
  s.eraseArg (s.val! v).owner v safe

def prCreateBlock (s : IRStore) (bip : BIP) (nb : Nat) (args : List Nat) : R := do
  let p ← s.resolveBIP bip
  (s.mkBlock nb args).insertBlocksAt [nb] p

end IRStore
end Xdsl.IR
