import XdslModel.Prelude
/-!
Model of the name hints the parser gives to values and blocks (C07): `IRWithName.is_valid_name`,
`IRWithName.extract_valid_name` and the `name_hint` setter (`xdsl/ir/core.py`), `Block.is_default_block_name`,
and the four places of `xdsl/parser/core.py` that reach the setter: `_register_ssa_definition`
(operation results, block / function / region arguments), `_parse_block`, `_get_block_from_name`,
`parse_optional_successor`.

The setter raises `ValueError` on a name that does not match `_VALUE_NAME_PATTERN`; the parser only
calls it behind `is_valid_name(name)`.  Whether that guard is enough is a property of the two
functions together: the model keeps the `ValueError` as an explicit outcome (`Res.valueError`), and
`XdslProofs/C07Names.lean` shows that no name reaches it.

Input: the code points of the identifier after its sigil (`%`, `^`).  Both regular expressions are
compiled with `re.ASCII`, so no Python predicate is consulted.

* `_VALUE_NAME_PATTERN = ([A-Za-z_$.-][\w$.-]*)` used with `fullmatch` → `validName`;
* `_VALUE_NAME_SUFFIX_PATTERN = (?:\d+_)+` used with `match` on the *reversed* name → `strip`
  (each group is a maximal run of digits followed by `_`; a run of digits that is not followed by
  `_` is given back, as the regex engine does when the last iteration of the `+` fails).
-/
namespace Xdsl.ValueNames

def isAlpha (c : Nat) : Bool := (65 ≤ c && c ≤ 90) || (97 ≤ c && c ≤ 122)
def isDigit (c : Nat) : Bool := 48 ≤ c && c ≤ 57
/-- `[A-Za-z_$.-]` -/
def isHead (c : Nat) : Bool := isAlpha c || c == 95 || c == 36 || c == 46 || c == 45
/-- `[\w$.-]` under `re.ASCII` -/
def isTail (c : Nat) : Bool := isHead c || isDigit c

/-- `_VALUE_NAME_PATTERN.fullmatch(name) is not None` (= `is_valid_name(name)` for a string) -/
def validName : List Nat → Bool
  | [] => false
  | c :: cs => isHead c && cs.all isTail

/-- what is left of the reversed name after the longest prefix `(?:\d+_)+` / nothing is removed.
`acc`: the digits of the group being read (given back when no `_` follows them) -/
def strip : List Nat → List Nat → List Nat
  | acc, [] => acc
  | acc, c :: cs =>
    if isDigit c then strip (acc ++ [c]) cs
    else if c == 95 && !acc.isEmpty then strip [] cs
    else acc ++ c :: cs

/-- the value `extract_valid_name` returns for a name that matches the pattern -/
def stripped (name : List Nat) : List Nat := (strip [] name.reverse).reverse

inductive Res where
  /-- the `name_hint` of the value / block after the parser is done with it -/
  | hint (h : Option (List Nat))
  /-- `ValueError("Invalid … name format")` leaves `extract_valid_name` -/
  | valueError
deriving Repr, DecidableEq, Inhabited

/-- `x.name_hint = name` (the setter: `self._name = self.extract_valid_name(name)`) -/
def setHint (name : List Nat) : Res :=
  if validName name then .hint (some (stripped name)) else .valueError

/-- `name.startswith("bb") and name[2:].isdigit() and name[2:] != ""` -/
def isDefaultBlockName : List Nat → Bool
  | 98 :: 98 :: d :: ds => (d :: ds).all isDigit
  | _ => false

/-- `_register_ssa_definition`: `if SSAValue.is_valid_name(name): val.name_hint = name` -/
def valueHint (name : List Nat) : Res :=
  if validName name then setHint name else .hint none

/-- `_parse_block`, `_get_block_from_name`, `parse_optional_successor`:
`if Block.is_valid_name(name) and not Block.is_default_block_name(name): block.name_hint = name` -/
def blockHint (name : List Nat) : Res :=
  if validName name && !isDefaultBlockName name then setHint name else .hint none

/-! ## Line protocol -/

def hexVal? (s : String) : Option Nat :=
  if s.isEmpty then none else
  s.toList.foldl (fun acc c =>
    acc.bind fun a =>
      let n := c.toNat
      if 48 ≤ n ∧ n ≤ 57 then some (16 * a + (n - 48))
      else if 97 ≤ n ∧ n ≤ 102 then some (16 * a + (n - 87))
      else none) (some 0)

def decCPs (ws : List String) : Option (List Nat) :=
  ws.foldr (fun w acc => match hexVal? w, acc with
    | some c, some l => some (c :: l)
    | _, _ => none) (some [])

def hexOf (n : Nat) : String := String.ofList (Nat.toDigits 16 n)

def showRes : Res → String
  | .hint none => "none"
  | .hint (some cs) => " ".intercalate ("hint" :: cs.map hexOf)
  | .valueError => "ERR:ValueError"

/-- `value <hex code point>*` / `block <hex code point>*` → `none` | `hint <hex code point>*` | `ERR:ValueError` -/
def lineStep (s : Unit) (line : String) : Unit × String :=
  (s,
  match words line with
  | ["reset"] => "ok"
  | "value" :: ws => (match decCPs ws with | some cs => showRes (valueHint cs) | none => "bad-op")
  | "block" :: ws => (match decCPs ws with | some cs => showRes (blockHint cs) | none => "bad-op")
  | _ => "bad-op")

end Xdsl.ValueNames
