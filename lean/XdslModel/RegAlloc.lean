import XdslModel.RegMachine
/-!
C19 — (a) the interference validator that is run on every real allocation, and
(b) a model of the backward block-naive allocator of `xdsl/backend` for straight-line blocks:
`BlockNaiveAllocator.allocate_block`, `HasRegisterConstraints.allocate_registers`,
`ValueAllocator.allocate_value / allocate_values_same_reg / free_value`,
`RegisterStack.push / pop / include_register / exclude_register` and
`RegisterAllocatorLivenessBlockNaive.new_type_for_value / allocate_func`
(`X86RegisterAllocator.allocate_func` is the same without the zero-register rule);
(c) at the end of the file, the complete `RegisterStack` of `xdsl/backend/register_stack.py` for one
pool — `push / pop / include_register / exclude_register / reserve_register / unreserve_register`
with the reservation counts and the `AssertionError` / `ValueError` / `OutOfRegisters` outcomes
(`RStack`, driver model `register_stack`); `XdslProofs.C19Stack` proves its invariants and that
(b)'s `push`/`pop` are this stack without reservations.
-/
namespace Xdsl.RegAlloc
open Xdsl.RegMachine

/-! ## Liveness and the validator -/

/-- live before `o`, given the values live after it -/
def liveIn (o : Op) (L : List ValId) : List ValId :=
  o.reads ++ L.filter fun v => !o.defs.contains v

/-- values that become known to be 0 by `o`, given those known before: results of a constant-zero
operation; the i-th result of a move whose i-th source is known to be 0 -/
def newZero (followPmov : Bool) (Z : List ValId) (o : Op) : List ValId :=
  if o.zk = 1 then o.defs
  else if o.zk = 2 ∨ (followPmov = true ∧ o.zk = 3) then
    (o.reads.zip o.defs).filterMap fun p => if Z.contains p.1 then some p.2 else none
  else []

/-- a definition must not overwrite a value of `L` (writes to the zero register are no writes) -/
def clashFree (z : Bool) (alloc : ValId → Reg) (o : Op) (L : List ValId) : Bool :=
  o.defs.all fun d => L.all fun w => w == d || alloc w != alloc d || (z && alloc d == 0)

/-- per operation: results are distinct values not yet known to be zero (SSA), no result overwrites
another result or a value live after the operation, a result placed in `zero` is known to be 0, and
the two members of an in/out pair share their register
(`opOk_iff` in XdslProofs/Lemmas/RegMachine.lean is the logical reading) -/
def opOk (z : Bool) (alloc : ValId → Reg) (Z Z' : List ValId) (o : Op) (L : List ValId) : Bool :=
  decide o.defs.Nodup
  && o.defs.all (fun d => !Z.contains d)
  && clashFree z alloc o (o.defs ++ L)   -- neither a live value nor another result of `o`
  && (!z || o.defs.all fun d => alloc d != 0 || Z'.contains d)
  && o.ios.all fun p => alloc p.1 == alloc p.2

/-- one pass: the zero-knowledge `Z` flows forwards (argument), liveness backwards (result).
Returns the values live before the first operation, or `none` if some operation is not ok. -/
def checkOps (z : Bool) (alloc : ValId → Reg) : List ValId → List Op → List ValId → Option (List ValId)
  | _, [], L => some L
  | Z, o :: os, L =>
    match checkOps z alloc (Z ++ newZero true Z o) os L with
    | none => none
    | some L' => if opOk z alloc Z (Z ++ newZero true Z o) o L' then some (liveIn o L') else none

def validate (z : Bool) (alloc : ValId → Reg) (p : Prog) : Bool :=
  match checkOps z alloc [] p.ops p.rets with
  | none => false
  | some L0 =>
    L0.all (fun v => p.args.contains v)
    && decide (p.args.map alloc).Nodup
    && (!z || p.args.all fun a => alloc a != 0)

def interferes (z : Bool) (alloc : ValId → Reg) (p : Prog) : Bool := !validate z alloc p

/-- total assignment from an association list (unassigned values are rejected by `assigned`) -/
def allocOf (asg : AL ValId Reg) (v : ValId) : Reg := (AL.get asg v).getD 0

def progValues (p : Prog) : List ValId :=
  p.args ++ p.ops.flatMap (fun o => o.reads ++ o.defs) ++ p.rets

def assigned (asg : AL ValId Reg) (p : Prog) : Bool :=
  (progValues p).all fun v => (AL.get asg v).isSome

/-- pre-assigned registers are kept -/
def respectsPre (pre asg : AL ValId Reg) : Bool :=
  pre.all fun kv => AL.get asg kv.1 == some kv.2

/-- reserved registers are respected: a register that an operation of the function declares as
excluded holds a value only if the input itself puts a value there (the value is pre-assigned, or
tied to a pre-assigned one — the tie itself is checked by `opOk`) -/
def exclOk (excl : List Reg) (pre asg : AL ValId Reg) : Bool :=
  asg.all fun kv => !excl.contains kv.2 || pre.any fun pv => pv.2 == kv.2

/-! ## The allocator model -/

structure Cfg where
  /-- register 0 is the hard-wired zero register and constant-zero values are placed in it -/
  z : Bool
  allowInf : Bool
  /-- infinite registers `j_n` are numbered `infBase + n` -/
  infBase : Nat
deriving Repr

structure St where
  asg : AL ValId Reg
  /-- `RegisterStack.available_registers`, top of the stack first -/
  avail : List Reg
  allocatable : List Reg
  nextInf : Nat
deriving Repr

inductive Err
  | outOfRegisters | diagnostic
deriving Repr, DecidableEq

def isInf (c : Cfg) (r : Reg) : Bool := decide (c.infBase ≤ r)

/-- `RegisterStack.push` (no reservations in straight-line code) -/
def push (c : Cfg) (s : St) (r : Reg) : St :=
  if !isInf c r && !s.allocatable.contains r then s
  else { s with avail := r :: s.avail.filter (· != r) }

/-- `RegisterStack.pop` -/
def pop (c : Cfg) (s : St) : Except Err (Reg × St) :=
  match s.avail with
  | r :: rest => .ok (r, { s with avail := rest })
  | [] =>
    if c.allowInf then .ok (c.infBase + s.nextInf, { s with nextInf := s.nextInf + 1 })
    else .error .outOfRegisters

/-- `allocate_value` with the RISC-V `new_type_for_value` (constant 0 → `zero`) -/
def allocValue (c : Cfg) (Zc : List ValId) (s : St) (v : ValId) : Except Err St :=
  if (AL.get s.asg v).isSome then .ok s
  else if c.z && Zc.contains v then .ok { s with asg := AL.set s.asg v 0 }
  else
    match pop c s with
    | .error e => .error e
    | .ok (r, s') => .ok { s' with asg := AL.set s'.asg v r }

/-- `allocate_values_same_reg` for an in/out pair -/
def sameReg (c : Cfg) (s : St) (i o : ValId) : Except Err St :=
  match AL.get s.asg i, AL.get s.asg o with
  | none, none =>
    match pop c s with
    | .error e => .error e
    | .ok (r, s') => .ok { s' with asg := AL.set (AL.set s'.asg i r) o r }
  | some r, none => .ok { s with asg := AL.set s.asg o r }
  | none, some r => .ok { s with asg := AL.set s.asg i r }
  | some r1, some r2 => if r1 = r2 then .ok s else .error .diagnostic

def foldE {α β : Type} (f : β → α → Except Err β) : β → List α → Except Err β
  | s, [] => .ok s
  | s, a :: as =>
    match f s a with
    | .error e => .error e
    | .ok s' => foldE f s' as

/-- `free_value` -/
def freeValue (c : Cfg) (s : St) (v : ValId) : St :=
  match AL.get s.asg v with
  | some r => push c s r
  | none => s

/-- `HasRegisterConstraints.allocate_registers` -/
def allocOp (c : Cfg) (Zc : List ValId) (s : St) (o : Op) : Except Err St :=
  match foldE (fun s p => sameReg c s p.1 p.2) s o.ios with
  | .error e => .error e
  | .ok s1 =>
    match foldE (allocValue c Zc) s1 o.outs with
    | .error e => .error e
    | .ok s2 => foldE (allocValue c Zc) (o.outs.reverse.foldl (freeValue c) s2) o.ins

/-- values for which `get_constant_value` is 0: `li 0`, `get_register zero`, `mv` of those -/
def zeroConsts (ops : List Op) : List ValId :=
  ops.foldl (fun Z o => Z ++ newZero false Z o) []

/-- registers of pre-assigned values that occur on some operation
(`RegisterAllocatableOperation.all_used_registers`; the return operation reads `rets`) -/
def usedPre (pre : AL ValId Reg) (p : Prog) : List Reg :=
  (p.ops.flatMap (fun o => o.reads ++ o.defs) ++ p.rets).filterMap (AL.get pre)

/-- `RegisterStack.get(pool)` followed by `exclude_register` of every used pre-assigned register -/
def initSt (pool : List Reg) (pre : AL ValId Reg) (p : Prog) : St :=
  let used := usedPre pre p
  let stack := pool.foldl (fun st r => r :: st.filter (· != r)) []
  { asg := pre,
    avail := stack.filter (fun r => !used.contains r),
    allocatable := pool.filter (fun r => !used.contains r),
    nextInf := 0 }

/-- `allocate_func`: the terminator first (its operands are `ins`), then the block backwards -/
def allocate (c : Cfg) (pool : List Reg) (pre : AL ValId Reg) (p : Prog) : Except Err (AL ValId Reg) :=
  let Zc := zeroConsts p.ops
  match foldE (allocValue c Zc) (initSt pool pre p) p.rets with
  | .error e => .error e
  | .ok s =>
    match foldE (allocOp c Zc) s p.ops.reverse with
    | .error e => .error e
    | .ok s' => .ok s'.asg

/-- `allocate_func` with the registers that operations of the function declare as excluded
(`RegisterAllocatableOperation.all_excluded_registers`, see `XdslModel/Excluded.lean` for the walk
that collects them): `for pa_reg in preallocated | excluded: exclude_register(pa_reg)` removes them
from the available list and from the allocatable set of the freshly built stack. -/
def initStX (pool excl : List Reg) (pre : AL ValId Reg) (p : Prog) : St :=
  let s := initSt pool pre p
  { s with avail := s.avail.filter (fun r => !excl.contains r),
           allocatable := s.allocatable.filter (fun r => !excl.contains r) }

def allocateX (c : Cfg) (pool excl : List Reg) (pre : AL ValId Reg) (p : Prog) :
    Except Err (AL ValId Reg) :=
  let Zc := zeroConsts p.ops
  match foldE (allocValue c Zc) (initStX pool excl pre p) p.rets with
  | .error e => .error e
  | .ok s =>
    match foldE (allocOp c Zc) s p.ops.reverse with
    | .error e => .error e
    | .ok s' => .ok s'.asg

/-! ## Line protocol

`alloc    <prog> ; pre v r .. ; pool r .. ; opt z inf infbase [; excl r ..]`
`validate <prog> ; pre .. ; pool .. ; opt .. ; asg v r .. [; excl r ..]`
`<prog>` = `args a .. ; op zk code imm i v .. o v .. p vin vout .. ; .. ; ret v ..` -/

def splitOn (sep : String) : List String → List (List String)
  | [] => [[]]
  | w :: ws =>
    match splitOn sep ws with
    | [] => [[w]]
    | g :: gs => if w = sep then [] :: g :: gs else (w :: g) :: gs

def nats (ws : List String) : Option (List Nat) := ws.mapM String.toNat?

def pairs : List Nat → Option (List (Nat × Nat))
  | [] => some []
  | a :: b :: r => (pairs r).map ((a, b) :: ·)
  | _ => none

def parseOp (ws : List String) : Option Op :=
  match ws with
  | zk :: code :: imm :: "i" :: rest =>
    match splitOn "o" rest with
    | [is, r2] =>
      match splitOn "p" r2 with
      | [os, ps] => do
        let zk ← zk.toNat?
        let code ← code.toNat?
        let imm ← imm.toInt?
        let is ← nats is
        let os ← nats os
        let ps ← (nats ps).bind pairs
        pure { zk := zk, code := code, imm := imm, ins := is, outs := os, ios := ps }
      | _ => none
    | _ => none
  | _ => none

structure Query where
  prog : Prog := { args := [], ops := [], rets := [] }
  pre : AL ValId Reg := []
  pool : List Reg := []
  cfg : Cfg := { z := false, allowInf := false, infBase := 1000 }
  asg : AL ValId Reg := []
  /-- registers declared as excluded by operations of the function -/
  excl : List Reg := []

def parseSection (q : Query) (ws : List String) : Option Query :=
  match ws with
  | "args" :: r => (nats r).map fun a => { q with prog := { q.prog with args := a } }
  | "op" :: r => (parseOp r).map fun o => { q with prog := { q.prog with ops := q.prog.ops ++ [o] } }
  | "ret" :: r => (nats r).map fun a => { q with prog := { q.prog with rets := a } }
  | "pre" :: r => ((nats r).bind pairs).map fun a => { q with pre := a }
  | "pool" :: r => (nats r).map fun a => { q with pool := a }
  | ["opt", z, inf, base] => do
    let z ← z.toNat?
    let inf ← inf.toNat?
    let base ← base.toNat?
    pure { q with cfg := { z := z != 0, allowInf := inf != 0, infBase := base } }
  | "asg" :: r => ((nats r).bind pairs).map fun a => { q with asg := a }
  | "excl" :: r => (nats r).map fun a => { q with excl := a }
  | _ => none

def parseQuery (ws : List String) : Option Query :=
  (splitOn ";" ws).foldlM parseSection {}

def insertSorted (kv : Nat × Nat) : List (Nat × Nat) → List (Nat × Nat)
  | [] => [kv]
  | x :: r => if kv.1 ≤ x.1 then kv :: x :: r else x :: insertSorted kv r

def showAsg (a : AL ValId Reg) : String :=
  let sorted := a.foldr insertSorted []
  " ".intercalate (sorted.map fun kv => s!"{kv.1} {kv.2}")

def lineStep (s : Unit) (line : String) : Unit × String :=
  match words line with
  | "alloc" :: r =>
    match parseQuery r with
    | none => (s, "bad-op")
    | some q =>
      match allocateX q.cfg q.pool q.excl q.pre q.prog with
      | .ok a => (s, "alloc " ++ showAsg a)
      | .error .outOfRegisters => (s, "raise OutOfRegisters")
      | .error .diagnostic => (s, "raise DiagnosticException")
  | "validate" :: r =>
    match parseQuery r with
    | none => (s, "bad-op")
    | some q =>
      if !assigned q.asg q.prog then (s, "invalid unassigned-value")
      else if !respectsPre q.pre q.asg then (s, "invalid pre-assigned-register-changed")
      else if !exclOk q.excl q.pre q.asg then (s, "invalid reserved-register-handed-out")
      else if validate q.cfg.z (allocOf q.asg) q.prog then (s, "valid")
      else (s, "invalid interference")
  | _ => (s, "bad-op")

/-! ## `RegisterStack` with reservation counts and exclusion (one pool)

Registers are the indices; infinite registers (Python index `~n`) are `infBase + n` as above.
`avail` is `available_registers[pool]` with the top of the stack (the end of the Python list) first;
the list never holds a register twice (`XdslProofs.C19Stack.sinv_step`), so `filter (· != r)` is
`list.remove(r)`.  `reserved` is `reserved_registers[pool]`: register ↦ reservation count, keys
present exactly while the count is positive. -/

structure RStack where
  allocatable : List Reg := []
  nextInf : Nat := 0
  reserved : AL Reg Nat := []
  avail : List Reg := []
deriving Repr

/-- `index in self.reserved_registers[pool_key]` -/
def RStack.isReserved (s : RStack) (r : Reg) : Bool := (AL.get s.reserved r).isSome

/-- the reservation count (`0` when the key is absent) -/
def RStack.count (s : RStack) (r : Reg) : Nat := (AL.get s.reserved r).getD 0

inductive SOp
  | incl (r : Reg) | excl (r : Reg) | push (r : Reg) | pop | reserve (r : Reg) | unreserve (r : Reg)
deriving Repr, DecidableEq

inductive SOut
  | unit | reg (r : Reg) | outOfRegisters | assertionError | valueError
deriving Repr, DecidableEq

/-- `RegisterStack.push`: reserved registers stay unavailable; a finite register outside the
allocatable set is ignored; otherwise the register moves to the top. -/
def spush (c : Cfg) (s : RStack) (r : Reg) : RStack :=
  if s.isReserved r then s
  else if !isInf c r && !s.allocatable.contains r then s
  else { s with avail := r :: s.avail.filter (· != r) }

/-- `RegisterStack.pop`: the top of the stack, else a fresh infinite register, else
`OutOfRegisters`; the final `assert` turns a reserved result into an `AssertionError` (the stack has
been changed by then). -/
def spop (c : Cfg) (s : RStack) : RStack × SOut :=
  match s.avail with
  | r :: rest =>
    ({ s with avail := rest }, if s.isReserved r then .assertionError else .reg r)
  | [] =>
    if c.allowInf then
      ({ s with nextInf := s.nextInf + 1 },
        if s.isReserved (c.infBase + s.nextInf) then .assertionError else .reg (c.infBase + s.nextInf))
    else (s, .outOfRegisters)

/-- `reserve_register`: `reserved[r] += 1` -/
def sreserve (s : RStack) (r : Reg) : RStack :=
  { s with reserved := AL.set s.reserved r (s.count r + 1) }

/-- `unreserve_register`: `ValueError` for an absent key; decrement, delete the key at 0 -/
def sunreserve (s : RStack) (r : Reg) : RStack × SOut :=
  match AL.get s.reserved r with
  | none => (s, .valueError)
  | some n =>
    if n - 1 = 0 then ({ s with reserved := AL.del s.reserved r }, .unit)
    else ({ s with reserved := AL.set s.reserved r (n - 1) }, .unit)

/-- `include_register`: add to the allocatable set, then `push` -/
def sinclude (c : Cfg) (s : RStack) (r : Reg) : RStack :=
  spush c { s with allocatable := if s.allocatable.contains r then s.allocatable else r :: s.allocatable } r

/-- `exclude_register`: remove from the available list and from the allocatable set -/
def sexclude (s : RStack) (r : Reg) : RStack :=
  { s with avail := s.avail.filter (· != r), allocatable := s.allocatable.filter (· != r) }

def sstep (c : Cfg) (s : RStack) : SOp → RStack × SOut
  | .incl r => (sinclude c s r, .unit)
  | .excl r => (sexclude s r, .unit)
  | .push r => (spush c s r, .unit)
  | .pop => spop c s
  | .reserve r => (sreserve s r, .unit)
  | .unreserve r => sunreserve s r

def srun (c : Cfg) (s : RStack) : List SOp → RStack × List SOut
  | [] => (s, [])
  | o :: os => let (s', out) := sstep c s o; let (s'', outs) := srun c s' os; (s'', out :: outs)

/-! Line protocol of driver model `register_stack` (state: configuration and a stack of `RStack`s,
so that the harness can walk a tree of operation sequences):
`reset <allow_infinite 0|1> <infBase>` · `dup` · `drop` · `include r` · `exclude r` · `push r` ·
`pop` · `reserve r` · `unreserve r`; every operation answers `<result> | <state>`. -/

def showRStack (s : RStack) : String :=
  let res := (s.reserved.foldr insertSorted []).map fun kv => s!"{kv.1}:{kv.2}"
  let alloc := (s.allocatable.foldr (fun r l => insertSorted (r, 0) l) []).map fun kv => toString kv.1
  s!"avail={",".intercalate (s.avail.reverse.map toString)} alloc={",".intercalate alloc} " ++
  s!"res={",".intercalate res} next={s.nextInf}"

def showSOut : SOut → String
  | .unit => "none"
  | .reg r => s!"reg {r}"
  | .outOfRegisters => "raise OutOfRegisters"
  | .assertionError => "raise AssertionError"
  | .valueError => "raise ValueError"

def parseSOp : List String → Option SOp
  | ["include", r] => r.toNat?.map .incl
  | ["exclude", r] => r.toNat?.map .excl
  | ["push", r] => r.toNat?.map .push
  | ["pop"] => some .pop
  | ["reserve", r] => r.toNat?.map .reserve
  | ["unreserve", r] => r.toNat?.map .unreserve
  | _ => none

def stackLineStep (st : Cfg × List RStack) (line : String) : (Cfg × List RStack) × String :=
  let (c, ss) := st
  match words line with
  | ["reset", inf, base] =>
    match inf.toNat?, base.toNat? with
    | some inf, some base => (({ z := false, allowInf := inf != 0, infBase := base }, [{}]), "ok")
    | _, _ => (st, "bad-op")
  | ["dup"] =>
    match ss with
    | s :: rest => ((c, s :: s :: rest), "ok")
    | [] => (st, "bad-op")
  | ["drop"] =>
    match ss with
    | _ :: s :: rest => ((c, s :: rest), "ok")
    | _ => (st, "bad-op")
  | ws =>
    match parseSOp ws, ss with
    | some o, s :: rest =>
      let (s', out) := sstep c s o
      ((c, s' :: rest), showSOut out ++ " | " ++ showRStack s')
    | _, _ => (st, "bad-op")

end Xdsl.RegAlloc
