import XdslModel.Prelude
/-!
MiniIR: a first-order representation of func/arith/cf/scf programs, serialised by
`harness/vp/miniir.py` from real xDSL modules as S-expressions, and `Sem`, the reference
semantics (MLIR semantics on `BitVec`, IEEE-754 via Lean's native `Float`/`Float32`).
Shared by C13, C14, C15, C16, C28.  No Mathlib.
-/
namespace Xdsl.MiniIR

/-! ## S-expressions -/
inductive SExp where
  | atom (s : String)
  | list (xs : List SExp)
deriving Repr, Inhabited

def tokenize (s : String) : List String := Id.run do
  let mut out : Array String := #[]
  let mut cur : String := ""
  let mut inStr := false
  for c in s.toList do
    if inStr then
      cur := cur.push c
      if c = '"' then
        out := out.push cur; cur := ""; inStr := false
    else if c = '"' then
      if cur ≠ "" then out := out.push cur
      cur := "\""; inStr := true
    else if c = '(' || c = ')' then
      if cur ≠ "" then out := out.push cur
      cur := ""
      out := out.push (String.singleton c)
    else if c = ' ' || c = '\n' || c = '\t' then
      if cur ≠ "" then out := out.push cur
      cur := ""
    else cur := cur.push c
  if cur ≠ "" then out := out.push cur
  return out.toList

/-- parse one S-expression from a token list; fuel = number of tokens -/
def parseSExp : Nat → List String → Option (SExp × List String)
  | 0, _ => none
  | _ + 1, [] => none
  | f + 1, "(" :: rest => parseList f rest []
  | _ + 1, ")" :: _ => none
  | _ + 1, t :: rest => some (.atom t, rest)
where
  parseList : Nat → List String → List SExp → Option (SExp × List String)
    | 0, _, _ => none
    | _ + 1, [], _ => none
    | _ + 1, ")" :: rest, acc => some (.list acc.reverse, rest)
    | f + 1, toks, acc =>
      match parseSExp f toks with
      | some (e, rest) => parseList f rest (e :: acc)
      | none => none

def readSExp (s : String) : Option SExp :=
  let toks := tokenize s
  match parseSExp (2 * toks.length + 2) toks with
  | some (e, []) => some e
  | _ => none

/-! ## Program representation -/
inductive Ty where
  | int (w : Nat) | index | f32 | f64 | other (s : String)
deriving Repr, DecidableEq, Inhabited

def Ty.width : Ty → Option Nat
  | .int w => some w
  | .index => some 64
  | _ => none

inductive Attr where
  | int (v : Int) (ty : Ty)
  | float (bits : Nat) (ty : Ty)     -- IEEE bit pattern in the attribute's precision
  | str (s : String)
  | ints (l : List Int)
  | unit
deriving Repr, Inhabited

mutual
  inductive Op where
    | mk (name : String) (results : List (Nat × Ty)) (operands : List Nat)
         (attrs : List (String × Attr)) (succs : List (Nat × List Nat)) (regions : List Region)
  inductive Block where
    | mk (id : Nat) (args : List (Nat × Ty)) (ops : List Op)
  inductive Region where
    | mk (blocks : List Block)
end

instance : Inhabited Op := ⟨.mk "" [] [] [] [] []⟩
instance : Inhabited Block := ⟨.mk 0 [] []⟩
instance : Inhabited Region := ⟨.mk []⟩

def Op.name : Op → String | .mk n _ _ _ _ _ => n
def Op.results : Op → List (Nat × Ty) | .mk _ r _ _ _ _ => r
def Op.operands : Op → List Nat | .mk _ _ o _ _ _ => o
def Op.attrs : Op → List (String × Attr) | .mk _ _ _ a _ _ => a
def Op.succs : Op → List (Nat × List Nat) | .mk _ _ _ _ s _ => s
def Op.regions : Op → List Region | .mk _ _ _ _ _ r => r
def Block.id : Block → Nat | .mk i _ _ => i
def Block.args : Block → List (Nat × Ty) | .mk _ a _ => a
def Block.ops : Block → List Op | .mk _ _ o => o
def Region.blocks : Region → List Block | .mk b => b

def Op.attr? (o : Op) (k : String) : Option Attr := (o.attrs.find? (·.1 = k)).map (·.2)

structure Func where
  name : String
  body : Option Region      -- none = external declaration
deriving Inhabited

structure Prog where
  funcs : List Func
deriving Inhabited

/-! ## S-expression → program -/
def parseTy (s : String) : Ty :=
  if s = "index" then .index
  else if s = "f32" then .f32
  else if s = "f64" then .f64
  else if s.startsWith "i" then
    match (s.drop 1).toString.toNat? with
    | some w => .int w
    | none => .other s
  else .other s

def atomNat? : SExp → Option Nat
  | .atom s => s.toNat?
  | _ => none

def atomInt? : SExp → Option Int
  | .atom s => s.toInt?
  | _ => none

def atomStr? : SExp → Option String
  | .atom s => some (if s.startsWith "\"" && s.endsWith "\"" && s.length ≥ 2 then ((s.drop 1).dropEnd 1).toString else s)
  | _ => none

def parseTyped : SExp → Option (Nat × Ty)
  | .list [a, .atom t] => do some (← atomNat? a, parseTy t)
  | _ => none

def parseAttr : SExp → Option (String × Attr)
  | .list [k, .atom "int", v, .atom t] => do some (← atomStr? k, .int (← atomInt? v) (parseTy t))
  | .list [k, .atom "float", v, .atom t] => do some (← atomStr? k, .float (← atomNat? v) (parseTy t))
  | .list [k, .atom "str", v] => do some (← atomStr? k, .str (← atomStr? v))
  | .list (k :: .atom "ints" :: vs) => do some (← atomStr? k, .ints (← vs.mapM atomInt?))
  | .list [k, .atom "unit"] => do some (← atomStr? k, .unit)
  | _ => none

def field (tag : String) (xs : List SExp) : List SExp :=
  match xs.find? (fun e => match e with | .list (.atom t :: _) => t = tag | _ => false) with
  | some (.list (_ :: r)) => r
  | _ => []

mutual
  partial def parseOp : SExp → Option Op
    | .list (.atom "op" :: nm :: rest) => do
      let name ← atomStr? nm
      let res ← (field "res" rest).mapM parseTyped
      let ins ← (field "ins" rest).mapM atomNat?
      let attrs ← (field "attrs" rest).mapM parseAttr
      let succs ← (field "succs" rest).mapM fun e => match e with
        | .list (b :: args) => do some (← atomNat? b, ← args.mapM atomNat?)
        | _ => none
      let regions ← (field "regions" rest).mapM parseRegion
      some (.mk name res ins attrs succs regions)
    | _ => none
  partial def parseBlock : SExp → Option Block
    | .list (.atom "block" :: i :: .list (.atom "args" :: args) :: ops) => do
      some (.mk (← atomNat? i) (← args.mapM parseTyped) (← ops.mapM parseOp))
    | _ => none
  partial def parseRegion : SExp → Option Region
    | .list (.atom "region" :: bs) => do some (.mk (← bs.mapM parseBlock))
    | _ => none
end

def parseFunc : SExp → Option Func
  | .list [.atom "func", nm, .atom "extern"] => do some { name := ← atomStr? nm, body := none }
  | .list [.atom "func", nm, r] => do some { name := ← atomStr? nm, body := some (← parseRegion r) }
  | _ => none

def parseProg : SExp → Option Prog
  | .list (.atom "module" :: fs) => do some { funcs := ← fs.mapM parseFunc }
  | _ => none

end Xdsl.MiniIR
