import XdslModel.Prelude
/-!
# Generic intrusive doubly-linked lists over finite maps (C01)

xDSL keeps three kinds of intrusive doubly-linked lists (`xdsl/ir/core.py`):
operations in a block (`_first_op/_last_op`, `_next_op/_prev_op`, `parent`), blocks in a region
(`_first_block/_last_block`, `_next_block/_prev_block`, `parent`) and uses of a value or block
(`first_use`, `_next_use/_prev_use`).  This file is the one model of all of them: *nodes* and
*containers* are natural numbers, every node has `next/prev/parent`, every container `first/last`.
The primitives perform the same pointer writes as the Python methods named in their doc comments.
For use lists Python stores neither a `last` pointer nor a parent in the `Use`; the model keeps them
as ghost fields (they are never observed).

No proofs here (the native driver links this file); see `XdslProofs/Lemmas/DLL.lean`.
-/
namespace Xdsl.DLL

structure Node where
  next : Option Nat := none
  prev : Option Nat := none
  parent : Option Nat := none
deriving Repr, DecidableEq, Inhabited

structure Ends where
  first : Option Nat := none
  last : Option Nat := none
deriving Repr, DecidableEq, Inhabited

/-- One family of lists: the link fields of all nodes and the end pointers of all containers.
Absent keys mean "all fields `None`". -/
structure L where
  node : AL Nat Node := []
  ends : AL Nat Ends := []
deriving Inhabited

namespace L

def nd (s : L) (n : Nat) : Node := (AL.get s.node n).getD {}
def en (s : L) (c : Nat) : Ends := (AL.get s.ends c).getD {}
def setNd (s : L) (n : Nat) (x : Node) : L := { s with node := AL.set s.node n x }
def setEn (s : L) (c : Nat) (e : Ends) : L := { s with ends := AL.set s.ends c e }
def setNext (s : L) (n : Nat) (v : Option Nat) : L := s.setNd n { s.nd n with next := v }
def setPrev (s : L) (n : Nat) (v : Option Nat) : L := s.setNd n { s.nd n with prev := v }
def setParent (s : L) (n : Nat) (v : Option Nat) : L := s.setNd n { s.nd n with parent := v }
def setFirst (s : L) (c : Nat) (v : Option Nat) : L := s.setEn c { s.en c with first := v }
def setLast (s : L) (c : Nat) (v : Option Nat) : L := s.setEn c { s.en c with last := v }

/-- Follow `next` pointers (at most `fuel` nodes). -/
def walk (s : L) : Nat → Option Nat → List Nat
  | 0, _ => []
  | _, none => []
  | fuel + 1, some n => n :: walk s fuel (s.nd n).next

/-- Follow `prev` pointers (at most `fuel` nodes). -/
def walkBack (s : L) : Nat → Option Nat → List Nat
  | 0, _ => []
  | _, none => []
  | fuel + 1, some n => n :: walkBack s fuel (s.nd n).prev

/-- Enough fuel for any duplicate-free chain of nodes that have an entry. -/
def fuel (s : L) : Nat := s.node.length + 1

/-- The abstraction: forward traversal of container `c` (`list(block.ops)`, `list(region.blocks)`,
`list(value.uses)`). -/
def toList (s : L) (c : Nat) : List Nat := s.walk s.fuel (s.en c).first

/-- Backward traversal (`list(reversed(block.ops))`). -/
def toListBack (s : L) (c : Nat) : List Nat := s.walkBack s.fuel (s.en c).last

/-- `Block.insert_op_after` after its guards: `_attach_op` (parent), `Operation._insert_next_op`,
and the `_last_op` repair.  Also the tail of `Region.add_block`. -/
def insertAfter (s : L) (c ex new : Nat) : L :=
  let nx := (s.nd ex).next
  let s := match nx with
    | some x => s.setPrev x (some new)
    | none => s
  let s := s.setNd new { next := nx, prev := some ex, parent := some c }
  let s := s.setNext ex (some new)
  if nx.isNone then s.setLast c (some new) else s

/-- `Block.insert_op_before` after its guards: `_attach_op`, `Operation._insert_prev_op`, and the
`_first_op` repair.  Also one round of `Region.insert_block_before`. -/
def insertBefore (s : L) (c ex new : Nat) : L :=
  let pv := (s.nd ex).prev
  let s := match pv with
    | some x => s.setNext x (some new)
    | none => s
  let s := s.setNd new { next := some ex, prev := pv, parent := some c }
  let s := s.setPrev ex (some new)
  if pv.isNone then s.setFirst c (some new) else s

/-- `Block.add_op` / one round of `Region.add_block`. -/
def pushBack (s : L) (c new : Nat) : L :=
  match (s.en c).last with
  | none => (s.setNd new { parent := some c }).setEn c { first := some new, last := some new }
  | some l => s.insertAfter c l new

/-- `IRWithUses.add_use`: the new use becomes `first_use`. -/
def pushFront (s : L) (c new : Nat) : L :=
  match (s.en c).first with
  | none => (s.setNd new { parent := some c }).setEn c { first := some new, last := some new }
  | some f => s.insertBefore c f new

/-- `Block.detach_op`, `Region.detach_block`, `IRWithUses.remove_use`. -/
def remove (s : L) (c n : Nat) : L :=
  let x := s.nd n
  let s := match x.prev with
    | some p => s.setNext p x.next
    | none => s.setFirst c x.next
  let s := match x.next with
    | some q => s.setPrev q x.prev
    | none => s.setLast c x.prev
  s.setNd n {}

def setParents (s : L) (l : List Nat) (p : Option Nat) : L :=
  l.foldl (fun s n => s.setParent n p) s

/-- The list surgery of `Block.split_before`: the suffix of `c` starting at its member `n` becomes
the content of the (empty) container `c'`. -/
def splitBefore (s : L) (c n c' : Nat) : L :=
  let x := s.nd n
  let e := s.en c
  let suffix := s.walk s.fuel (some n)
  let s := s.setEn c { first := if x.prev.isNone then none else e.first, last := x.prev }
  let s := s.setEn c' { first := some n, last := e.last }
  let s := s.setParents suffix (some c')
  let s := match x.prev with
    | some p => s.setNext p none
    | none => s
  s.setPrev n none

/-- `Region.move_blocks`: all of `src` is appended to `dst`. -/
def spliceAllBack (s : L) (src dst : Nat) : L :=
  match (s.en src).first, (s.en src).last with
  | some f, some l =>
    let members := s.toList src
    let s := match (s.en dst).last with
      | none => s.setFirst dst (some f)
      | some ol => (s.setPrev f (some ol)).setNext ol (some f)
    let s := s.setLast dst (some l)
    let s := s.setParents members (some dst)
    s.setEn src {}
  | _, _ => s

/-- `Region.move_blocks_before`: all of `src` is put before the member `target` of `dst`. -/
def spliceAllBefore (s : L) (src dst target : Nat) : L :=
  match (s.en src).first, (s.en src).last with
  | some f, some l =>
    let members := s.toList src
    let s := match (s.nd target).prev with
      | none => s.setFirst dst (some f)
      | some p => (s.setNext p (some f)).setPrev f (some p)
    let s := s.setParents members (some dst)
    let s := (s.setNext l (some target)).setPrev target (some l)
    s.setEn src {}
  | _, _ => s

end L
end Xdsl.DLL
