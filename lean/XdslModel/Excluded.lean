import XdslModel.RegAlloc
/-!
C19 — which registers are reserved in a function: `RegisterAllocatableOperation.all_excluded_registers`.

```python
return {reg for op in region.walk()
            if isinstance(op, RegisterAllocatableOperation)
            for reg in op.iter_excluded_registers()}
```

`region.walk()` visits every operation of the region and, recursively, of the regions nested in it.
An operation is modelled by the registers it declares (`iter_excluded_registers`; `[]` for operations
that are not register-allocatable or declare nothing) and the operations nested in it (the operations
of all blocks of all of its regions, in walk order).
-/
namespace Xdsl.RegAlloc
open Xdsl.RegMachine

inductive XOp where
  | mk (excl : List Reg) (kids : List XOp)
deriving Repr

def XOp.excl : XOp → List Reg
  | .mk e _ => e

def XOp.kids : XOp → List XOp
  | .mk _ k => k

mutual
  /-- `Operation.walk()`: the operation, then the operations nested in it -/
  def walkOp : XOp → List XOp
    | .mk e kids => .mk e kids :: walkOps kids
  /-- `Region.walk()` / the walk over a list of operations -/
  def walkOps : List XOp → List XOp
    | [] => []
    | o :: os => walkOp o ++ walkOps os
end

/-- `Within o x`: `x` is `o` itself or an operation nested in `o` at any depth -/
inductive Within : XOp → XOp → Prop
  | self (o : XOp) : Within o o
  | kid {o k x : XOp} : k ∈ o.kids → Within k x → Within o x

/-- insertion into a strictly increasing list (the result is a set: Python builds a `set`) -/
def insertReg (r : Reg) : List Reg → List Reg
  | [] => [r]
  | x :: xs => if r < x then r :: x :: xs else if r = x then x :: xs else x :: insertReg r xs

/-- `all_excluded_registers(region)` as a sorted duplicate-free list -/
def allExcluded (ops : List XOp) : List Reg :=
  ((walkOps ops).flatMap XOp.excl).foldr insertReg []

/-- what a traversal of the operations directly in the region's blocks would collect -/
def shallowExcluded (ops : List XOp) : List Reg :=
  (ops.flatMap XOp.excl).foldr insertReg []

/-! Line protocol of driver model `excluded_walk`: `walk <op>*` with `<op> = ( <reg>* <op>* )`;
answer `excl r ..` (sorted). -/

/-- parse a sequence of operations up to the closing parenthesis of the enclosing one (or the end of
the input); `fuel` bounds the recursion (the number of tokens suffices) -/
def parseXOps : Nat → List String → Option (List XOp × List String)
  | 0, _ => none
  | _ + 1, [] => some ([], [])
  | _ + 1, ")" :: rest => some ([], ")" :: rest)
  | fuel + 1, "(" :: rest =>
    let regs := rest.takeWhile fun w => w != "(" && w != ")"
    let rest := rest.dropWhile fun w => w != "(" && w != ")"
    match nats regs, parseXOps fuel rest with
    | some rs, some (kids, ")" :: rest') =>
      match parseXOps fuel rest' with
      | some (sibs, rest'') => some (.mk rs kids :: sibs, rest'')
      | none => none
    | _, _ => none
  | _ + 1, _ => none

def walkLineStep (s : Unit) (line : String) : Unit × String :=
  match words line with
  | "walk" :: r =>
    match parseXOps (r.length + 1) r with
    | some (ops, []) => (s, " ".intercalate ("excl" :: (allExcluded ops).map toString))
    | _ => (s, "bad-op")
  | _ => (s, "bad-op")

end Xdsl.RegAlloc
