import XdslModel.Prelude
/-!
Model of the IRDL attribute constraints of `xdsl/irdl/constraints.py`, of the generic-hint part of
`irdl_to_attr_constraint` (`xdsl/irdl/attributes.py`) and of `isa` (`xdsl/utils/hints.py`) — C09.

* Classes are numbers; the class table (`Univ`) is sent by the harness (`class …` lines) and records
  for each class: runtime-final?, subclass of `ParametrizedAttribute`?, number of declared
  parameters, and the ids of all its proper superclasses.
* Attributes: `param cls params` (a `ParametrizedAttribute`), `data cls payload` (a `Data` whose
  payload is opaque: the harness numbers payloads injectively per class), `arr cls elems`
  (`ArrayAttr`, a `Data` whose payload is a tuple of attributes).
* `verify` returns `none` for `VerifyException` and `some ctx'` (the updated variable assignment)
  otherwise.  `AllOf.verify` in Python keeps going after a failed conjunct only to collect
  messages; the outcome is a failure either way, which is what `none` models.
* `AnyOf.__init__` (`checkAnyOf`) and `AnyOf.get`/`relax_constraint`/`__or__` (`anyOfGet`, `relax`,
  `orC`; mutually recursive, hence fuelled) follow the Python statement by statement.
-/
namespace Xdsl.Constraint

/-! ## attributes -/

inductive Attr where
  | param (cls : Nat) (ps : List Attr)
  | data (cls : Nat) (payload : Nat)
  | arr (cls : Nat) (elems : List Attr)
  deriving Repr, Inhabited

def Attr.cls : Attr → Nat
  | .param c _ => c
  | .data c _ => c
  | .arr c _ => c

mutual
/-- Python `==` on attributes (frozen dataclasses: same class and equal fields). -/
def Attr.beq : Attr → Attr → Bool
  | .param c ps, .param c' ps' => c == c' && Attr.beqL ps ps'
  | .data c p, .data c' p' => c == c' && p == p'
  | .arr c ps, .arr c' ps' => c == c' && Attr.beqL ps ps'
  | _, _ => false
def Attr.beqL : List Attr → List Attr → Bool
  | [], [] => true
  | a :: as, b :: bs => Attr.beq a b && Attr.beqL as bs
  | _, _ => false
end

def memA (a : Attr) (vs : List Attr) : Bool := vs.any (fun v => a.beq v)

/-- `frozenset(values)` as a duplicate-free list (first occurrences kept). -/
def dedupA : List Attr → List Attr
  | [] => []
  | a :: as => a :: (dedupA as).filter (fun b => !(b.beq a))

/-! ## class table -/

structure Cls where
  final : Bool
  isParam : Bool
  nparams : Nat
  supers : List Nat
  deriving Repr, Inhabited

abbrev Univ := List Cls

/-- `issubclass(c, d)` -/
def isSub (U : Univ) (c d : Nat) : Bool :=
  c == d || (match U[c]? with | some i => i.supers.contains d | none => false)

/-- `is_runtime_final(c)` -/
def isFinal (U : Univ) (c : Nat) : Bool :=
  match U[c]? with | some i => i.final | none => false

def isParamCls (U : Univ) (c : Nat) : Bool :=
  match U[c]? with | some i => i.isParam | none => false

def nParams (U : Univ) (c : Nat) : Nat :=
  match U[c]? with | some i => i.nparams | none => 0

/-! ## constraints -/

inductive C where
  | any                                   -- AnyAttr
  | eq (a : Attr)                         -- EqAttrConstraint
  | set (vs : List Attr)                  -- AttrSetConstraint (duplicate-free list)
  | base (cls : Nat)                      -- BaseAttr
  | anyOf (cs : List C)                   -- AnyOf
  | allOf (cs : List C)                   -- AllOf
  | param (cls : Nat) (ps : List C)       -- ParamAttrConstraint
  | var (n : Nat) (c : C)                 -- VarConstraint
  | msg (m : Nat) (c : C)                 -- MessageConstraint
  | tvar (i : Nat) (bound : C)            -- TypeVarConstraint
  | arrayOf (cls : Nat) (c : C)           -- builtin.ArrayOfConstraint(RangeOf(c)); cls = ArrayAttr
  deriving Repr, Inhabited

/-- `ConstraintContext._variables` -/
abbrev Ctx := AL Nat Attr

/-! ### `get_bases` -/

def interL (a b : List Nat) : List Nat := a.filter (fun x => b.contains x)

mutual
def bases (U : Univ) : C → Option (List Nat)
  | .any => none
  | .eq a => some [a.cls]
  | .set vs => some (vs.map Attr.cls)
  | .base d => if isFinal U d then some [d] else none
  | .anyOf cs => basesUnion U cs
  | .allOf cs => basesInter U cs
  | .param d _ => if isFinal U d then some [d] else none
  | .var _ c => bases U c
  | .msg _ c => bases U c
  | .tvar _ b => bases U b
  | .arrayOf k _ => some [k]
def basesUnion (U : Univ) : List C → Option (List Nat)
  | [] => some []
  | c :: cs =>
    match bases U c with
    | none => none
    | some b => match basesUnion U cs with
      | none => none
      | some bs => some (b ++ bs)
def basesInter (U : Univ) : List C → Option (List Nat)
  | [] => none
  | c :: cs =>
    match bases U c, basesInter U cs with
    | none, r => r
    | some b, none => some b
    | some b, some bs => some (interL b bs)
end

def hasBase (U : Univ) (c : C) (cls : Nat) : Bool :=
  match bases U c with | some b => b.contains cls | none => false

/-! ### `AnyOf.__init__` -/

/-- the loop of `AnyOf.__init__`: `none` = `PyRDLError`, otherwise the keys of `_based_constrs`
and the class of `_abstr_constr`. -/
def checkLoop (U : Univ) : List C → List Nat → Option Nat → Option (List Nat × Option Nat)
  | [], based, abstr => some (based, abstr)
  | c :: cs, based, abstr =>
    match bases U c with
    | none =>
      if abstr.isSome then none
      else match c with
        | .base d => if isFinal U d then none else checkLoop U cs based (some d)
        | _ => none
    | some b =>
      if b.any (fun x => based.contains x) then none
      else checkLoop U cs (based ++ b) abstr

/-- `AnyOf(attr_constrs)` constructs without `PyRDLError`. -/
def checkAnyOf (U : Univ) (cs : List C) : Bool :=
  match checkLoop U cs [] none with
  | none => false
  | some (based, some d) => !(based.any (fun b => isSub U b d))
  | some (_, none) => true

/-- index of the entry `_based_constrs[cls]` (a later alternative overwrites an earlier one) -/
def lastBased (U : Univ) : List C → Nat → Option Nat
  | [], _ => none
  | c :: cs, cls =>
    match lastBased U cs cls with
    | some k => some (k + 1)
    | none => if hasBase U c cls then some 0 else none

/-- index of `_abstr_constr` -/
def firstAbstract (U : Univ) : List C → Option Nat
  | [] => none
  | c :: cs =>
    match bases U c with
    | none => some 0
    | some _ => (firstAbstract U cs).map (· + 1)

/-- the alternative `AnyOf.verify` dispatches to for an attribute of exact class `cls` -/
def selectIdx (U : Univ) (cs : List C) (cls : Nat) : Option Nat :=
  match lastBased U cs cls with
  | some k => some k
  | none => firstAbstract U cs

/-! ### `verify` -/

mutual
def verify (U : Univ) : C → Attr → Ctx → Option Ctx
  | .any, _, ctx => some ctx
  | .eq b, a, ctx => if a.beq b then some ctx else none
  | .set vs, a, ctx => if memA a vs then some ctx else none
  | .base d, a, ctx => if isSub U a.cls d then some ctx else none
  | .anyOf cs, a, ctx =>
    match selectIdx U cs a.cls with
    | some k => verifyNth U cs k a ctx
    | none => none
  | .allOf cs, a, ctx => verifyAll U cs a ctx
  | .param d ps, a, ctx =>
    if isSub U a.cls d then
      match a with
      | .param _ as => verifyZip U ps as ctx
      | _ => none
    else none
  | .var n c, a, ctx =>
    match AL.get ctx n with
    | some v => if a.beq v then some ctx else none
    | none =>
      match verify U c a ctx with
      | some ctx' => some (AL.set ctx' n a)
      | none => none
  | .msg _ c, a, ctx => verify U c a ctx
  | .tvar _ b, a, ctx => verify U b a ctx
  | .arrayOf k c, a, ctx =>
    if isSub U a.cls k then
      match a with
      | .arr _ es => es.foldl (fun r e => match r with | some x => verify U c e x | none => none) (some ctx)
      | _ => none
    else none
def verifyNth (U : Univ) : List C → Nat → Attr → Ctx → Option Ctx
  | [], _, _, _ => none
  | c :: _, 0, a, ctx => verify U c a ctx
  | _ :: cs, k + 1, a, ctx => verifyNth U cs k a ctx
def verifyAll (U : Univ) : List C → Attr → Ctx → Option Ctx
  | [], _, ctx => some ctx
  | c :: cs, a, ctx =>
    match verify U c a ctx with
    | some ctx' => verifyAll U cs a ctx'
    | none => none
/-- `len(param_constrs) != len(parameters)` → failure (here: when one list runs out first; a
failure either way), else parameter by parameter -/
def verifyZip (U : Univ) : List C → List Attr → Ctx → Option Ctx
  | [], [], ctx => some ctx
  | c :: cs, a :: as, ctx =>
    match verify U c a ctx with
    | some ctx' => verifyZip U cs as ctx'
    | none => none
  | _, _, _ => none
end

/-- `constraint.verifies(attr)` -/
def accepts (U : Univ) (c : C) (a : Attr) : Bool := (verify U c a []).isSome

/-! ### `can_infer` / `infer` -/

mutual
def canInfer (U : Univ) (vars : List Nat) : C → Bool
  | .eq _ => true
  | .base d => isFinal U d && isParamCls U d && nParams U d == 0
  | .var n c => vars.contains n || canInfer U vars c
  | .allOf cs => canInferAny U vars cs
  | .param d ps => isFinal U d && canInferAll U vars ps
  | .msg _ c => canInfer U vars c
  | .any | .set _ | .anyOf _ | .tvar _ _ | .arrayOf _ _ => false
def canInferAny (U : Univ) (vars : List Nat) : List C → Bool
  | [] => false
  | c :: cs => canInfer U vars c || canInferAny U vars cs
def canInferAll (U : Univ) (vars : List Nat) : List C → Bool
  | [] => true
  | c :: cs => canInfer U vars c && canInferAll U vars cs
end

def ctxVars (ctx : Ctx) : List Nat := ctx.map (·.1)

mutual
/-- `none` = the Python raises (`ValueError`, failed assert, arity mismatch in `new`) -/
def infer (U : Univ) : C → Ctx → Option Attr
  | .eq a, _ => some a
  | .base d, _ => if isParamCls U d && nParams U d == 0 then some (.param d []) else none
  | .var n c, ctx =>
    match AL.get ctx n with
    | some v => some v
    | none => infer U c ctx
  | .allOf cs, ctx => inferFirst U cs ctx
  | .param d ps, ctx =>
    match inferAll U ps ctx with
    | some as => if as.length = nParams U d then some (.param d as) else none
    | none => none
  | .msg _ c, ctx => infer U c ctx
  | .any, _ | .set _, _ | .anyOf _, _ | .tvar _ _, _ | .arrayOf _ _, _ => none
def inferFirst (U : Univ) : List C → Ctx → Option Attr
  | [], _ => none
  | c :: cs, ctx => if canInfer U (ctxVars ctx) c then infer U c ctx else inferFirst U cs ctx
def inferAll (U : Univ) : List C → Ctx → Option (List Attr)
  | [], _ => some []
  | c :: cs, ctx =>
    match infer U c ctx with
    | some a => (match inferAll U cs ctx with | some as => some (a :: as) | none => none)
    | none => none
end

/-! ### constraint `==`, `AttrSetConstraint.get`, `relax_constraint`, `__or__`, `AnyOf.get` -/

def subsetA (a b : List Attr) : Bool := a.all (fun x => memA x b)

mutual
/-- Python `==` on constraints (dataclass equality; `frozenset` compares as a set). -/
def ceq : C → C → Bool
  | .any, .any => true
  | .eq a, .eq b => a.beq b
  | .set vs, .set ws => subsetA vs ws && subsetA ws vs
  | .base c, .base d => c == d
  | .anyOf cs, .anyOf ds => ceqL cs ds
  | .allOf cs, .allOf ds => ceqL cs ds
  | .param c ps, .param d qs => c == d && ceqL ps qs
  | .var n c, .var m d => n == m && ceq c d
  | .msg n c, .msg m d => n == m && ceq c d
  | .tvar n c, .tvar m d => n == m && ceq c d
  | .arrayOf k c, .arrayOf l d => k == l && ceq c d
  | _, _ => false
def ceqL : List C → List C → Bool
  | [], [] => true
  | c :: cs, d :: ds => ceq c d && ceqL cs ds
  | _, _ => false
end

/-- `AttrSetConstraint.get(*values)` -/
def setGet (values : List Attr) : C :=
  match dedupA values with
  | [v] => .eq v
  | d => .set d

def isAny : C → Bool
  | .any => true
  | _ => false

/-- replace element `k` -/
def setNth : List C → Nat → C → List C
  | [], _, _ => []
  | _ :: cs, 0, v => v :: cs
  | c :: cs, k + 1, v => c :: setNth cs k v

/-- `AnyOf(tuple(constrs))` after the loop of `AnyOf.get` -/
def finishGet (U : Univ) (constrs : List C) : Except String C :=
  match constrs with
  | [c] => .ok c
  | cs => if checkAnyOf U cs then .ok (.anyOf cs) else .error "PyRDLError"

mutual
/-- `x.relax_constraint(y)`; errors are Python exceptions escaping from it -/
def relax (U : Univ) : Nat → C → C → Except String (Option C)
  | 0, _, _ => .error "fuel"
  | f + 1, x, y =>
    match x with
    | .eq a =>
      (match y with
       | .set ws => .ok (some (setGet (a :: ws)))
       | .eq b => .ok (some (setGet [a, b]))
       | _ => .ok none)
    | .set vs =>
      (match y with
       | .set ws => .ok (some (setGet (vs ++ ws)))
       | .eq b => .ok (some (setGet (vs ++ [b])))
       | _ => .ok none)
    | .base d =>
      (match y with
       | .base e => .ok (if d == e then some x else none)
       | _ => relax U f y x)
    | .param d ps =>
      (match y with
       | .base e => .ok (if d == e then some y else none)
       | .param e qs =>
         if d == e then
           match relaxParams U f ps qs false with
           | .ok (some ps') => .ok (some (.param d ps'))
           | .ok none => .ok none
           | .error e => .error e
         else .ok none
       | _ => .ok none)
    | _ => .ok (if ceq x y then some x else none)
/-- the `zip(..., strict=True)` loop of `ParamAttrConstraint.relax_constraint` -/
def relaxParams (U : Univ) : Nat → List C → List C → Bool → Except String (Option (List C))
  | 0, _, _, _ => .error "fuel"
  | _ + 1, [], [], _ => .ok (some [])
  | f + 1, x :: xs, y :: ys, seen =>
    if ceq x y then
      match relaxParams U f xs ys seen with
      | .ok (some r) => .ok (some (x :: r))
      | .ok none => .ok none
      | .error e => .error e
    else if seen then .ok none
    else
      match orC U f x y with
      | .ok xy =>
        (match relaxParams U f xs ys true with
         | .ok (some r) => .ok (some (xy :: r))
         | .ok none => .ok none
         | .error e => .error e)
      | .error e => .error e
  | _ + 1, _, _, _ => .error "ValueError"
/-- `x | y` -/
def orC (U : Univ) : Nat → C → C → Except String C
  | 0, _, _ => .error "fuel"
  | f + 1, x, y => if isAny y || ceq x y then .ok y else getLoop U f [] [x, y]
/-- the inner `for k, c2 in enumerate(constrs[:i])` loop: `some (k, v)` on the first success -/
def tryMerge (U : Univ) : Nat → List C → C → Except String (Option (Nat × C))
  | 0, _, _ => .error "fuel"
  | _ + 1, [], _ => .ok none
  | f + 1, c2 :: rest, c =>
    match relax U f c2 c with
    | .ok (some v) => .ok (some (0, v))
    | .ok none =>
      (match tryMerge U f rest c with
       | .ok (some (k, v)) => .ok (some (k + 1, v))
       | .ok none => .ok none
       | .error e => .error e)
    | .error e => .error e
/-- the `while i < len(constrs)` loop of `AnyOf.get`: `done = constrs[:i]`, `todo = constrs[i:]` -/
def getLoop (U : Univ) : Nat → List C → List C → Except String C
  | 0, _, _ => .error "fuel"
  | _ + 1, done, [] => finishGet U done
  | f + 1, done, c :: rest =>
    match c with
    | .any => .ok .any
    | .anyOf cs => getLoop U f done (cs ++ rest)
    | _ =>
      match tryMerge U f done c with
      | .ok (some (k, v)) => getLoop U f (setNth done k v) rest
      | .ok none => getLoop U f (done ++ [c]) rest
      | .error e => .error e
end

def defaultFuel : Nat := 100000

/-- `AnyOf.get(*cs)` -/
def anyOfGet (U : Univ) (cs : List C) : Except String C := getLoop U defaultFuel [] cs

/-! ### type hints: `mapping_type_vars`, `ParamAttrConstraint.get`, `irdl_to_attr_constraint`, `isa` -/

def isEq : C → Option Attr
  | .eq a => some a
  | _ => none

/-- `ParamAttrConstraint.get(base, *constrs)` -/
def paramGet (U : Univ) (d : Nat) (cs : List C) : C :=
  if isFinal U d && cs.all (fun c => (isEq c).isSome) then .eq (.param d (cs.filterMap isEq))
  else if cs.all isAny then .base d
  else .param d cs

mutual
/-- `c.mapping_type_vars(m)` -/
def mapTV (U : Univ) (m : AL Nat C) : C → Except String C
  | .any => .ok .any
  | .eq a => .ok (.eq a)
  | .set vs => .ok (.set vs)
  | .base d => .ok (.base d)
  | .anyOf cs => match mapTVL U m cs with | .ok cs' => anyOfGet U cs' | .error e => .error e
  | .allOf cs => match mapTVL U m cs with | .ok cs' => .ok (.allOf cs') | .error e => .error e
  | .param d ps => match mapTVL U m ps with | .ok ps' => .ok (paramGet U d ps') | .error e => .error e
  | .var n c => match mapTV U m c with | .ok c' => .ok (.var n c') | .error e => .error e
  | .msg k c => match mapTV U m c with | .ok c' => .ok (.msg k c') | .error e => .error e
  | .tvar i _ => match AL.get m i with | some c => .ok c | none => .error "KeyError"
  | .arrayOf k c => match mapTV U m c with | .ok c' => .ok (.arrayOf k c') | .error e => .error e
def mapTVL (U : Univ) (m : AL Nat C) : List C → Except String (List C)
  | [] => .ok []
  | c :: cs =>
    match mapTV U m c with
    | .ok c' => (match mapTVL U m cs with | .ok cs' => .ok (c' :: cs') | .error e => .error e)
    | .error e => .error e
end

/-- the type-hint fragment: a class, a union, a generic attribute class applied to hints,
`Annotated[h, …]`.  `generic` carries the class's own constraint with its type variables
(`origin.constr()` resp. `ParamAttrConstraint(origin, declared parameter constraints)`), sent by
the harness, and the numbers of the class's type variables in order. -/
inductive Hint where
  | cls (c : Nat) (isRoot : Bool)            -- isRoot: the class is `Attribute` itself
  | union (hs : List Hint)
  | generic (template : C) (tvars : List Nat) (args : List Hint)
  | annotated (hs : List Hint)
  deriving Repr, Inhabited

def zipTV : List Nat → List C → AL Nat C
  | n :: ns, c :: cs => (n, c) :: zipTV ns cs
  | _, _ => []

mutual
/-- `irdl_to_attr_constraint(hint)` -/
def convHint (U : Univ) : Hint → Except String C
  | .cls c root => .ok (if root then .any else .base c)
  | .union hs => match convHints U hs with | .ok cs => anyOfGet U cs | .error e => .error e
  | .generic t tvs args =>
    match convHints U args with
    | .ok cs => if cs.length = tvs.length then mapTV U (zipTV tvs cs) t else .error "PyRDLTypeError"
    | .error e => .error e
  | .annotated hs =>
    match convHints U hs with
    | .ok [] => .ok .any
    | .ok [c] => .ok c
    | .ok cs => .ok (.allOf cs)
    | .error e => .error e
def convHints (U : Univ) : List Hint → Except String (List C)
  | [] => .ok []
  | h :: hs =>
    match convHint U h with
    | .ok c => (match convHints U hs with | .ok cs => .ok (c :: cs) | .error e => .error e)
    | .error e => .error e
end

mutual
/-- `isa(attr, hint)`; `error` = the Python raises -/
def isaHint (U : Univ) : Hint → Attr → Except String Bool
  | .cls c _, a => .ok (isSub U a.cls c)
  | .union hs, a => isaAny U hs a
  | .generic t tvs args, a =>
    match convHint U (.generic t tvs args) with
    | .ok c => .ok (accepts U c a)
    | .error e => .error e
  | .annotated _, _ => .error "ValueError"
def isaAny (U : Univ) : List Hint → Attr → Except String Bool
  | [], _ => .ok false
  | h :: hs, a =>
    match isaHint U h a with
    | .ok true => .ok true
    | .ok false => isaAny U hs a
    | .error e => .error e
end

/-! ## line protocol -/

mutual
def serA : Attr → String
  | .param c ps => s!"P {c} {ps.length}" ++ serAL ps
  | .data c p => s!"D {c} {p}"
  | .arr c ps => s!"A {c} {ps.length}" ++ serAL ps
def serAL : List Attr → String
  | [] => ""
  | a :: as => " " ++ serA a ++ serAL as
end

def sortStrs (l : List String) : List String := l.mergeSort (fun a b => decide (a ≤ b))

def joinSp : List String → String
  | [] => ""
  | s :: ss => " " ++ s ++ joinSp ss

mutual
def serC : C → String
  | .any => "any"
  | .eq a => "eq " ++ serA a
  | .set vs => s!"set {vs.length}" ++ joinSp (sortStrs (vs.map serA))
  | .base d => s!"base {d}"
  | .anyOf cs => s!"anyOf {cs.length}" ++ serCL cs
  | .allOf cs => s!"allOf {cs.length}" ++ serCL cs
  | .param d ps => s!"param {d} {ps.length}" ++ serCL ps
  | .var n c => s!"var {n} " ++ serC c
  | .msg n c => s!"msg {n} " ++ serC c
  | .tvar n c => s!"tvar {n} " ++ serC c
  | .arrayOf k c => s!"arrayOf {k} " ++ serC c
def serCL : List C → String
  | [] => ""
  | c :: cs => " " ++ serC c ++ serCL cs
end

abbrev P (α : Type) := List String → Option (α × List String)

def pNat : P Nat
  | t :: rest => t.toNat?.map (·, rest)
  | [] => none

mutual
def pAttr : Nat → P Attr
  | 0, _ => none
  | f + 1, "P" :: c :: n :: rest => do
    let c ← c.toNat?; let n ← n.toNat?
    let (ps, rest) ← pAttrs f n rest
    pure (.param c ps, rest)
  | f + 1, "A" :: c :: n :: rest => do
    let c ← c.toNat?; let n ← n.toNat?
    let (ps, rest) ← pAttrs f n rest
    pure (.arr c ps, rest)
  | _ + 1, "D" :: c :: p :: rest => do
    let c ← c.toNat?; let p ← p.toNat?
    pure (.data c p, rest)
  | _ + 1, _ => none
def pAttrs : Nat → Nat → P (List Attr)
  | 0, _, _ => none
  | _ + 1, 0, rest => some ([], rest)
  | f + 1, n + 1, rest => do
    let (a, rest) ← pAttr f rest
    let (as, rest) ← pAttrs f n rest
    pure (a :: as, rest)
end

mutual
def pC : Nat → P C
  | 0, _ => none
  | _ + 1, "any" :: rest => some (.any, rest)
  | f + 1, "eq" :: rest => do
    let (a, rest) ← pAttr f rest
    pure (.eq a, rest)
  | f + 1, "set" :: n :: rest => do
    let n ← n.toNat?
    let (vs, rest) ← pAttrs f n rest
    pure (.set vs, rest)
  | _ + 1, "base" :: d :: rest => do
    let d ← d.toNat?
    pure (.base d, rest)
  | f + 1, "anyOf" :: n :: rest => do
    let n ← n.toNat?
    let (cs, rest) ← pCs f n rest
    pure (.anyOf cs, rest)
  | f + 1, "allOf" :: n :: rest => do
    let n ← n.toNat?
    let (cs, rest) ← pCs f n rest
    pure (.allOf cs, rest)
  | f + 1, "param" :: d :: n :: rest => do
    let d ← d.toNat?; let n ← n.toNat?
    let (cs, rest) ← pCs f n rest
    pure (.param d cs, rest)
  | f + 1, "var" :: n :: rest => do
    let n ← n.toNat?
    let (c, rest) ← pC f rest
    pure (.var n c, rest)
  | f + 1, "msg" :: n :: rest => do
    let n ← n.toNat?
    let (c, rest) ← pC f rest
    pure (.msg n c, rest)
  | f + 1, "tvar" :: n :: rest => do
    let n ← n.toNat?
    let (c, rest) ← pC f rest
    pure (.tvar n c, rest)
  | f + 1, "arrayOf" :: n :: rest => do
    let n ← n.toNat?
    let (c, rest) ← pC f rest
    pure (.arrayOf n c, rest)
  | _ + 1, _ => none
def pCs : Nat → Nat → P (List C)
  | 0, _, _ => none
  | _ + 1, 0, rest => some ([], rest)
  | f + 1, n + 1, rest => do
    let (c, rest) ← pC f rest
    let (cs, rest) ← pCs f n rest
    pure (c :: cs, rest)
end

def pNats : Nat → Nat → P (List Nat)
  | 0, _, _ => none
  | _ + 1, 0, rest => some ([], rest)
  | f + 1, n + 1, rest => do
    let (x, rest) ← pNat rest
    let (xs, rest) ← pNats f n rest
    pure (x :: xs, rest)

mutual
def pHint : Nat → P Hint
  | 0, _ => none
  | _ + 1, "cls" :: c :: r :: rest => do
    let c ← c.toNat?; let r ← r.toNat?
    pure (.cls c (r != 0), rest)
  | f + 1, "union" :: n :: rest => do
    let n ← n.toNat?
    let (hs, rest) ← pHints f n rest
    pure (.union hs, rest)
  | f + 1, "annotated" :: n :: rest => do
    let n ← n.toNat?
    let (hs, rest) ← pHints f n rest
    pure (.annotated hs, rest)
  | f + 1, "generic" :: rest => do
    let (t, rest) ← pC f rest
    let (k, rest) ← pNat rest
    let (tvs, rest) ← pNats f k rest
    let (n, rest) ← pNat rest
    let (hs, rest) ← pHints f n rest
    pure (.generic t tvs hs, rest)
  | _ + 1, _ => none
def pHints : Nat → Nat → P (List Hint)
  | 0, _, _ => none
  | _ + 1, 0, rest => some ([], rest)
  | f + 1, n + 1, rest => do
    let (h, rest) ← pHint f rest
    let (hs, rest) ← pHints f n rest
    pure (h :: hs, rest)
end

/-- `k n1 a1 … nk ak` -/
def pCtx : Nat → Nat → P Ctx
  | 0, _, _ => none
  | _ + 1, 0, rest => some ([], rest)
  | f + 1, n + 1, rest => do
    let (k, rest) ← pNat rest
    let (a, rest) ← pAttr f rest
    let (m, rest) ← pCtx f n rest
    pure ((k, a) :: m, rest)

def showCtx (ctx : Ctx) : String :=
  let l := ctx.mergeSort (fun a b => decide (a.1 ≤ b.1))
  l.foldl (fun s (kv : Nat × Attr) => s ++ s!" {kv.1} " ++ serA kv.2) ""

def showNats (l : List Nat) : String :=
  let l := (l.mergeSort (fun a b => decide (a ≤ b))).eraseDups
  l.foldl (fun s n => s ++ s!" {n}") ""

def showExceptC : Except String C → String
  | .ok c => "ok " ++ serC c
  | .error e => "raise " ++ e

/-- protocol; the state is the class table -/
def lineStep (U : Univ) (line : String) : Univ × String :=
  let toks := words line
  let f := toks.length + 1
  match toks with
  | ["reset"] => ([], "ok")
  | "class" :: id :: fin :: isp :: np :: sup =>
    (match id.toNat?, fin.toNat?, isp.toNat?, np.toNat?, sup.mapM String.toNat? with
     | some id, some fin, some isp, some np, some sup =>
       if id = U.length then (U ++ [{ final := fin != 0, isParam := isp != 0, nparams := np, supers := sup }], "ok")
       else (U, "bad-op")
     | _, _, _, _, _ => (U, "bad-op"))
  | "verify" :: n :: rest =>
    (match (do
        let n ← n.toNat?
        let (ctx, rest) ← pCtx f n rest
        let (c, rest) ← pC f rest
        let (a, rest) ← pAttr f rest
        if rest.isEmpty then pure (ctx, c, a) else none) with
     | some (ctx, c, a) =>
       (U, match verify U c a ctx with | some ctx' => "ok" ++ showCtx ctx' | none => "fail")
     | none => (U, "bad-op"))
  | "bases" :: rest =>
    (match pC f rest with
     | some (c, []) => (U, match bases U c with | some b => "some" ++ showNats b | none => "none")
     | _ => (U, "bad-op"))
  | "mk" :: n :: rest =>
    (match (do let n ← n.toNat?; pCs f n rest) with
     | some (cs, []) => (U, if checkAnyOf U cs then "ok" else "raise PyRDLError")
     | _ => (U, "bad-op"))
  | "get" :: n :: rest =>
    (match (do let n ← n.toNat?; pCs f n rest) with
     | some (cs, []) => (U, showExceptC (anyOfGet U cs))
     | _ => (U, "bad-op"))
  | "pget" :: d :: n :: rest =>
    (match (do let d ← d.toNat?; let n ← n.toNat?; let (cs, rest) ← pCs f n rest; if rest.isEmpty then pure (d, cs) else none) with
     | some (d, cs) => (U, "ok " ++ serC (paramGet U d cs))
     | none => (U, "bad-op"))
  | "or" :: rest =>
    (match (do let (x, rest) ← pC f rest; let (y, rest) ← pC f rest; if rest.isEmpty then pure (x, y) else none) with
     | some (x, y) => (U, showExceptC (orC U defaultFuel x y))
     | none => (U, "bad-op"))
  | "caninfer" :: n :: rest =>
    (match (do
        let n ← n.toNat?
        let (vs, rest) ← pNats f n rest
        let (c, rest) ← pC f rest
        if rest.isEmpty then pure (vs, c) else none) with
     | some (vs, c) => (U, showBool (canInfer U vs c))
     | none => (U, "bad-op"))
  | "infer" :: n :: rest =>
    (match (do
        let n ← n.toNat?
        let (ctx, rest) ← pCtx f n rest
        let (c, rest) ← pC f rest
        if rest.isEmpty then pure (ctx, c) else none) with
     | some (ctx, c) => (U, match infer U c ctx with | some a => "attr " ++ serA a | none => "raise")
     | none => (U, "bad-op"))
  | "conv" :: rest =>
    (match pHint f rest with
     | some (h, []) => (U, showExceptC (convHint U h))
     | _ => (U, "bad-op"))
  | "isa" :: rest =>
    (match (do let (h, rest) ← pHint f rest; let (a, rest) ← pAttr f rest; if rest.isEmpty then pure (h, a) else none) with
     | some (h, a) => (U, match isaHint U h a with | .ok b => showBool b | .error e => "raise " ++ e)
     | none => (U, "bad-op"))
  | _ => (U, "bad-op")

end Xdsl.Constraint
