import XdslModel.OpDef
import XdslProofs.C10
import XdslProofs.C10Constraints
import XdslProofs.Lemmas.OpDefVerifyOp
/-!
# C10 — the whole of `OpDef.verify`

"An operation defined with IRDL passes verification exactly when its operand, result, region and
successor lists can be split into the declared segments (…) and every piece, property and
attribute satisfies its constraint with consistent constraint variables."
-/
namespace Xdsl.OpDef

/-- the list of length `n` of one construct splits into the declared segments with sizes `sizes` -/
def Segmented (cd : ConstructDef) (n : Nat) (attr : SizeAttr) (sizes : List Nat) : Prop :=
  Valid cd.kinds cd.opt sizes ∧ sizes.sum = n ∧ Agrees cd.opt attr sizes

/-- the definition was accepted by `irdl_op_definition` -/
def WfOp (d : Def) : Prop :=
  wfDef d.operands.kinds d.operands.opt = true ∧ wfDef d.results.kinds d.results.opt = true ∧
  wfDef d.regions.kinds d.regions.opt = true ∧ wfDef d.successors.kinds d.successors.opt = true

/-- every constraint-carrying piece of the operation, in the order `OpDef.verify` visits them:
operand segments, result segments, entry-block arguments of the regions (segment by segment),
present properties, present attributes -/
def allPieces (d : Def) (o : Inst) (sO sR sG : List Nat) : List (RangeC × List Nat) :=
  piecesFrom sO o.operands d.operands.segs 0 ++ (piecesFrom sR o.results d.results.segs 0 ++
    (regionPiecesFrom sG o.regions d.regions.segs 0 ++
      (dictPieces d.props o.props ++ dictPieces d.attrs o.attrs)))

/-- `irdl_op_verify_regions`, as `verifyArgList_iff` -/
theorem verifyRegions_iff (cd : ConstructDef) (rs : List RegionInst) (attr : SizeAttr) (ctx : Ctx)
    (wf : wfDef cd.kinds cd.opt = true) :
    (∀ ctx', verifyRegions cd rs attr ctx = .ok ctx' ↔
      ∃ sizes, Segmented cd rs.length attr sizes ∧ SingleBlockOk sizes rs cd.segs 0 ∧
        verifyPieces (regionPiecesFrom sizes rs cd.segs 0) ctx = some ctx')
    ∧ ∀ e, verifyRegions cd rs attr ctx = .error e → e = .verify := by
  have hlen : cd.kinds.length = cd.segs.length := by simp [ConstructDef.kinds]
  by_cases hvs : verifySizes cd.kinds cd.opt rs.length attr = true
  · obtain ⟨sizes, hv, hs, ha⟩ := (verify_iff_segmentation cd.kinds cd.opt rs.length attr wf).1 hvs
    have hacc : ∀ j, 0 ≤ j → j < 0 + cd.segs.length →
        accessor cd.kinds cd.opt attr rs j = .ok (segAt sizes rs j) :=
      fun j _ hj => accessor_eq_segment cd.kinds cd.opt attr rs wf sizes hv hs ha j (by omega)
    obtain ⟨l1, l2⟩ := verifyRegionsLoop_iff cd.kinds cd.opt attr rs sizes cd.segs 0 ctx hacc
    simp only [verifyRegions, hvs, Bool.not_true, Bool.false_eq_true, if_false]
    refine ⟨fun ctx' => ?_, l2⟩
    rw [l1 ctx']
    constructor
    · rintro ⟨a, b⟩; exact ⟨sizes, ⟨hv, hs, ha⟩, a, b⟩
    · rintro ⟨sizes', hseg, a, b⟩
      have := segmentation_unique cd.kinds cd.opt rs.length attr wf sizes sizes' ⟨hv, hs, ha⟩ hseg
      subst this
      exact ⟨a, b⟩
  · have hvs' : verifySizes cd.kinds cd.opt rs.length attr = false := by simpa using hvs
    simp only [verifyRegions, hvs', Bool.not_false, if_true]
    constructor
    · intro ctx'
      constructor
      · intro h; cases h
      · rintro ⟨sizes, hseg, -, -⟩
        exact absurd ((verify_iff_segmentation cd.kinds cd.opt rs.length attr wf).2 ⟨sizes, hseg⟩) hvs
    · intro e h
      simp only [Except.error.injEq] at h
      exact h.symm

/-- **`OpDef.verify` passes exactly when** all four lists split into their declared segments,
`single_block` regions have one block, required properties/attributes are present, no undeclared
property is present, and the constraint checks on all pieces succeed in one shared context. -/
theorem verifyOp_iff (d : Def) (o : Inst) (wf : WfOp d) :
    verifyOp d o = .ok () ↔
      ∃ sO sR sG sS,
        Segmented d.operands o.operands.length o.operandAttr sO ∧
        Segmented d.results o.results.length o.resultAttr sR ∧
        Segmented d.regions o.regions.length o.regionAttr sG ∧
        Segmented d.successors o.successors o.succAttr sS ∧
        SingleBlockOk sG o.regions d.regions.segs 0 ∧
        RequiredPresent d.props o.props ∧
        (∀ kv ∈ o.props, ∃ pd ∈ d.props, pd.name = kv.1) ∧
        RequiredPresent d.attrs o.attrs ∧
        ∃ ctx', verifyPieces (allPieces d o sO sR sG) {} = some ctx' := by
  obtain ⟨wO, wR, wG, wS⟩ := wf
  have hunk : (o.props.any fun kv => !(d.props.any fun pd => pd.name == kv.1)) = false ↔
      ∀ kv ∈ o.props, ∃ pd ∈ d.props, pd.name = kv.1 := by
    rw [← Bool.not_eq_true, List.any_eq_true]
    simp only [Bool.not_eq_eq_eq_not, Bool.not_true, not_exists, not_and,
      Bool.not_eq_false, List.any_eq_true, beq_iff_eq]
  rw [verifyOp_unfold]
  constructor
  · rintro ⟨c1, c2, c3, c4, c5, h1, h2, h3, h4, h5, h6, h7⟩
    obtain ⟨sO, vO, sumO, aO, pO⟩ := ((verifyArgList_iff d.operands o.operands o.operandAttr {} wO).1 c1).1 h1
    obtain ⟨sR, vR, sumR, aR, pR⟩ := ((verifyArgList_iff d.results o.results o.resultAttr c1 wR).1 c2).1 h2
    obtain ⟨sG, segG, sbG, pG⟩ := ((verifyRegions_iff d.regions o.regions o.regionAttr c2 wG).1 c3).1 h3
    obtain ⟨sS, segS⟩ := (verify_iff_segmentation _ _ _ _ wS).1 h4
    obtain ⟨rP, pP⟩ := (verifyDict_iff d.props o.props c3 c4).1 h5
    obtain ⟨rA, pA⟩ := (verifyDict_iff d.attrs o.attrs c4 c5).1 h7
    refine ⟨sO, sR, sG, sS, ⟨vO, sumO, aO⟩, ⟨vR, sumR, aR⟩, segG, segS, sbG, rP, hunk.1 h6, rA, c5, ?_⟩
    simp only [allPieces, verifyPieces_append_some]
    exact ⟨c1, pO, c2, pR, c3, pG, c4, pP, pA⟩
  · rintro ⟨sO, sR, sG, sS, ⟨vO, sumO, aO⟩, ⟨vR, sumR, aR⟩, segG, segS, sbG, rP, hU, rA, c5, hp⟩
    simp only [allPieces, verifyPieces_append_some] at hp
    obtain ⟨c1, pO, c2, pR, c3, pG, c4, pP, pA⟩ := hp
    refine ⟨c1, c2, c3, c4, c5, ?_, ?_, ?_, ?_, ?_, hunk.2 hU, ?_⟩
    · exact ((verifyArgList_iff d.operands o.operands o.operandAttr {} wO).1 c1).2 ⟨sO, vO, sumO, aO, pO⟩
    · exact ((verifyArgList_iff d.results o.results o.resultAttr c1 wR).1 c2).2 ⟨sR, vR, sumR, aR, pR⟩
    · exact ((verifyRegions_iff d.regions o.regions o.regionAttr c2 wG).1 c3).2 ⟨sG, segG, sbG, pG⟩
    · exact (verify_iff_segmentation _ _ _ _ wS).2 ⟨sS, segS⟩
    · exact (verifyDict_iff d.props o.props c3 c4).2 ⟨rP, pP⟩
    · exact (verifyDict_iff d.attrs o.attrs c4 c5).2 ⟨rA, pA⟩

/-- every constraint of the definition declares its variables consistently -/
def DefWF (decl rdecl : Nat → BaseC) (d : Def) : Prop :=
  (∀ sd ∈ d.operands.segs, sd.constr.WF decl rdecl) ∧ (∀ sd ∈ d.results.segs, sd.constr.WF decl rdecl) ∧
  (∀ sd ∈ d.regions.segs, sd.constr.WF decl rdecl) ∧
  (∀ pd ∈ d.props, pd.constr.WF decl) ∧ (∀ ad ∈ d.attrs, ad.constr.WF decl)

theorem mem_piecesFrom (sizes tys : List Nat) : ∀ (rest : List SegDef) (i : Nat) (p : RangeC × List Nat),
    p ∈ piecesFrom sizes tys rest i → ∃ sd ∈ rest, p.1 = sd.constr
  | [], _, p, h => by simp [piecesFrom] at h
  | sd :: r, i, p, h => by
    simp only [piecesFrom, List.mem_cons] at h
    rcases h with rfl | h
    · exact ⟨sd, List.mem_cons_self .., rfl⟩
    · obtain ⟨sd', hm, e⟩ := mem_piecesFrom sizes tys r (i + 1) p h
      exact ⟨sd', List.mem_cons_of_mem _ hm, e⟩

theorem mem_regionPiecesFrom (sizes : List Nat) (rs : List RegionInst) :
    ∀ (rest : List SegDef) (i : Nat) (p : RangeC × List Nat),
    p ∈ regionPiecesFrom sizes rs rest i → ∃ sd ∈ rest, p.1 = sd.constr
  | [], _, p, h => by simp [regionPiecesFrom] at h
  | sd :: r, i, p, h => by
    simp only [regionPiecesFrom, List.mem_append] at h
    rcases h with h | h
    · simp only [entryPieces, List.mem_map] at h
      obtain ⟨x, -, rfl⟩ := h
      exact ⟨sd, List.mem_cons_self .., rfl⟩
    · obtain ⟨sd', hm, e⟩ := mem_regionPiecesFrom sizes rs r (i + 1) p h
      exact ⟨sd', List.mem_cons_of_mem _ hm, e⟩

theorem mem_dictPieces (defs : List AttrDef) (m : AL Nat Nat) (p : RangeC × List Nat)
    (h : p ∈ dictPieces defs m) : ∃ ad ∈ defs, p.1 = .single ad.constr := by
  simp only [dictPieces, List.mem_filterMap, Option.map_eq_some_iff] at h
  obtain ⟨ad, hm, a, -, rfl⟩ := h
  exact ⟨ad, hm, rfl⟩

/-- **the property's first sentence.**  For a definition accepted by `irdl_op_definition` whose
constraint variables are declared consistently, `OpDef.verify` passes exactly when the four lists
split into the declared segments (non-negative sizes matching the kinds, equal for same-size, equal
to the attribute for attribute-sized, summing to the list length), the structural side conditions
hold, and there is ONE assignment of the constraint variables under which every piece, property
and attribute satisfies its constraint. -/
theorem verifyOp_iff_assignment (decl rdecl : Nat → BaseC) (d : Def) (o : Inst) (wf : WfOp d)
    (wfc : DefWF decl rdecl d) :
    verifyOp d o = .ok () ↔
      ∃ sO sR sG sS,
        Segmented d.operands o.operands.length o.operandAttr sO ∧
        Segmented d.results o.results.length o.resultAttr sR ∧
        Segmented d.regions o.regions.length o.regionAttr sG ∧
        Segmented d.successors o.successors o.succAttr sS ∧
        SingleBlockOk sG o.regions d.regions.segs 0 ∧
        RequiredPresent d.props o.props ∧
        (∀ kv ∈ o.props, ∃ pd ∈ d.props, pd.name = kv.1) ∧
        RequiredPresent d.attrs o.attrs ∧
        ∃ σ : Assign, ∀ p ∈ allPieces d o sO sR sG, p.1.Sat σ p.2 := by
  have hwf : ∀ sO sR sG, ∀ p ∈ allPieces d o sO sR sG, p.1.WF decl rdecl := by
    intro sO sR sG p hp
    obtain ⟨w1, w2, w3, w4, w5⟩ := wfc
    simp only [allPieces, List.mem_append] at hp
    rcases hp with h | h | h | h | h
    · obtain ⟨sd, hm, e⟩ := mem_piecesFrom _ _ _ _ p h; rw [e]; exact w1 sd hm
    · obtain ⟨sd, hm, e⟩ := mem_piecesFrom _ _ _ _ p h; rw [e]; exact w2 sd hm
    · obtain ⟨sd, hm, e⟩ := mem_regionPiecesFrom _ _ _ _ p h; rw [e]; exact w3 sd hm
    · obtain ⟨ad, hm, e⟩ := mem_dictPieces _ _ p h; rw [e]; exact w4 ad hm
    · obtain ⟨ad, hm, e⟩ := mem_dictPieces _ _ p h; rw [e]; exact w5 ad hm
  rw [verifyOp_iff d o wf]
  constructor
  · rintro ⟨sO, sR, sG, sS, a1, a2, a3, a4, a5, a6, a7, a8, hp⟩
    exact ⟨sO, sR, sG, sS, a1, a2, a3, a4, a5, a6, a7, a8,
      (verifyPieces_iff_assignment decl rdecl _ (hwf sO sR sG)).1 hp⟩
  · rintro ⟨sO, sR, sG, sS, a1, a2, a3, a4, a5, a6, a7, a8, hp⟩
    exact ⟨sO, sR, sG, sS, a1, a2, a3, a4, a5, a6, a7, a8,
      (verifyPieces_iff_assignment decl rdecl _ (hwf sO sR sG)).2 hp⟩

/-- `OpDef.verify` on an accepted definition never leaves with a Python error from the accessors
(`IndexError`, `ZeroDivisionError` of the unrepaired code): the only failure is `VerifyException`. -/
theorem verifyOp_error_is_verify (d : Def) (o : Inst) (wf : WfOp d) (e : VErr)
    (h : verifyOp d o = .error e) : e = .verify := by
  obtain ⟨wO, wR, wG, wS⟩ := wf
  unfold verifyOp at h
  cases h1 : verifyArgList d.operands o.operands o.operandAttr {} with
  | error e1 =>
    have := (verifyArgList_iff d.operands o.operands o.operandAttr {} wO).2 e1 h1
    simp [h1, bind, Except.bind] at h
    rw [← h, this]
  | ok c1 =>
    cases h2 : verifyArgList d.results o.results o.resultAttr c1 with
    | error e2 =>
      have := (verifyArgList_iff d.results o.results o.resultAttr c1 wR).2 e2 h2
      simp [h1, h2, bind, Except.bind] at h
      rw [← h, this]
    | ok c2 =>
      cases h3 : verifyRegions d.regions o.regions o.regionAttr c2 with
      | error e3 =>
        have := (verifyRegions_iff d.regions o.regions o.regionAttr c2 wG).2 e3 h3
        simp [h1, h2, h3, bind, Except.bind] at h
        rw [← h, this]
      | ok c3 =>
        simp only [h1, h2, h3, bind, Except.bind, throw, throwThe, MonadExceptOf.throw, pure,
          Except.pure] at h
        repeat' split at h
        all_goals first
          | (simp only [Except.error.injEq] at h; exact h.symm)
          | cases h


/-- non-vacuity of `verifyOp_iff_assignment`: one variable `T` (declared `oneOf [1, 2]`) shared by an
operand, a variadic operand, a result and a property; sizes from `operandSegmentSizes`.
Accepted with `T = 1` everywhere; rejected when the property says `2`; rejected when the sizes do
not add up (this one was accepted before the repair). -/
def exDef : Def :=
  { operands := { opt := .attrSized, segs :=
      [{ kind := .single, constr := .single (.var 0 (.oneOf [1, 2])) },
       { kind := .variadic, constr := .rangeOf (.var 0 (.oneOf [1, 2])) }] },
    results := { segs := [{ kind := .single, constr := .single (.var 0 (.oneOf [1, 2])) }] },
    props := [{ name := 0, optional := false, constr := .var 0 (.oneOf [1, 2]) }] }

def tag (r : Except VErr Unit) : Nat :=
  match r with
  | .ok _ => 0
  | .error .verify => 1
  | .error (.py _) => 2

def exInst (sizes : List Int) (prop : Nat) : Inst :=
  { operands := [1, 1, 1]
    operandAttr := .dense true sizes
    results := [1]
    props := [(0, prop)] }

example : tag (verifyOp exDef (exInst [1, 2] 1)) = 0 ∧ tag (verifyOp exDef (exInst [1, 2] 2)) = 1
    ∧ tag (verifyOp exDef (exInst [1, 3] 1)) = 1 := by
  decide

example : WfOp exDef ∧ DefWF (fun _ => .oneOf [1, 2]) (fun _ => .any) exDef := by
  refine ⟨⟨rfl, rfl, rfl, rfl⟩, ?_, ?_, ?_, ?_, ?_⟩ <;> simp [exDef, RangeC.WF, AttrC.WF]

end Xdsl.OpDef
