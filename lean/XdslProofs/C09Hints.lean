import XdslProofs.Lemmas.ConstraintHints
/-!
# C09 — type-hint part

"a constraint derived from a type hint agrees with the runtime type-hint check."

`convHint` models `irdl_to_attr_constraint` on the hint fragment {attribute class, union, generic
attribute class applied to hints, `Annotated`} (with `mapping_type_vars`, `ParamAttrConstraint.get`
and `AnyOf.get`), `isaHint` models `hints.isa` on the same fragment: `isinstance` for a class, `any`
over the members of a union, and — as in the Python — the converted constraint for a generic
attribute class.  `isa` raises for `Annotated` hints, so nothing is claimed for them.
Python's `typing` reflection (flattening/de-duplication of unions, `get_origin/get_args`) is the
harness adapter's job and is not modelled.
-/
namespace Xdsl.Constraint

theorem accepts_base (U : Univ) (d : Nat) (a : Attr) : accepts U (.base d) a = isSub U a.cls d := by
  cases h : isSub U a.cls d <;> simp [accepts, verify, h]

theorem isaAny_spec (U : Univ) (a : Attr) : ∀ (hs : List Hint) (cs : List C), ConvAll U hs cs →
    (∀ h ∈ hs, ∀ c, convHint U h = .ok c → ∀ b, isaHint U h a = .ok b → b = accepts U c a) →
    ∀ b, isaAny U hs a = .ok b → (b = true ↔ ∃ c ∈ cs, accepts U c a = true)
  | [], [], _, _, b, h => by simp only [isaAny] at h; cases h; simp
  | [], _ :: _, hf, _, _, _ => by simp [ConvAll] at hf
  | _ :: _, [], hf, _, _, _ => by simp [ConvAll] at hf
  | h0 :: hs, c0 :: cs, hf, ih, b, h => by
    simp only [ConvAll] at hf
    simp only [isaAny] at h
    cases h1 : isaHint U h0 a with
    | error e => simp [h1] at h
    | ok b0 =>
      have hb0 := ih h0 (List.mem_cons_self ..) c0 hf.1 b0 h1
      cases b0 with
      | true =>
        simp only [h1] at h; cases h
        simp only [true_iff]
        exact ⟨c0, List.mem_cons_self .., hb0.symm⟩
      | false =>
        simp only [h1] at h
        have := isaAny_spec U a hs cs hf.2 (fun h' hh' => ih h' (List.mem_cons_of_mem _ hh')) b h
        rw [this]
        constructor
        · rintro ⟨c, hc, hacc⟩; exact ⟨c, List.mem_cons_of_mem _ hc, hacc⟩
        · rintro ⟨c, hc, hacc⟩
          rcases List.mem_cons.1 hc with e | hc
          · subst e; rw [← hb0] at hacc; cases hacc
          · exact ⟨c, hc, hacc⟩

/-- **`isa(attr, hint)` agrees with `irdl_to_attr_constraint(hint).verifies(attr)`** whenever both
are defined (the conversion does not raise `PyRDLError`, `isa` supports the hint) -/
theorem hint_agrees (U : Univ) (hU : UnivOK U) (a : Attr) : ∀ h, HintOK U h → ∀ c, convHint U h = .ok c →
    ∀ b, isaHint U h a = .ok b → b = accepts U c a := by
  intro h
  induction h using Hint.ind with
  | cls c r =>
    intro hok c' hc b hb
    simp only [convHint] at hc; cases hc
    simp only [isaHint] at hb; cases hb
    simp only [HintOK] at hok
    cases r with
    | true => simp [accepts, verify, hok rfl a.cls]
    | false => simp [accepts_base]
  | union hs ih =>
    intro hok c hc b hb
    simp only [HintOK] at hok
    simp only [convHint] at hc
    simp only [isaHint] at hb
    cases h1 : convHints U hs with
    | error e => simp [h1] at hc
    | ok cs =>
      simp only [h1] at hc
      have hconv := convHints_spec U hs cs h1
      have hoks := (HintOKL_iff U hs).1 hok
      have hgood := convAll_good U hs cs hconv (fun h' _ => convHint_good U h') hoks
      have hspec := isaAny_spec U a hs cs hconv (fun h' hh' => ih h' hh' (hoks h' hh')) b hb
      have hacc := anyOfGet_accepts U hU (fun _ => .any) cs c hc (fun c' hc' => (hgood c' hc').1)
        (fun c' hc' => wellDeclared_of_novars _ c' (hgood c' hc').2) a
      cases b with
      | true => exact (hacc.2 (hspec.1 rfl)).symm
      | false =>
        cases hv : accepts U c a with
        | false => rfl
        | true => exact (hspec.2 (hacc.1 hv))
  | generic t tvs args _ =>
    intro _ c hc b hb
    simp only [isaHint, hc] at hb
    cases hb; rfl
  | annotated hs _ =>
    intro _ c _ b hb
    simp [isaHint] at hb

/-- the constraint obtained from a hint is again what the constructors enforce and has no variables -/
theorem hint_constraint_good (U : Univ) (h : Hint) (hok : HintOK U h) (c : C) (hc : convHint U h = .ok c) :
    WF U c ∧ vars c = [] := convHint_good U h hok c hc

/-! ### non-vacuity: `Pair[Idx | Abstract-free]`-style generic hints -/

/-- template of a generic two-parameter class `1`: first parameter a type variable bounded by
class 0 or class 2, second parameter any attribute -/
def T1 : C := .param 1 [.tvar 0 (.anyOf [.base 0, .base 2]), .any]

example : HintOK U0 (.union [.generic T1 [0] [.cls 0 false], .generic T1 [0] [.cls 2 false]]) := by
  simp only [HintOK, HintOKL, Good, WF, WFL, vars, varsL, T1, and_true]
  refine ⟨⟨⟨?_, rfl⟩, by simp⟩, ⟨?_, rfl⟩, by simp⟩ <;> decide

/-- `G[A] | G[B]` converts (through `relax_constraint`) to `G[A | B]`, and `isa` agrees with it -/
example : mergesTo (convHint U0 (.union [.generic T1 [0] [.cls 0 false], .generic T1 [0] [.cls 2 false]]))
    (.param 1 [.anyOf [.base 0, .base 2], .any]) = true := by decide
def isaIs (r : Except String Bool) (b : Bool) : Bool :=
  match r with | .ok x => x == b | .error _ => false
example : isaIs (isaHint U0 (.union [.generic T1 [0] [.cls 0 false], .generic T1 [0] [.cls 2 false]])
    (.param 1 [.data 2 5, .param 0 []])) true = true := by decide
example : isaIs (isaHint U0 (.union [.generic T1 [0] [.cls 0 false], .generic T1 [0] [.cls 2 false]])
    (.param 1 [.param 1 [], .param 0 []])) false = true := by decide

end Xdsl.Constraint
